(* GridProofs.v — proofs about GridModel.v, part A: lookups, the neighbour relation, GridN counters *)
From Coq Require Import List ZArith Bool Arith Lia Permutation.
From OmplV Require Import HeapModel GridModel.
Import ListNotations.
Local Open Scope Z_scope.

Lemma coord_eqb_spec a b : coord_eqb a b = true <-> a = b.
Proof.
  revert b; induction a as [|x a IH]; intros [|y b]; simpl; split; try discriminate; auto.
  - intros H. apply andb_true_iff in H. destruct H as (H1 & H2). apply Z.eqb_eq in H1. apply IH in H2. subst. reflexivity.
  - intros H. injection H as -> ->. rewrite Z.eqb_refl. apply IH. reflexivity.
Qed.
Lemma coord_eqb_refl a : coord_eqb a a = true.
Proof. apply coord_eqb_spec. reflexivity. Qed.
Lemma coord_eqb_neq a b : coord_eqb a b = false <-> a <> b.
Proof. split; intros H. - intros E. apply coord_eqb_spec in E. congruence. - destruct (coord_eqb a b) eqn:E; auto. apply coord_eqb_spec in E. congruence. Qed.
Lemma coord_eqb_sym a b : coord_eqb a b = coord_eqb b a.
Proof. destruct (coord_eqb a b) eqn:E. - apply coord_eqb_spec in E. subst. symmetry. apply coord_eqb_refl. - symmetry. apply coord_eqb_neq. apply coord_eqb_neq in E. congruence. Qed.

Definition coords (cells : list cell) : list coord := map ccoord cells.

Lemma in_coords_spec c l : in_coords c l = true <-> In c l.
Proof.
  unfold in_coords. rewrite existsb_exists. split.
  - intros (x & Hx & E). apply coord_eqb_spec in E. subst. exact Hx.
  - intros H. exists c. split; [exact H|apply coord_eqb_refl].
Qed.

Lemma find_cell_some c cells x : find_cell c cells = Some x -> In x cells /\ ccoord x = c.
Proof.
  induction cells as [|y t IH]; simpl; [discriminate|]. destruct (coord_eqb (ccoord y) c) eqn:E.
  - intros H. injection H as <-. apply coord_eqb_spec in E. auto.
  - intros H. destruct (IH H). auto.
Qed.
Lemma find_cell_none c cells : find_cell c cells = None <-> ~ In c (coords cells).
Proof.
  induction cells as [|y t IH]; simpl; [tauto|]. destruct (coord_eqb (ccoord y) c) eqn:E.
  - apply coord_eqb_spec in E. split; [discriminate|]. intros H. exfalso. apply H. auto.
  - apply coord_eqb_neq in E. rewrite IH. tauto.
Qed.
Lemma has_spec c cells : has c cells = true <-> In c (coords cells).
Proof.
  unfold has. destruct (find_cell c cells) as [x|] eqn:E.
  - split; auto. intros _. apply find_cell_some in E. destruct E as (H & <-). apply in_map. exact H.
  - split; [discriminate|]. intros H. apply find_cell_none in E. tauto.
Qed.
Lemma find_cell_in cells x : NoDup (coords cells) -> In x cells -> find_cell (ccoord x) cells = Some x.
Proof.
  induction cells as [|y t IH]; intros ND H; simpl in *; [tauto|]. inversion ND as [|? ? Hy ND']; subst.
  destruct H as [->|H].
  - rewrite coord_eqb_refl. reflexivity.
  - destruct (coord_eqb (ccoord y) (ccoord x)) eqn:E; [|apply IH; auto].
    apply coord_eqb_spec in E. exfalso. apply Hy. rewrite E. apply in_map. exact H.
Qed.

(* ---- the neighbour relation ---- *)
Lemma length_bump_at i d c : length (bump_at i d c) = length c.
Proof. revert i; induction c as [|x t IH]; intros [|i]; simpl; auto. Qed.
Lemma bump_at_inv i d c : bump_at i (- d) (bump_at i d c) = c.
Proof. revert i; induction c as [|x t IH]; intros [|i]; simpl; auto; f_equal; [lia|apply IH]. Qed.
Lemma bump_at_neq i d c : (i < length c)%nat -> d <> 0 -> bump_at i d c <> c.
Proof.
  revert i; induction c as [|x t IH]; intros [|i] Hi Hd; simpl in *; try lia.
  - intros E. injection E as E. lia.
  - intros E. injection E as E. apply (IH i); auto. lia.
Qed.
Lemma bump_at_beyond i d c : (length c <= i)%nat -> bump_at i d c = c.
Proof. revert i; induction c as [|x t IH]; intros [|i] Hi; simpl in *; auto; try lia. f_equal. apply IH. lia. Qed.

(* b is adjacent to a: it differs from a by +-1 in exactly one dimension *)
Definition adjacent (a b : coord) : Prop := exists i d, (i < length a)%nat /\ (d = 1 \/ d = -1) /\ b = bump_at i d a.

Lemma probe_coords_in k c b : In b (probe_coords k c) <-> exists i d, (i < k)%nat /\ (d = 1 \/ d = -1) /\ b = bump_at i d c.
Proof.
  induction k as [|k IH]; simpl; [split; [tauto|intros (i & d & H & _); lia]|]. rewrite IH. split.
  - intros [H|[H|(i & d & Hi & Hd & E)]].
    + exists k, (-1). auto.
    + exists k, 1. auto.
    + exists i, d. split; [lia|auto].
  - intros (i & d & Hi & Hd & E). destruct (Nat.eq_dec i k) as [->|N].
    + destruct Hd as [->| ->]; auto.
    + right. right. exists i, d. split; [lia|auto].
Qed.
Lemma neighbor_coords_adjacent a b : In b (neighbor_coords a) <-> adjacent a b.
Proof. unfold neighbor_coords, adjacent. apply probe_coords_in. Qed.

Lemma adjacent_sym a b : adjacent a b -> adjacent b a.
Proof.
  intros (i & d & Hi & Hd & ->). exists i, (- d). rewrite length_bump_at. split; [exact Hi|]. split; [lia|].
  symmetry. apply bump_at_inv.
Qed.
Lemma adjacent_irrefl a : ~ adjacent a a.
Proof. intros (i & d & Hi & Hd & E). symmetry in E. apply bump_at_neq in E; auto. lia. Qed.
Lemma adjacent_length a b : adjacent a b -> length b = length a.
Proof. intros (i & d & _ & _ & ->). apply length_bump_at. Qed.

(* the characterisation the property uses: coordinates differ by one in a single dimension *)
Lemma nth_bump_at i d c j : nth j (bump_at i d c) 0 = if Nat.eqb j i && Nat.ltb i (length c) then nth j c 0 + d else nth j c 0.
Proof.
  revert i j; induction c as [|x t IH]; intros i j.
  - destruct i, j; simpl; try reflexivity; rewrite andb_false_r; reflexivity.
  - destruct i as [|i], j as [|j]; simpl; try reflexivity.
    rewrite IH. change (Nat.ltb (S i) (S (length t))) with (Nat.ltb i (length t)). reflexivity.
Qed.
Lemma adjacent_differ_by_one a b :
  adjacent a b <-> length b = length a /\ exists i, (i < length a)%nat /\ (nth i b 0 = nth i a 0 + 1 \/ nth i b 0 = nth i a 0 - 1) /\
                                            forall j, j <> i -> nth j b 0 = nth j a 0.
Proof.
  split.
  - intros (i & d & Hi & Hd & ->). split; [apply length_bump_at|]. exists i. split; [exact Hi|]. split.
    + rewrite nth_bump_at, Nat.eqb_refl. destruct (Nat.ltb_spec i (length a)); [|lia]. simpl. lia.
    + intros j Hj. rewrite nth_bump_at. destruct (Nat.eqb_spec j i); [congruence|reflexivity].
  - intros (Hl & i & Hi & Hd & Hj). exists i, (nth i b 0 - nth i a 0). split; [exact Hi|]. split; [lia|].
    apply (nth_ext _ _ 0 0); [rewrite length_bump_at; exact Hl|]. intros j _. rewrite nth_bump_at.
    destruct (Nat.eqb_spec j i) as [->|N]; simpl.
    + destruct (Nat.ltb_spec i (length a)); [lia|lia].
    + apply Hj. exact N.
Qed.

Lemma probe_coords_nodup k c : (k <= length c)%nat -> NoDup (probe_coords k c).
Proof.
  induction k as [|k IH]; intros Hk; simpl; [constructor|].
  assert (Hdiff : forall i d d', (i < k)%nat -> (d = 1 \/ d = -1) -> (d' = 1 \/ d' = -1) -> bump_at k d c <> bump_at i d' c).
  { intros i d d' Hi Hd Hd' E. apply (f_equal (fun l => nth k l 0)) in E. rewrite !nth_bump_at in E.
    rewrite Nat.eqb_refl in E. destruct (Nat.eqb_spec k i); [lia|]. destruct (Nat.ltb_spec k (length c)); [|lia]. simpl in E. lia. }
  constructor.
  - intros [E|H].
    + apply (f_equal (fun l => nth k l 0)) in E. rewrite !nth_bump_at, Nat.eqb_refl in E. destruct (Nat.ltb_spec k (length c)); [|lia]. simpl in E. lia.
    + apply probe_coords_in in H. destruct H as (i & d & Hi & Hd & E). apply (Hdiff i (-1) d); auto.
  - constructor; [|apply IH; lia].
    intros H. apply probe_coords_in in H. destruct H as (i & d & Hi & Hd & E). apply (Hdiff i 1 d); auto.
Qed.
Lemma neighbor_coords_nodup c : NoDup (neighbor_coords c).
Proof. apply probe_coords_nodup. lia. Qed.

(* Grid::neighbors returns exactly the present cells at adjacent coordinates, each once *)
Lemma found_in qs cells x : NoDup (coords cells) -> (In x (found qs cells) <-> In x cells /\ In (ccoord x) qs).
Proof.
  intros ND. induction qs as [|q t IH]; simpl; [tauto|]. destruct (find_cell q cells) as [y|] eqn:E.
  - apply find_cell_some in E. destruct E as (Hy & Eq). simpl. rewrite IH. split.
    + intros [<-|(H1 & H2)]; [auto|auto].
    + intros (H1 & [H2|H2]); [|auto]. left. subst q.
      pose proof (find_cell_in cells x ND H1) as F1. pose proof (find_cell_in cells y ND Hy) as F2. rewrite <- H2 in F1. congruence.
  - rewrite IH. apply find_cell_none in E. split; [intros (H1 & H2); auto|]. intros (H1 & [H2|H2]); [|auto].
    exfalso. apply E. subst q. apply in_map. exact H1.
Qed.
Theorem neighbors_exact cells c x : NoDup (coords cells) ->
  (In x (neighbors c cells) <-> In x cells /\ adjacent c (ccoord x)).
Proof. intros ND. unfold neighbors. rewrite found_in by exact ND. rewrite neighbor_coords_adjacent. tauto. Qed.
Theorem neighbors_symmetric cells x y : NoDup (coords cells) -> In x cells -> In y cells ->
  (In y (neighbors (ccoord x) cells) <-> In x (neighbors (ccoord y) cells)).
Proof. intros ND Hx Hy. rewrite !neighbors_exact by exact ND. split; intros (_ & A); split; auto; apply adjacent_sym; exact A. Qed.
Lemma found_nodup qs cells : NoDup qs -> NoDup (coords (found qs cells)).
Proof.
  induction qs as [|q t IH]; intros ND; simpl; [constructor|]. inversion ND as [|? ? Hq ND']; subst.
  destruct (find_cell q cells) as [y|] eqn:E; [|apply IH; exact ND']. simpl. constructor; [|apply IH; exact ND'].
  apply find_cell_some in E. destruct E as (_ & Eq). rewrite Eq. intros H. apply Hq.
  unfold coords in H. apply in_map_iff in H. destruct H as (z & Ez & Hz). clear - Ez Hz. induction t as [|q' t' IH']; simpl in *; [tauto|].
  destruct (find_cell q' cells) as [w|] eqn:E'; [|right; apply IH'; exact Hz].
  destruct Hz as [<-|Hz]; [left; apply find_cell_some in E'; destruct E'; congruence|right; apply IH'; exact Hz].
Qed.

(* ---- GridN: the incremental counters are exact ---- *)
Definition count_present (qs cs : list coord) : nat := length (filter (fun q => in_coords q cs) qs).

Lemma length_found qs cells : length (found qs cells) = count_present qs (coords cells).
Proof.
  unfold count_present. induction qs as [|q t IH]; simpl; [reflexivity|].
  destruct (find_cell q cells) as [y|] eqn:E.
  - assert (H : in_coords q (coords cells) = true).
    { apply in_coords_spec. apply find_cell_some in E. destruct E as (Hy & <-). apply in_map. exact Hy. }
    rewrite H. simpl. f_equal. exact IH.
  - assert (H : in_coords q (coords cells) = false).
    { apply not_true_is_false. intros H. apply in_coords_spec in H. apply find_cell_none in E. tauto. }
    rewrite H. exact IH.
Qed.

Lemma count_present_snoc qs cs c : NoDup qs -> ~ In c cs ->
  count_present qs (cs ++ [c]) = (count_present qs cs + (if in_coords c qs then 1 else 0))%nat.
Proof.
  unfold count_present. intros ND Hc. induction qs as [|q t IH]; simpl; [reflexivity|]. inversion ND as [|? ? Hq ND']; subst.
  assert (E : in_coords q (cs ++ [c]) = in_coords q cs || coord_eqb q c).
  { unfold in_coords. rewrite existsb_app. simpl. rewrite orb_false_r. reflexivity. }
  rewrite E. rewrite (coord_eqb_sym c q). specialize (IH ND').
  destruct (in_coords q cs) eqn:E1; simpl.
  - rewrite IH. destruct (coord_eqb q c) eqn:E2; simpl; [|lia]. apply coord_eqb_spec in E2. subst. apply in_coords_spec in E1. tauto.
  - destruct (coord_eqb q c) eqn:E2; simpl; rewrite IH.
    + apply coord_eqb_spec in E2. subst q.
      assert (in_coords c t = false) by (apply not_true_is_false; intros H; apply in_coords_spec in H; tauto). rewrite H. lia.
    + lia.
Qed.

Definition without (c : coord) (cs : list coord) : list coord := filter (fun q => negb (coord_eqb q c)) cs.
Lemma in_without q c cs : In q (without c cs) <-> In q cs /\ q <> c.
Proof. unfold without. rewrite filter_In. rewrite negb_true_iff, coord_eqb_neq. tauto. Qed.
Lemma count_present_without qs cs c : NoDup qs -> In c cs ->
  (count_present qs (without c cs) + (if in_coords c qs then 1 else 0))%nat = count_present qs cs.
Proof.
  unfold count_present. intros ND Hc. induction qs as [|q t IH]; simpl; [reflexivity|]. inversion ND as [|? ? Hq ND']; subst.
  specialize (IH ND'). rewrite (coord_eqb_sym c q).
  destruct (coord_eqb q c) eqn:E2; simpl.
  - apply coord_eqb_spec in E2. subst q.
    assert (H1 : in_coords c (without c cs) = false).
    { apply not_true_is_false. intros H. apply in_coords_spec, in_without in H. tauto. }
    assert (H2 : in_coords c cs = true) by (apply in_coords_spec; exact Hc).
    assert (H3 : in_coords c t = false) by (apply not_true_is_false; intros H; apply in_coords_spec in H; tauto).
    rewrite H1, H2, H3 in *. simpl. lia.
  - assert (H : in_coords q (without c cs) = in_coords q cs).
    { apply coord_eqb_neq in E2. destruct (in_coords q cs) eqn:E1.
      - apply in_coords_spec. apply in_without. apply in_coords_spec in E1. auto.
      - apply not_true_is_false. intros H. apply in_coords_spec, in_without in H. destruct H as (H & _). apply in_coords_spec in H. congruence. }
    rewrite H. destruct (in_coords q cs); simpl; lia.
Qed.

Definition fold_upd (f : cell -> cell) (nb cells : list cell) : list cell :=
  fold_left (fun cs n => upd_cell f (ccoord n) cs) nb cells.
Lemma fold_upd_map f : (forall x, ccoord (f x) = ccoord x) -> forall nb cells, NoDup (coords nb) ->
  fold_upd f nb cells = map (fun x => if in_coords (ccoord x) (coords nb) then f x else x) cells.
Proof.
  intros Hf. induction nb as [|n t IH]; intros cells ND; unfold fold_upd in *; simpl.
  - rewrite map_id. reflexivity.
  - inversion ND as [|? ? Hn ND']; subst. rewrite IH by exact ND'. unfold upd_cell. rewrite map_map. apply map_ext. intros x.
    match goal with |- context [coord_eqb ?a ?b] => destruct (coord_eqb a b) eqn:E end; simpl.
    + rewrite Hf. apply coord_eqb_spec in E.
      assert (H : in_coords (ccoord x) (coords t) = false).
      { apply not_true_is_false. intros H. apply in_coords_spec in H. apply Hn. congruence. }
      rewrite H. reflexivity.
    + reflexivity.
Qed.

Definition cell_ok (p : gparams) (cs : list coord) (x : cell) : Prop :=
  length (ccoord x) = dim p /\
  nbrs x = Z.of_nat (count_present (neighbor_coords (ccoord x)) cs) + num_boundary p (ccoord x) /\
  border x = (nbrs x <? limit p).
Definition NInv (p : gparams) (cells : list cell) : Prop :=
  NoDup (coords cells) /\ Forall (cell_ok p (coords cells)) cells.

Lemma inc_nb_coord l x : ccoord (inc_nb l x) = ccoord x. Proof. reflexivity. Qed.
Lemma dec_nb_coord l x : ccoord (dec_nb l x) = ccoord x. Proof. reflexivity. Qed.
Lemma coords_map_preserve (g : cell -> cell) cells : (forall x, ccoord (g x) = ccoord x) -> coords (map g cells) = coords cells.
Proof. intros H. unfold coords. rewrite map_map. apply map_ext. exact H. Qed.

Lemma adjacent_in_nb cells c x : NoDup (coords cells) -> In x cells ->
  in_coords (ccoord x) (coords (neighbors c cells)) = in_coords c (neighbor_coords (ccoord x)).
Proof.
  intros ND Hx. destruct (in_coords c (neighbor_coords (ccoord x))) eqn:E.
  - apply in_coords_spec. apply in_coords_spec, neighbor_coords_adjacent, adjacent_sym in E.
    apply in_map. apply neighbors_exact; auto.
  - apply not_true_is_false. intros H. apply in_coords_spec in H. unfold coords in H. apply in_map_iff in H.
    destruct H as (y & Ey & Hy). apply neighbors_exact in Hy; [|exact ND]. destruct Hy as (Hy & A).
    assert (x = y).
    { pose proof (find_cell_in cells x ND Hx) as F1. pose proof (find_cell_in cells y ND Hy) as F2. rewrite <- Ey in F1. congruence. }
    subst y. apply adjacent_sym, neighbor_coords_adjacent, in_coords_spec in A. congruence.
Qed.

Theorem gridn_add_inv p id c d cells cells' :
  NInv p cells -> gridn_add p id c d cells = Some cells' ->
  NInv p cells' /\ coords cells' = coords cells ++ [c].
Proof.
  intros (ND & OK) H. unfold gridn_add in H.
  destruct (negb (Nat.eqb (length c) (dim p)) || has c cells) eqn:G; [discriminate|]. injection H as <-.
  apply orb_false_iff in G. destruct G as (G1 & G2). apply negb_false_iff, Nat.eqb_eq in G1.
  assert (Hc : ~ In c (coords cells)) by (intros H; apply has_spec in H; congruence).
  set (nb := neighbors c cells).
  assert (NDnb : NoDup (coords nb)) by (apply found_nodup, neighbor_coords_nodup).
  fold (fold_upd (inc_nb (limit p)) nb cells). rewrite (fold_upd_map _ (inc_nb_coord (limit p)) nb cells NDnb).
  set (g := fun x => if in_coords (ccoord x) (coords nb) then inc_nb (limit p) x else x).
  assert (Hg : forall x, ccoord (g x) = ccoord x) by (intros x; unfold g; destruct (in_coords _ _); reflexivity).
  assert (Ec : coords (map g cells ++ [mkCell id c d (num_boundary p c + Z.of_nat (length nb)) (num_boundary p c + Z.of_nat (length nb) <? limit p)]) = coords cells ++ [c]).
  { unfold coords at 1. rewrite map_app. fold (coords (map g cells)). rewrite (coords_map_preserve g cells Hg). reflexivity. }
  split; [|exact Ec]. split.
  - rewrite Ec.
    apply (Permutation_NoDup (l := c :: coords cells)); [apply Permutation_cons_append|constructor; assumption].
  - rewrite Ec. apply Forall_app. split.
    + rewrite Forall_forall in *. intros y Hy. apply in_map_iff in Hy. destruct Hy as (x & <- & Hx).
      destruct (OK x Hx) as (L & Nb & Bd). unfold cell_ok. rewrite Hg.
      rewrite (count_present_snoc _ _ c (neighbor_coords_nodup (ccoord x)) Hc).
      unfold g. unfold nb. rewrite (adjacent_in_nb cells c x ND Hx).
      destruct (in_coords c (neighbor_coords (ccoord x))).
      * split; [exact L|]. unfold inc_nb. cbn [ccoord nbrs border]. split; [lia|].
        rewrite Bd. destruct (Z.ltb_spec (nbrs x) (limit p)), (Z.leb_spec (limit p) (nbrs x + 1)), (Z.ltb_spec (nbrs x + 1) (limit p)); simpl; auto; lia.
      * split; [exact L|]. split; [lia|exact Bd].
    + constructor; [|constructor]. unfold cell_ok. cbn [ccoord nbrs border]. split; [exact G1|]. split; [|reflexivity].
      rewrite (count_present_snoc _ _ c (neighbor_coords_nodup c) Hc).
      assert (in_coords c (neighbor_coords c) = false).
      { apply not_true_is_false. intros H. apply in_coords_spec, neighbor_coords_adjacent in H. exact (adjacent_irrefl c H). }
      rewrite H. unfold nb, neighbors. rewrite length_found. lia.
Qed.

Lemma coords_filter_map (g : cell -> cell) c cells : (forall x, ccoord (g x) = ccoord x) ->
  coords (filter (fun x => negb (coord_eqb (ccoord x) c)) (map g cells)) = without c (coords cells).
Proof.
  intros Hg. unfold coords, without. induction cells as [|y t IH]; simpl; [reflexivity|]. rewrite Hg.
  destruct (coord_eqb (ccoord y) c); simpl; [exact IH|]. rewrite Hg. f_equal. exact IH.
Qed.

Theorem gridn_remove_inv p c cells cells' :
  NInv p cells -> gridn_remove p c cells = Some cells' ->
  NInv p cells' /\ coords cells' = without c (coords cells) /\ In c (coords cells).
Proof.
  intros (ND & OK) H. unfold gridn_remove in H. destruct (find_cell c cells) as [x0|] eqn:F; [|discriminate]. injection H as <-.
  assert (Hc : In c (coords cells)) by (apply find_cell_some in F; destruct F as (Hx & <-); apply in_map; exact Hx).
  set (nb := neighbors c cells).
  assert (NDnb : NoDup (coords nb)) by (apply found_nodup, neighbor_coords_nodup).
  fold (fold_upd (dec_nb (limit p)) nb cells). rewrite (fold_upd_map _ (dec_nb_coord (limit p)) nb cells NDnb).
  set (g := fun x => if in_coords (ccoord x) (coords nb) then dec_nb (limit p) x else x).
  assert (Hg : forall x, ccoord (g x) = ccoord x) by (intros x; unfold g; destruct (in_coords _ _); reflexivity).
  assert (Ec : coords (filter (fun x => negb (coord_eqb (ccoord x) c)) (map g cells)) = without c (coords cells)).
  { apply coords_filter_map. exact Hg. }
  split; [|split; [exact Ec|exact Hc]]. split.
  - rewrite Ec. unfold without. apply NoDup_filter. exact ND.
  - rewrite Ec. rewrite Forall_forall in *. intros y Hy. apply filter_In in Hy. destruct Hy as (Hy & Ny).
    apply in_map_iff in Hy. destruct Hy as (x & <- & Hx). rewrite Hg in Ny.
    destruct (OK x Hx) as (L & Nb & Bd). unfold cell_ok. rewrite Hg.
    pose proof (count_present_without (neighbor_coords (ccoord x)) (coords cells) c (neighbor_coords_nodup _) Hc) as CW.
    unfold g, nb. rewrite (adjacent_in_nb cells c x ND Hx).
    destruct (in_coords c (neighbor_coords (ccoord x))).
    + split; [exact L|]. unfold dec_nb. cbn [ccoord nbrs border]. split; [lia|].
      rewrite Bd. destruct (Z.ltb_spec (nbrs x) (limit p)), (Z.ltb_spec (nbrs x - 1) (limit p)); simpl; auto; lia.
    + split; [exact L|]. split; [lia|exact Bd].
Qed.

Lemma ninv_nil p : NInv p [].
Proof. split; constructor. Qed.
