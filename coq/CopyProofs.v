(* CopyProofs.v — copyStateData (CopyModel.v) between related spaces: every leaf space the two trees have in common
   receives the source's content, every other leaf of the destination keeps its content, the destination keeps its
   shape, and ALL_DATA_COPIED is only reported when every leaf of the source is a leaf of the destination. *)
From Coq Require Import List ZArith Bool Arith Lia.
From OmplV Require Import CopyModel.
Import ListNotations.

(* induction over space trees *)
Fixpoint nsp_rect' (Q : nsp -> Prop) (HL : forall n, Q (NLeaf n))
    (HC : forall n subs, Forall Q subs -> Q (NComp n subs)) (s : nsp) : Q s :=
  match s with
  | NLeaf n => HL n
  | NComp n subs => HC n subs ((fix go (l : list nsp) : Forall Q l :=
                                  match l with [] => Forall_nil Q | c :: t => Forall_cons c (nsp_rect' Q HL HC c) (go t) end) subs)
  end.

Fixpoint names (s : nsp) : list nat := match s with NLeaf n => [n] | NComp n subs => n :: flat_map names subs end.
Fixpoint leaves (s : nsp) : list nat := match s with NLeaf n => [n] | NComp _ subs => flat_map leaves subs end.
(* a state has the shape of its space *)
Fixpoint shape (s : nsp) (st : nst) : Prop :=
  match s, st with
  | NLeaf _, VLeafS _ => True
  | NComp _ subs, VCompS cs =>
    (fix go (l : list nsp) (c : list nst) : Prop :=
       match l, c with [], [] => True | a :: l', b :: c' => shape a b /\ go l' c' | _, _ => False end) subs cs
  | _, _ => False
  end.
Fixpoint shapes (l : list nsp) (c : list nst) : Prop :=
  match l, c with [], [] => True | a :: l', b :: c' => shape a b /\ shapes l' c' | _, _ => False end.
Lemma shape_comp n subs cs : shape (NComp n subs) (VCompS cs) <-> shapes subs cs.
Proof. cbn [shape]. revert cs. induction subs as [|a t IH]; intros [|b c]; cbn [shapes]; try tauto. all: try (rewrite IH; tauto). Qed.

(* the content of the leaf space named l *)
Fixpoint leaf_val (s : nsp) (st : nst) (l : nat) : option Z :=
  match s, st with
  | NLeaf n, VLeafS v => if n =? l then Some v else None
  | NComp _ subs, VCompS cs =>
    (fix go (ss : list nsp) (c : list nst) : option Z :=
       match ss, c with a :: ss', b :: c' => match leaf_val a b l with Some v => Some v | None => go ss' c' end | _, _ => None end) subs cs
  | _, _ => None
  end.
Fixpoint lv_list (ss : list nsp) (c : list nst) (l : nat) : option Z :=
  match ss, c with a :: ss', b :: c' => match leaf_val a b l with Some v => Some v | None => lv_list ss' c' l end | _, _ => None end.
Lemma leaf_val_comp n subs cs l : leaf_val (NComp n subs) (VCompS cs) l = lv_list subs cs l.
Proof. cbn [leaf_val]. revert cs. induction subs as [|a t IH]; intros [|b c]; cbn [lv_list]; try reflexivity. all: try (rewrite IH; reflexivity). Qed.

Definition merge (old new : option Z) : option Z :=
  match old with None => None | Some o => match new with Some v => Some v | None => Some o end end.

Lemma leaf_val_none : forall s st l, shape s st -> (leaf_val s st l = None <-> ~ In l (leaves s)).
Proof.
  apply (nsp_rect' (fun s => forall st l, shape s st -> (leaf_val s st l = None <-> ~ In l (leaves s)))).
  - intros n [v|cs] l H; [|destruct H]. cbn [leaf_val leaves]. destruct (Nat.eqb_spec n l); split; intros; try discriminate; try tauto; try reflexivity.
    + exfalso. apply H0. left. assumption.
    + intros [E|[]]. contradiction.
  - intros n subs IH [v|cs] l H; [destruct H|]. apply shape_comp in H. rewrite leaf_val_comp. cbn [leaves].
    revert cs H. induction subs as [|a t IHt]; intros cs H.
    + destruct cs; cbn [shapes lv_list flat_map] in *; [|tauto]. split; [intros _ []|reflexivity].
    + destruct cs as [|b c]; cbn [shapes lv_list flat_map] in *; [tauto|].
      destruct H as (Ha & Ht). inversion IH as [|? ? IHa IHt']; subst. rewrite in_app_iff.
      destruct (leaf_val a b l) eqn:E.
      * split; [discriminate|]. intros Hn. exfalso. apply Hn. left. destruct (In_dec Nat.eq_dec l (leaves a)) as [Hi|Hi]; [exact Hi|].
        apply (IHa b l Ha) in Hi. congruence.
      * rewrite (IHt IHt' c Ht). apply (IHa b l Ha) in E. tauto.
Qed.
Lemma lv_list_none ss c l : shapes ss c -> (lv_list ss c l = None <-> ~ In l (flat_map leaves ss)).
Proof. intros H. rewrite <- (leaf_val_comp 0 ss c l). apply (leaf_val_none (NComp 0 ss) (VCompS c) l). apply shape_comp. exact H. Qed.

(* nodes of a space tree *)
Fixpoint nodes (s : nsp) : list nsp := s :: match s with NLeaf _ => [] | NComp _ subs => flat_map nodes subs end.
Lemma nodes_self s : In s (nodes s). Proof. destruct s; left; reflexivity. Qed.
Lemma nodes_sub n subs a x : In a subs -> In x (nodes a) -> In x (nodes (NComp n subs)).
Proof. intros Ha Hx. cbn [nodes]. right. apply in_flat_map. exists a. auto. Qed.
(* related spaces: a name identifies a space *)
Definition compat (d s : nsp) : Prop := forall a b, In a (nodes d) -> In b (nodes s) -> sname a = sname b -> a = b.
Lemma compat_dsub n subs a s : In a subs -> compat (NComp n subs) s -> compat a s.
Proof. intros Ha C x y Hx Hy. apply C; [eapply nodes_sub; eassumption|exact Hy]. Qed.
Lemma compat_ssub d n subs a : In a subs -> compat d (NComp n subs) -> compat d a.
Proof. intros Ha C x y Hx Hy. apply C; [exact Hx|eapply nodes_sub; eassumption]. Qed.

Lemma leaves_names : forall s l, In l (leaves s) -> In l (names s).
Proof.
  apply (nsp_rect' (fun s => forall l, In l (leaves s) -> In l (names s))).
  - intros n l H. exact H.
  - intros n subs IH l H. cbn [leaves names] in *. right. apply in_flat_map in H. destruct H as (a & Ha & Hl).
    apply in_flat_map. exists a. split; [exact Ha|]. rewrite Forall_forall in IH. apply (IH a Ha l Hl).
Qed.
Lemma nodup_sub n subs a : In a subs -> NoDup (names (NComp n subs)) -> NoDup (names a).
Proof.
  intros Ha ND. cbn [names] in ND. inversion ND as [|? ? _ ND']; subst. clear ND. induction subs as [|b t IH]; [destruct Ha|].
  cbn [flat_map] in ND'. destruct Ha as [->|Ha].
  - clear IH. induction (names a) as [|x l IHl]; [constructor|]. cbn [app] in ND'. inversion ND' as [|? ? Hx Hl]; subst.
    constructor; [intros H; apply Hx; apply in_or_app; left; exact H|apply IHl; exact Hl].
  - apply IH; [exact Ha|]. clear - ND'. induction (names b) as [|x l IHl]; [exact ND'|]. cbn [app] in ND'. inversion ND'; subst. apply IHl. assumption.
Qed.
(* the leaves of distinct subspaces of one compound are disjoint *)
Lemma nodup_app_disj {A} (l1 l2 : list A) x : NoDup (l1 ++ l2) -> In x l1 -> ~ In x l2.
Proof.
  induction l1 as [|a t IH]; intros ND H1 H2; [destruct H1|]. cbn [app] in ND. inversion ND as [|? ? Ha ND']; subst. destruct H1 as [->|H1].
  - apply Ha. apply in_or_app. right. exact H2.
  - apply (IH ND' H1 H2).
Qed.
Lemma nodup_app_r {A} (l1 l2 : list A) : NoDup (l1 ++ l2) -> NoDup l2.
Proof. induction l1 as [|a t IH]; intros ND; [exact ND|]. cbn [app] in ND. inversion ND; subst. apply IH. assumption. Qed.
Lemma nodup_app_l {A} (l1 l2 : list A) : NoDup (l1 ++ l2) -> NoDup l1.
Proof.
  induction l1 as [|a t IH]; intros ND; [constructor|]. cbn [app] in ND. inversion ND as [|? ? Ha ND']; subst.
  constructor; [intros H; apply Ha; apply in_or_app; left; exact H|apply IH; exact ND'].
Qed.

Lemma ssize_pos s : 1 <= ssize s. Proof. destruct s; cbn; lia. Qed.
Lemma ssize_sub n subs a : In a subs -> ssize a < ssize (NComp n subs).
Proof.
  intros Ha. cbn [ssize]. induction subs as [|b t IH]; [destruct Ha|]. cbn [fold_right]. destruct Ha as [->|Ha]; [lia|]. specialize (IH Ha). lia.
Qed.

(* what a copy must achieve *)
Definition spec (destS : nsp) (dest : nst) (srcS : nsp) (src : nst) (out : cres * nst) : Prop :=
  shape destS (snd out) /\
  (forall l, leaf_val destS (snd out) l = merge (leaf_val destS dest l) (leaf_val srcS src l)) /\
  (fst out = CAll -> incl (leaves srcS) (leaves destS)).
Definition pre (destS : nsp) (dest : nst) (srcS : nsp) (src : nst) : Prop :=
  NoDup (names destS) /\ NoDup (names srcS) /\ compat destS srcS /\ shape destS dest /\ shape srcS src.

Lemma merge_first a b x :
  merge (match a with Some v => Some v | None => b end) x = match merge a x with Some v => Some v | None => merge b x end.
Proof. destruct a, b, x; reflexivity. Qed.
Lemma merge_idem o x : merge (merge o x) x = merge o x.
Proof. destruct o, x; reflexivity. Qed.

Lemma leaves_disj_cons a t l : NoDup (flat_map names (a :: t)) -> In l (leaves a) -> ~ In l (flat_map leaves t).
Proof.
  cbn [flat_map]. intros ND Ha Ht. apply (nodup_app_disj _ _ l ND (leaves_names a l Ha)).
  apply in_flat_map in Ht. destruct Ht as (b & Hb & Hl). apply in_flat_map. exists b. split; [exact Hb|apply leaves_names; exact Hl].
Qed.
Lemma merge_seq o a b : (a <> None -> b = None) ->
  merge (merge o a) b = merge o (match a with Some v => Some v | None => b end).
Proof. intros H. destruct o, a, b; try reflexivity. specialize (H ltac:(discriminate)). discriminate. Qed.

Lemma find_named_spec nm : forall subs i, find_named nm subs = Some i -> exists a, nth_error subs i = Some a /\ sname a = nm.
Proof.
  induction subs as [|s t IH]; intros i H; cbn [find_named] in H; [discriminate|]. destruct (Nat.eqb_spec (sname s) nm) as [E|N].
  - injection H as <-. exists s. auto.
  - destruct (find_named nm t) as [j|] eqn:F; [|discriminate]. injection H as <-. destruct (IH j eq_refl) as (a & Ha & Ea). exists a. auto.
Qed.

(* replacing the component that is the source space *)
Lemma set_nth_spec srcS src : shape srcS src -> forall dsubs dcomps i,
  nth_error dsubs i = Some srcS -> shapes dsubs dcomps -> NoDup (flat_map names dsubs) ->
  shapes dsubs (set_nth i src dcomps) /\
  forall l, lv_list dsubs (set_nth i src dcomps) l = merge (lv_list dsubs dcomps l) (leaf_val srcS src l).
Proof.
  intros Shs. induction dsubs as [|a t IH]; intros [|c ct] i Hi Sh ND; cbn [shapes] in Sh; try tauto; [destruct i; discriminate|].
  destruct Sh as (Sa & St). destruct i as [|i]; cbn [nth_error set_nth] in *.
  - injection Hi as ->. split; [split; assumption|]. intros l. cbn [lv_list].
    destruct (leaf_val srcS src l) as [v|] eqn:X.
    + assert (Hin : In l (leaves srcS)) by (destruct (In_dec Nat.eq_dec l (leaves srcS)) as [H|H]; [exact H|apply (leaf_val_none srcS src l Shs) in H; congruence]).
      destruct (leaf_val srcS c l) as [o|] eqn:O; [reflexivity|]. apply (leaf_val_none srcS c l Sa) in O. contradiction.
    + assert (O : leaf_val srcS c l = None) by (apply (leaf_val_none srcS c l Sa); apply (leaf_val_none srcS src l Shs); exact X).
      rewrite O. destruct (lv_list t ct l); reflexivity.
  - cbn [flat_map] in ND. destruct (IH ct i Hi St (nodup_app_r _ _ ND)) as (S1 & L1). split; [split; assumption|]. intros l. cbn [lv_list]. rewrite L1.
    destruct (leaf_val a c l) as [o|] eqn:O; [|reflexivity]. cbn [merge].
    (* l is a leaf of a, hence not of srcS, which sits in the tail *)
    assert (Hl : In l (leaves a)) by (destruct (In_dec Nat.eq_dec l (leaves a)) as [H|H]; [exact H|apply (leaf_val_none a c l Sa) in H; congruence]).
    assert (X : leaf_val srcS src l = None).
    { apply (leaf_val_none srcS src l Shs). intros Hs. apply (leaves_disj_cons a t l ND Hl). apply in_flat_map. exists srcS.
      split; [eapply nth_error_In; exact Hi|exact Hs]. }
    rewrite X. reflexivity.
Qed.

Section Step.
  Variable rec : nsp -> nst -> nsp -> nst -> cres * nst.
  Variable f : nat.
  Hypothesis Hrec : forall dS d sS s, ssize dS + ssize sS <= f -> pre dS d sS s -> spec dS d sS s (rec dS d sS s).

  Lemma dest_loop_spec srcS src : NoDup (names srcS) -> shape srcS src ->
    forall dsubs dcomps res,
      shapes dsubs dcomps -> NoDup (flat_map names dsubs) -> res <> CAll ->
      (forall a, In a dsubs -> ssize a + ssize srcS <= f /\ compat a srcS) ->
      let '(r, cs, e) := dest_loop rec dsubs dcomps srcS src res in
      shapes dsubs cs /\
      (forall l, lv_list dsubs cs l = merge (lv_list dsubs dcomps l) (leaf_val srcS src l)) /\
      (e = true -> incl (leaves srcS) (flat_map leaves dsubs)) /\ (r = CAll -> e = true).
  Proof.
    intros NDs Shs. induction dsubs as [|a t IH]; intros [|c ct] res Sh ND Hres Ha; cbn [shapes] in Sh; try tauto.
    - cbn [dest_loop]. split; [exact I|]. split; [intros l; reflexivity|]. split; [discriminate|]. intros E. contradiction.
    - destruct Sh as (Sa & St). cbn [dest_loop]. cbn [flat_map] in ND.
      destruct (Ha a (or_introl eq_refl)) as (Fa & Ca).
      assert (Pa : pre a c srcS src) by (split; [apply (nodup_app_l _ _ ND)|split; [exact NDs|split; [exact Ca|split; assumption]]]).
      pose proof (Hrec a c srcS src Fa Pa) as (Sa' & La & Aa). destruct (rec a c srcS src) as [r0 c']. cbn [fst snd] in *.
      assert (Tail : forall l ct', (forall l, lv_list t ct' l = merge (lv_list t ct l) (leaf_val srcS src l)) ->
                     lv_list (a :: t) (c' :: ct') l = merge (lv_list (a :: t) (c :: ct) l) (leaf_val srcS src l)).
      { intros l ct' Ht. cbn [lv_list]. rewrite La, merge_first, Ht. reflexivity. }
      destruct r0.
      + (* nothing copied into this component *)
        specialize (IH ct res St (nodup_app_r _ _ ND) Hres (fun a0 H0 => Ha a0 (or_intror H0))).
        destruct (dest_loop rec t ct srcS src res) as [[r2 ct'] e]. destruct IH as (I1 & I2 & I3 & I4).
        split; [split; assumption|]. split; [intros l; apply Tail; exact I2|]. split; [|exact I4].
        intros E l Hl. cbn [flat_map]. apply in_or_app. right. apply (I3 E l Hl).
      + specialize (IH ct CSome St (nodup_app_r _ _ ND) ltac:(discriminate) (fun a0 H0 => Ha a0 (or_intror H0))).
        destruct (dest_loop rec t ct srcS src CSome) as [[r2 ct'] e]. destruct IH as (I1 & I2 & I3 & I4).
        split; [split; assumption|]. split; [intros l; apply Tail; exact I2|]. split; [|exact I4].
        intros E l Hl. cbn [flat_map]. apply in_or_app. right. apply (I3 E l Hl).
      + (* everything was copied into this component: the others are left alone, and hold no leaf of the source *)
        specialize (Aa eq_refl). split; [split; assumption|]. split; [|split; [|reflexivity]].
        * intros l. cbn [lv_list]. rewrite La, merge_first. destruct (merge (leaf_val a c l) (leaf_val srcS src l)) eqn:M; [reflexivity|].
          destruct (lv_list t ct l) as [o|] eqn:O; [|reflexivity]. cbn [merge].
          assert (Hl : In l (flat_map leaves t)) by (destruct (In_dec Nat.eq_dec l (flat_map leaves t)) as [H|H]; [exact H|apply (lv_list_none t ct l St) in H; congruence]).
          assert (X : leaf_val srcS src l = None).
          { apply (leaf_val_none srcS src l Shs). intros Hs. apply (leaves_disj_cons a t l ND (Aa l Hs) Hl). }
          rewrite X. reflexivity.
        * intros _ l Hl. cbn [flat_map]. apply in_or_app. left. apply (Aa l Hl).
  Qed.

  Lemma src_loop_spec destS : NoDup (names destS) ->
    forall ssubs scomps dest res copied,
      shapes ssubs scomps -> NoDup (flat_map names ssubs) -> shape destS dest -> res <> CAll ->
      (forall a, In a ssubs -> ssize destS + ssize a <= f /\ compat destS a) ->
      let '(r, dest', k) := src_loop rec destS dest ssubs scomps res copied in
      shape destS dest' /\
      (forall l, leaf_val destS dest' l = merge (leaf_val destS dest l) (lv_list ssubs scomps l)) /\
      r <> CAll /\ k <= copied + length ssubs /\
      (k = copied + length ssubs -> incl (flat_map leaves ssubs) (leaves destS)).
  Proof.
    intros NDd. induction ssubs as [|a t IH]; intros [|c ct] dest res copied Sh ND Shd Hres Ha; cbn [shapes] in Sh; try tauto.
    - cbn [src_loop length]. split; [exact Shd|]. split; [intros l; cbn [lv_list]; destruct (leaf_val destS dest l); reflexivity|].
      split; [exact Hres|]. split; [lia|]. intros _ l [].
    - destruct Sh as (Sa & St). cbn [src_loop length]. cbn [flat_map] in ND.
      destruct (Ha a (or_introl eq_refl)) as (Fa & Ca).
      assert (Pa : pre destS dest a c) by (split; [exact NDd|split; [apply (nodup_app_l _ _ ND)|split; [exact Ca|split; assumption]]]).
      pose proof (Hrec destS dest a c Fa Pa) as (Sd' & Ld & Ad). destruct (rec destS dest a c) as [r0 dest']. cbn [fst snd] in *.
      specialize (IH ct dest' (match r0 with CNone => res | _ => CSome end) (match r0 with CAll => S copied | _ => copied end)
                     St (nodup_app_r _ _ ND) Sd' ltac:(destruct r0; [exact Hres|discriminate|discriminate]) (fun a0 H0 => Ha a0 (or_intror H0))).
      destruct (src_loop rec destS dest' t ct (match r0 with CNone => res | _ => CSome end) (match r0 with CAll => S copied | _ => copied end)) as [[r2 dest2] k].
      destruct IH as (I1 & I2 & I3 & I4 & I5). split; [exact I1|]. split; [|split; [exact I3|split]].
      + intros l. rewrite I2, Ld. cbn [lv_list]. apply merge_seq. intros Hne.
        apply (lv_list_none t ct l St). intros Hl.
        assert (Hla : In l (leaves a)) by (destruct (In_dec Nat.eq_dec l (leaves a)) as [H|H]; [exact H|apply (leaf_val_none a c l Sa) in H; contradiction]).
        apply (leaves_disj_cons a t l ND Hla Hl).
      + destruct r0; lia.
      + intros E. destruct r0; try lia. assert (E' : k = S copied + length t) by lia. specialize (I5 E'). specialize (Ad eq_refl).
        intros l Hl. cbn [flat_map] in Hl. apply in_app_or in Hl. destruct Hl as [Hl|Hl]; [apply (Ad l Hl)|apply (I5 l Hl)].
  Qed.

  Theorem copy_step_spec destS dest srcS src :
    ssize destS + ssize srcS <= S f -> pre destS dest srcS src -> spec destS dest srcS src (copy_step rec destS dest srcS src).
  Proof.
    intros Hf (NDd & NDs & Cp & Shd & Shs). unfold copy_step.
    destruct (Nat.eqb_spec (sname destS) (sname srcS)) as [En|Nn].
    - (* the same space *)
      assert (E : destS = srcS) by (apply Cp; [apply nodes_self|apply nodes_self|exact En]). subst srcS.
      split; [exact Shs|]. split; [|intros _ l Hl; exact Hl]. intros l. cbn [snd].
      destruct (leaf_val destS dest l) as [o|] eqn:O.
      + destruct (leaf_val destS src l) as [v|] eqn:V; [reflexivity|]. apply (leaf_val_none destS src l Shs) in V. apply (leaf_val_none destS dest l Shd) in V. congruence.
      + cbn [merge]. apply (leaf_val_none destS src l Shs). apply (leaf_val_none destS dest l Shd). exact O.
    - (* part 1: the destination is compound *)
      set (x := fun l => leaf_val srcS src l).
      assert (P1 : let '(r1, dest1, done) :=
                     match destS, dest with
                     | NComp _ dsubs, VCompS dcomps =>
                       match find_named (sname srcS) dsubs with
                       | Some i => (CAll, VCompS (set_nth i src dcomps), true)
                       | None => let '(r, cs, e) := dest_loop rec dsubs dcomps srcS src CNone in (r, VCompS cs, e)
                       end
                     | _, _ => (CNone, dest, false)
                     end in
                   shape destS dest1 /\
                   ((forall l, leaf_val destS dest1 l = merge (leaf_val destS dest l) (x l)) \/ (dest1 = dest /\ exists n, destS = NLeaf n)) /\
                   (done = true -> (forall l, leaf_val destS dest1 l = merge (leaf_val destS dest l) (x l)) /\ incl (leaves srcS) (leaves destS)) /\
                   (r1 = CAll -> done = true)).
      { destruct destS as [n|n dsubs]; [split; [exact Shd|]; split; [right; split; [reflexivity|exists n; reflexivity]|]; split; discriminate|].
        destruct dest as [v|dcomps]; [destruct Shd|]. apply shape_comp in Shd. cbn [names] in NDd. inversion NDd as [|? ? _ NDsub]; subst.
        destruct (find_named (sname srcS) dsubs) as [i|] eqn:Fn.
        - destruct (find_named_spec _ _ _ Fn) as (a & Hi & Ea).
          assert (E : a = srcS) by (apply Cp; [eapply nodes_sub; [eapply nth_error_In; exact Hi|apply nodes_self]|apply nodes_self|exact Ea]). subst a.
          destruct (set_nth_spec srcS src Shs dsubs dcomps i Hi Shd NDsub) as (S1 & L1).
          split; [apply shape_comp; exact S1|]. assert (LL : forall l, leaf_val (NComp n dsubs) (VCompS (set_nth i src dcomps)) l = merge (leaf_val (NComp n dsubs) (VCompS dcomps) l) (x l)).
          { intros l. rewrite !leaf_val_comp. apply L1. }
          split; [left; exact LL|]. split; [|reflexivity]. intros _. split; [exact LL|]. intros l Hl. cbn [leaves]. apply in_flat_map. exists srcS.
          split; [eapply nth_error_In; exact Hi|exact Hl].
        - pose proof (dest_loop_spec srcS src NDs Shs dsubs dcomps CNone Shd NDsub ltac:(discriminate)) as DL.
          assert (Hsub : forall a, In a dsubs -> ssize a + ssize srcS <= f /\ compat a srcS).
          { intros a Ha. split; [pose proof (ssize_sub n dsubs a Ha); lia|apply (compat_dsub n dsubs a srcS Ha Cp)]. }
          specialize (DL Hsub). destruct (dest_loop rec dsubs dcomps srcS src CNone) as [[r cs] e]. destruct DL as (D1 & D2 & D3 & D4).
          assert (LL : forall l, leaf_val (NComp n dsubs) (VCompS cs) l = merge (leaf_val (NComp n dsubs) (VCompS dcomps) l) (x l)).
          { intros l. rewrite !leaf_val_comp. apply D2. }
          split; [apply shape_comp; exact D1|]. split; [left; exact LL|]. split; [|exact D4]. intros E. split; [exact LL|apply D3; exact E]. }
      destruct (match destS, dest with
                | NComp _ dsubs, VCompS dcomps =>
                  match find_named (sname srcS) dsubs with
                  | Some i => (CAll, VCompS (set_nth i src dcomps), true)
                  | None => let '(r, cs, e) := dest_loop rec dsubs dcomps srcS src CNone in (r, VCompS cs, e)
                  end
                | _, _ => (CNone, dest, false)
                end) as [[r1 dest1] done]. destruct P1 as (Sh1 & L1 & Dn & R1).
      destruct done.
      + destruct (Dn eq_refl) as (LL & IN). split; [exact Sh1|]. split; [exact LL|]. intros _. exact IN.
      + assert (R1' : r1 <> CAll) by (intros E; specialize (R1 E); discriminate).
        (* part 2: the source is compound *)
        destruct srcS as [m|m ssubs].
        * (* a leaf source that is nowhere in the destination *)
          destruct src as [v|scomps]; [|destruct Shs]. split; [exact Sh1|]. split; [|intros E; contradiction].
          destruct L1 as [LL|(-> & n & ->)]; [exact LL|]. intros l. cbn [snd]. unfold x. destruct dest as [w|?]; [|destruct Shd]. cbn [leaf_val sname] in *.
          destruct (Nat.eqb_spec n l) as [->|]; [|reflexivity]. destruct (Nat.eqb_spec m l) as [->|]; [contradiction|reflexivity].
        * destruct src as [v|scomps]; [destruct Shs|]. apply shape_comp in Shs. cbn [names] in NDs. inversion NDs as [|? ? _ NDsub]; subst.
          pose proof (src_loop_spec destS NDd ssubs scomps dest1 r1 0 Shs NDsub Sh1 R1') as SL.
          assert (Hsub : forall a, In a ssubs -> ssize destS + ssize a <= f /\ compat destS a).
          { intros a Ha. split; [pose proof (ssize_sub m ssubs a Ha); lia|apply (compat_ssub destS m ssubs a Ha Cp)]. }
          specialize (SL Hsub). destruct (src_loop rec destS dest1 ssubs scomps r1 0) as [[r2 dest2] copied]. destruct SL as (S2 & L2 & R2 & K1 & K2).
          split; [exact S2|]. split.
          -- intros l. cbn [snd]. rewrite L2. rewrite (leaf_val_comp m ssubs scomps l).
             destruct L1 as [LL|(-> & n & ->)]; [rewrite LL; unfold x; rewrite (leaf_val_comp m ssubs scomps l); apply merge_idem|reflexivity].
          -- cbn [fst]. destruct (Nat.eqb_spec copied (length ssubs)) as [E|N]; [|intros E; contradiction].
             intros _. cbn [leaves]. apply K2. lia.
  Qed.
End Step.

Theorem copy_data_spec : forall fuel destS dest srcS src,
  ssize destS + ssize srcS <= fuel -> pre destS dest srcS src -> spec destS dest srcS src (copy_data fuel destS dest srcS src).
Proof.
  induction fuel as [|f IH]; intros destS dest srcS src Hf P.
  - pose proof (ssize_pos destS). pose proof (ssize_pos srcS). lia.
  - cbn [copy_data]. apply (copy_step_spec (copy_data f) f IH destS dest srcS src Hf P).
Qed.
Theorem copy_state_data_spec destS dest srcS src :
  pre destS dest srcS src -> spec destS dest srcS src (copy_state_data destS dest srcS src).
Proof. intros P. unfold copy_state_data. apply copy_data_spec; [lia|exact P]. Qed.
