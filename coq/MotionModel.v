(* MotionModel.v — executable model of the motion checks:
     DiscreteMotionValidator::checkMotion (both overloads), the Dubins / Reeds-Shepp / Dubins3D copies,
     SpaceInformation::checkMotion(states,count[,firstInvalid]).
   Inputs: nd (the space's validSegmentCount for the pair, taken from the implementation),
   valid j = validity of interpolate(s1,s2,j/nd) for 1 <= j < nd, vend = validity of s2.
   Definitions only. *)
From Coq Require Import List Arith ZArith Lia Bool.
Import ListNotations.

Inductive pt := Mid (j : nat) | End.      (* a queried state: the j/nd point, or s2 *)

Record mresult := mkR {
  verdict : bool;
  visits : list pt;                 (* states handed to isValid, in order *)
  frac : option (Z * Z);            (* lastValid.second written as num/den; None = storage untouched *)
  dvalid : nat; dinvalid : nat }.   (* increments of valid_ / invalid_ *)

Section Motion.
  Variable valid : nat -> bool.
  Variable vend : bool.

  (* for (j = 1; j < nd; ++j): returns the first invalid j, and the visits *)
  Fixpoint lin_scan (fuel j nd : nat) (vis : list pt) : option nat * list pt :=
    match fuel with
    | 0 => (None, vis)
    | S f => if j <? nd
             then if valid j then lin_scan f (S j) nd (vis ++ [Mid j]) else (Some j, vis ++ [Mid j])
             else (None, vis)
    end.

  (* lastValid.second = (double)(nd - 1) / (double)nd, guarded against nd = 0 (fix) *)
  Definition end_frac (nd : nat) : Z * Z :=
    if nd =? 0 then (0%Z, 1%Z) else ((Z.of_nat nd - 1)%Z, Z.of_nat nd).
  Definition end_frac_orig (nd : nat) : Z * Z := ((Z.of_nat nd - 1)%Z, Z.of_nat nd).

  Definition check_lin (nd : nat) : mresult :=
    let '(fi, vis) := lin_scan nd 1 nd [] in
    match fi with
    | Some j => mkR false vis (Some ((Z.of_nat j - 1)%Z, Z.of_nat nd)) 0 1
    | None => if vend then mkR true (vis ++ [End]) None 1 0
              else mkR false (vis ++ [End]) (Some (end_frac nd)) 0 1
    end.

  (* breadth-first bisection over closed index intervals; queue as a list, front = head *)
  Fixpoint bis (fuel : nat) (q : list (nat * nat)) (vis : list pt) : option (bool * list pt) :=
    match fuel with
    | O => match q with [] => Some (true, vis) | _ => None end    (* None = out of fuel *)
    | S f =>
      match q with
      | [] => Some (true, vis)
      | (a, b) :: rest =>
        let mid := (a + b) / 2 in
        if valid mid then
          bis f (rest ++ (if a <? mid then [(a, mid - 1)] else []) ++ (if mid <? b then [(mid + 1, b)] else []))
              (vis ++ [Mid mid])
        else Some (false, vis ++ [Mid mid])
      end
    end.

  Definition check_bis (nd : nat) : option mresult :=
    if negb vend then Some (mkR false [End] None 0 1)
    else if 2 <=? nd then
      match bis nd [(1, nd - 1)] [End] with
      | Some (r, vis) => Some (mkR r vis None (if r then 1 else 0) (if r then 0 else 1))
      | None => None
      end
    else Some (mkR true [End] None 1 0).

  (* the two-argument check of the Dubins-family validators at the pinned commit:
     an invalid s2 returned without touching either counter *)
  Definition check_bis_nocount (nd : nat) : option mresult :=
    if negb vend then Some (mkR false [End] None 0 0) else check_bis nd.
End Motion.

(* SpaceInformation::checkMotion(states, count, firstInvalidStateIndex) *)
Fixpoint states_lin (valid : nat -> bool) (fuel i count : nat) : option nat :=
  match fuel with
  | 0 => None
  | S f => if i <? count then if valid i then states_lin valid f (S i) count else Some i else None
  end.

(* SpaceInformation::checkMotion(states, count): open intervals (a,b) whose ends are known valid *)
Fixpoint states_bis (valid : nat -> bool) (fuel : nat) (q : list (nat * nat)) (vis : list nat) : option (bool * list nat) :=
  match fuel with
  | O => match q with [] => Some (true, vis) | _ => None end
  | S f =>
    match q with
    | [] => Some (true, vis)
    | (a, b) :: rest =>
      let mid := (a + b) / 2 in
      if valid mid then
        states_bis valid f (rest ++ (if a <? mid - 1 then [(a, mid)] else []) ++ (if mid + 1 <? b then [(mid, b)] else []))
                   (vis ++ [mid])
      else Some (false, vis ++ [mid])
    end
  end.
Definition check_states (valid : nat -> bool) (count : nat) : option (bool * list nat) :=
  if count =? 0 then Some (true, [])
  else if count =? 1 then Some (valid 0, [0])
  else if negb (valid 0) then Some (false, [0])
  else if negb (valid (count - 1)) then Some (false, [0; count - 1])
  else if 2 <? count then states_bis valid count [(0, count - 1)] [0; count - 1]
  else Some (true, [0; count - 1]).
