(* CostModel.v — executable model of how a path's cost is computed under the shipped objectives
   (PathGeometric::cost, OptimizationObjective::initialCost / terminalCost / combineCosts,
   PathLengthOptimizationObjective::motionCost, StateCostIntegralObjective::motionCost without motion-cost
   interpolation and its trapezoid rule, MechanicalWorkOptimizationObjective::motionCost, MinimaxObjective::motionCost / combineCosts and
   MaximizeMinClearanceObjective's order and identity).  Definitions only, generic in the arithmetic (SpacesModel.farith:
   binary64 for the correspondence, R for the theorems) and in the state space's distance.  A path is given with the
   state cost the objective's stateCost() reports for each state (user code, not modelled). *)
From Coq Require Import List.
From OmplV Require Import SpacesModel.
Import ListNotations.

Section Cost.
  Variable A : farith.
  Variable S : Type.
  Variable dist : S -> S -> F A.
  Notation F := (F A).
  Notation "x +. y" := (fadd A x y) (at level 50, left associativity).
  Notation "x *. y" := (fmul A x y) (at level 40, left associativity).
  Definition pt : Type := (S * F)%type.

  (* PathGeometric::cost: cost = initialCost(front) (= identity); for every motion cost = combine(cost, motionCost);
     finally combine(cost, terminalCost(back)) (= identity); the identity for an empty path *)
  Definition path_cost (ident : F) (combine : F -> F -> F) (motion : pt -> pt -> F) (p : list pt) : F :=
    match p with
    | [] => ident
    | s0 :: t => combine (snd (fold_left (fun acc s => (s, combine (snd acc) (motion (fst acc) s))) t (s0, ident))) ident
    end.

  (* PathLengthOptimizationObjective: motionCost = distance, combine = + *)
  Definition cost_length (p : list pt) : F := path_cost (f0 A) (fadd A) (fun a b => dist (fst a) (fst b)) p.
  (* StateCostIntegralObjective (no interpolation): trapezoid(c1, c2, dist) = 0.5 * dist * (c1 + c2) *)
  Definition trapezoid (c1 c2 d : F) : F := fhalf A *. d *. (c1 +. c2).
  Definition cost_integral (p : list pt) : F :=
    path_cost (f0 A) (fadd A) (fun a b => trapezoid (snd a) (snd b) (dist (fst a) (fst b))) p.

  (* MechanicalWorkOptimizationObjective: motionCost = max(stateCost(s2) - stateCost(s1), 0) + pathLengthWeight * distance
     (only positive changes of the state cost accrue: the motion cost depends on the direction), combine = + *)
  Definition work_motion (w : F) (a b : pt) : F := fmax A (fsub A (snd b) (snd a)) (f0 A) +. w *. dist (fst a) (fst b).
  Definition cost_work (w : F) (p : list pt) : F := path_cost (f0 A) (fadd A) (work_motion w) p.

  (* MultiOptimizationObjective: motionCost = identity + w1 * motionCost1 + w2 * motionCost2 + ... (in the order the components were
     added), combine = + *)
  Definition multi_motion (comps : list (F * (pt -> pt -> F))) (a b : pt) : F :=
    fold_left (fun c k => c +. fst k *. snd k a b) comps (f0 A).
  Definition cost_multi (comps : list (F * (pt -> pt -> F))) (p : list pt) : F := path_cost (f0 A) (fadd A) (multi_motion comps) p.
  Definition length_motion (a b : pt) : F := dist (fst a) (fst b).
  Definition integral_motion (a b : pt) : F := trapezoid (snd a) (snd b) (dist (fst a) (fst b)).

  (* MinimaxObjective: a motion is given by the state costs evaluated along it, first state first; its cost is the
     worst of them; combineCosts keeps the worse of two; better = isCostBetterThan *)
  Section Minimax.
    Variable better : F -> F -> bool.
    Variable ident : F.
    Definition worse_of (c1 c2 : F) : F := if better c1 c2 then c2 else c1.
    Definition mm_motion (evals : list F) : F := match evals with [] => ident | c0 :: t => fold_left worse_of t c0 end.
    Definition mm_path (motions : list (list F)) : F :=
      match motions with
      | [] => ident                                            (* a single state: combine(identity, identity) *)
      | _ => worse_of (fold_left (fun c ev => worse_of c (mm_motion ev)) motions ident) ident
      end.
  End Minimax.
End Cost.
