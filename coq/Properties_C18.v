(* Properties_C18.v — property C18: termination conditions mean exactly what they say.  Statements only. *)
From Coq Require Import List Arith NArith ZArith Bool Lia.
From OmplV Require Import PtcModel PtcProofs.
Import ListNotations.

(* a condition built from a predicate reports exactly the predicate (until terminate() is requested) *)
Theorem C18_predicate_exact : forall env k, eval env (Fn false k) = (env k, Fn false k).
Proof. reflexivity. Qed.

(* once terminate() has been requested it reports true forever, whatever happens afterwards *)
Theorem C18_terminate_sticky :
  forall env c evs, Forall (fun r => r = true) (run env c (ETerm [] :: evs)).
Proof. intros env c evs. cbn [run]. apply sticky. apply terminate_root. Qed.

Theorem C18_or_exact : forall env a b, fst (eval env (Or false a b)) = fst (eval env a) || fst (eval env b).
Proof. exact or_exact. Qed.
Theorem C18_and_exact : forall env a b, fst (eval env (And false a b)) = fst (eval env a) && fst (eval env b).
Proof. exact and_exact. Qed.
Theorem C18_always_never_constant :
  forall env t, fst (eval env (Always t)) = true /\ fst (eval env (Never false)) = false.
Proof. intros. split; reflexivity. Qed.

(* iteration count n: false for the first n evaluations, true from the (n+1)-th on, for EVERY number of evaluations *)
Theorem C18_iteration_false_n_then_true :
  forall env n j, (n + 1 < 4294967296)%N ->
    run env (Iter false n 0) (repeat EEval j) = map (fun i => N.ltb n (N.of_nat i)) (seq 1 j).
Proof.
  intros env n j H. pose proof (iter_run env n j 0 H) as R.
  replace (N.min (N.of_nat 0) (n + 1)) with 0%N in R by (simpl; lia). exact R.
Qed.

(* timed conditions over a monotone clock: false up to the end time, true afterwards, never revert *)
Theorem C18_timed_monotone :
  forall endt now1 now2, (now1 <= now2)%Z ->
    (now1 <= endt -> timed_eval endt now1 = false)%Z /\ (endt < now1 -> timed_eval endt now1 = true)%Z /\
    (timed_eval endt now1 = true -> timed_eval endt now2 = true).
Proof. intros. split; [apply timed_before|]. split; [apply timed_after|apply timed_monotone; assumption]. Qed.

(* periodically evaluated form: after one poll the cached value is the predicate's value at that poll *)
Theorem C18_periodic_after_poll : forall env v k, fst (eval env (poll env (Periodic false v k))) = env k.
Proof. reflexivity. Qed.

(* cost convergence: fires exactly at a solution k >= window whose running average moved by less than eps, and stays fired *)
Theorem C18_costconv_step :
  forall (T : Type) add mul div sub ltb ofN one window eps (s : cc T) cost,
    let s' := cc_step T add mul div sub ltb ofN one window eps s cost in
    let m := N.min (N.succ (solutions s)) window in
    fired s' = fired s || (N.eqb m window && ltb (mul (sub one eps) (avg s)) (avg s') && ltb (avg s') (mul (add one eps) (avg s)))
    /\ avg s' = div (add (mul (ofN (m - 1)%N) (avg s)) cost) (ofN m) /\ solutions s' = N.succ (solutions s).
Proof. intros. repeat split. Qed.

(* ... and for EVERY further sequence of reported solution costs: once fired it never reverts, the
   solution counter counts every report, and it cannot fire before `window` solutions were seen *)
Theorem C18_costconv_sticky_and_counts :
  forall (T : Type) add mul div sub ltb ofN one window eps (costs : list T) (s : cc T),
    let s' := fold_left (cc_step T add mul div sub ltb ofN one window eps) costs s in
    (fired s = true -> fired s' = true) /\ solutions s' = (solutions s + N.of_nat (length costs))%N.
Proof.
  intros T add mul div sub ltb ofN one window eps costs.
  induction costs as [|c cs IH]; intros s; cbn [fold_left length].
  - split; [auto | lia].
  - destruct (IH (cc_step T add mul div sub ltb ofN one window eps s c)) as [F S]. split.
    + intros Hf. apply F. unfold cc_step. cbn [fired]. rewrite Hf. reflexivity.
    + rewrite S. unfold cc_step. cbn [solutions]. lia.
Qed.

Theorem C18_costconv_not_before_window :
  forall (T : Type) add mul div sub ltb ofN one window eps (costs : list T) (s : cc T),
    fired s = false -> (solutions s + N.of_nat (length costs) < window)%N ->
    fired (fold_left (cc_step T add mul div sub ltb ofN one window eps) costs s) = false.
Proof.
  intros T add mul div sub ltb ofN one window eps costs.
  induction costs as [|c cs IH]; intros s Hf Hlt; cbn [fold_left length] in *.
  - exact Hf.
  - apply IH.
    + unfold cc_step. cbn [fired]. rewrite Hf. cbn [orb].
      replace (N.eqb (N.min (N.succ (solutions s)) window) window) with false; [reflexivity|].
      symmetry. apply N.eqb_neq. lia.
    + unfold cc_step. cbn [solutions]. lia.
Qed.

Print Assumptions C18_predicate_exact.
Print Assumptions C18_terminate_sticky.
Print Assumptions C18_or_exact.
Print Assumptions C18_and_exact.
Print Assumptions C18_always_never_constant.
Print Assumptions C18_iteration_false_n_then_true.
Print Assumptions C18_timed_monotone.
Print Assumptions C18_periodic_after_poll.
Print Assumptions C18_costconv_step.

(* non-vacuity: short-circuit evaluation matters for nested iteration counters *)
Example C18_nonvacuous :
  run (fun _ => false) (Or false (Iter false 2 0) (And false (Fn false 0) (Iter false 1 0)))
      [EEval; ESet 0 true; EEval; EEval; EEval; ETerm [R]; ESet 0 false; EEval]
  = [false; false; true; true; true].
Proof. vm_compute. reflexivity. Qed.
(* at the pinned commit the counter was incremented unconditionally: at the 2^32-th evaluation it wrapped
   and the condition reverted to false *)
Example C18_iteration_wrap_orig_refuted :
  iter_eval_orig 5 4294967294 = (true, 4294967295%N) /\ iter_eval_orig 5 4294967295 = (false, 0%N).
Proof. vm_compute. split; reflexivity. Qed.
Print Assumptions C18_costconv_sticky_and_counts.
Print Assumptions C18_costconv_not_before_window.
