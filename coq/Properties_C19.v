(* Properties_C19.v — property C19 (concurrent use through the documented thread-safe surface is race-free).
   Statements only.  The configuration record is regenerated from /repo's sources on every run (lib/thread_config.py
   writes ThreadConfig.v next to the check's output and compiles `current_ok` against these theorems); what cannot be
   expressed in this interleaving theory (the C++ memory model itself, the internals of the multi-threaded planners)
   is exercised by the stress driver and labelled so in the evidence. *)
From Coq Require Import List ZArith Bool Arith.
From OmplV Require Import ThreadModel ThreadProofs RrtModel RrtProofs ParRrtModel ParRrtProofs.
Import ListNotations.

(* atomic read-modify-write increments: under EVERY interleaving the counter equals the number of calls made *)
Theorem C19_atomic_counters_exact : forall sched, forallb is_ainc sched = true -> shared (crun sched) = length sched.
Proof. exact atomic_increments_never_lost. Qed.
(* plain read-then-write increments are refuted: two calls can count once *)
Theorem C19_plain_counters_refuted : exists sched, sched = [PRead 0; PRead 1; PWrite 0; PWrite 1] /\ shared (crun sched) = 1.
Proof. exact plain_increments_can_be_lost. Qed.
(* operations behind one mutex: the concurrent execution equals the sequential execution of the same operations in the
   order the lock was taken, and each thread obtains one result per operation it issued *)
Theorem C19_locked_structure_is_sequential : forall (S Op Out : Type) (apply : S -> Op -> S * Out) sched s,
  fst (lrun S Op Out apply s sched) = fst (srun S Op Out apply s (map snd sched)) /\
  map snd (snd (lrun S Op Out apply s sched)) = snd (srun S Op Out apply s (map snd sched)) /\
  map fst (snd (lrun S Op Out apply s sched)) = map fst sched.
Proof. exact locked_run_is_sequential. Qed.
Theorem C19_each_thread_sees_its_own_results : forall (S Op Out : Type) (apply : S -> Op -> S * Out) t sched s,
  length (proj_outs Out t (snd (lrun S Op Out apply s sched))) = length (proj_ops Op t sched).
Proof. exact each_thread_sees_its_own_results. Qed.
(* a source configuration that passes the check admits only atomic counter events, hence exact motion counters *)
Theorem C19_config_ok_counts_exact : forall c sched, config_ok c = true -> counter_events_ok c sched = true ->
  shared (crun sched) = length sched.
Proof. exact config_ok_counts_exact. Qed.

(* asking a termination condition to terminate from another thread: with eval() testing terminate_ first (obligation
   ptc_eval_terminate_first of the translator), every eval() after a terminate() is true under every interleaving with the
   evaluation thread's stores; the cached-value-only design is refuted by a three-event schedule *)
Theorem C19_terminate_from_another_thread_sticks : forall periodic fn s before after,
  Forall (fun b => b = true) (prun true periodic fn (fst (fold_left (fun st e => (fst (pstep true periodic fn (fst st) e), tt)) (before ++ [PTerminate]) (s, tt))) after).
Proof. exact terminate_sticks. Qed.
Theorem C19_cached_only_terminate_refuted : prun false true false (mkP false false) [PTerminate; PThreadStore false; PEval] = [false].
Proof. exact cached_only_design_refuted. Qed.

(* the parallel RRT (geometric::pRRT): workers share one tree; reading the nearest node, appending a motion (whose parent is the node
   read earlier) and updating the shared solution record are each one critical section (obligation prrt_atomic_steps of the
   translator), everything else a worker does is on its own data.  For EVERY schedule of these atomic steps of any number of
   workers, every sampler and every validator: what solve() reports after joining the workers starts at a start state and consists
   of motions their threads validated; an exact report ends in a state the goal accepts *)
Theorem C19_parallel_rrt_reports_real_paths_under_every_interleaving :
  forall (St D I : Type) (dlt : D -> D -> bool) select (extend : St -> I -> option St) sat gdist (dflt : St) (Ok : St -> St -> Prop),
  (forall n i d, extend n i = Some d -> Ok n d) -> (forall tree i, tree <> [] -> (select tree i < length tree)%nat) ->
  forall starts sched, starts <> [] ->
  match par_report St D (par_run St D I dlt select extend sat gdist dflt starts sched) with
  | Some (path, approx) =>
      path <> [] /\ (exists s0, hd (None, dflt) path = (None, s0) /\ In s0 starts) /\ pathOk St unit (pEdge St Ok) path /\
      (approx = false -> sat (snd (last path (None, dflt))) = true)
  | None => True
  end.
Proof. exact par_report_spec. Qed.

(* PRM: solve() runs a solution checking thread that lowers bestCost_ to the cost of every path it finds, and stores the final value
   with the solution.  With the reset of bestCost_ placed before the thread is started (obligation prm_bestcost_before_thread of the
   translator) every store of the call takes effect after the reset: whatever the variable held before (the NaN it is constructed
   with included) and however many paths the thread finds, the value read after the join is the cost of one of them and none was
   cheaper.  The pinned order — thread first, reset inside constructRoadmap() — loses a store that takes effect before the reset
   (the defect repaired for C04) *)
Theorem C19_prm_best_cost_kept : forall s0 c cs,
  exists m, brun s0 (BInit :: map BStore (c :: cs)) = Some m /\ Forall (fun x => m <= x) (c :: cs) /\ In m (c :: cs).
Proof. exact best_cost_kept. Qed.
Theorem C19_prm_reset_after_spawn_refuted : brun None [BStore 5; BInit] = None.
Proof. exact reset_after_spawn_refuted. Qed.

Print Assumptions C19_prm_best_cost_kept.
Print Assumptions C19_prm_reset_after_spawn_refuted.
Print Assumptions C19_parallel_rrt_reports_real_paths_under_every_interleaving.
Print Assumptions C19_terminate_from_another_thread_sticks.
Print Assumptions C19_cached_only_terminate_refuted.
Print Assumptions C19_atomic_counters_exact.
Print Assumptions C19_plain_counters_refuted.
Print Assumptions C19_locked_structure_is_sequential.
Print Assumptions C19_each_thread_sees_its_own_results.
Print Assumptions C19_config_ok_counts_exact.

Example C19_nonvacuous :
  shared (crun [AInc 0; AInc 1; AInc 0; AInc 2]) = 4 /\
  config_ok (mkCfg true true true true true true true true true true true) = true /\ config_ok (mkCfg false true true true true true true true true true true) = false /\ config_ok (mkCfg true true true true true true true true true true false) = false /\
  prun true true false (mkP false false) [PEval; PThreadStore true; PEval; PThreadStore false; PEval; PTerminate; PThreadStore false; PEval] = [false; true; false; true] /\
  lrun nat nat nat (fun s o => (s + o, s)) 0 [(0, 5); (1, 7); (0, 1)] = (13, [(0, 0); (1, 5); (0, 12)]).
Proof. vm_compute. repeat split. Qed.

(* two workers on the integer line (steps of at most 3, 7 invalid): both read the tree before either appends, so both new motions hang
   off the root; the second worker's state satisfies the goal *)
Example C19_parallel_rrt_nonvacuous :
  let ext := fun (n r : Z) => let d := (if (3 <? Z.abs (r - n))%Z then (if (n <? r)%Z then n + 3 else n - 3)%Z else r) in if (d =? 7)%Z then None else Some d in
  let s := par_run Z Z Z Z.ltb (fun tree r => nearest Z Z unit (fun a b => Z.abs (a - b)) Z.ltb tree r) ext (fun s => (s =? 3)%Z) (fun s => Z.abs (s - 3)) 0%Z [0%Z]
                [ESel Z 1 (-5)%Z; ESel Z 2 9%Z; EAdd Z 2; EAdd Z 1; EGoal Z 1; EGoal Z 2] in
  (q_tree _ _ s, par_report _ _ s) = ([(0%Z, None); (3%Z, Some (0%nat, tt)); ((-3)%Z, Some (0%nat, tt))], Some ([(None, 0%Z); (Some tt, 3%Z)], false)).
Proof. vm_compute. reflexivity. Qed.
