(* SamplersReal.v — over the reals: the default uniform / near / Gaussian samplers of every modelled space, compounds of
   any nesting included, return states within the bounds, for every tape of variates in [0,1) (uniform) or any reals
   (normal), every near / mean state in bounds, every distance >= 0 and every deviation. *)
From Coq Require Import List Bool Reals Lra Lia ZArith.
From OmplV Require Import SpacesModel SpacesReal.
From OmplV Require Import SamplersModel.
Import ListNotations.
Local Open Scope R_scope.

Section SamplersR.
  Variable fm : R -> R -> R.
  Variable fl : R -> R.
  Variable eps : R.
  Hypothesis eps_pos : 0 < eps.
  Hypothesis fl_int : forall (n : Z) (r : R), 0 <= r < 1 -> fl (IZR n + r) = IZR n.
  Hypothesis fl_mono : forall x y, x <= y -> fl x <= fl y.
  Hypothesis fl_integral : forall x, exists n, fl x = IZR n.
  Hypothesis fm_range : forall x p, 0 < p -> - p < fm x p < p.
  Hypothesis fm_small : forall x p, 0 < p -> - p < x < p -> fm x p = x.
  Hypothesis fm_cong : forall x p, 0 < p -> exists k : Z, fm x p = x - IZR k * p.
  Notation A := (ReA fm fl eps).
  Notation inb := (inb fm fl eps).
  Notation shaped := (shaped fm fl eps).
  Notation sample_uniform := (g_sample_uniform A).
  Notation sample_near := (g_sample_near A Rdiv).
  Notation sample_gauss := (g_sample_gauss A Rdiv).

  (* well-formed spaces: ordered bounds, integral discrete bounds, non-negative weights *)
  Fixpoint wfs (sp : space A) : Prop :=
    match sp with
    | RV _ bs => bounds_ok bs
    | SO2 _ => True
    | TimeB _ lo hi => lo <= hi
    | TimeU _ => True
    | Disc _ lo hi => lo <= hi /\ exists nl nh, lo = IZR nl /\ hi = IZR nh
    | Comp _ subs => (fix go (ss : list (R * space A)) : Prop := match ss with [] => True | (w, s) :: r => 0 <= w /\ wfs s /\ go r end) subs
    end.
  (* an upper bound on the number of variates a sampler takes from the tape *)
  Fixpoint need (sp : space A) : nat :=
    match sp with
    | RV _ bs => length bs
    | Comp _ subs => (fix go (ss : list (R * space A)) : nat := match ss with [] => 0%nat | (_, s) :: r => (need s + go r)%nat end) subs
    | _ => 1%nat
    end.
  Definition unit01 (u : R) : Prop := 0 <= u < 1.

  Lemma one_is_1 : one A = 1.
  Proof. unfold one. cbn [fmul f2 fhalf ReA]. lra. Qed.

  Lemma uniform_int_facts : forall lo hi u (nl nh : Z), lo = IZR nl -> hi = IZR nh -> lo <= hi -> unit01 u ->
    lo <= uniform_int A lo hi u <= hi /\ exists n, uniform_int A lo hi u = IZR n.
  Proof.
    intros lo hi u nl nh El Eh Hlh Hu. unfold uniform_int. rewrite one_is_1. cbn [ffloor flt fadd ReA].
    set (x := uniform_real A lo (hi + 1) u).
    assert (Hx : lo <= x) by (unfold x, uniform_real; cbn [fadd fsub fmul ReA]; unfold unit01 in Hu; nra).
    assert (Hfl : lo <= fl x).
    { pose proof (fl_mono lo x Hx) as M. rewrite El in M at 1. replace (IZR nl) with (IZR nl + 0) in M at 1 by ring. rewrite (fl_int nl 0) in M by lra. rewrite El. exact M. }
    destruct (Rltb_spec hi (fl x)) as [H|H].
    - split; [lra | exists nh; exact Eh].
    - split; [lra | apply fl_integral].
  Qed.

  (* RNG::halfNormalReal stays in [r_min, r_max] and RNG::halfNormalInt in {r_min..r_max}, for every normal variate and focus *)
  Lemma half_normal_real_range : forall rmin rmax focus g, rmin <= rmax ->
    rmin <= half_normal_real A Rdiv rmin rmax focus g <= rmax.
  Proof.
    intros rmin rmax focus g H. unfold half_normal_real, gaussian. cbn [fsub fmul fadd flt fle f0 f2 ReA].
    set (mean := rmax - rmin). set (v0 := g * (mean / focus) + mean).
    destruct (Rltb_spec mean v0) as [Q|Q].
    - destruct (Rleb_spec 0 (2 * mean - v0)) as [P|P].
      + destruct (Rltb_spec rmax (2 * mean - v0 + rmin)); unfold mean in *; lra.
      + destruct (Rltb_spec rmax rmin); lra.
    - destruct (Rleb_spec 0 v0) as [P|P].
      + destruct (Rltb_spec rmax (v0 + rmin)); unfold mean in *; lra.
      + destruct (Rltb_spec rmax rmin); lra.
  Qed.
  Lemma half_normal_int_range : forall rmin rmax focus g (nl nh : Z), rmin = IZR nl -> rmax = IZR nh -> rmin <= rmax ->
    rmin <= half_normal_int A Rdiv rmin rmax focus g <= rmax /\ exists n, half_normal_int A Rdiv rmin rmax focus g = IZR n.
  Proof.
    intros rmin rmax focus g nl nh El Eh H. unfold half_normal_int. rewrite one_is_1. cbn [ffloor flt fadd ReA].
    set (x := half_normal_real A Rdiv rmin (rmax + 1) focus g).
    assert (Hx : rmin <= x <= rmax + 1) by (apply half_normal_real_range; lra).
    assert (Hfl : rmin <= fl x).
    { pose proof (fl_mono rmin x (proj1 Hx)) as M. rewrite El in M at 1. replace (IZR nl) with (IZR nl + 0) in M at 1 by ring. rewrite (fl_int nl 0) in M by lra. rewrite El. exact M. }
    destruct (Rltb_spec rmax (fl x)) as [L|L].
    - split; [lra | exists nh; exact Eh].
    - split; [lra | apply fl_integral].
  Qed.

  Lemma take1_unit : forall tape, Forall unit01 tape -> unit01 (fst (take1 A tape)) /\ Forall unit01 (snd (take1 A tape)).
  Proof. intros [|u t] H; cbn [take1 fst snd f0 ReA]; [split; [unfold unit01; lra | constructor] | inversion H; subst; split; assumption]. Qed.
  Lemma take1_len : forall tape, (length tape <= length (snd (take1 A tape)) + 1)%nat.
  Proof. intros [|u t]; cbn; lia. Qed.
  Lemma Forall_firstn_skipn : forall (P : R -> Prop) n l, Forall P l -> Forall P (firstn n l) /\ Forall P (skipn n l).
  Proof. intros P n l H. rewrite <- (firstn_skipn n l) in H. apply Forall_app in H. exact H. Qed.

  Fixpoint wfc (ss : list (R * space A)) : Prop := match ss with [] => True | (w, s) :: r => 0 <= w /\ wfs s /\ wfc r end.
  Lemma wfs_comp : forall subs, wfs (Comp A subs) <-> wfc subs.
  Proof. intros subs. cbn [wfs]. induction subs as [|[w s] r IH]; [tauto | cbn [wfc]; rewrite <- IH; tauto]. Qed.
  Fixpoint needc (ss : list (R * space A)) : nat := match ss with [] => 0%nat | (_, s) :: r => (need s + needc r)%nat end.
  Lemma need_comp : forall subs, need (Comp A subs) = needc subs.
  Proof. intros subs. cbn [need]. induction subs as [|[w s] r IH]; [reflexivity | cbn [needc]; rewrite <- IH; reflexivity]. Qed.
  Fixpoint cuni (ss : list (R * space A)) (tape : list R) : list (sv A) * list R :=
    match ss with [] => ([], tape) | (_, s) :: r => let '(v, t1) := sample_uniform s tape in let '(vs, t2) := cuni r t1 in (v :: vs, t2) end.
  Lemma sample_uniform_comp : forall subs tape, sample_uniform (Comp A subs) tape = (let '(vs, t) := cuni subs tape in (C A vs, t)).
  Proof.
    intros subs tape. cbn [g_sample_uniform].
    assert (E : forall ss tp, (fix go (ss0 : list (R * space A)) (tape0 : list R) {struct ss0} : list (sv A) * list R :=
               match ss0 with [] => ([], tape0) | (_, s) :: ss' => let '(v, t1) := sample_uniform s tape0 in let '(vs, t2) := go ss' t1 in (v :: vs, t2) end) ss tp = cuni ss tp).
    { induction ss as [|[w s] r IH]; intros tp; [reflexivity|]. cbn [cuni]. destruct (sample_uniform s tp) as [v t1]. rewrite IH. reflexivity. }
    rewrite E. reflexivity.
  Qed.

  (* uniform sampling: the state is in bounds, the rest of the tape is the tape minus what was needed *)
  Theorem sample_uniform_inb : forall sp, wfs sp -> forall tape, Forall unit01 tape -> (need sp <= length tape)%nat ->
    inb sp (fst (sample_uniform sp tape)) /\ Forall unit01 (snd (sample_uniform sp tape)) /\
    (length tape <= length (snd (sample_uniform sp tape)) + need sp)%nat.
  Proof.
    induction sp as [bs| |lo hi| |lo hi|subs IH] using (space_ind' fm fl eps); intros Hw tape Ht Hn.
    - cbn [g_sample_uniform fst snd need wfs] in *. destruct (Forall_firstn_skipn unit01 (length bs) tape Ht) as [H1 H2].
      split; [|split; [exact H2 | rewrite skipn_length; cbn [F ReA] in *; lia]].
      cbn [SpacesReal.inb]. apply (rv_sample_uniform_inb fm fl eps); [exact Hw | rewrite firstn_length; apply Nat.min_l; exact Hn | exact H1].
    - cbn [g_sample_uniform]. destruct (take1_unit tape Ht) as [Hu Hr]. destruct (take1 A tape) as [u t] eqn:E. cbn [fst snd] in *.
      split; [|split; [exact Hr | pose proof (take1_len tape) as TL; rewrite E in TL; exact TL]].
      cbn [SpacesReal.inb]. apply (so2_samplers_inb fm fl eps fm_range fm_small fm_cong 0 0 0 u 0 Hu).
    - cbn [g_sample_uniform]. destruct (take1_unit tape Ht) as [Hu Hr]. destruct (take1 A tape) as [u t] eqn:E. cbn [fst snd wfs] in *.
      split; [|split; [exact Hr | pose proof (take1_len tape) as TL; rewrite E in TL; exact TL]].
      cbn [SpacesReal.inb]. apply (uniform_real_in_range fm fl eps); assumption.
    - cbn [g_sample_uniform fst snd need]. split; [exact I | split; [exact Ht | cbn [F ReA] in *; lia]].
    - cbn [g_sample_uniform]. destruct (take1_unit tape Ht) as [Hu Hr]. destruct (take1 A tape) as [u t] eqn:E. cbn [fst snd wfs] in *.
      split; [|split; [exact Hr | pose proof (take1_len tape) as TL; rewrite E in TL; exact TL]].
      destruct Hw as [Hlh [nl [nh [El Eh]]]]. destruct (uniform_int_facts lo hi u nl nh El Eh Hlh Hu) as [B N].
      cbn [SpacesReal.inb]. split; [exact B|]. split; [exact N | exists nl, nh; auto].
    - rewrite sample_uniform_comp. rewrite need_comp in *. apply wfs_comp in Hw.
      assert (G : forall tp, Forall unit01 tp -> (needc subs <= length tp)%nat ->
                cinb fm fl eps subs (fst (cuni subs tp)) /\ Forall unit01 (snd (cuni subs tp)) /\ (length tp <= length (snd (cuni subs tp)) + needc subs)%nat).
      { clear tape Ht Hn. induction subs as [|[w s] r IHr]; intros tp Htp Hntp.
        - cbn [cuni fst snd needc cinb]. split; [exact I | split; [exact Htp | cbn [F ReA] in *; lia]].
        - inversion IH as [|? ? Hs Hrest]; subst. destruct Hw as [Hw0 [Hws Hwr]]. cbn [cuni needc] in *.
          assert (N1 : (need s <= length tp)%nat) by (cbn [F ReA] in *; lia). destruct (Hs Hws tp Htp N1) as [A1 [A2 A3]]. cbn [snd] in *. destruct (sample_uniform s tp) as [v t1]. cbn [fst snd] in *.
          assert (N2 : (needc r <= length t1)%nat) by (cbn [F ReA] in *; lia). destruct (IHr Hrest Hwr t1 A2 N2) as [B1 [B2 B3]]. destruct (cuni r t1) as [vs t2]. cbn [fst snd cinb] in *.
          split; [split; [exact Hw0 | split; [exact A1 | exact B1]] | split; [exact B2 | cbn [F ReA] in *; lia]]. }
      destruct (G tape Ht Hn) as [G1 [G2 G3]]. destruct (cuni subs tape) as [vs t]. cbn [fst snd] in *.
      split; [apply (inb_comp fm fl eps); exact G1 | split; [exact G2 | exact G3]].
  Qed.

  (* ---- near sampling *)
  Fixpoint cnear (ws : R) (ss : list (R * space A)) (xs : list (sv A)) (dist : R) (tape : list R) : list (sv A) * list R :=
    match ss, xs with
    | (w, s) :: ss', x :: xs' =>
        let wi := importance A Rdiv ws w in
        let '(v, t1) := if flt A (feps A) wi then sample_near s x (fmul A dist wi) tape else sample_uniform s tape in
        let '(vs, t2) := cnear ws ss' xs' dist t1 in (v :: vs, t2)
    | _, _ => ([], tape)
    end.
  Lemma sample_near_comp : forall subs xs dist tape,
    sample_near (Comp A subs) (C A xs) dist tape = (let '(vs, t) := cnear (wsum A subs) subs xs dist tape in (C A vs, t)).
  Proof.
    intros subs xs dist tape. cbn [g_sample_near]. set (ws := wsum A subs).
    assert (E : forall ss ys tp, (fix go (ss0 : list (R * space A)) (xs0 : list (sv A)) (tape0 : list R) {struct ss0} : list (sv A) * list R :=
               match ss0, xs0 with
               | (w, s) :: ss', x :: xs' =>
                   let wi := importance A Rdiv ws w in
                   let '(v, t1) := if flt A (feps A) wi then sample_near s x (fmul A dist wi) tape0 else sample_uniform s tape0 in
                   let '(vs, t2) := go ss' xs' t1 in (v :: vs, t2)
               | _, _ => ([], tape0)
               end) ss ys tp = cnear ws ss ys dist tp).
    { induction ss as [|[w s] r IHs]; intros [|y ys] tp; try reflexivity. cbn [cnear].
      destruct (if flt A (feps A) (importance A Rdiv ws w) then sample_near s y (fmul A dist (importance A Rdiv ws w)) tp else sample_uniform s tp) as [v t1].
      rewrite IHs. reflexivity. }
    rewrite E. reflexivity.
  Qed.
  Lemma wsum_nonneg : forall subs, wfc subs -> 0 <= wsum A subs.
  Proof.
    intros subs. unfold wsum. cbn [f0 fadd ReA].
    assert (G : forall acc, 0 <= acc -> wfc subs -> 0 <= fold_left (fun (a : R) (ws : R * space A) => a + fst ws) subs acc).
    { induction subs as [|[w s] r IHs]; intros acc Ha Hw; [exact Ha|]. cbn [fold_left fst]. destruct Hw as [Hw0 [_ Hr]]. apply IHs; [lra | exact Hr]. }
    intros H. apply G; [lra | exact H].
  Qed.
  Lemma importance_nonneg : forall ws w, 0 <= ws -> 0 <= w -> 0 <= importance A Rdiv ws w.
  Proof.
    intros ws w Hws Hw. unfold importance. cbn [flt feps ReA]. destruct (Rltb_spec ws eps) as [H|H]; [rewrite one_is_1; lra|].
    unfold Rdiv. apply Rmult_le_pos; [exact Hw | left; apply Rinv_0_lt_compat; lra].
  Qed.

  Theorem sample_near_inb : forall sp, wfs sp -> forall near dist tape, inb sp near -> 0 <= dist -> Forall unit01 tape -> (need sp <= length tape)%nat ->
    inb sp (fst (sample_near sp near dist tape)) /\ Forall unit01 (snd (sample_near sp near dist tape)) /\
    (length tape <= length (snd (sample_near sp near dist tape)) + need sp)%nat.
  Proof.
    induction sp as [bs| |lo hi| |lo hi|subs IH] using (space_ind' fm fl eps); intros Hw near dist tape Hn Hd Ht Hl.
    - destruct near as [x|]; [|cbn in Hn; tauto]. cbn [g_sample_near fst snd need wfs SpacesReal.inb] in *.
      destruct (Forall_firstn_skipn unit01 (length bs) tape Ht) as [H1 H2].
      split; [|split; [exact H2 | rewrite skipn_length; cbn [F ReA] in *; lia]].
      apply (rv_sample_near_inb fm fl eps); [exact Hn | exact Hd | rewrite firstn_length; apply Nat.min_l; exact Hl | exact H1].
    - destruct near as [[|x [|? ?]]|]; try (cbn in Hn; tauto). cbn [g_sample_near]. destruct (take1_unit tape Ht) as [Hu Hr]. destruct (take1 A tape) as [u t] eqn:E. cbn [fst snd] in *.
      split; [|split; [exact Hr | pose proof (take1_len tape) as TL; rewrite E in TL; exact TL]].
      cbn [SpacesReal.inb hd0f]. apply (so2_samplers_inb fm fl eps fm_range fm_small fm_cong x dist 0 u 0 Hu).
    - destruct near as [[|x [|? ?]]|]; try (cbn in Hn; tauto). cbn [g_sample_near]. destruct (take1_unit tape Ht) as [Hu Hr]. destruct (take1 A tape) as [u t] eqn:E. cbn [fst snd wfs] in *.
      split; [|split; [exact Hr | pose proof (take1_len tape) as TL; rewrite E in TL; exact TL]].
      apply (enforce_laws fm fl eps fm_range fm_small fm_cong (TimeB A lo hi)). cbn [SpacesReal.shaped]. exact Hw.
    - destruct near as [[|x [|? ?]]|]; try (cbn in Hn; tauto). cbn [g_sample_near]. destruct (take1 A tape) as [u t] eqn:E. cbn [fst snd].
      destruct (take1_unit tape Ht) as [Hu Hr]. rewrite E in Hu, Hr. cbn [fst snd] in *.
      split; [cbn; exact I | split; [exact Hr | pose proof (take1_len tape) as TL; rewrite E in TL; exact TL]].
    - destruct near as [[|x [|? ?]]|]; try (cbn in Hn; tauto). cbn [g_sample_near]. destruct (take1_unit tape Ht) as [Hu Hr]. destruct (take1 A tape) as [u t] eqn:E. cbn [fst snd wfs] in *.
      split; [|split; [exact Hr | pose proof (take1_len tape) as TL; rewrite E in TL; exact TL]].
      cbn [SpacesReal.inb] in Hn. destruct Hn as [_ [[nx Ex] _]]. destruct Hw as [Hlh Hb].
      apply (enforce_laws fm fl eps fm_range fm_small fm_cong (Disc A lo hi)). cbn [SpacesReal.shaped hd0f]. split; [exact Hlh|]. split; [|exact Hb].
      destruct (fl_integral (fadd A dist (fhalf A))) as [nd End]. cbn [ffloor fadd fsub fhalf ReA] in *.
      unfold uniform_int. rewrite one_is_1. cbn [ffloor flt fadd fsub ReA]. rewrite End.
      destruct (Rltb_spec (x + IZR nd) (fl (uniform_real A (x - IZR nd) (x + IZR nd + 1) u))) as [H|H].
      + exists (nx + nd)%Z. rewrite plus_IZR, Ex. reflexivity.
      + apply fl_integral.
    - destruct near as [|xs]; [cbn in Hn; tauto|]. rewrite sample_near_comp. rewrite need_comp in *. apply wfs_comp in Hw. apply (inb_comp fm fl eps) in Hn.
      pose proof (wsum_nonneg subs Hw) as Hws. set (ws := wsum A subs) in *. clearbody ws.
      assert (G : forall ys tp, cinb fm fl eps subs ys -> Forall unit01 tp -> (needc subs <= length tp)%nat ->
                cinb fm fl eps subs (fst (cnear ws subs ys dist tp)) /\ Forall unit01 (snd (cnear ws subs ys dist tp)) /\ (length tp <= length (snd (cnear ws subs ys dist tp)) + needc subs)%nat).
      { clear tape Ht Hl xs Hn. induction subs as [|[w s] r IHr]; intros ys tp Hys Htp Hntp.
        - destruct ys; [|cbn in Hys; tauto]. cbn [cnear fst snd needc cinb]. split; [exact I | split; [exact Htp | cbn [F ReA] in *; lia]].
        - destruct ys as [|y ys]; [cbn in Hys; tauto|]. inversion IH as [|? ? Hs Hrest]; subst. destruct Hw as [Hw0 [Hws' Hwr]]. destruct Hys as [_ [Hy Hys]].
          cbn [cnear needc] in *. assert (N1 : (need s <= length tp)%nat) by (cbn [F ReA] in *; lia).
          pose proof (importance_nonneg ws w Hws Hw0) as Hwi.
          assert (Hsel : let r1 := (if flt A (feps A) (importance A Rdiv ws w) then sample_near s y (fmul A dist (importance A Rdiv ws w)) tp else sample_uniform s tp) in
                         inb s (fst r1) /\ Forall unit01 (snd r1) /\ (length tp <= length (snd r1) + need s)%nat).
          { cbn zeta. destruct (flt A (feps A) (importance A Rdiv ws w)).
            - apply (Hs Hws' y (fmul A dist (importance A Rdiv ws w)) tp Hy); [cbn [fmul ReA]; apply Rmult_le_pos; assumption | exact Htp | exact N1].
            - apply (sample_uniform_inb s Hws' tp Htp N1). }
          cbn zeta in Hsel. destruct (if flt A (feps A) (importance A Rdiv ws w) then sample_near s y (fmul A dist (importance A Rdiv ws w)) tp else sample_uniform s tp) as [v t1].
          cbn [fst snd] in Hsel. destruct Hsel as [A1 [A2 A3]].
          assert (N2 : (needc r <= length t1)%nat) by (cbn [F ReA] in *; lia).
          destruct (IHr Hrest Hwr ys t1 Hys A2 N2) as [B1 [B2 B3]]. destruct (cnear ws r ys dist t1) as [vs t2]. cbn [fst snd cinb] in *.
          split; [split; [exact Hw0 | split; [exact A1 | exact B1]] | split; [exact B2 | cbn [F ReA] in *; lia]]. }
      destruct (G xs tape Hn Ht Hl) as [G1 [G2 G3]]. destruct (cnear ws subs xs dist tape) as [vs t]. cbn [fst snd] in *.
      split; [apply (inb_comp fm fl eps); exact G1 | split; [exact G2 | exact G3]].
  Qed.

  (* ---- Gaussian sampling: any normal variates *)
  Fixpoint cgauss (ws : R) (ss : list (R * space A)) (xs : list (sv A)) (sd : R) (tape : list R) : list (sv A) * list R :=
    match ss, xs with
    | (w, s) :: ss', x :: xs' =>
        let '(v, t1) := sample_gauss s x (fmul A sd (importance A Rdiv ws w)) tape in
        let '(vs, t2) := cgauss ws ss' xs' sd t1 in (v :: vs, t2)
    | _, _ => ([], tape)
    end.
  Lemma sample_gauss_comp : forall subs xs sd tape,
    sample_gauss (Comp A subs) (C A xs) sd tape = (let '(vs, t) := cgauss (wsum A subs) subs xs sd tape in (C A vs, t)).
  Proof.
    intros subs xs sd tape. cbn [g_sample_gauss]. set (ws := wsum A subs).
    assert (E : forall ss ys tp, (fix go (ss0 : list (R * space A)) (xs0 : list (sv A)) (tape0 : list R) {struct ss0} : list (sv A) * list R :=
               match ss0, xs0 with
               | (w, s) :: ss', x :: xs' =>
                   let '(v, t1) := sample_gauss s x (fmul A sd (importance A Rdiv ws w)) tape0 in
                   let '(vs, t2) := go ss' xs' t1 in (v :: vs, t2)
               | _, _ => ([], tape0)
               end) ss ys tp = cgauss ws ss ys sd tp).
    { induction ss as [|[w s] r IHs]; intros [|y ys] tp; try reflexivity. cbn [cgauss].
      destruct (sample_gauss s y (fmul A sd (importance A Rdiv ws w)) tp) as [v t1]. rewrite IHs. reflexivity. }
    rewrite E. reflexivity.
  Qed.
  Lemma rv_inb_length : forall bs x, rv_inb bs x -> length x = length bs.
  Proof. induction bs as [|[lo hi] r IHb]; intros [|y ys] H; cbn in *; try tauto. f_equal. apply IHb. tauto. Qed.

  Theorem sample_gauss_inb : forall sp, wfs sp -> forall mean sd tape, inb sp mean -> (need sp <= length tape)%nat ->
    inb sp (fst (sample_gauss sp mean sd tape)) /\ (length tape <= length (snd (sample_gauss sp mean sd tape)) + need sp)%nat.
  Proof.
    induction sp as [bs| |lo hi| |lo hi|subs IH] using (space_ind' fm fl eps); intros Hw mean sd tape Hn Hl.
    - destruct mean as [x|]; [|cbn in Hn; tauto]. cbn [g_sample_gauss fst snd need wfs SpacesReal.inb] in *.
      split; [|rewrite skipn_length; cbn [F ReA] in *; lia].
      apply (rv_sample_gauss_inb fm fl eps); [exact Hw | apply rv_inb_length; exact Hn | rewrite firstn_length; apply Nat.min_l; exact Hl].
    - destruct mean as [[|x [|? ?]]|]; try (cbn in Hn; tauto). cbn [g_sample_gauss]. destruct (take1 A tape) as [g t] eqn:E. cbn [fst snd].
      split; [|pose proof (take1_len tape) as TL; rewrite E in TL; exact TL].
      cbn [SpacesReal.inb hd0f]. apply (so2_samplers_inb fm fl eps fm_range fm_small fm_cong x 0 sd 0 g). unfold unit01. lra.
    - destruct mean as [[|x [|? ?]]|]; try (cbn in Hn; tauto). cbn [g_sample_gauss]. destruct (take1 A tape) as [g t] eqn:E. cbn [fst snd wfs] in *.
      split; [|pose proof (take1_len tape) as TL; rewrite E in TL; exact TL].
      apply (enforce_laws fm fl eps fm_range fm_small fm_cong (TimeB A lo hi)). cbn [SpacesReal.shaped]. exact Hw.
    - destruct mean as [[|x [|? ?]]|]; try (cbn in Hn; tauto). cbn [g_sample_gauss]. destruct (take1 A tape) as [g t] eqn:E. cbn [fst snd].
      split; [cbn; exact I | pose proof (take1_len tape) as TL; rewrite E in TL; exact TL].
    - destruct mean as [[|x [|? ?]]|]; try (cbn in Hn; tauto). cbn [g_sample_gauss]. destruct (take1 A tape) as [g t] eqn:E. cbn [fst snd wfs] in *.
      split; [|pose proof (take1_len tape) as TL; rewrite E in TL; exact TL].
      destruct Hw as [Hlh Hb].
      apply (enforce_laws fm fl eps fm_range fm_small fm_cong (Disc A lo hi)). cbn [SpacesReal.shaped]. split; [exact Hlh|]. split; [apply fl_integral | exact Hb].
    - destruct mean as [|xs]; [cbn in Hn; tauto|]. rewrite sample_gauss_comp. rewrite need_comp in *. apply wfs_comp in Hw. apply (inb_comp fm fl eps) in Hn.
      set (ws := wsum A subs) in *. clearbody ws.
      assert (G : forall ys tp, cinb fm fl eps subs ys -> (needc subs <= length tp)%nat ->
                cinb fm fl eps subs (fst (cgauss ws subs ys sd tp)) /\ (length tp <= length (snd (cgauss ws subs ys sd tp)) + needc subs)%nat).
      { clear tape Hl xs Hn. induction subs as [|[w s] r IHr]; intros ys tp Hys Hntp.
        - destruct ys; [|cbn in Hys; tauto]. cbn [cgauss fst snd needc cinb]. split; [exact I | cbn [F ReA] in *; lia].
        - destruct ys as [|y ys]; [cbn in Hys; tauto|]. inversion IH as [|? ? Hs Hrest]; subst. destruct Hw as [Hw0 [Hws' Hwr]]. destruct Hys as [_ [Hy Hys]].
          cbn [cgauss needc] in *. assert (N1 : (need s <= length tp)%nat) by (cbn [F ReA] in *; lia).
          pose proof (Hs Hws' y (fmul A sd (importance A Rdiv ws w)) tp Hy N1) as HH. cbn [snd] in HH.
          destruct (sample_gauss s y (fmul A sd (importance A Rdiv ws w)) tp) as [v t1] eqn:Eg. try rewrite Eg in HH. cbn [fst snd] in HH. destruct HH as [A1 A3].
          assert (N2 : (needc r <= length t1)%nat) by (cbn [F ReA] in *; lia).
          destruct (IHr Hrest Hwr ys t1 Hys N2) as [B1 B3]. destruct (cgauss ws r ys sd t1) as [vs t2]. cbn [fst snd cinb] in *.
          split; [split; [exact Hw0 | split; [exact A1 | exact B1]] | cbn [F ReA] in *; lia]. }
      destruct (G xs tape Hn Hl) as [G1 G3]. destruct (cgauss ws subs xs sd tape) as [vs t]. cbn [fst snd] in *.
      split; [apply (inb_comp fm fl eps); exact G1 | exact G3].
  Qed.
End SamplersR.
