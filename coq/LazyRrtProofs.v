(* LazyRrtProofs.v — what geometric::LazyRRT reports, for every stream of samples and goal-bias draws and every collaborator:
   although motions enter the tree unchecked, a reported path starts at a start state, every one of its motions was accepted by
   the motion validator, and its last state satisfies the goal; removing a rejected motion with its subtree never leaves a
   motion without its parent. *)
From Coq Require Import List Bool Arith Lia Sorted.
From OmplV Require Import LazyRrtModel LedgerProofs.
Import ListNotations.

Section LazyP.
  Variables St D : Type.
  Variable dist : St -> St -> D.
  Variable dlt : D -> D -> bool.
  Variable steer : St -> St -> St.
  Variable mv : St -> St -> bool.
  Variable sat : St -> bool.
  Variable gdist : St -> D.
  Variable goal_state dflt : St.
  Variable starts : list St.
  Notation lnode := (lnode St).
  Notation find_id := (find_id St).
  Notation l_id := (l_id St). Notation l_state := (l_state St). Notation l_parent := (l_parent St). Notation l_valid := (l_valid St).
  Definition ids (tree : list lnode) : list nat := map l_id tree.

  Definition NodeOk (tree : list lnode) (n : lnode) : Prop :=
    match l_parent n with
    | None => In (l_state n) starts /\ l_valid n = true
    | Some p => (p < l_id n)%nat /\ exists pn, In pn tree /\ l_id pn = p /\ (l_valid n = true -> mv (l_state pn) (l_state n) = true)
    end.
  Definition LInv (tree : list lnode) (next : nat) : Prop :=
    StronglySorted lt (ids tree) /\ (forall n, In n tree -> (l_id n < next)%nat) /\ (forall n, In n tree -> NodeOk tree n).

  Lemma find_id_in tree i n : find_id tree i = Some n -> In n tree /\ l_id n = i.
  Proof. unfold LazyRrtModel.find_id. intros H. apply find_some in H. destruct H as (A & B). apply Nat.eqb_eq in B. auto. Qed.
  Lemma sorted_unique : forall tree, StronglySorted lt (ids tree) -> forall a b, In a tree -> In b tree -> l_id a = l_id b -> a = b.
  Proof.
    induction tree as [|x t IH]; intros S a b Ha Hb E; [destruct Ha|]. cbn [ids map] in S. inversion S as [|? ? S' F]; subst. rewrite Forall_forall in F.
    destruct Ha as [<-|Ha], Hb as [<-|Hb]; [reflexivity| | |apply IH; assumption].
    - assert (In (l_id b) (ids t)) by (apply in_map; exact Hb). specialize (F _ H). lia.
    - assert (In (l_id a) (ids t)) by (apply in_map; exact Ha). specialize (F _ H). lia.
  Qed.
  Lemma find_id_of tree : StronglySorted lt (ids tree) -> forall n, In n tree -> find_id tree (l_id n) = Some n.
  Proof.
    intros S n Hn. unfold LazyRrtModel.find_id. destruct (find (fun m => l_id m =? l_id n) tree) as [m|] eqn:E.
    - apply find_some in E. destruct E as (A & B). apply Nat.eqb_eq in B. f_equal. apply (sorted_unique tree S); assumption.
    - exfalso. apply (find_none _ _ E) in Hn. rewrite Nat.eqb_refl in Hn. discriminate.
  Qed.

  Lemma sorted_snoc : forall (l : list nat) x, StronglySorted lt l -> (forall y, In y l -> (y < x)%nat) -> StronglySorted lt (l ++ [x]).
  Proof.
    induction l as [|a t IH]; intros x S H; [repeat constructor|]. inversion S as [|? ? S' F]; subst. cbn [app]. constructor.
    - apply IH; [exact S'|intros y Hy; apply H; right; exact Hy].
    - apply Forall_app. split; [exact F|]. constructor; [apply H; left; reflexivity|constructor].
  Qed.
  Lemma LInv_snoc tree next nn d : LInv tree next -> In nn tree -> LInv (tree ++ [mkL St next d (Some (l_id nn)) false]) (S next).
  Proof.
    intros (Hs & B & N) Hnn. split; [|split].
    - unfold ids. rewrite map_app. cbn [map LazyRrtModel.l_id]. apply sorted_snoc; [exact Hs|]. intros y Hy. apply in_map_iff in Hy. destruct Hy as (m & <- & Hm). apply B. exact Hm.
    - intros n Hn. apply in_app_or in Hn. destruct Hn as [Hn|[<-|[]]]; [specialize (B n Hn); lia|cbn; lia].
    - intros n Hn. apply in_app_or in Hn. destruct Hn as [Hn|[<-|[]]].
      + specialize (N n Hn). unfold NodeOk in *. destruct (l_parent n) as [p|]; [|exact N]. destruct N as (A & pn & P1 & P2 & P3). split; [exact A|]. exists pn. split; [apply in_or_app; left; exact P1|auto].
      + unfold NodeOk. cbn [LazyRrtModel.l_parent LazyRrtModel.l_id LazyRrtModel.l_valid LazyRrtModel.l_state]. split; [apply B; exact Hnn|]. exists nn. split; [apply in_or_app; left; exact Hnn|]. split; [reflexivity|discriminate].
  Qed.

  (* fuel does not matter once it exceeds the identity *)
  Lemma desc_fuel tree next t : LInv tree next -> forall k n, In n tree -> (l_id n < k)%nat -> forall f1 f2, (l_id n < f1)%nat -> (l_id n < f2)%nat ->
    is_desc St f1 tree t n = is_desc St f2 tree t n.
  Proof.
    intros (Hs & B & N). induction k as [|k IH]; intros n Hn Hk f1 f2 H1 H2; [lia|].
    destruct f1 as [|a]; [lia|]. destruct f2 as [|b]; [lia|]. cbn [is_desc]. f_equal.
    pose proof (N n Hn) as NO. unfold NodeOk in NO. destruct (l_parent n) as [p|]; [|reflexivity]. destruct NO as (Hp & pn & P1 & P2 & _).
    rewrite <- P2. rewrite (find_id_of tree Hs pn P1). apply IH; [exact P1|lia|lia|lia].
  Qed.
  Lemma sorted_filter (f : lnode -> bool) : forall tree, StronglySorted lt (ids tree) -> StronglySorted lt (ids (filter f tree)).
  Proof.
    induction tree as [|x t IH]; intros S; [constructor|]. cbn [ids map] in S. inversion S as [|? ? S' F]; subst. cbn [filter]. destruct (f x); [|apply IH; exact S'].
    cbn [ids map]. constructor; [apply IH; exact S'|]. rewrite Forall_forall in *. intros y Hy. apply F. unfold ids in *. apply in_map_iff in Hy. destruct Hy as (m & <- & Hm). apply filter_In in Hm. apply in_map. apply Hm.
  Qed.
  Lemma remove_inv tree next fuel t : LInv tree next -> (next <= fuel)%nat -> LInv (remove_subtree St fuel t tree) next.
  Proof.
    intros I Hf. pose proof I as (Hs & B & N). unfold remove_subtree. split; [apply sorted_filter; exact Hs|]. split; [intros n Hn; apply filter_In in Hn; apply B; apply Hn|].
    intros n Hn. apply filter_In in Hn. destruct Hn as (Hn & Hd). apply negb_true_iff in Hd. pose proof (N n Hn) as NO. unfold NodeOk in *. destruct (l_parent n) as [p|] eqn:Ep; [|exact NO].
    destruct NO as (A & pn & P1 & P2 & P3). split; [exact A|]. exists pn. split; [|auto]. apply filter_In. split; [exact P1|]. apply negb_true_iff.
    destruct fuel as [|f]; [specialize (B n Hn); lia|]. cbn [is_desc] in Hd. rewrite Ep in Hd. rewrite <- P2 in Hd. rewrite (find_id_of tree Hs pn P1) in Hd. apply orb_false_elim in Hd. destruct Hd as (_ & Hd).
    rewrite <- Hd. apply (desc_fuel tree next t I (S (l_id pn)) pn P1); [lia|specialize (B pn P1); lia|specialize (B n Hn); lia].
  Qed.

  (* marking a motion validated *)
  Definition sv (i : nat) (n : lnode) : lnode := if Nat.eqb (l_id n) i then mkL St (l_id n) (l_state n) (l_parent n) true else n.
  Lemma sv_fields i n : l_id (sv i n) = l_id n /\ l_state (sv i n) = l_state n /\ l_parent (sv i n) = l_parent n /\ (l_valid n = true -> l_valid (sv i n) = true).
  Proof. unfold sv. destruct (l_id n =? i)%nat; cbn; auto. Qed.
  Lemma set_valid_inv tree next n p pn : LInv tree next -> In n tree -> l_parent n = Some p -> In pn tree -> l_id pn = p -> mv (l_state pn) (l_state n) = true ->
    LInv (set_valid St (l_id n) tree) next.
  Proof.
    intros (Hs & B & N) Hn Hp Hpn Eid Hm. change (set_valid St (l_id n) tree) with (map (sv (l_id n)) tree).
    assert (Eids : ids (map (sv (l_id n)) tree) = ids tree). { unfold ids. rewrite map_map. apply map_ext. intros m. apply sv_fields. }
    split; [rewrite Eids; exact Hs|]. split; [intros m Hm'; apply in_map_iff in Hm'; destruct Hm' as (m0 & <- & H0); destruct (sv_fields (l_id n) m0) as (-> & _); apply B; exact H0|].
    intros m Hm'. apply in_map_iff in Hm'. destruct Hm' as (m0 & <- & H0). destruct (sv_fields (l_id n) m0) as (E1 & E2 & E3 & E4).
    pose proof (N m0 H0) as NO. unfold NodeOk in *. rewrite E3, E1, E2. destruct (l_parent m0) as [q|] eqn:Eq.
    - destruct NO as (A & qn & Q1 & Q2 & Q3). split; [exact A|]. exists (sv (l_id n) qn). destruct (sv_fields (l_id n) qn) as (F1 & F2 & _). split; [apply in_map; exact Q1|]. split; [rewrite F1; exact Q2|]. rewrite F2.
      intros Hv. unfold sv in Hv. destruct (Nat.eqb_spec (l_id m0) (l_id n)) as [Em|Nm]; [|apply Q3; exact Hv].
      assert (m0 = n) by (apply (sorted_unique tree Hs); assumption). subst m0. rewrite Hp in Eq. injection Eq as <-.
      assert (qn = pn) by (apply (sorted_unique tree Hs); [assumption|assumption|congruence]). subst qn. exact Hm.
    - destruct NO as (A & Bv). split; [exact A|apply E4; exact Bv].
  Qed.
  Lemma find_id_set_valid tree i j : StronglySorted lt (ids tree) -> find_id (set_valid St i tree) j = option_map (sv i) (find_id tree j).
  Proof.
    intros _. unfold LazyRrtModel.find_id, set_valid. change (fun n : lnode => if (l_id n =? i)%nat then mkL St (l_id n) (l_state n) (l_parent n) true else n) with (sv i).
    induction tree as [|x t IH]; [reflexivity|]. cbn [map find]. destruct (sv_fields i x) as (-> & _). destruct (l_id x =? j)%nat; [reflexivity|exact IH].
  Qed.

  (* the validation pass *)
  Definition same_frame (t1 t2 : list lnode) : Prop :=
    forall i n, find_id t1 i = Some n -> exists n2, find_id t2 i = Some n2 /\ l_state n2 = l_state n /\ l_parent n2 = l_parent n /\ (l_valid n = true -> l_valid n2 = true).
  Lemma same_frame_refl t : same_frame t t. Proof. intros i n H. exists n. auto. Qed.
  Lemma same_frame_trans a b c : same_frame a b -> same_frame b c -> same_frame a c.
  Proof. intros H1 H2 i n H. destruct (H1 i n H) as (n2 & A & B & C & Dv). destruct (H2 i n2 A) as (n3 & A' & B' & C' & D'). exists n3. split; [exact A'|]. split; [congruence|]. split; [congruence|auto]. Qed.
  Lemma validate_spec next fuel : (next <= fuel)%nat -> forall path tree, LInv tree next ->
    LInv (fst (validate St mv fuel tree path)) next /\
    (snd (validate St mv fuel tree path) = true -> same_frame tree (fst (validate St mv fuel tree path)) /\
       forall i, In i path -> exists n, find_id (fst (validate St mv fuel tree path)) i = Some n /\ l_valid n = true).
  Proof.
    intros Hf. induction path as [|i rest IH]; intros tree I; cbn [validate].
    - cbn [fst snd]. split; [exact I|]. intros _. split; [apply same_frame_refl|intros i []].
    - destruct (find_id tree i) as [n|] eqn:En; [|cbn [fst snd]; split; [exact I|discriminate]].
      assert (KEEP : forall t', LInv t' next -> same_frame tree t' -> (exists n', find_id t' i = Some n' /\ l_valid n' = true) ->
                LInv (fst (validate St mv fuel t' rest)) next /\ (snd (validate St mv fuel t' rest) = true -> same_frame tree (fst (validate St mv fuel t' rest)) /\
                  forall j, In j (i :: rest) -> exists m, find_id (fst (validate St mv fuel t' rest)) j = Some m /\ l_valid m = true)).
      { intros t' I' SF (n' & Fn' & Vn'). destruct (IH t' I') as (A & B). split; [exact A|]. intros Hok. destruct (B Hok) as (B1 & B2). split; [eapply same_frame_trans; eassumption|].
        intros j [<-|Hj]; [|apply B2; exact Hj]. destruct (B1 i n' Fn') as (m & M1 & _ & _ & M4). exists m. split; [exact M1|apply M4; exact Vn']. }
      destruct (l_valid n) eqn:Ev; [apply (KEEP tree I (same_frame_refl tree)); exists n; auto|].
      destruct (find_id_in tree i n En) as (Hn & Ei). pose proof I as (Hs & B & N). pose proof (N n Hn) as NO. unfold NodeOk in NO.
      destruct (l_parent n) as [p|] eqn:Ep; [|destruct NO as (_ & Bad); congruence].
      destruct NO as (_ & pn & P1 & P2 & _). rewrite <- P2. rewrite (find_id_of tree Hs pn P1).
      destruct (mv (l_state pn) (l_state n)) eqn:Em.
      + subst i. apply KEEP.
        * apply (set_valid_inv tree next n p pn I Hn Ep P1 P2 Em).
        * intros j m Hj. rewrite find_id_set_valid by exact Hs. rewrite Hj. cbn [option_map]. exists (sv (l_id n) m). destruct (sv_fields (l_id n) m) as (_ & F2 & F3 & F4). auto.
        * rewrite find_id_set_valid by exact Hs. rewrite En. cbn [option_map]. exists (sv (l_id n) n). split; [reflexivity|]. unfold sv. rewrite Nat.eqb_refl. reflexivity.
      + cbn [fst snd]. split; [apply remove_inv; assumption|discriminate].
  Qed.

  Definition HasRoot (t : list lnode) : Prop := exists r, In r t /\ l_parent r = None.
  Lemma validate_root next fuel : forall path tree, LInv tree next -> HasRoot tree -> HasRoot (fst (validate St mv fuel tree path)).
  Proof.
    induction path as [|i rest IH]; intros tree I HR; cbn [validate]; [exact HR|].
    destruct (find_id tree i) as [n|] eqn:En; [|exact HR]. destruct (l_valid n); [apply IH; assumption|].
    destruct (find_id_in tree i n En) as (Hn & Ei). pose proof I as (Hs & B & N). pose proof (N n Hn) as NO. unfold NodeOk in NO.
    destruct (l_parent n) as [p|] eqn:Ep; [|apply IH; assumption]. destruct NO as (_ & pn & P1 & P2 & _). rewrite <- P2. rewrite (find_id_of tree Hs pn P1).
    destruct (mv (l_state pn) (l_state n)) eqn:Em.
    - subst i. apply IH; [apply (set_valid_inv tree next n p pn I Hn Ep P1 P2 Em)|]. destruct HR as (r & R1 & R2). exists (sv (l_id n) r). split; [apply in_map; exact R1|]. destruct (sv_fields (l_id n) r) as (_ & _ & -> & _). exact R2.
    - cbn [fst]. destruct HR as (r & R1 & R2). exists r. split; [|exact R2]. unfold remove_subtree. apply filter_In. split; [exact R1|]. apply negb_true_iff.
      destruct fuel as [|f]; [reflexivity|]. cbn [is_desc]. rewrite R2, orb_false_r. apply Nat.eqb_neq. intros E. assert (r = n) by (apply (sorted_unique tree Hs); [assumption|assumption|congruence]). subst r. congruence.
  Qed.

  (* the identities from a root to a motion *)
  Lemma id_chain_spec tree next : LInv tree next -> forall fuel i n, find_id tree i = Some n -> (l_id n < fuel)%nat ->
    let c := id_chain St fuel tree i in
    c <> [] /\ last c 0%nat = i /\ (exists r, find_id tree (hd 0%nat c) = Some r /\ l_parent r = None) /\
    consecutive (fun a b => exists nb, find_id tree b = Some nb /\ l_parent nb = Some a) c /\ (forall j, In j c -> exists m, find_id tree j = Some m).
  Proof.
    intros I. pose proof I as (Hs & B & N). induction fuel as [|f IH]; intros i n En Hf; [lia|]. cbn [id_chain]. rewrite En.
    destruct (find_id_in tree i n En) as (Hn & Ei). pose proof (N n Hn) as NO. unfold NodeOk in NO. destruct (l_parent n) as [p|] eqn:Ep.
    - destruct NO as (Hp & pn & P1 & P2 & _). assert (Fp : find_id tree p = Some pn) by (rewrite <- P2; apply find_id_of; assumption).
      destruct (IH p pn Fp ltac:(lia)) as (C1 & C2 & C3 & C4 & C5). cbn zeta. set (c := id_chain St f tree p) in *.
      split; [destruct c; discriminate|]. split; [apply last_last|]. split; [destruct c; [congruence|exact C3]|]. split.
      + clear - C1 C2 C4 En Ep. revert C1 C2 C4. generalize c. induction c0 as [|a t IHt]; intros C1 C2 C4; [congruence|]. destruct t as [|b t'].
        * cbn in *. subst a. split; [exists n; auto|exact Logic.I].
        * change (consecutive (fun a b => exists nb, find_id tree b = Some nb /\ l_parent nb = Some a) (a :: b :: (t' ++ [i]))). destruct C4 as (Hab & Hr). split; [exact Hab|]. apply IHt; [discriminate|exact C2|exact Hr].
      + intros j Hj. apply in_app_or in Hj. destruct Hj as [Hj|[<-|[]]]; [apply C5; exact Hj|exists n; exact En].
    - cbn. split; [discriminate|]. split; [reflexivity|]. split; [exists n; auto|]. split; [exact Logic.I|]. intros j [<-|[]]. exists n. exact En.
  Qed.

  Notation nearest := (nearest St D dist dlt).
  Lemma nearest_from_lt : forall t q j best bd, (best < j)%nat -> (nearest_from St D dist dlt t q j best bd < j + length t)%nat.
  Proof. induction t as [|n t IH]; intros q j best bd H; cbn [nearest_from length]; [lia|]. destruct (dlt (dist (l_state n) q) bd); [specialize (IH q (S j) j (dist (l_state n) q) ltac:(lia))|specialize (IH q (S j) best bd ltac:(lia))]; lia. Qed.
  Lemma nearest_lt tree q : tree <> [] -> (nearest tree q < length tree)%nat.
  Proof. destruct tree as [|n t]; [congruence|]. intros _. cbn [LazyRrtModel.nearest length]. pose proof (nearest_from_lt t q 1 0 (dist (l_state n) q) ltac:(lia)). lia. Qed.
  Lemma consecutive_map {A B} (R : B -> B -> Prop) (f : A -> B) : forall l : list A, consecutive (fun a b => R (f a) (f b)) l -> consecutive R (map f l).
  Proof. induction l as [|a t IH]; intros C; [exact Logic.I|]. destruct t as [|b t']; [exact Logic.I|]. destruct C as (Hab & Hr). cbn [map]. split; [exact Hab|]. apply IH. exact Hr. Qed.
  Lemma consecutive_weaken_in {A} (R R' : A -> A -> Prop) : forall l : list A, (forall a b, In a l -> In b l -> R a b -> R' a b) -> consecutive R l -> consecutive R' l.
  Proof.
    induction l as [|a t IH]; intros H C; [exact Logic.I|]. destruct t as [|b t']; [exact Logic.I|]. destruct C as (Hab & Hr).
    split; [apply H; [left; reflexivity|right; left; reflexivity|exact Hab]|]. apply IH; [intros x y Hx Hy; apply H; right; assumption|exact Hr].
  Qed.

  Definition PathOk (path : list St) : Prop :=
    path <> [] /\ In (hd dflt path) starts /\ consecutive (fun a b => mv a b = true) path /\ sat (last path dflt) = true.
  Definition SInv (s : lst St D) : Prop :=
    LInv (ls_tree St D s) (ls_next St D s) /\ HasRoot (ls_tree St D s) /\ forall path dd, ls_sol St D s = Some (path, dd) -> PathOk path.
  Lemma step_inv s r : SInv s -> SInv (lazy_step St D dist dlt steer mv sat gdist dflt s r).
  Proof.
    intros (I & HR & _). unfold lazy_step. set (tree := ls_tree St D s) in *. set (id := ls_next St D s) in *.
    assert (Hne : tree <> []) by (destruct HR as (r0 & R1 & _); destruct tree; [destruct R1|discriminate]).
    set (nn := nth (nearest tree r) tree (ldflt St dflt)). assert (Hnn : In nn tree) by (apply nth_In; apply nearest_lt; exact Hne).
    set (d := steer (l_state nn) r). set (new := mkL St id d (Some (l_id nn)) false). set (tree1 := tree ++ [new]).
    assert (I1 : LInv tree1 (S id)) by (apply LInv_snoc; assumption).
    assert (HR1 : HasRoot tree1) by (destruct HR as (r0 & R1 & R2); exists r0; split; [apply in_or_app; left; exact R1|exact R2]).
    destruct (sat d) eqn:Es; [|split; [exact I1|split; [exact HR1|intros path dd H; discriminate]]].
    pose proof I1 as (Hs1 & B1 & N1).
    assert (Fnew : find_id tree1 id = Some new) by (change id with (l_id new); apply find_id_of; [exact Hs1|apply in_or_app; right; left; reflexivity]).
    destruct (id_chain_spec tree1 (S id) I1 (S id) id new Fnew ltac:(cbn; lia)) as (C1 & C2 & (rt & C3 & C3') & C4 & C5). set (c := id_chain St (S id) tree1 id) in *.
    destruct (validate_spec (S id) (S (S id)) ltac:(lia) c tree1 I1) as (I2 & V). pose proof (validate_root (S id) (S (S id)) c tree1 I1 HR1) as HR2.
    destruct (validate St mv (S (S id)) tree1 c) as [tree2 ok] eqn:Ev. cbn [fst snd] in I2, V, HR2.
    destruct ok; [|split; [exact I2|split; [exact HR2|intros path dd H; discriminate]]].
    split; [exact I2|]. split; [exact HR2|]. intros path dd H. cbn [ls_sol] in H. injection H as <- _.
    destruct (V eq_refl) as (SF & AV). pose proof I2 as (Hs2 & B2 & N2).
    set (f := fun i : nat => match find_id tree2 i with Some n => l_state n | None => dflt end).
    split; [destruct c; [congruence|discriminate]|]. split; [|split].
    - destruct c as [|a t]; [congruence|]. cbn [map hd] in *. destruct (SF a rt C3) as (r2 & R1 & R2 & R3 & _). unfold f. rewrite R1.
      destruct (find_id_in tree2 a r2 R1) as (Hr2 & _). pose proof (N2 r2 Hr2) as NO. unfold NodeOk in NO. rewrite R3, C3' in NO. apply NO.
    - apply consecutive_map. apply (consecutive_weaken_in (fun a b => exists nb, find_id tree1 b = Some nb /\ l_parent nb = Some a)); [|exact C4].
      intros a b Ha Hb (nb & Fb & Pb). destruct (SF b nb Fb) as (nb2 & F2 & S2 & P2 & _). destruct (AV b Hb) as (nb2' & F2' & V2). rewrite F2 in F2'. injection F2' as <-.
      destruct (find_id_in tree2 b nb2 F2) as (Hnb2 & _). pose proof (N2 nb2 Hnb2) as NO. unfold NodeOk in NO. rewrite P2, Pb in NO. destruct NO as (_ & pn & Q1 & Q2 & Q3).
      unfold f. rewrite F2. rewrite <- Q2. rewrite (find_id_of tree2 Hs2 pn Q1). apply Q3. exact V2.
    - assert (EL : last (map f c) dflt = f (last c 0%nat)). { clear - C1. induction c as [|a t IH]; [congruence|]. destruct t as [|b t']; [reflexivity|]. change (last (map f (b :: t')) dflt = f (last (b :: t') 0%nat)). apply IH. discriminate. }
      rewrite EL, C2. destruct (SF id new Fnew) as (n2 & F2 & S2 & _). unfold f. rewrite F2, S2. exact Es.
  Qed.
  Lemma loop_inv : forall hits samples s, SInv s -> SInv (lazy_loop St D dist dlt steer mv sat gdist goal_state dflt s hits samples).
  Proof.
    induction hits as [|h hs IH]; intros samples s I; cbn [lazy_loop]; [destruct (ls_sol St D s); exact I|].
    destruct (ls_sol St D s); [exact I|]. destruct h; apply IH; apply step_inv; exact I.
  Qed.
  Lemma roots_inv : forall l k, (forall x, In x l -> In x starts) -> LInv (roots St l k) (k + length l).
  Proof.
    induction l as [|x t IH]; intros k Hin; cbn [roots length].
    - split; [constructor|]. split; intros n [].
    - destruct (IH (S k) (fun y Hy => Hin y (or_intror Hy))) as (Hs & B & N). replace (k + S (length t))%nat with (S k + length t)%nat by lia. split; [|split].
      + cbn [ids map LazyRrtModel.l_id]. constructor; [exact Hs|]. rewrite Forall_forall. intros y Hy. unfold ids in Hy. apply in_map_iff in Hy. destruct Hy as (m & <- & Hm).
        clear - Hm. revert k Hm. induction t as [|z t' IHt]; intros k Hm; [destruct Hm|]. cbn [roots] in Hm. destruct Hm as [<-|Hm]; [cbn; lia|]. specialize (IHt (S k) Hm). lia.
      + intros n [<-|Hn]; [cbn; lia|apply B; exact Hn].
      + intros n [<-|Hn]; [unfold NodeOk; cbn; split; [apply Hin; left; reflexivity|reflexivity]|].
        specialize (N n Hn). unfold NodeOk in *. destruct (l_parent n) as [p|]; [|exact N]. destruct N as (A & pn & P1 & P2 & P3). split; [exact A|]. exists pn. split; [right; exact P1|auto].
  Qed.
  (* what solve() reports *)
  Theorem lazy_solve_spec hits samples : forall path dd,
    ls_sol St D (lazy_solve St D dist dlt steer mv sat gdist goal_state dflt starts hits samples) = Some (path, dd) -> PathOk path.
  Proof.
    intros path dd. unfold lazy_solve. destruct starts as [|s0 st] eqn:Es; [discriminate|]. rewrite <- Es.
    assert (I0 : SInv (mkLS St D (roots St starts 0) (length starts) None)).
    { split; [apply (roots_inv starts 0); auto|]. split; [rewrite Es; cbn [roots]; eexists; split; [left; reflexivity|reflexivity]|intros p d H; discriminate]. }
    intros H. apply (loop_inv hits samples _ I0) in H. exact H.
  Qed.
End LazyP.
