(* ConstraintRun.v — the binary64 instance of ConstraintModel run against /repo: ambient R^3, the plane constraint
   x2 = 0 (Newton projection is exact: x2 := 0 when |x2| exceeds the tolerance), box-shaped invalid region. *)
From Coq Require Import List Floats Bool.
From OmplV Require Import ConstraintModel SpacesModel SpacesFloat.
Import ListNotations.
Local Open Scope float_scope.

Definition FlG : garith := mkGA float 0 PrimFloat.add PrimFloat.mul PrimFloat.div PrimFloat.leb PrimFloat.ltb 0x1p-52.
Definition vdist (a b : list float) : float := rv_distance FlA a b.
Definition vinterp (a b : list float) (t : float) : list float := rv_interp FlA a b t.
(* Constraint::project for f(x) = x2 with tolerance tol: Newton's step J^+ f = (0, 0, x2) *)
Definition plane_project (tol : float) (x : list float) : option (list float) :=
  match x with
  | [a; b; c] => let n := c * c in let t2 := tol * tol in
                 if t2 <? n then Some [a; b; c - c] else if n <? t2 then Some x else None
  | _ => None
  end.
(* the validity predicate of the driver: outside the slab 0.4 < x0 < 0.45, x1 < 0.5 *)
Definition box_valid (x : list float) : bool :=
  match x with a :: b :: _ => negb ((0.4 <? a) && (a <? 0.45) && (b <? 0.5)) | _ => true end.
Definition geo_run (tol delta lambda : float) (ipol : bool) (from to : list float) : bool * list (list float) :=
  discrete_geodesic FlG (list float) vdist vinterp (plane_project tol) box_valid delta lambda 100000 ipol from to.
(* ConstrainedStateSpace::interpolate(from, to, t): the geodesic (interpolate = true) vertex closest to fraction t, or
   `from' when the traversal fails; [] stands for an access outside the geodesic *)
Definition interp_run (tol delta lambda : float) (from to : list float) (t : float) : list float :=
  match constrained_interpolate FlG (list float) vdist PrimFloat.sub PrimFloat.abs 1 (geo_run tol delta lambda true from to) from t with
  | Some s => s
  | None => []
  end.
