(* Properties_C12.v — property C12 (weighted sampling follows the current weights) over the model of
   src/ompl/datastructures/PDF.h.  Statements only. *)
From Coq Require Import List Arith Reals Floats.
From OmplV Require Import PdfModel PdfShape PdfReal PdfFloat RrtModel EstModel EstWeights.
Import ListNotations.

(* for EVERY arithmetic (in particular IEEE doubles with all their rounding): every reachable state has
   consistent handles (index_ = position, unique), a leaf row as long as data_, and the canonical row shape *)
Theorem C12_structure_reachable :
  forall (A : arith) (ops : list (op A)) (p : pdf A), pdf_run A (empty A) ops = Some p -> SInv A p.
Proof. intros A ops p. exact (sinv_reachable A ops (empty A) p (sinv_empty A)). Qed.

(* ... and therefore the repaired sample() never reads outside a row or outside data_ *)
Theorem C12_sample_never_out_of_bounds :
  forall (A : arith) (ops : list (op A)) (p : pdf A) (r one : T A),
    pdf_run A (empty A) ops = Some p -> pdf_sample A r one p <> SOob.
Proof. exact sample_never_oob. Qed.

(* over the reals: after any history every row is the row of pairwise sums of the one below *)
Theorem C12_sum_tree_reachable :
  forall (ops : list (op Re)) (p : pdf Re), pdf_run Re (empty Re) ops = Some p -> RInv p.
Proof. intros ops p. exact (rinv_reachable ops (empty Re) p rinv_empty). Qed.

(* sample(r) returns the element whose cumulative-weight interval, in storage order, contains r * total *)
Theorem C12_sample_selects_prefix_interval :
  forall (p : pdf Re) (r : R), RInv p -> data p <> [] -> (0 < r <= 1)%R -> (0 < total p)%R ->
    exists id i, pdf_sample Re r 1%R p = SId id /\ nth_error (data p) i = Some (id, i) /\
                 (prefix (leaves p) i < r * total p <= prefix (leaves p) (S i))%R.
Proof. exact sample_selects_prefix_interval. Qed.

Theorem C12_zero_weight_never_drawn :
  forall (p : pdf Re) (r : R) id i, RInv p -> data p <> [] -> (0 < r <= 1)%R -> (0 < total p)%R ->
    pdf_sample Re r 1%R p = SId id -> nth_error (data p) i = Some (id, i) -> nth i (leaves p) 0%R <> 0%R.
Proof. exact zero_weight_never_drawn. Qed.

(* the two sampling statements composed with reachability: for EVERY pdf that any finite sequence of
   add/update/remove/clear calls builds from the empty one (no RInv hypothesis left) *)
Theorem C12_reachable_sample_selects_prefix_interval :
  forall (ops : list (op Re)) (p : pdf Re) (r : R),
    pdf_run Re (empty Re) ops = Some p -> data p <> [] -> (0 < r <= 1)%R -> (0 < total p)%R ->
    exists id i, pdf_sample Re r 1%R p = SId id /\ nth_error (data p) i = Some (id, i) /\
                 (prefix (leaves p) i < r * total p <= prefix (leaves p) (S i))%R.
Proof. intros ops p r H. exact (C12_sample_selects_prefix_interval p r (C12_sum_tree_reachable ops p H)). Qed.

Theorem C12_reachable_zero_weight_never_drawn :
  forall (ops : list (op Re)) (p : pdf Re) (r : R) id i,
    pdf_run Re (empty Re) ops = Some p -> data p <> [] -> (0 < r <= 1)%R -> (0 < total p)%R ->
    pdf_sample Re r 1%R p = SId id -> nth_error (data p) i = Some (id, i) -> nth i (leaves p) 0%R <> 0%R.
Proof. intros ops p r id i H. exact (C12_zero_weight_never_drawn p r id i (C12_sum_tree_reachable ops p H)). Qed.

(* ---- the structure inside a planner: geometric::EST (EST.cpp is one of the property's anchors) keeps one PDF element per motion;
   addMotion divides every neighbour's weight w into w / (w + 1) and adds the new motion with 1 / (#neighbours + 1).  Over the reals,
   for every symmetric distance, start set, iteration count, variate tape and sampler: after solve() the structure satisfies the
   sum-tree invariant and the weight of motion j is exactly 1 / (1 + number of other motions within the neighbourhood radius) *)
Theorem C12_est_weights_are_inverse_neighbourhood_counts :
  forall (St : Type) (dist : St -> St -> R) mv sat gdist (goal_state dflt : St) (radius goal_bias : R),
  (forall a b, dist a b = dist b a) ->
  forall starts iters tape samples, starts <> nil ->
  let res := est_solve Re 1%R Rdiv Rleb INR St dist mv sat gdist goal_state dflt radius goal_bias starts iters tape samples in
  exists (tree : list (tnode St)) (pf : pdf Re),
    fst (fst res) = map (fun n => (fst n, option_map fst (snd n))) tree /\ snd res = leaves pf /\ WInv St dist dflt radius tree pf.
Proof. exact est_weights. Qed.
(* and whenever the weights are in that state (they are, before every iteration), pdf_.sample(r) returns the motion whose interval
   of cumulated weights contains r times the total: EST expands a motion with probability proportional to 1 / (1 + neighbours) *)
Theorem C12_est_selection_rule :
  forall (St : Type) (dist : St -> St -> R) (mv : St -> St -> bool) (sat : St -> bool) (gdist : St -> R) (dflt : St) (radius : R),
  (forall a b, dist a b = dist b a) ->
  forall (tree : list (tnode St)) (p : pdf Re) (r : R),
  WInv St dist dflt radius tree p -> tree <> nil -> (0 < r <= 1)%R ->
  exists i, pdf_sample Re r 1%R p = SId i /\ i < length tree /\
            (prefix (leaves p) i < r * total p <= prefix (leaves p) (S i))%R /\
            forall j, j < length tree -> nth j (leaves p) 0%R = (/ (1 + INR (others St dist dflt radius tree j)))%R.
Proof. exact est_selection_rule. Qed.

Print Assumptions C12_est_weights_are_inverse_neighbourhood_counts.
Print Assumptions C12_est_selection_rule.
Print Assumptions C12_structure_reachable.
Print Assumptions C12_sample_never_out_of_bounds.
Print Assumptions C12_sum_tree_reachable.
Print Assumptions C12_sample_selects_prefix_interval.
Print Assumptions C12_zero_weight_never_drawn.

(* the defect at the pinned commit, exhibited on the binary64 instance: rounding makes the stored head
   (1e16 + 2) exceed left + right, and sample(1.0) steps onto a right sibling that does not exist *)
Example C12_sample_orig_oob_refuted :
  frun0 [fadd 0 1e16%float; fadd 1 1%float; fadd 2 1.5%float; FSampleOrig 1%float; FSample 1%float]
  = [OState [0] [[1e16%float]];
     OState [0; 1] [[1e16%float; 1%float]; [1e16%float]];
     OState [0; 1; 2] [[1e16%float; 1%float; 1.5%float]; [1e16%float; 1.5%float]; [10000000000000002%float]];
     OSample SOob; OSample (SId 2)].
Proof. vm_compute. reflexivity. Qed.
(* non-vacuity: a reachable binary64 state after additions, an update and a removal with the sibling special case *)
Example C12_nonvacuous :
  exists p, pdf_run Fl (empty Fl) [@PAdd Fl 0 1%float; @PAdd Fl 1 2%float; @PAdd Fl 2 3%float; @PAdd Fl 3 0%float; @PUpd Fl 1 5%float; @PRem Fl 2] = Some p
            /\ map fst (data p) = [0; 1; 3] /\ rows p = [[1%float; 5%float; 0%float]; [6%float; 0%float]; [6%float]].
Proof. eexists. split; [vm_compute; reflexivity|]. split; reflexivity. Qed.
Print Assumptions C12_reachable_sample_selects_prefix_interval.
Print Assumptions C12_reachable_zero_weight_never_drawn.
