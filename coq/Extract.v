(* Extract.v — extraction of the executable models to OCaml (ExtrOcamlBasic only:
   bool, option, list, prod, unit, sumbool map to OCaml's; nat, positive, Z, N stay
   the extracted inductives).  Compiled from build/model, not part of the proof build. *)
From Coq Require Import ExtrOcamlBasic List ZArith.
From OmplV Require Import HeapModel MotionModel PtcModel SeedModel SolModel GridModel NNModel CodecModel VssModel LedgerModel PisModel PathModel ControlModel PhsModel GnatModel CopyModel EitModel GnatFullModel RrtModel RrtConnectModel LazyRrtModel LpaModel.
Extraction Language OCaml.
Extraction "model.ml" HeapModel.step HeapModel.run HeapModel.pop_all_e HeapModel.sort_keys HeapModel.find_pos
  MotionModel.check_lin MotionModel.check_bis MotionModel.check_bis_nocount MotionModel.check_states MotionModel.states_lin
  PtcModel.eval PtcModel.terminate PtcModel.poll PtcModel.upd_env PtcModel.run
  SeedModel.set_seed SeedModel.next_seed SeedModel.sg_init SeedModel.local_seeds
  SolModel.sol_add SolModel.slt SolModel.rank
  GridModel.gridn_add GridModel.gridn_remove GridModel.gridb_add GridModel.gridb_remove GridModel.gridb_update GridModel.components
  GridModel.neighbors GridModel.has GridModel.top_internal GridModel.top_external GridModel.gb_empty GridModel.upd_cell
  NNModel.lin_remove NNModel.lin_nearest NNModel.nearestK NNModel.nearestR NNModel.sqrt_nearest NNModel.inv_ok_root NNModel.elems
  NNModel.pruned_by_range NNModel.pruned_by_radius Z.abs
  GnatModel.gnat_nearestK GnatModel.gnat_nearestR
  CopyModel.copy_state_data
  EitModel.call_tests EitModel.call_performed EitModel.call_whitelists EitModel.order
  RrtModel.rrt_solve RrtModel.rrt_calls RrtModel.rlrt_solve RrtModel.crrt_run RrtModel.crrti_run RrtConnectModel.rc_solve RrtConnectModel.rc_solves RrtConnectModel.c_ts RrtConnectModel.c_tg LazyRrtModel.lazy_solve LpaModel.lpa_init LpaModel.op_insert LpaModel.op_remove LpaModel.has_edge LpaModel.shortest_path
  GnatFullModel.gf_add GnatFullModel.gf_add_list GnatFullModel.gf_remove GnatFullModel.gf_clear GnatFullModel.gf_empty
  CodecModel.serialize CodecModel.deserialize CodecModel.wf CodecModel.to_reals CodecModel.from_reals CodecModel.signature CodecModel.ser_len CodecModel.sdim
  CodecModel.store_states CodecModel.load_states CodecModel.store_pd CodecModel.load_pd CodecModel.mark_start CodecModel.mark_goal CodecModel.add_vertex
  CodecModel.vtype CodecModel.pd_empty CodecModel.binary_search CodecModel.leaf_kinds
  VssModel.vss_run
  PhsModel.rejection_sample PhsModel.rejection_sample_minmax PhsModel.direct_sample PhsModel.direct_sample_minmax
  ControlModel.pwv_run ControlModel.dcs_run ControlModel.cadjudicate
  PathModel.interp_counts PathModel.total_states PathModel.subdivide_counts PathModel.rv_run PathModel.cc_run
  PisModel.qstep PisModel.qrun PisModel.drain_starts
  LedgerModel.adjudicate LedgerModel.admissible LedgerModel.report_path LedgerModel.extend
  Z.ltb Z.modulo Z.of_nat Z.to_nat Z.add Z.sub Z.mul Z.div Z.eqb Z.leb Nat.add.
