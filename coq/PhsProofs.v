(* PhsProofs.v — the sphere maps onto the surface whose focal sum is the transverse diameter, the ball maps inside;
   informed sampler loops report success only with a sample that meets the cost bounds (and the space bounds). *)
From Coq Require Import List ZArith Bool Arith Reals Lra Lia Psatz.
From OmplV Require Import PhsModel.
Import ListNotations.
Local Open Scope R_scope.

Lemma r2_sq : forall c f, 0 <= f -> 2 * f <= c -> r2 c f * r2 c f = r1 c * r1 c - f * f.
Proof.
  intros c f Hf Hc. unfold r2, r1.
  assert (H : 0 <= c * c - 2 * f * (2 * f)) by nra.
  replace (sqrt (c * c - 2 * f * (2 * f)) / 2 * (sqrt (c * c - 2 * f * (2 * f)) / 2)) with (sqrt (c * c - 2 * f * (2 * f)) * sqrt (c * c - 2 * f * (2 * f)) / 4) by field.
  rewrite sqrt_sqrt by exact H. field.
Qed.

(* squared distance to a focus of the image of (u1, w), in terms of the "reduced" distance r1 -+ f u1 *)
Lemma dist_sq_le : forall c f u1 w s, 0 <= f -> 2 * f <= c -> u1 * u1 + w * w <= 1 -> (s = 1 \/ s = -1) ->
  (r1 c * u1 - s * f) * (r1 c * u1 - s * f) + (r2 c f * w) * (r2 c f * w) <= (r1 c - s * f * u1) * (r1 c - s * f * u1).
Proof.
  intros c f u1 w s Hf Hc Hu Hs.
  replace ((r2 c f * w) * (r2 c f * w)) with ((r2 c f * r2 c f) * (w * w)) by ring. rewrite (r2_sq c f Hf Hc).
  assert (Hr : f <= r1 c) by (unfold r1; lra).
  assert (H0 : 0 <= r1 c * r1 c - f * f) by nra.
  assert (Hw : w * w <= 1 - u1 * u1) by lra.
  assert (Hm : (r1 c * r1 c - f * f) * (w * w) <= (r1 c * r1 c - f * f) * (1 - u1 * u1)) by (apply Rmult_le_compat_l; assumption).
  destruct Hs as [-> | ->]; nra.
Qed.
Lemma dist_sq_eq : forall c f u1 w s, 0 <= f -> 2 * f <= c -> u1 * u1 + w * w = 1 -> (s = 1 \/ s = -1) ->
  (r1 c * u1 - s * f) * (r1 c * u1 - s * f) + (r2 c f * w) * (r2 c f * w) = (r1 c - s * f * u1) * (r1 c - s * f * u1).
Proof.
  intros c f u1 w s Hf Hc Hu Hs.
  replace ((r2 c f * w) * (r2 c f * w)) with ((r2 c f * r2 c f) * (w * w)) by ring. rewrite (r2_sq c f Hf Hc).
  replace (w * w) with (1 - u1 * u1) by lra. destruct Hs as [-> | ->]; ring.
Qed.
Lemma reduced_nonneg : forall c f u1 w s, 0 <= f -> 2 * f <= c -> u1 * u1 + w * w <= 1 -> (s = 1 \/ s = -1) -> 0 <= r1 c - s * f * u1.
Proof.
  intros c f u1 w s Hf Hc Hu Hs. assert (Hr : f <= r1 c) by (unfold r1; lra).
  assert (Hu1 : -1 <= u1 <= 1) by (split; nra).
  destruct Hs as [-> | ->]; nra.
Qed.

(* points of the unit sphere map to points whose summed focal distance equals the transverse diameter *)
Theorem sphere_maps_onto_focal_sum : forall c f u1 w, 0 <= f -> 2 * f <= c -> u1 * u1 + w * w = 1 ->
  focal_sum f (r1 c * u1) (r2 c f * w) = c.
Proof.
  intros c f u1 w Hf Hc Hu. unfold focal_sum.
  pose proof (dist_sq_eq c f u1 w 1 Hf Hc Hu (or_introl eq_refl)) as E1.
  pose proof (dist_sq_eq c f u1 w (-1) Hf Hc Hu (or_intror eq_refl)) as E2.
  replace (r1 c * u1 - f) with (r1 c * u1 - 1 * f) by ring. rewrite E1.
  replace (r1 c * u1 + f) with (r1 c * u1 - -1 * f) by ring. rewrite E2.
  rewrite !sqrt_square.
  - unfold r1. field.
  - apply (reduced_nonneg c f u1 w (-1)); auto; lra.
  - apply (reduced_nonneg c f u1 w 1); auto; lra.
Qed.
(* points of the unit ball map inside (focal sum at most the transverse diameter): every direct sample has a
   heuristic cost no larger than the bound *)
Theorem ball_maps_inside : forall c f u1 w, 0 <= f -> 2 * f <= c -> u1 * u1 + w * w <= 1 ->
  focal_sum f (r1 c * u1) (r2 c f * w) <= c.
Proof.
  intros c f u1 w Hf Hc Hu. unfold focal_sum.
  pose proof (dist_sq_le c f u1 w 1 Hf Hc Hu (or_introl eq_refl)) as E1.
  pose proof (dist_sq_le c f u1 w (-1) Hf Hc Hu (or_intror eq_refl)) as E2.
  pose proof (reduced_nonneg c f u1 w 1 Hf Hc Hu (or_introl eq_refl)) as N1.
  pose proof (reduced_nonneg c f u1 w (-1) Hf Hc Hu (or_intror eq_refl)) as N2.
  replace (r1 c * u1 - f) with (r1 c * u1 - 1 * f) by ring.
  replace (r1 c * u1 + f) with (r1 c * u1 - -1 * f) by ring.
  apply sqrt_le_1_alt in E1. apply sqrt_le_1_alt in E2. rewrite sqrt_square in E1 by exact N1. rewrite sqrt_square in E2 by exact N2.
  unfold r1 in *. lra.
Qed.
(* the measure is the unit-ball measure scaled by the determinant of diag(r1, r2, ..., r2); unit-ball recurrence *)
Theorem phs_measure_is_scaled_ball : forall n c f, phs_measure n c f = fold_right Rmult 1 (r1 c :: repeat (r2 c f) (n - 1)) * unit_ball n.
Proof.
  intros n c f. unfold phs_measure. f_equal. cbn [fold_right]. f_equal.
  induction (n - 1)%nat as [|k IH]; [reflexivity|]. cbn [repeat fold_right pow]. rewrite IH. reflexivity.
Qed.
Theorem unit_ball_values : unit_ball 2 = PI /\ unit_ball 3 = 4 / 3 * PI /\ unit_ball 4 = PI * PI / 2.
Proof. cbn [unit_ball INR]. repeat split; field. Qed.

Local Open Scope Z_scope.
(* ---- loops *)
Lemma rej_loop_spec : forall maxc fuel it numit last tape x it' t,
  rej_loop maxc fuel it numit last tape = (true, Some x, it', t) -> cd_cost x < maxc /\ In x tape /\ (it < it' <= numit)%nat.
Proof.
  intros maxc fuel. induction fuel as [|k IH]; intros it numit last tape x it' t H; cbn [rej_loop] in H; [discriminate|].
  destruct (Nat.ltb_spec it numit) as [Hlt|]; [|discriminate].
  destruct tape as [|y tl]; [discriminate|].
  destruct (Z.ltb_spec (cd_cost y) maxc) as [Hc|Hc].
  - inversion H; subst. split; [exact Hc|]. split; [left; reflexivity | lia].
  - apply IH in H. destruct H as [H1 [H2 H3]]. split; [exact H1|]. split; [right; exact H2 | lia].
Qed.
Lemma rej_loop_true_some : forall maxc fuel it numit last tape l it' t, rej_loop maxc fuel it numit last tape = (true, l, it', t) -> exists x, l = Some x.
Proof.
  intros maxc fuel. induction fuel as [|k IH]; intros it numit last tape l it' t H; cbn [rej_loop] in H; [discriminate|].
  destruct (Nat.ltb it numit); [|discriminate]. destruct tape as [|y tl]; [discriminate|].
  destruct (cd_cost y <? maxc); [inversion H; eexists; reflexivity | eapply IH; exact H].
Qed.
Lemma phs_loop_spec : forall fuel it numit last tape x it' t,
  phs_loop fuel it numit last tape = (true, Some x, it', t) -> cd_inb x = true /\ cd_keep x = true /\ In x tape /\ (it < it' <= numit)%nat.
Proof.
  induction fuel as [|k IH]; intros it numit last tape x it' t H; cbn [phs_loop] in H; [discriminate|].
  destruct (Nat.ltb_spec it numit) as [Hlt|]; [|discriminate].
  destruct tape as [|y tl]; [discriminate|].
  destruct (cd_keep y) eqn:Ek.
  - destruct (cd_inb y) eqn:Ei.
    + inversion H; subst. split; [exact Ei|]. split; [exact Ek|]. split; [left; reflexivity | lia].
    + apply IH in H. destruct H as [H1 [H2 [H3 H4]]]. split; [exact H1|]. split; [exact H2|]. split; [right; exact H3 | lia].
  - apply IH in H. destruct H as [H1 [H2 [H3 H4]]]. split; [exact H1|]. split; [exact H2|]. split; [right; exact H3 | lia].
Qed.

(* the rejection sampler: success comes with a sample whose heuristic cost is strictly below the bound *)
Theorem rejection_sample_success : forall maxc numit tape x it t,
  rejection_sample maxc numit tape = (true, Some x, it, t) -> cd_cost x < maxc /\ In x tape /\ (it <= numit)%nat.
Proof. intros maxc numit tape x it t H. apply rej_loop_spec in H. destruct H as [H1 [H2 H3]]. split; [exact H1|]. split; [exact H2 | lia]. Qed.
(* the direct sampler: success comes with a kept sample whose full state is within the bounds *)
Theorem direct_sample_success : forall numit tape x it t,
  direct_sample numit tape = (true, Some x, it, t) -> cd_inb x = true /\ In x tape /\ (it <= numit)%nat.
Proof. intros numit tape x it t H. apply phs_loop_spec in H. destruct H as [H1 [_ [H2 H3]]]. split; [exact H1|]. split; [exact H2 | lia]. Qed.

(* the two-bound variants: success additionally guarantees the lower bound *)
Lemma minmax_success : forall inner minc fuel i numit last tape x,
  minmax_loop inner minc fuel i numit last tape = (true, Some x) -> minc <= cd_cost x /\
  exists i0 l0 t0 i' t', inner i0 l0 t0 = (true, Some x, i', t').
Proof.
  intros inner minc fuel. induction fuel as [|k IH]; intros i numit last tape x H; cbn [minmax_loop] in H; [discriminate|].
  destruct (Nat.ltb i numit); [|discriminate].
  destruct (inner i last tape) as [[[found l] i'] t] eqn:E.
  destruct l as [y|].
  - destruct (found && (minc <=? cd_cost y)) eqn:Ef.
    + inversion H; subst. apply andb_prop in Ef. destruct Ef as [Ef1 Ef2]. subst found. apply Z.leb_le in Ef2.
      split; [exact Ef2|]. exists i, last, tape, i', t. exact E.
    + apply IH in H. exact H.
  - apply IH in H. exact H.
Qed.
Theorem rejection_sample_minmax_success : forall minc maxc numit tape x,
  rejection_sample_minmax minc maxc numit tape = (true, Some x) -> minc <= cd_cost x < maxc.
Proof.
  intros minc maxc numit tape x H. apply minmax_success in H. destruct H as [H1 [i0 [l0 [t0 [i' [t' H2]]]]]].
  apply rej_loop_spec in H2. lia.
Qed.
Theorem direct_sample_minmax_success : forall minc numit tape x,
  direct_sample_minmax minc numit tape = (true, Some x) -> minc <= cd_cost x /\ cd_inb x = true.
Proof.
  intros minc numit tape x H. apply minmax_success in H. destruct H as [H1 [i0 [l0 [t0 [i' [t' H2]]]]]].
  apply phs_loop_spec in H2. tauto.
Qed.
