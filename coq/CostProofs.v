(* CostProofs.v — CostModel over R: what the computed path costs are, and the bounds C04 states for them. *)
From Coq Require Import List Reals Lra Bool.
From OmplV Require Import SpacesModel SpacesReal SolProofs CostModel.
Import ListNotations.
Local Open Scope R_scope.

(* the arithmetic record over R (floor / fmod are not used by CostModel) *)
Definition RA : farith := mkFA R 0 2 (/ 2) Rplus Rminus Rmult sqrt Rabs (fun x => x) (fun x _ => x) Rltb Rleb PI 1.

Section CostR.
  Variable S : Type.
  Variable d : S -> S -> R.
  Hypothesis d_nonneg : forall x y, 0 <= d x y.
  Notation pt := (pt RA S).

  Lemma fold_length : forall (t : list pt) (s0 : pt) (c : R),
    snd (fold_left (fun (acc : pt * F RA) (s : pt) => (s, fadd RA (snd acc) (d (fst (fst acc)) (fst s)))) t (s0, c)) = c + plen S d (fst s0 :: map fst t).
  Proof.
    induction t as [|s t IH]; intros s0 c; cbn [fold_left map snd fst].
    - cbn [plen]. lra.
    - rewrite IH. cbn [fst snd fadd RA]. change (plen S d (fst s0 :: fst s :: map fst t)) with (d (fst s0) (fst s) + plen S d (fst s :: map fst t)). lra.
  Qed.
  (* the path-length objective's cost of a path is its length *)
  Theorem cost_length_is_length (p : list pt) : cost_length RA S d p = plen S d (map fst p).
  Proof.
    unfold cost_length, path_cost. destruct p as [|s0 t]; [reflexivity|]. pose proof (fold_length t s0 (f0 RA)) as FL.
    cbn [F f0 fadd RA map] in *. unfold pt, CostModel.pt in *. cbn [F RA] in *. rewrite FL. lra.
  Qed.

  (* state-cost integral: never below (smallest state cost) x (path length) *)
  Lemma fold_integral cmin : 0 <= cmin -> forall (t : list pt) (s0 : pt) (c : R),
    cmin <= snd s0 -> Forall (fun s => cmin <= snd s) t ->
    c + cmin * plen S d (fst s0 :: map fst t) <=
    snd (fold_left (fun (acc : pt * F RA) (s : pt) => (s, fadd RA (snd acc) (trapezoid RA (snd (fst acc)) (snd s) (d (fst (fst acc)) (fst s))))) t (s0, c)).
  Proof.
    intros Hc. induction t as [|s t IH]; intros s0 c H0 Ht; cbn [fold_left map snd fst].
    - cbn [plen]. lra.
    - inversion Ht as [|? ? Hs Ht']; subst. eapply Rle_trans; [|apply IH; assumption].
      change (plen S d (fst s0 :: fst s :: map fst t)) with (d (fst s0) (fst s) + plen S d (fst s :: map fst t)).
      unfold trapezoid. cbn [F fhalf fmul fadd RA fst snd] in *. pose proof (d_nonneg (fst s0) (fst s)) as Hd.
      assert (cmin * d (fst s0) (fst s) <= / 2 * d (fst s0) (fst s) * (snd s0 + snd s)).
      { replace (cmin * d (fst s0) (fst s)) with (/ 2 * d (fst s0) (fst s) * (cmin + cmin)) by field.
        change (F RA) with R in *. apply Rmult_le_compat_l; [|lra]. apply Rmult_le_pos; lra. }
      change (F RA) with R in *. lra.
  Qed.
  Theorem cost_integral_lower_bound cmin (p : list pt) : 0 <= cmin -> Forall (fun s => cmin <= snd s) p ->
    cmin * plen S d (map fst p) <= cost_integral RA S d p.
  Proof.
    intros Hc Hp. unfold cost_integral, path_cost. destruct p as [|s0 t]; [cbn [map plen F f0 RA]; lra|].
    inversion Hp as [|? ? H0 Ht]; subst.
    pose proof (fold_integral cmin Hc t s0 (f0 RA) H0 Ht) as H. cbn [F f0 fadd RA map] in *. lra.
  Qed.
  (* mechanical work: never below the net climb of the state cost plus weight x path length — in a metric space never
     below max(c(last) - c(first), 0) + weight x direct distance, the admissible bound for a query *)
  Lemma fold_work w : 0 <= w -> forall (t : list pt) (s0 : pt) (c : R),
    let r := snd (fold_left (fun (acc : pt * F RA) (s : pt) => (s, fadd RA (snd acc) (work_motion RA S d w (fst acc) s))) t (s0, c)) in
    c + w * plen S d (fst s0 :: map fst t) <= r /\ c + (snd (last t s0) - snd s0) + w * plen S d (fst s0 :: map fst t) <= r.
  Proof.
    intros Hw. induction t as [|s t IH]; intros s0 c; cbn [fold_left map snd fst].
    - cbn [plen last]. split; lra.
    - specialize (IH s (fadd RA c (work_motion RA S d w s0 s))). cbv zeta in IH.
      assert (L : last (s :: t) s0 = last t s) by (clear; revert s; induction t as [|c t' IHt]; intros s; [reflexivity|]; cbn [last] in *; destruct t'; auto).
      rewrite L. clear L.
      assert (M : work_motion RA S d w s0 s = (if Rltb (snd s - snd s0) 0 then 0 else snd s - snd s0) + w * d (fst s0) (fst s)) by reflexivity.
      change (plen S d (fst s0 :: fst s :: map fst t)) with (d (fst s0) (fst s) + plen S d (fst s :: map fst t)).
      pose proof (d_nonneg (fst s0) (fst s)) as Hd.
      destruct IH as (I1 & I2).
      assert (E1 : c + w * (d (fst s0) (fst s) + plen S d (fst s :: map fst t)) <= fadd RA c (work_motion RA S d w s0 s) + w * plen S d (fst s :: map fst t)).
      { rewrite M. cbn [F fadd RA]. change (F RA) with R in *. match goal with |- context [Rltb ?a ?b] => destruct (Rltb_spec a b) end; cbv iota; nra. }
      assert (E2 : c + (snd (last t s) - snd s0) + w * (d (fst s0) (fst s) + plen S d (fst s :: map fst t)) <= fadd RA c (work_motion RA S d w s0 s) + (snd (last t s) - snd s) + w * plen S d (fst s :: map fst t)).
      { rewrite M. cbn [F fadd RA]. change (F RA) with R in *. match goal with |- context [Rltb ?a ?b] => destruct (Rltb_spec a b) end; cbv iota; nra. }
      split; [eapply Rle_trans; [exact E1|exact I1]|eapply Rle_trans; [exact E2|exact I2]].
  Qed.
  Theorem cost_work_lower_bounds w (p : list pt) (s0 : pt) : 0 <= w ->
    w * plen S d (map fst (s0 :: p)) <= cost_work RA S d w (s0 :: p) /\
    (snd (last p s0) - snd s0) + w * plen S d (map fst (s0 :: p)) <= cost_work RA S d w (s0 :: p).
  Proof.
    intros Hw. unfold cost_work, path_cost. pose proof (fold_work w Hw p s0 (f0 RA)) as H. cbv zeta in H.
    cbn [F f0 fadd RA map] in *. change (F RA) with R in *. destruct H as (H1 & H2). split; lra.
  Qed.
End CostR.
(* ---- the weighted multi-objective: the cost of a path is the weighted sum of its costs under the components ---- *)
Section MultiR.
  Variable S : Type.
  Variable d : S -> S -> R.
  Notation pt := (pt RA S).
  (* an additive path cost is the sum of the motion costs *)
  Fixpoint psum (m : pt -> pt -> R) (p : list pt) : R :=
    match p with a :: ((b :: _) as t) => m a b + psum m t | _ => 0 end.
  Lemma fold_psum m : forall (t : list pt) (s0 : pt) (c : R),
    snd (fold_left (fun (acc : pt * F RA) (s : pt) => (s, fadd RA (snd acc) (m (fst acc) s))) t (s0, c)) = c + psum m (s0 :: t).
  Proof.
    induction t as [|s t IH]; intros s0 c; cbn [fold_left snd fst].
    - cbn [psum]. lra.
    - rewrite IH. cbn [fadd RA fst snd]. change (psum m (s0 :: s :: t)) with (m s0 s + psum m (s :: t)). lra.
  Qed.
  Lemma path_cost_psum m (p : list pt) : path_cost RA S (f0 RA) (fadd RA) m p = psum m p.
  Proof.
    unfold path_cost. destruct p as [|s0 t]; [reflexivity|]. rewrite fold_psum. cbn [F f0 fadd RA]. lra.
  Qed.
  Definition lin (comps : list (R * (pt -> pt -> R))) (a b : pt) : R := fold_right (fun k acc => fst k * snd k a b + acc) 0 comps.
  Lemma multi_motion_lin : forall comps a b, multi_motion RA S comps a b = lin comps a b.
  Proof.
    intros comps a b. unfold multi_motion.
    assert (G : forall l c, fold_left (fun (c : F RA) (k : F RA * (pt -> pt -> F RA)) => fadd RA c (fmul RA (fst k) (snd k a b))) l c = c + lin l a b).
    { induction l as [|k t IH]; intros c; cbn [fold_left]; [unfold lin; cbn [fold_right]; lra|]. rewrite IH.
      change (lin (k :: t) a b) with (fst k * snd k a b + lin t a b). cbn [fadd fmul RA]. change (F RA) with R in *. lra. }
    rewrite G. cbn [f0 RA]. lra.
  Qed.
  Lemma psum_ext m1 m2 : (forall a b, m1 a b = m2 a b) -> forall p, psum m1 p = psum m2 p.
  Proof. intros H p. induction p as [|a t IH]; [reflexivity|]. destruct t as [|b r]; [reflexivity|]. change (m1 a b + psum m1 (b :: r) = m2 a b + psum m2 (b :: r)). rewrite H, IH. reflexivity. Qed.
  Lemma psum_lin : forall comps p, psum (lin comps) p = fold_right (fun k acc => fst k * psum (snd k) p + acc) 0 comps.
  Proof.
    induction comps as [|k t IH]; intros p.
    - cbn [fold_right]. induction p as [|a r IHp]; [reflexivity|]. destruct r as [|b r']; [reflexivity|].
      change (lin [] a b + psum (lin []) (b :: r') = 0). rewrite IHp. unfold lin. cbn [fold_right]. lra.
    - cbn [fold_right]. rewrite <- IH. clear IH. induction p as [|a r IHp]; [cbn [psum]; lra|]. destruct r as [|b r']; [cbn [psum]; lra|].
      change (lin (k :: t) a b + psum (lin (k :: t)) (b :: r') = fst k * (snd k a b + psum (snd k) (b :: r')) + (lin t a b + psum (lin t) (b :: r'))).
      rewrite IHp. change (lin (k :: t) a b) with (fst k * snd k a b + lin t a b). lra.
  Qed.
  (* MultiOptimizationObjective: the cost of a path is the weighted sum of the costs the components give it *)
  Theorem cost_multi_is_weighted_sum (comps : list (R * (pt -> pt -> R))) (p : list pt) :
    cost_multi RA S comps p = fold_right (fun k acc => fst k * path_cost RA S (f0 RA) (fadd RA) (snd k) p + acc) 0 comps.
  Proof.
    unfold cost_multi. rewrite path_cost_psum. rewrite (psum_ext _ (lin comps) (multi_motion_lin comps)). rewrite psum_lin.
    induction comps as [|k t IH]; cbn [fold_right]; [reflexivity|]. rewrite IH, path_cost_psum. reflexivity.
  Qed.
  (* the combination exercised by the cost driver: w1 x path length + w2 x state-cost integral *)
  Corollary cost_length_plus_integral w1 w2 (p : list pt) :
    cost_multi RA S [(w1, length_motion RA S d); (w2, integral_motion RA S d)] p = w1 * cost_length RA S d p + w2 * cost_integral RA S d p.
  Proof. rewrite cost_multi_is_weighted_sum. cbn [fold_right fst snd]. unfold cost_length, cost_integral, length_motion, integral_motion. lra. Qed.
End MultiR.
Section WorkMetric.
  Variable S : Type.
  Variable d : S -> S -> R.
  Hypothesis d_refl : forall x, d x x = 0.
  Hypothesis d_tri : forall x y z, d x z <= d x y + d y z.
  Hypothesis d_nonneg : forall x y, 0 <= d x y.
  Lemma last_map_fst : forall (p : list (pt RA S)) (s0 : pt RA S), last (map fst p) (fst s0) = fst (last p s0).
  Proof. induction p as [|a t IH]; intros s0; [reflexivity|]. cbn [map]. destruct t as [|b t']; [reflexivity|]. change (last (fst a :: map fst (b :: t')) (fst s0)) with (last (map fst (b :: t')) (fst s0)). change (last (a :: b :: t') s0) with (last (b :: t') s0). apply IH. Qed.
  Theorem cost_work_admissible_bound w (p : list (pt RA S)) (s0 : pt RA S) : 0 <= w ->
    Rmax (snd (last p s0) - snd s0) 0 + w * d (fst s0) (fst (last p s0)) <= cost_work RA S d w (s0 :: p).
  Proof.
    intros Hw. destruct (cost_work_lower_bounds S d d_nonneg w p s0 Hw) as (H1 & H2).
    pose proof (plen_ge_direct S d d_refl d_tri (map fst p) (fst s0)) as G. rewrite last_map_fst in G. cbn [map] in H1, H2.
    assert (W : w * d (fst s0) (fst (last p s0)) <= w * plen S d (fst s0 :: map fst p)) by (apply Rmult_le_compat_l; assumption).
    unfold Rmax. destruct (Rle_dec (snd (last p s0) - snd s0) 0); lra.
  Qed.
End WorkMetric.
(* the motion cost of mechanical work depends on the direction: between a state of cost 0 and a state of cost 1 at distance 1,
   climbing costs 1 + w and descending costs w — isSymmetric() has to answer false for this objective *)
Lemma work_motion_not_symmetric : forall w, work_motion RA unit (fun _ _ => 1) w (tt, 0) (tt, 1) <> work_motion RA unit (fun _ _ => 1) w (tt, 1) (tt, 0).
Proof.
  intros w. unfold work_motion, fmax. cbn [F f0 fsub fmul fadd flt RA fst snd].
  destruct (Rltb_spec (1 - 0) 0); destruct (Rltb_spec (0 - 1) 0); cbv iota; lra.
Qed.

(* ---- minimax objectives: the path cost is the worst evaluated state cost (or the identity) ---- *)
Section MinimaxR.
  Variable le : R -> R -> Prop.                     (* "at most as bad as" *)
  Hypothesis le_refl : forall x, le x x.
  Hypothesis le_trans : forall x y z, le x y -> le y z -> le x z.
  Variable better : R -> R -> bool.
  Hypothesis better_spec : forall a b, better a b = true <-> ~ le b a.
  Hypothesis le_total : forall a b, le a b \/ le b a.
  Variable ident : R.
  Notation worse_of := (worse_of RA better).

  Hypothesis le_dec : forall a b, {le a b} + {~ le a b}.
  Lemma worse_ub a b : le a (worse_of a b) /\ le b (worse_of a b) /\ (worse_of a b = a \/ worse_of a b = b).
  Proof.
    unfold worse_of. destruct (better a b) eqn:B.
    - apply better_spec in B. split; [destruct (le_total a b); [assumption|contradiction]|]. split; [apply le_refl|auto].
    - split; [apply le_refl|]. split; [|auto]. destruct (le_dec b a) as [H|H]; [exact H|].
      apply better_spec in H. congruence.
  Qed.
  Lemma fold_worse_ub : forall (l : list R) (c0 : R),
    le c0 (fold_left worse_of l c0) /\ (forall c, In c l -> le c (fold_left worse_of l c0)) /\
    (fold_left worse_of l c0 = c0 \/ In (fold_left worse_of l c0) l).
  Proof.
    induction l as [|x t IH]; intros c0; cbn [fold_left].
    - split; [apply le_refl|]. split; [intros c []|auto].
    - destruct (worse_ub c0 x) as (U1 & U2 & U3). destruct (IH (worse_of c0 x)) as (I1 & I2 & I3).
      split; [eapply le_trans; eassumption|]. split.
      + intros c [<-|Hc]; [eapply le_trans; eassumption|apply I2; exact Hc].
      + destruct I3 as [E|Hin]; [|right; right; exact Hin]. rewrite E. destruct U3 as [->| ->]; [left; reflexivity|right; left; reflexivity].
  Qed.
  (* a motion's cost is the worst of the state costs evaluated along it, the first state included *)
  Theorem mm_motion_is_worst (evals : list R) : evals <> [] ->
    (forall c, In c evals -> le c (mm_motion RA better ident evals)) /\ In (mm_motion RA better ident evals) evals.
  Proof.
    destruct evals as [|c0 t]; [congruence|]. intros _. cbn [mm_motion]. destruct (fold_worse_ub t c0) as (I1 & I2 & I3). split.
    - intros c [<-|Hc]; [exact I1|apply I2; exact Hc].
    - destruct I3 as [E|Hin]; [left; symmetry; exact E|right; exact Hin].
  Qed.
  (* the path's cost is the worst of the identity and every state cost evaluated along any of its motions *)
  Theorem mm_path_is_worst (motions : list (list R)) : Forall (fun ev => ev <> []) motions ->
    le ident (mm_path RA better ident motions) /\
    (forall ev c, In ev motions -> In c ev -> le c (mm_path RA better ident motions)) /\
    (mm_path RA better ident motions = ident \/ exists ev, In ev motions /\ In (mm_path RA better ident motions) ev).
  Proof.
    intros NE. destruct motions as [|m0 mt]; [cbn [mm_path]; split; [apply le_refl|split; [intros ? ? []|auto]]|].
    set (ms := m0 :: mt) in *. unfold mm_path. fold ms. change (match ms with [] => ident | _ :: _ => ?x end) with x.
    assert (G : forall (l : list (list R)) (c0 : R), Forall (fun ev => ev <> []) l ->
              le c0 (fold_left (fun c ev => worse_of c (mm_motion RA better ident ev)) l c0) /\
              (forall ev c, In ev l -> In c ev -> le c (fold_left (fun c ev => worse_of c (mm_motion RA better ident ev)) l c0)) /\
              (fold_left (fun c ev => worse_of c (mm_motion RA better ident ev)) l c0 = c0 \/
               exists ev, In ev l /\ In (fold_left (fun c ev => worse_of c (mm_motion RA better ident ev)) l c0) ev)).
    { induction l as [|ev t IH]; intros c0 Hl; cbn [fold_left].
      - split; [apply le_refl|]. split; [intros ? ? []|auto].
      - inversion Hl as [|? ? Hev Ht]; subst. destruct (mm_motion_is_worst ev Hev) as (M1 & M2).
        destruct (worse_ub c0 (mm_motion RA better ident ev)) as (U1 & U2 & U3).
        destruct (IH (worse_of c0 (mm_motion RA better ident ev)) Ht) as (I1 & I2 & I3).
        split; [eapply le_trans; eassumption|]. split.
        + intros ev' c [<-|He] Hc; [eapply le_trans; [apply M1; exact Hc|]; eapply le_trans; eassumption|apply (I2 ev' c He Hc)].
        + destruct I3 as [E|(ev' & He' & Hin)]; [|right; exists ev'; split; [right; exact He'|exact Hin]].
          rewrite E. destruct U3 as [->| ->]; [left; reflexivity|right; exists ev; split; [left; reflexivity|exact M2]]. }
    destruct (G ms ident NE) as (G1 & G2 & G3).
    set (v := fold_left (fun c ev => worse_of c (mm_motion RA better ident ev)) ms ident) in *.
    destruct (worse_ub v ident) as (U1 & U2 & U3).
    split; [exact U2|]. split.
    - intros ev c He Hc. eapply le_trans; [apply (G2 ev c He Hc)|exact U1].
    - destruct U3 as [->| ->]; [|left; reflexivity]. destruct G3 as [->|G3]; [left; reflexivity|right; exact G3].
  Qed.
End MinimaxR.

(* the two shipped instances *)
Definition better_min (a b : R) : bool := Rltb a b.          (* MinimaxObjective: smaller is better *)
Definition better_max (a b : R) : bool := Rltb b a.          (* MaximizeMinClearanceObjective: larger is better *)
Theorem minimax_path_cost_is_max ident motions : Forall (fun ev => ev <> []) motions ->
  ident <= mm_path RA better_min ident motions /\
  (forall ev c, In ev motions -> In c ev -> c <= mm_path RA better_min ident motions) /\
  (mm_path RA better_min ident motions = ident \/ exists ev, In ev motions /\ In (mm_path RA better_min ident motions) ev).
Proof.
  apply (mm_path_is_worst Rle Rle_refl Rle_trans better_min).
  - intros a b. unfold better_min. destruct (Rltb_spec a b); split; intros; try lra; try discriminate; try reflexivity; exfalso; lra.
  - intros a b. lra.
  - intros a b. destruct (Rle_dec a b); [left|right]; assumption.
Qed.
Theorem clearance_path_cost_is_min ident motions : Forall (fun ev => ev <> []) motions ->
  mm_path RA better_max ident motions <= ident /\
  (forall ev c, In ev motions -> In c ev -> mm_path RA better_max ident motions <= c) /\
  (mm_path RA better_max ident motions = ident \/ exists ev, In ev motions /\ In (mm_path RA better_max ident motions) ev).
Proof.
  apply (mm_path_is_worst (fun x y => y <= x) (fun x => Rle_refl x) (fun x y z H1 H2 => Rle_trans _ _ _ H2 H1) better_max).
  - intros a b. unfold better_max. destruct (Rltb_spec b a); split; intros; try lra; try discriminate; try reflexivity; exfalso; lra.
  - intros a b. lra.
  - intros a b. destruct (Rle_dec b a); [left|right]; assumption.
Qed.
