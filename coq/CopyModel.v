(* CopyModel.v — executable model of ompl::base::copyStateData(destS, dest, sourceS, source) (src/ompl/base/src/StateSpace.cpp):
   the partial copy between related (compound) state spaces, which matches subspaces by name.  Definitions only.
   Spaces are trees of named nodes (leaf spaces and compound spaces), states are trees of the same shape with one value
   per leaf space (the value stands for the whole content of that leaf's state: copyState copies it as a unit). *)
From Coq Require Import List ZArith Bool Arith.
Import ListNotations.

Inductive nsp := NLeaf (name : nat) | NComp (name : nat) (subs : list nsp).
Inductive nst := VLeafS (v : Z) | VCompS (cs : list nst).
Definition sname (s : nsp) : nat := match s with NLeaf n => n | NComp n _ => n end.
Inductive cres := CNone | CSome | CAll.        (* NO_DATA_COPIED / SOME_DATA_COPIED / ALL_DATA_COPIED *)

Fixpoint find_named (n : nat) (subs : list nsp) : option nat :=
  match subs with
  | [] => None
  | s :: t => if sname s =? n then Some O else option_map S (find_named n t)
  end.
Fixpoint set_nth {A} (i : nat) (x : A) (l : list A) : list A :=
  match l, i with
  | [], _ => []
  | _ :: t, O => x :: t
  | a :: t, S j => a :: set_nth j x t
  end.

Section Copy.
  (* the recursive call with one unit less fuel *)
  Variable rec : nsp -> nst -> nsp -> nst -> cres * nst.

  (* for (i over dest's subspaces) { res = copyStateData(sub_i, comp_i, sourceS, source); if (res != NO) result = SOME;
     if (res == ALL) return ALL; } : returns (result, components, returned-early) *)
  Fixpoint dest_loop (dsubs : list nsp) (dcomps : list nst) (srcS : nsp) (src : nst) (result : cres) : cres * list nst * bool :=
    match dsubs, dcomps with
    | s :: st, c :: ct =>
      let '(r, c') := rec s c srcS src in
      match r with
      | CAll => (CAll, c' :: ct, true)
      | CSome => let '(r2, ct', e) := dest_loop st ct srcS src CSome in (r2, c' :: ct', e)
      | CNone => let '(r2, ct', e) := dest_loop st ct srcS src result in (r2, c' :: ct', e)
      end
    | _, _ => (result, dcomps, false)
    end.
  (* for (i over source's subspaces) { res = copyStateData(destS, dest, sub_i, comp_i); count ALL; if (res != NO) result = SOME; } *)
  Fixpoint src_loop (destS : nsp) (dest : nst) (ssubs : list nsp) (scomps : list nst) (result : cres) (copied : nat) : cres * nst * nat :=
    match ssubs, scomps with
    | s :: st, c :: ct =>
      let '(r, dest') := rec destS dest s c in
      src_loop destS dest' st ct (match r with CNone => result | _ => CSome end) (match r with CAll => S copied | _ => copied end)
    | _, _ => (result, dest, copied)
    end.

  Definition copy_step (destS : nsp) (dest : nst) (srcS : nsp) (src : nst) : cres * nst :=
    if sname destS =? sname srcS then (CAll, src)                         (* same space: copyState *)
    else
      let '(r1, dest1, done) :=
        match destS, dest with
        | NComp _ dsubs, VCompS dcomps =>
          match find_named (sname srcS) dsubs with
          | Some i => (CAll, VCompS (set_nth i src dcomps), true)           (* a subspace of dest is the source space *)
          | None => let '(r, cs, e) := dest_loop dsubs dcomps srcS src CNone in (r, VCompS cs, e)
          end
        | _, _ => (CNone, dest, false)
        end in
      if done then (CAll, dest1)
      else
        match srcS, src with
        | NComp _ ssubs, VCompS scomps =>
          let '(r2, dest2, copied) := src_loop destS dest1 ssubs scomps r1 O in
          (if copied =? length ssubs then CAll else r2, dest2)
        | _, _ => (r1, dest1)
        end.
End Copy.

Fixpoint copy_data (fuel : nat) (destS : nsp) (dest : nst) (srcS : nsp) (src : nst) : cres * nst :=
  match fuel with
  | O => (CNone, dest)
  | S f => copy_step (copy_data f) destS dest srcS src
  end.

Fixpoint ssize (s : nsp) : nat := match s with NLeaf _ => 1 | NComp _ subs => S (fold_right (fun c a => ssize c + a) O subs) end.
Definition copy_state_data (destS : nsp) (dest : nst) (srcS : nsp) (src : nst) : cres * nst :=
  copy_data (ssize destS + ssize srcS) destS dest srcS src.
