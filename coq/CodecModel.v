(* CodecModel.v — executable model of state serialization (StateSpace::serialize / deserialize for nested compound
   spaces, copyToReals / copyFromReals), of the archive framing of StateStorage / PlannerDataStorage (as tokens;
   boost's byte format is not modelled) and of PlannerData's start/goal bookkeeping.  Definitions only. *)
From Coq Require Import List ZArith Bool Arith.
Import ListNotations.
Local Open Scope Z_scope.

(* a stored scalar: a double as its 64-bit pattern (8 bytes, copied verbatim) or a 32-bit int (4 bytes) *)
Inductive cell := CD (bits : Z) | CI (v : Z).
Definition is_double (c : cell) : bool := match c with CD _ => true | CI _ => false end.
Definition cell_len (c : cell) : nat := match c with CD _ => 8 | CI _ => 4 end.

Inductive space := SReal (n : nat) | SSO2 | SSO3 | STime | SDiscrete | SComp (subs : list space).
Inductive state := VLeaf (cells : list cell) | VComp (subs : list state).

(* number and kind of scalars of a leaf: true = double *)
Definition leaf_kinds (sp : space) : list bool :=
  match sp with
  | SReal n => repeat true n | SSO2 => [true] | SSO3 => [true; true; true; true] | STime => [true]
  | SDiscrete => [false] | SComp _ => []
  end.

Fixpoint serialize (st : state) : list cell :=
  match st with VLeaf cs => cs | VComp subs => flat_map serialize subs end.

Fixpoint take_kinds (ks : list bool) (l : list cell) : option (list cell * list cell) :=
  match ks with
  | [] => Some ([], l)
  | k :: kt => match l with
               | c :: lt => if Bool.eqb (is_double c) k then
                              match take_kinds kt lt with Some (cs, r) => Some (c :: cs, r) | None => None end
                            else None
               | [] => None
               end
  end.

Fixpoint deserialize (sp : space) (l : list cell) : option (state * list cell) :=
  match sp with
  | SComp subs =>
    match (fix go (ss : list space) (l : list cell) : option (list state * list cell) :=
             match ss with
             | [] => Some ([], l)
             | s :: t => match deserialize s l with
                         | Some (v, l') => match go t l' with Some (vs, l'') => Some (v :: vs, l'') | None => None end
                         | None => None
                         end
             end) subs l with
    | Some (vs, l') => Some (VComp vs, l')
    | None => None
    end
  | leaf => match take_kinds (leaf_kinds leaf) l with Some (cs, r) => Some (VLeaf cs, r) | None => None end
  end.

Fixpoint ser_len (sp : space) : nat :=
  match sp with
  | SComp subs => fold_right (fun s acc => (ser_len s + acc)%nat) 0%nat subs
  | leaf => fold_right (fun (k : bool) (acc : nat) => ((if k then 8 else 4) + acc)%nat) 0%nat (leaf_kinds leaf)
  end.
Definition bytes_of (cs : list cell) : nat := fold_right (fun c acc => (cell_len c + acc)%nat) 0%nat cs.

(* well-typed states *)
Fixpoint wf (sp : space) (st : state) : bool :=
  match sp, st with
  | SComp subs, VComp vs =>
    (fix go (ss : list space) (vs : list state) : bool :=
       match ss, vs with
       | [], [] => true
       | s :: st', v :: vt => wf s v && go st' vt
       | _, _ => false
       end) subs vs
  | SComp _, VLeaf _ => false
  | _, VComp _ => false
  | leaf, VLeaf cs => match take_kinds (leaf_kinds leaf) cs with Some (_, []) => true | _ => false end
  end.

(* copyToReals / copyFromReals: the doubles of the state in storage order (discrete components have no slot) *)
Definition to_reals (st : state) : list Z :=
  flat_map (fun c => match c with CD b => [b] | CI _ => [] end) (serialize st).
Fixpoint put_reals (cs : list cell) (rs : list Z) : list cell * list Z :=
  match cs with
  | [] => ([], rs)
  | CD b :: t => match rs with
                 | r :: rt => let '(t', rs') := put_reals t rt in (CD r :: t', rs')
                 | [] => let '(t', rs') := put_reals t [] in (CD b :: t', rs')
                 end
  | CI v :: t => let '(t', rs') := put_reals t rs in (CI v :: t', rs')
  end.
Fixpoint from_reals (st : state) (rs : list Z) : state * list Z :=
  match st with
  | VLeaf cs => let '(cs', rs') := put_reals cs rs in (VLeaf cs', rs')
  | VComp subs =>
    let '(vs, rs') := (fix go (vs : list state) (rs : list Z) : list state * list Z :=
                         match vs with
                         | [] => ([], rs)
                         | v :: t => let '(v', r1) := from_reals v rs in let '(t', r2) := go t r1 in (v' :: t', r2)
                         end) subs rs in (VComp vs, rs')
  end.

(* StateSpace::computeSignature: space type codes and dimensions, prefixed with the count *)
Fixpoint sdim (sp : space) : nat :=
  match sp with
  | SReal n => n | SSO2 => 1 | SSO3 => 3 | STime => 1 | SDiscrete => 1
  | SComp subs => fold_right (fun s acc => (sdim s + acc)%nat) 0%nat subs
  end.
Fixpoint sig_body (sp : space) : list Z :=
  match sp with
  | SReal n => [1; Z.of_nat n] | SSO2 => [2; 1] | SSO3 => [3; 3] | STime => [6; 1] | SDiscrete => [7; 1]
  | SComp subs => 0 :: Z.of_nat (sdim (SComp subs)) :: flat_map sig_body subs
  end.
Definition signature (sp : space) : list Z := let b := sig_body sp in Z.of_nat (length b) :: b.

(* ---- archives as token streams ---- *)
Inductive tok := TMarker (m : Z) | TCount (n : nat) | TSig (sig : list Z) | TBlob (cells : list cell)
               | TVertex (tag : Z) (cells : list cell) (vtype : Z) | TEdge (u v : nat) (w : Z).
Definition STATE_MARKER : Z := 1280331087.      (* 0x4C504D4F "OMPL" *)

Definition store_states (sp : space) (states : list state) : list tok :=
  [TMarker STATE_MARKER; TCount (length states); TSig (signature sp)] ++ map (fun s => TBlob (serialize s)) states.

Inductive lres (A : Type) := LOk (a : A) | LErr.    (* LErr = load reported failure (and, for StateStorage, holds no states) *)
Arguments LOk {A}. Arguments LErr {A}.
Fixpoint sig_eqb (a b : list Z) : bool :=
  match a, b with [], [] => true | x :: a', y :: b' => (x =? y) && sig_eqb a' b' | _, _ => false end.
Fixpoint load_blobs (sp : space) (n : nat) (l : list tok) : lres (list state) :=
  match n with
  | O => LOk []
  | S k => match l with
           | TBlob cs :: t => match deserialize sp cs with
                              | Some (st, []) => match load_blobs sp k t with LOk r => LOk (st :: r) | LErr => LErr end
                              | _ => LErr
                              end
           | _ => LErr        (* stream ended / wrong record: archive exception *)
           end
  end.
Definition load_states (sp : space) (l : list tok) : lres (list state) :=
  match l with
  | TMarker m :: TCount n :: TSig sg :: rest =>
    if negb (m =? STATE_MARKER) then LErr else if negb (sig_eqb sg (signature sp)) then LErr else load_blobs sp n rest
  | _ => LErr
  end.

(* ---- PlannerData: vertices with tags, start / goal index vectors kept sorted for binary search ---- *)
Fixpoint insert_sorted (x : nat) (l : list nat) : list nat :=
  match l with [] => [x] | y :: t => if (x <=? y)%nat then x :: l else y :: insert_sorted x t end.
Fixpoint sort_nat (l : list nat) : list nat := match l with [] => [] | x :: t => insert_sorted x (sort_nat t) end.
(* std::binary_search on a vector: lower_bound by halving, then equality *)
Fixpoint lower_bound (fuel : nat) (v : list nat) (first count x : nat) : nat :=
  match fuel with
  | O => first
  | S f => if (count =? 0)%nat then first else
           let step := Nat.div count 2 in
           let mid := (first + step)%nat in
           if (nth mid v 0%nat <? x)%nat then lower_bound f v (S mid) (count - step - 1)%nat x
           else lower_bound f v first step x
  end.
Definition binary_search (v : list nat) (x : nat) : bool :=
  let i := lower_bound (S (length v)) v 0 (length v) x in
  (i <? length v)%nat && (nth i v 0%nat =? x)%nat.

Record pdata := mkPD { verts : list (Z * list cell); edges : list (nat * nat * Z); starts : list nat; goals : list nat }.
Definition pd_empty : pdata := mkPD [] [] [] [].
Definition mark_start (i : nat) (g : pdata) : pdata :=
  if binary_search (starts g) i then g else mkPD (verts g) (edges g) (sort_nat (starts g ++ [i])) (goals g).
(* repaired: the goal vector is the one that is sorted *)
Definition mark_goal (i : nat) (g : pdata) : pdata :=
  if binary_search (goals g) i then g else mkPD (verts g) (edges g) (starts g) (sort_nat (goals g ++ [i])).
(* as it stood at the pinned commit: the start vector was sorted instead *)
Definition mark_goal_orig (i : nat) (g : pdata) : pdata :=
  if binary_search (goals g) i then g else mkPD (verts g) (edges g) (sort_nat (starts g)) (goals g ++ [i]).
Definition add_vertex (tag : Z) (cs : list cell) (g : pdata) : pdata := mkPD (verts g ++ [(tag, cs)]) (edges g) (starts g) (goals g).

Definition vtype (g : pdata) (i : nat) : Z :=
  if binary_search (starts g) i then 1 else if binary_search (goals g) i then 2 else 0.
Definition PD_MARKER : Z := 1196314761.
Definition store_pd (sp : space) (g : pdata) : list tok :=
  [TMarker PD_MARKER; TCount (length (verts g)); TCount (length (edges g)); TSig (signature sp)]
  ++ map (fun iv => TVertex (fst (snd iv)) (snd (snd iv)) (vtype g (fst iv))) (combine (seq 0 (length (verts g))) (verts g))
  ++ map (fun e => TEdge (fst (fst e)) (snd (fst e)) (snd e)) (edges g).
Fixpoint load_verts (sp : space) (n : nat) (l : list tok) (g : pdata) : lres (pdata * list tok) :=
  match n with
  | O => LOk (g, l)
  | S k => match l with
           | TVertex tag cs ty :: t =>
             match deserialize sp cs with
             | Some (_, []) =>
               let i := length (verts g) in
               let g1 := add_vertex tag cs g in
               let g2 := if ty =? 1 then mark_start i g1 else if ty =? 2 then mark_goal i g1 else g1 in
               load_verts sp k t g2
             | _ => LErr
             end
           | _ => LErr
           end
  end.
Fixpoint load_edges (n : nat) (l : list tok) (g : pdata) : lres pdata :=
  match n with
  | O => LOk g
  | S k => match l with
           | TEdge u v w :: t => load_edges k t (mkPD (verts g) (edges g ++ [(u, v, w)]) (starts g) (goals g))
           | _ => LErr
           end
  end.
Definition load_pd (sp : space) (l : list tok) : lres pdata :=
  match l with
  | TMarker m :: TCount nv :: TCount ne :: TSig sg :: rest =>
    if negb (m =? PD_MARKER) then LErr else if negb (sig_eqb sg (signature sp)) then LErr
    else match load_verts sp nv rest pd_empty with
         | LOk (g, rest') => load_edges ne rest' g
         | LErr => LErr
         end
  | _ => LErr
  end.
