(* ControlProofs.v — what propagateWhileValid returns, and that a path assembled from its results replays exactly *)
From Coq Require Import List ZArith Bool Arith Lia.
From OmplV Require Import ControlModel.
Import ListNotations.

Section ControlP.
  Variables St C : Type.
  Variable stepf : C -> St -> St.
  Variable valid : St -> bool.
  Notation iter := (iter St C stepf).
  Notation pwv := (pwv St C stepf valid).
  Notation pwv_loop := (pwv_loop St C stepf valid).

  Lemma iter_S_out : forall c n s, iter c (S n) s = stepf c (iter c n s).
  Proof. intros c n. induction n as [|k IH]; intros s; [reflexivity|]. change (iter c (S (S k)) s) with (iter c (S k) (stepf c s)). rewrite IH. reflexivity. Qed.

  Lemma pwv_loop_spec : forall c fuel i cur s, cur = iter c i s -> (forall k, 1 <= k <= i -> valid (iter c k s) = true) ->
    let '(r, res) := pwv_loop c fuel i cur in
    i <= r <= i + fuel /\ res = iter c r s /\ (forall k, 1 <= k <= r -> valid (iter c k s) = true) /\
    (r < i + fuel -> valid (iter c (S r) s) = false).
  Proof.
    intros c fuel. induction fuel as [|f IH]; intros i cur s Hc Hv; cbn [ControlModel.pwv_loop].
    - split; [lia|]. split; [exact Hc|]. split; [exact Hv|]. intros H. lia.
    - destruct (valid (stepf c cur)) eqn:E.
      + assert (Hc' : stepf c cur = iter c (S i) s) by (rewrite iter_S_out, Hc; reflexivity).
        assert (Hv' : forall k, 1 <= k <= S i -> valid (iter c k s) = true).
        { intros k Hk. destruct (Nat.eq_dec k (S i)) as [->|Hne]; [rewrite <- Hc'; exact E | apply Hv; lia]. }
        specialize (IH (S i) (stepf c cur) s Hc' Hv'). destruct (pwv_loop c f (S i) (stepf c cur)) as [r res].
        destruct IH as [I1 [I2 [I3 I4]]]. split; [lia|]. split; [exact I2|]. split; [exact I3|]. intros H. apply I4. lia.
      + split; [lia|]. split; [exact Hc|]. split; [exact Hv|]. intros _. rewrite iter_S_out, <- Hc. exact E.
  Qed.

  (* propagateWhileValid: r <= steps steps were performed, the result is the state after exactly r steps, every one of
     those states is valid, and if it stopped early the next state is invalid *)
  Theorem pwv_spec : forall s c steps,
    let '(r, res) := pwv s c steps in
    r <= steps /\ res = iter c r s /\ (forall k, 1 <= k <= r -> valid (iter c k s) = true) /\
    (r < steps -> valid (iter c (S r) s) = false).
  Proof.
    intros s c steps. unfold ControlModel.pwv. destruct steps as [|k].
    - repeat split; intros; try lia; reflexivity.
    - destruct (valid (stepf c s)) eqn:E.
      + pose proof (pwv_loop_spec c k 1 (stepf c s) s eq_refl) as H.
        assert (Hv : forall j, 1 <= j <= 1 -> valid (iter c j s) = true) by (intros j Hj; assert (j = 1) by lia; subst; exact E).
        specialize (H Hv). destruct (pwv_loop c k 1 (stepf c s)) as [r res]. destruct H as [H1 [H2 [H3 H4]]].
        split; [lia|]. split; [exact H2|]. split; [exact H3|]. intros Hr. apply H4. lia.
      + split; [lia|]. split; [reflexivity|]. split; [intros j Hj; lia | intros _; exact E].
  Qed.

  (* the vector overload returns exactly the states the single-result overload passes through *)
  Theorem pwv_states_spec : forall c fuel cur,
    let l := pwv_states St C stepf valid c fuel cur in
    length l <= fuel /\ (forall k, k < length l -> nth k l cur = iter c (S k) cur /\ valid (iter c (S k) cur) = true) /\
    (length l < fuel -> valid (iter c (S (length l)) cur) = false).
  Proof.
    intros c fuel. induction fuel as [|f IH]; intros cur; cbn [ControlModel.pwv_states].
    - cbn. split; [lia|]. split; [intros j Hj; lia | intros H; lia].
    - destruct (valid (stepf c cur)) eqn:E.
      + specialize (IH (stepf c cur)). cbn zeta in IH. destruct IH as [I1 [I2 I3]]. cbn [length]. split; [lia|]. split.
        * intros j Hj. destruct j as [|j']; [split; [reflexivity | exact E]|].
          destruct (I2 j' ltac:(lia)) as [J1 J2]. split.
          -- cbn [nth]. rewrite (nth_indep _ cur (stepf c cur)) by lia. exact J1.
          -- exact J2.
        * intros H. apply (I3 ltac:(lia)).
      + cbn [length]. split; [lia|]. split; [intros j Hj; lia | intros _; exact E].
  Qed.

  (* a chain of tree edges, each produced by propagateWhileValid from its parent, replays exactly: the end states are
     the stored ones and every propagation step of the replay is valid *)
  Fixpoint chain_ok (s : St) (edges : list (C * nat * nat * St)) : Prop :=   (* control, requested steps, performed steps, stored state *)
    match edges with
    | [] => True
    | (c, req, r, res) :: t => pwv s c req = (r, res) /\ chain_ok res t
    end.
  Theorem pwv_chain_replays : forall edges s, chain_ok s edges ->
    ends St C stepf s (map (fun e => let '(c, _, r, _) := e in (c, r)) edges) = map (fun e => let '(_, _, _, res) := e in res) edges /\
    Forall (fun blk => Forall (fun x => valid x = true) blk) (replay St C stepf s (map (fun e => let '(c, _, r, _) := e in (c, r)) edges)).
  Proof.
    induction edges as [|[[[c req] r] res] t IH]; intros s H; [split; [reflexivity | constructor]|].
    destruct H as [Hp Hc]. pose proof (pwv_spec s c req) as P. rewrite Hp in P. destruct P as [P1 [P2 [P3 _]]].
    cbn [map ends replay]. rewrite <- P2. destruct (IH res Hc) as [I1 I2]. split; [f_equal; exact I1|].
    constructor; [|exact I2].
    assert (G : forall n s0 k0, (forall k, 1 <= k <= n -> valid (iter c (k0 + k) s0) = true) -> Forall (fun x => valid x = true) (steps_of St C stepf c n (iter c k0 s0))).
    { induction n as [|n IHn]; intros s0 k0 Hv; [constructor|]. cbn [steps_of]. constructor.
      - specialize (Hv 1 ltac:(lia)). rewrite Nat.add_1_r in Hv. rewrite iter_S_out in Hv. exact Hv.
      - rewrite <- iter_S_out. apply (IHn s0 (S k0)). intros k Hk. specialize (Hv (S k) ltac:(lia)). rewrite Nat.add_succ_r in Hv. exact Hv. }
    apply (G r s 0). intros k Hk. apply P3. lia.
  Qed.

  (* ---- SimpleDirectedControlSampler::getBestControl ---- *)
  Variable dist : St -> Z.
  Notation cand_eval := (cand_eval St C stepf valid).
  Notation best_loop := (best_loop St C stepf valid dist).
  Notation best_control := (best_control St C stepf valid dist).
  Definition evalof (s : St) (l : list (C * nat)) (r : C * nat * St) : Prop := exists cn, In cn l /\ r = cand_eval s cn.
  Lemma best_loop_spec : forall s l best bd seen, evalof s seen best -> bd = dist (snd best) ->
    (forall cn, In cn seen -> (bd <= dist (snd (cand_eval s cn)))%Z) ->
    evalof s (seen ++ l) (best_loop s best bd l) /\
    (forall cn, In cn (seen ++ l) -> (dist (snd (best_loop s best bd l)) <= dist (snd (cand_eval s cn)))%Z).
  Proof.
    intros s l. induction l as [|cn t IH]; intros best bd seen E Hb Hm; cbn [ControlModel.best_loop].
    - rewrite app_nil_r. split; [exact E|]. intros cn Hc. rewrite <- Hb. apply Hm. exact Hc.
    - replace (seen ++ cn :: t) with ((seen ++ [cn]) ++ t) by (rewrite <- app_assoc; reflexivity).
      destruct (Z.ltb_spec (dist (snd (cand_eval s cn))) bd) as [L|L].
      + apply IH; [exists cn; split; [apply in_or_app; right; left; reflexivity|reflexivity]|reflexivity|].
        intros c0 Hc0. apply in_app_or in Hc0. destruct Hc0 as [Hc0|[<-|[]]]; [specialize (Hm c0 Hc0); lia|lia].
      + apply IH; [destruct E as (c1 & H1 & ->); exists c1; split; [apply in_or_app; left; exact H1|reflexivity]|exact Hb|].
        intros c0 Hc0. apply in_app_or in Hc0. destruct Hc0 as [Hc0|[<-|[]]]; [apply Hm; exact Hc0|exact L].
  Qed.
  (* the returned (control, steps, state) is one of the candidates propagated while valid: the state is what the control
     reaches from the source in exactly the returned number of steps, every one of those steps is valid, the number does
     not exceed the sampled count, and no candidate ended closer to the target *)
  Theorem best_control_spec : forall s first rest,
    let '(c, n, st) := best_control s first rest in
    (exists m, In (c, m) (first :: rest) /\ n <= m /\ (n, st) = pwv s c m) /\
    st = iter c n s /\ (forall k, 1 <= k <= n -> valid (iter c k s) = true) /\
    (forall cn, In cn (first :: rest) -> (dist st <= dist (snd (pwv s (fst cn) (snd cn))))%Z).
  Proof.
    intros s first rest. unfold ControlModel.best_control.
    destruct (best_loop_spec s rest (cand_eval s first) (dist (snd (cand_eval s first))) [first]) as (E & M).
    - exists first. split; [left; reflexivity|reflexivity].
    - reflexivity.
    - intros cn [<-|[]]. lia.
    - cbn [app] in E, M. destruct (best_loop s (cand_eval s first) (dist (snd (cand_eval s first))) rest) as [[c n] st].
      destruct E as ([c1 m] & Hin & Er). unfold ControlModel.cand_eval in Er. cbn [fst snd] in Er. injection Er as -> En Est.
      pose proof (pwv_spec s c1 m) as PS. destruct (pwv s c1 m) as [r res] eqn:Ep. cbn [fst snd] in En, Est. subst n st. destruct PS as (P1 & P2 & P3 & _).
      split; [exists m; split; [exact Hin|split; [exact P1|symmetry; exact Ep]]|]. split; [exact P2|]. split; [exact P3|].
      intros cn Hcn. specialize (M cn Hcn). unfold ControlModel.cand_eval in M. cbn [snd] in M. exact M.
  Qed.
End ControlP.

(* meaning of the admission rule *)
Record C02_solution (r : crun) : Prop := {
  c2_path : cr_has_path r = true /\ (0 < cr_nstates r)%Z;
  c2_start : cr_start_ok r = true;
  c2_shape : Z.of_nat (length (cr_segs r)) = (cr_nstates r - 1)%Z;
  c2_segs : Forall (fun s => cs_whole s = true /\ (0 < cs_steps s)%Z /\ cs_ctrl_inb s = true /\
                             cs_reproduced s = true /\ cs_all_valid s = true) (cr_segs r);
  c2_goal : if cr_approx r then cr_status r = 5%Z /\ (Z.abs (cr_diff r - cr_last_gdist r) <= 1)%Z else cr_status r = 6%Z /\ cr_last_goal r = true }.
Theorem cadjudicate_sound : forall r, cadjudicate r = CVok ->
  (c_is_solution (cr_status r) = true -> C02_solution r) /\ (c_is_solution (cr_status r) = false -> cr_paths_after r = cr_paths_before r).
Proof.
  intros r H. unfold cadjudicate in H. destruct (c_is_solution (cr_status r)) eqn:Es; split; try discriminate; intros _.
  - destruct (negb (cr_has_path r) || (cr_nstates r <=? 0)%Z) eqn:E0; [discriminate|].
    destruct (negb (cr_start_ok r)) eqn:E1; [discriminate|].
    destruct (negb (Z.of_nat (length (cr_segs r)) =? cr_nstates r - 1)%Z) eqn:E2; [discriminate|].
    destruct (negb (forallb (fun s => cs_whole s && (0 <? cs_steps s)%Z) (cr_segs r))) eqn:E3; [discriminate|].
    destruct (negb (forallb cs_ctrl_inb (cr_segs r))) eqn:E4; [discriminate|].
    destruct (negb (forallb cs_reproduced (cr_segs r))) eqn:E5; [discriminate|].
    destruct (negb (forallb cs_all_valid (cr_segs r))) eqn:E6; [discriminate|].
    destruct (negb (if cr_approx r then (cr_status r =? 5)%Z && (Z.abs (cr_diff r - cr_last_gdist r) <=? 1)%Z else (cr_status r =? 6)%Z && cr_last_goal r)) eqn:E7; [discriminate|].
    apply orb_false_elim in E0. destruct E0 as [E0a E0b]. apply negb_false_iff in E0a, E1, E2, E3, E4, E5, E6, E7.
    apply Z.leb_gt in E0b. apply Z.eqb_eq in E2. rewrite forallb_forall in E3, E4, E5, E6.
    constructor; auto.
    + rewrite Forall_forall. intros s Hs. specialize (E3 s Hs). apply andb_prop in E3. destruct E3 as [E3a E3c].
      apply Z.ltb_lt in E3c. repeat split; auto.
    + destruct (cr_approx r); apply andb_prop in E7; destruct E7 as [A B]; apply Z.eqb_eq in A; [apply Z.leb_le in B|]; auto.
  - destruct (negb (cr_paths_after r =? cr_paths_before r)%Z) eqn:E; [discriminate|]. apply negb_false_iff in E. apply Z.eqb_eq in E. exact E.
Qed.
