(* GnatModel.v — executable model of the GNAT search loops of NearestNeighborsGNAT.h / NearestNeighborsGNATNoThreadSafety.h:
   Node::nearestK / Node::nearestR (scan of the node's data, the sibling-pruning loop over the children in rotated
   order, the enqueue test) and GNAT::nearestKInternal / nearestRInternal (the node queue with its pop-time radius test).
   Definitions only.  The two searches share one loop, parameterised by the neighbour-insertion rule and by the pruning
   distance ("dist" in the C++: the radius for nearestR; the current k-th distance, once k neighbours are known, for
   nearestK).  Three things the C++ leaves to the environment are oracles here, and the theorems hold for every value:
   the removal cache (isRemoved), the value of the shared offset_ counter seen by each node visit, and the order in
   which the node priority queue yields queued nodes. *)
From Coq Require Import List ZArith Bool Arith.
From OmplV Require Import NNModel.
Import ListNotations.
Local Open Scope Z_scope.

Section Gnat.
  Variable P : Type.
  Variable d : P -> P -> Z.
  Variable peqb : P -> P -> bool.
  Notation gnode := (gnode P).

  Definition node_pivot (n : gnode) : P := match n with GNode p _ _ _ _ _ => p end.
  Definition node_minR (n : gnode) : option Z := match n with GNode _ a _ _ _ _ => a end.
  Definition node_maxR (n : gnode) : option Z := match n with GNode _ _ b _ _ _ => b end.
  Definition node_ranges (n : gnode) : list (option Z * option Z) := match n with GNode _ _ _ r _ _ => r end.
  Definition node_data (n : gnode) : list P := match n with GNode _ _ _ _ dat _ => dat end.
  Definition node_children (n : gnode) : list gnode := match n with GNode _ _ _ _ _ ch => ch end.
  Definition range_of (c : gnode) (j : nat) : option Z * option Z := nth j (node_ranges c) (None, None).

  (* NearQueue: a max-heap of (distance, element); kept as a list in non-decreasing distance, top = last *)
  Definition nent : Type := (Z * P)%type.
  Fixpoint qins (x : nent) (l : list nent) : list nent :=
    match l with
    | [] => [x]
    | y :: t => if fst x <? fst y then x :: l else y :: qins x t
    end.
  Definition top_dist (l : list nent) : Z := last (map fst l) 0.

  Section Search.
    Variable removed : P -> bool.                                  (* gnat.isRemoved *)
    Variable offs : nat -> nat.                                    (* gnat.offset_++ as seen by the n-th node visit *)
    Variable pick : list (gnode * Z) -> nat.                       (* which queued node NodeQueue::top() yields *)
    Variable ins : P -> Z -> list nent -> list nent * bool.        (* insertNeighborK / insertNeighborR *)
    Variable bound : list nent -> option Z.                        (* pruning distance, when pruning is allowed *)
    Variable q : P.

    Definition prune_radius (nbh : list nent) (dp : Z) (minR maxR : option Z) : bool :=
      match bound nbh with Some t => pruned_by_radius dp t minR maxR | None => false end.

    (* for (const auto &d : data_) if (!gnat.isRemoved(d)) if (insertNeighbor(...)) isPivot = false; *)
    Definition scan (dat : list P) (s : list nent * bool) : list nent * bool :=
      fold_left (fun s x => if removed x then s
                            else let '(n', b) := ins x (d q x) (fst s) in (n', if b then false else snd s)) dat s.

    (* one slot of the permutation array: child index, child, still >= 0, distToPivot once computed *)
    Record ent := mkE { e_idx : nat; e_node : gnode; e_alive : bool; e_dist : option Z }.
    (* a processed child i prunes slot j when j's range-table entry, seen from child i, cannot hold anything within
       the pruning distance in force right after child i's pivot was offered *)
    Record killer := mkK { k_node : gnode; k_dist : Z; k_bound : option Z }.
    Definition killed_by (kl : killer) (j : nat) : bool :=
      match k_bound kl with
      | Some t => pruned_by_range (k_dist kl) t (fst (range_of (k_node kl) j)) (snd (range_of (k_node kl) j))
      | None => false
      end.
    Definition kill (kl : killer) (e : ent) : ent :=
      if e_alive e && killed_by kl (e_idx e) then mkE (e_idx e) (e_node e) false (e_dist e) else e.

    (* for i: if (permutation[i] >= 0) { offer the child's pivot; permutation[j] = -1 for every other live slot j that
       this child prunes }.  Slots not reached yet are pruned lazily: slot i is skipped iff an earlier child killed it. *)
    Fixpoint cloop (done : list ent) (todo : list (nat * gnode)) (killers : list killer) (nbh : list nent) (piv : bool)
      : list ent * list nent * bool :=
      match todo with
      | [] => (rev done, nbh, piv)
      | (i, c) :: t =>
        if existsb (fun kl => killed_by kl i) killers then cloop (mkE i c false None :: done) t killers nbh piv
        else
          let di := d q (node_pivot c) in
          let '(n', b) := ins (node_pivot c) di nbh in
          let kl := mkK c di (bound n') in
          cloop (mkE i c true (Some di) :: map (kill kl) done) t (kl :: killers) n' (if b then true else piv)
      end.

    (* permutation[i] = (i + offset) % sz *)
    Definition rot {A} (o : nat) (l : list A) : list A := skipn o l ++ firstn o l.
    Definition order_of (off : nat) (ch : list gnode) : list (nat * gnode) :=
      rot (Nat.modulo off (length ch)) (combine (seq 0 (length ch)) ch).

    (* for (auto p : permutation) if (p >= 0 && radius test) nodeQueue.emplace(child, distToPivot[p]) *)
    Definition enqueue (es : list ent) (nbh : list nent) : list (gnode * Z) :=
      flat_map (fun e => match e_dist e with
                         | Some dp => if e_alive e && negb (prune_radius nbh dp (node_minR (e_node e)) (node_maxR (e_node e)))
                                      then [(e_node e, dp)] else []
                         | None => []
                         end) es.

    (* Node::nearestK / Node::nearestR *)
    Definition visit (n : gnode) (vis : nat) (nbh : list nent) (piv : bool) : list nent * bool * list (gnode * Z) :=
      let '(n1, p1) := scan (node_data n) (nbh, piv) in
      match node_children n with
      | [] => (n1, p1, [])
      | ch => let '(es, n2, p2) := cloop [] (order_of (offs vis) ch) [] n1 p1 in (n2, p2, enqueue es n2)
      end.

    (* while (!nodeQueue.empty()) { pop; if (radius test fails) continue; node->nearest(...) } *)
    Fixpoint gloop (fuel vis : nat) (nbh : list nent) (piv : bool) (queue : list (gnode * Z)) : option (list nent * bool) :=
      match queue with
      | [] => Some (nbh, piv)
      | _ :: _ =>
        match fuel with
        | O => None
        | S f =>
          let i := Nat.modulo (pick queue) (length queue) in
          match nth_error queue i with
          | None => None
          | Some (n, dn) =>
            let rest := firstn i queue ++ skipn (S i) queue in
            if prune_radius nbh dn (node_minR n) (node_maxR n) then gloop f vis nbh piv rest
            else let '(nbh', piv', nq) := visit n vis nbh piv in gloop f (S vis) nbh' piv' (rest ++ nq)
          end
        end
      end.

    Fixpoint nodes (n : gnode) : nat := match n with GNode _ _ _ _ _ ch => S (fold_right (fun c a => (nodes c + a)%nat) O ch) end.

    (* nearestKInternal / nearestRInternal on the root *)
    Definition gsearch (tree : gnode) : option (list nent * bool) :=
      let '(n0, p0) := ins (node_pivot tree) (d q (node_pivot tree)) [] in
      let '(n1, p1, q1) := visit tree 0 n0 p0 in
      gloop (nodes tree) 1 n1 p1 q1.
  End Search.

  (* ---- the two instances ---- *)
  (* insertNeighborK: room left -> push; else replace the top when strictly closer (or when it is the query itself
     at distance < epsilon: distances are integers here, so dist <= 0) *)
  Definition insK (k : nat) (q : P) (x : P) (dist : Z) (nbh : list nent) : list nent * bool :=
    if (length nbh <? k)%nat then (qins (dist, x) nbh, true)
    else if (dist <? top_dist nbh) || ((dist <=? 0) && peqb x q) then (qins (dist, x) (removelast nbh), true)
    else (nbh, false).
  Definition boundK (k : nat) (nbh : list nent) : option Z := if (length nbh =? k)%nat then Some (top_dist nbh) else None.
  (* insertNeighborR *)
  Definition insR (r : Z) (x : P) (dist : Z) (nbh : list nent) : list nent * bool :=
    if dist <=? r then (qins (dist, x) nbh, true) else (nbh, false).
  Definition boundR (r : Z) (nbh : list nent) : option Z := Some r.

  Definition gnat_nearestK removed offs pick (k : nat) (q : P) (tree : gnode) : option (list nent * bool) :=
    gsearch removed offs pick (insK k q) (boundK k) q tree.
  Definition gnat_nearestR removed offs pick (r : Z) (q : P) (tree : gnode) : option (list nent * bool) :=
    gsearch removed offs pick (insR r) (boundR r) q tree.
End Gnat.
