(* GridComps.v — proofs about GridModel.components (the breadth-first pass of Grid::components()):
   total, partitions the cells, every component is closed under the neighbour relation and connected. *)
From Coq Require Import List ZArith Bool Arith Lia Permutation.
From OmplV Require Import HeapModel GridModel GridProofs.
Import ListNotations.

Section Comps.
  Variable cells : list cell.
  Hypothesis ND : NoDup (coords cells).

  Inductive reach (r : cell) : cell -> Prop :=
  | reach_refl : reach r r
  | reach_step x y : reach r x -> In y cells -> adjacent (ccoord x) (ccoord y) -> reach r y.

  Lemma nb_in c y : In y (neighbors c cells) -> In y cells /\ adjacent c (ccoord y).
  Proof. intros H. apply neighbors_exact in H; auto. Qed.

  Definition measure (d : nat) (A : list coord) (todo : list cell) : nat :=
    ((2 * d + 1) * length (filter (fun x => negb (in_coords (ccoord x) A)) cells) + length todo)%nat.

  (* invariant of one breadth-first pass started at root r with the coordinates A0 already assigned *)
  Record BInv (r : cell) (A0 : list coord) (todo comp : list cell) (A : list coord) : Prop := {
    b_todo : forall x, In x todo -> In x cells;
    b_comp : forall x, In x comp -> In x cells;
    b_nodup : NoDup (coords comp);
    b_A : forall q, In q A <-> In q A0 \/ In q (coords comp);
    b_fresh : forall x, In x comp -> ~ In (ccoord x) A0;
    b_closed : forall x y, In x comp -> In y cells -> adjacent (ccoord x) (ccoord y) -> In (ccoord y) A \/ In y todo;
    b_reach : forall x, In x comp \/ In x todo -> reach r x }.

  Lemma filter_length_le {X} (f : X -> bool) l : (length (filter f l) <= length l)%nat.
  Proof. induction l as [|a t IH]; simpl; [lia|]. destruct (f a); simpl; lia. Qed.

  Lemma unassigned_decreases A c x : In x cells -> ccoord x = c -> ~ In c A ->
    (length (filter (fun y => negb (in_coords (ccoord y) (c :: A))) cells) < length (filter (fun y => negb (in_coords (ccoord y) A)) cells))%nat.
  Proof.
    intros Hx Ec Hc. clear ND.
    assert (Hcons : forall z, in_coords (ccoord z) (c :: A) = coord_eqb (ccoord z) c || in_coords (ccoord z) A) by reflexivity.
    assert (Hmono : forall l, (length (filter (fun y => negb (in_coords (ccoord y) (c :: A))) l) <= length (filter (fun y => negb (in_coords (ccoord y) A)) l))%nat).
    { induction l as [|z l' IHl]; cbn [filter]; [lia|]. rewrite Hcons.
      destruct (coord_eqb (ccoord z) c); cbn [orb negb]; destruct (in_coords (ccoord z) A); cbn [negb length]; lia. }
    induction cells as [|y t IH]; [simpl in Hx; tauto|]. cbn [filter]. rewrite Hcons.
    destruct Hx as [->|Hx].
    - rewrite Ec, coord_eqb_refl. cbn [orb negb].
      assert (H : in_coords c A = false) by (apply not_true_is_false; intros H; apply in_coords_spec in H; tauto).
      rewrite H. cbn [negb length]. pose proof (Hmono t). lia.
    - specialize (IH Hx). destruct (coord_eqb (ccoord y) c); cbn [orb negb]; destruct (in_coords (ccoord y) A); cbn [negb length]; try lia.
  Qed.

  Lemma bfs_total r A0 d : (forall x, In x cells -> length (ccoord x) = d) ->
    forall fuel todo comp A, BInv r A0 todo comp A -> (measure d A todo <= fuel)%nat ->
    exists comp' A', bfs fuel cells todo comp A = Some (comp', A') /\ BInv r A0 [] comp' A' /\
                     (exists extra, comp' = comp ++ extra).
  Proof.
    intros Hd. induction fuel as [|f IH]; intros todo comp A I Hm.
    - destruct todo as [|c rest]; [|unfold measure in Hm; simpl in Hm; lia].
      exists comp, A. split; [reflexivity|]. split; [exact I|exists []; rewrite app_nil_r; reflexivity].
    - destruct todo as [|c rest]; [exists comp, A; split; [reflexivity|]; split; [exact I|exists []; rewrite app_nil_r; reflexivity]|].
      cbn [bfs]. destruct I as [It Ic Ind IA If Icl Ir].
      destruct (in_coords (ccoord c) A) eqn:EA.
      + (* already assigned: erased from the queue *)
        apply in_coords_spec in EA.
        destruct (IH rest comp A) as (comp' & A' & E & I' & X).
        * constructor; auto.
          -- intros x Hx. apply It. right. exact Hx.
          -- intros x y Hx Hy Hadj. destruct (Icl x y Hx Hy Hadj) as [H|[<-|H]]; auto.
          -- intros x [Hx|Hx]; apply Ir; auto. right. right. exact Hx.
        * unfold measure in *. simpl in Hm. lia.
        * exists comp', A'. auto.
      + assert (HcA : ~ In (ccoord c) A) by (intros H; apply in_coords_spec in H; congruence).
        assert (Hc : In c cells) by (apply It; left; reflexivity).
        set (A1 := ccoord c :: A).
        set (fresh := filter (fun n => negb (in_coords (ccoord n) A1)) (neighbors (ccoord c) cells)).
        destruct (IH (rest ++ fresh) (comp ++ [c]) A1) as (comp' & A' & E & I' & (extra & X)).
        * constructor.
          -- intros x Hx. apply in_app_or in Hx. destruct Hx as [Hx|Hx]; [apply It; right; exact Hx|].
             unfold fresh in Hx. apply filter_In in Hx. destruct Hx as (Hx & _). apply nb_in in Hx. tauto.
          -- intros x Hx. apply in_app_or in Hx. destruct Hx as [Hx|[<-|[]]]; auto.
          -- unfold coords. rewrite map_app. simpl. apply (Permutation_NoDup (l := ccoord c :: map ccoord comp)); [apply Permutation_cons_append|].
             constructor; [|exact Ind]. intros H. apply HcA. apply IA. right. exact H.
          -- intros q. unfold A1, coords. rewrite map_app. simpl. rewrite in_app_iff. simpl. rewrite IA. unfold coords. tauto.
          -- intros x Hx. apply in_app_or in Hx. destruct Hx as [Hx|[<-|[]]]; [apply If; exact Hx|].
             intros H. apply HcA. apply IA. left. exact H.
          -- intros x y Hx Hy Hadj. apply in_app_or in Hx. destruct Hx as [Hx|[<-|[]]].
             ++ destruct (Icl x y Hx Hy Hadj) as [H|[<-|H]].
                ** left. right. exact H.
                ** left. left. reflexivity.
                ** right. apply in_or_app. left. exact H.
             ++ destruct (in_coords (ccoord y) A1) eqn:EY.
                ** left. apply in_coords_spec. exact EY.
                ** right. apply in_or_app. right. unfold fresh. apply filter_In. split; [|rewrite EY; reflexivity].
                   apply neighbors_exact; auto.
          -- intros x [Hx|Hx].
             ++ apply in_app_or in Hx. destruct Hx as [Hx|[<-|[]]]; apply Ir; auto. right. left. reflexivity.
             ++ apply in_app_or in Hx. destruct Hx as [Hx|Hx]; [apply Ir; right; right; exact Hx|].
                unfold fresh in Hx. apply filter_In in Hx. destruct Hx as (Hx & _). apply nb_in in Hx. destruct Hx as (Hx & Hadj).
                apply (reach_step r c x); auto. apply Ir. right. left. reflexivity.
        * unfold measure in *. rewrite app_length.
          assert (Lf : (length fresh <= 2 * d)%nat).
          { unfold fresh. eapply Nat.le_trans; [apply filter_length_le|]. unfold neighbors. rewrite length_found.
            unfold count_present. eapply Nat.le_trans; [apply filter_length_le|]. unfold neighbor_coords.
            rewrite (Hd c Hc). clear. generalize (ccoord c). induction d as [|k IHk]; intros l; simpl; [lia|]. specialize (IHk l). lia. }
          pose proof (unassigned_decreases A (ccoord c) c Hc eq_refl HcA) as Hdec. fold A1 in Hdec.
          simpl in Hm. nia.
        * exists comp', A'. split; [exact E|]. split; [exact I'|]. exists (c :: extra). rewrite X, <- app_assoc. reflexivity.
  Qed.

  (* a set of assigned coordinates that is a union of whole neighbour classes *)
  Definition closedA (A : list coord) : Prop :=
    forall x y, In x cells -> In y cells -> adjacent (ccoord x) (ccoord y) -> In (ccoord x) A -> In (ccoord y) A.
  Definition closed (comp : list cell) : Prop :=
    forall x y, In x comp -> In y cells -> adjacent (ccoord x) (ccoord y) -> In y comp.
  Definition connected (comp : list cell) : Prop :=
    match comp with [] => True | r :: _ => forall x, In x comp -> reach r x end.

  Lemma in_by_coord comp y : (forall x, In x comp -> In x cells) -> In y cells -> In (ccoord y) (coords comp) -> In y comp.
  Proof.
    intros Hc Hy H. unfold coords in H. apply in_map_iff in H. destruct H as (z & Ez & Hz).
    assert (z = y); [|subst; exact Hz].
    pose proof (find_cell_in cells z ND (Hc z Hz)) as F1. pose proof (find_cell_in cells y ND Hy) as F2. rewrite Ez in F1. congruence.
  Qed.

  Lemma bfs_extends : forall f todo comp A comp' A'', bfs f cells todo comp A = Some (comp', A'') -> exists ex, comp' = comp ++ ex.
  Proof.
    induction f as [|f IH]; intros todo comp A comp' A'' E; destruct todo as [|c rest]; simpl in E; try discriminate;
      try (injection E as <- <-; exists []; rewrite app_nil_r; reflexivity).
    destruct (in_coords (ccoord c) A); [apply (IH _ _ _ _ _ E)|]. destruct (IH _ _ _ _ _ E) as (ex & ->). exists (c :: ex). rewrite <- app_assoc. reflexivity.
  Qed.

  Lemma bfs_component d A0 c0 fuel : (forall x, In x cells -> length (ccoord x) = d) ->
    In c0 cells -> ~ In (ccoord c0) A0 -> closedA A0 -> (measure d A0 [c0] <= fuel)%nat ->
    exists comp A', bfs fuel cells [c0] [] A0 = Some (comp, A') /\
      (forall q, In q A' <-> In q A0 \/ In q (coords comp)) /\ closedA A' /\
      In c0 comp /\ (forall x, In x comp -> In x cells /\ ~ In (ccoord x) A0) /\ NoDup (coords comp) /\
      closed comp /\ connected comp.
  Proof.
    intros Hd Hc0 Hn HA Hm.
    assert (I0 : BInv c0 A0 [c0] [] A0).
    { constructor; simpl; try tauto.
      - intros x [<-|[]]. exact Hc0.
      - constructor.
      - intros x [[]|[<-|[]]]. constructor. }
    destruct (bfs_total c0 A0 d Hd fuel [c0] [] A0 I0 Hm) as (comp & A' & E & [It Ic Ind IA If Icl Ir] & _).
    exists comp, A'. split; [exact E|]. split; [exact IA|].
    assert (Hclosed : closed comp).
    { intros x y Hx Hy Hadj. destruct (Icl x y Hx Hy Hadj) as [H|[]]. apply IA in H. destruct H as [H|H].
      - exfalso. apply (If x Hx). apply (HA y x Hy (Ic x Hx)); [apply adjacent_sym; exact Hadj|exact H].
      - apply in_by_coord; auto. }
    split.
    { intros x y Hx Hy Hadj Hin. apply IA in Hin. apply IA. destruct Hin as [Hin|Hin].
      - left. apply (HA x y); auto.
      - right. apply in_map. apply (Hclosed x y); auto. apply in_by_coord; auto. }
    (* the root is processed first: the component starts with it *)
    assert (Hhead : exists ex, comp = c0 :: ex).
    { destruct fuel as [|f]; [discriminate|]. cbn [bfs] in E.
      assert (H : in_coords (ccoord c0) A0 = false) by (apply not_true_is_false; intros H; apply in_coords_spec in H; tauto).
      rewrite H in E. simpl in E. destruct (bfs_extends _ _ _ _ _ _ E) as (ex & ->). exists ex. reflexivity. }
    destruct Hhead as (ex & ->).
    split; [left; reflexivity|]. split; [intros x Hx; split; [apply Ic; exact Hx|apply If; exact Hx]|]. split; [exact Ind|]. split; [exact Hclosed|].
    unfold connected. intros x Hx. apply Ir. left. exact Hx.
  Qed.

  Lemma NoDup_app_disj {X} (l1 l2 : list X) : NoDup l1 -> NoDup l2 -> (forall q, In q l1 -> In q l2 -> False) -> NoDup (l1 ++ l2).
  Proof.
    induction l1 as [|a t IH]; intros N1 N2 D; simpl; [exact N2|]. inversion N1; subst. constructor.
    - intros H. apply in_app_or in H. destruct H as [H|H]; [tauto|]. apply (D a); simpl; auto.
    - apply IH; auto. intros q G1 G2. apply (D q); simpl; auto.
  Qed.

  Theorem comps_from_spec d fuel : (forall x, In x cells -> length (ccoord x) = d) ->
    ((2 * d + 1) * length cells + 1 <= fuel)%nat ->
    forall roots A, (forall x, In x roots -> In x cells) -> closedA A ->
    exists comps, comps_from roots cells A fuel = Some comps /\
      (forall x, In x roots -> In (ccoord x) A \/ In x (concat comps)) /\
      NoDup (coords (concat comps)) /\
      (forall x, In x (concat comps) -> In x cells /\ ~ In (ccoord x) A) /\
      (forall comp, In comp comps -> comp <> [] /\ closed comp /\ connected comp).
  Proof.
    intros Hd Hf. induction roots as [|c0 t IH]; intros A Hr HA; cbn [comps_from].
    - exists []. split; [reflexivity|]. simpl. repeat split; try tauto. constructor.
    - destruct (in_coords (ccoord c0) A) eqn:EA.
      + apply in_coords_spec in EA. destruct (IH A (fun x Hx => Hr x (or_intror Hx)) HA) as (comps & E & R1 & R2 & R3 & R4).
        exists comps. split; [exact E|]. split; [|auto]. intros x [<-|Hx]; auto.
      + assert (Hn : ~ In (ccoord c0) A) by (intros H; apply in_coords_spec in H; congruence).
        assert (Hm : (measure d A [c0] <= fuel)%nat).
        { unfold measure. simpl. pose proof (filter_length_le (fun x => negb (in_coords (ccoord x) A)) cells). nia. }
        destruct (bfs_component d A c0 fuel Hd (Hr c0 (or_introl eq_refl)) Hn HA Hm) as (comp & A' & E & IA & HA' & Hc0 & Hin & Hnd & Hcl & Hco).
        rewrite E. destruct (IH A' (fun x Hx => Hr x (or_intror Hx)) HA') as (comps & E2 & R1 & R2 & R3 & R4).
        rewrite E2. exists (comp :: comps). split; [reflexivity|]. cbn [concat]. split; [|split; [|split]].
        * intros x [<-|Hx]; [right; apply in_or_app; left; exact Hc0|].
          destruct (R1 x Hx) as [H|H]; [|right; apply in_or_app; right; exact H].
          apply IA in H. destruct H as [H|H]; [left; exact H|right]. apply in_or_app. left. apply in_by_coord; auto; [intros z Hz; apply Hin; exact Hz|apply Hr; right; exact Hx].
        * unfold coords. rewrite map_app. apply NoDup_app_disj; [exact Hnd|exact R2|].
          intros q H1 H2. apply in_map_iff in H2. destruct H2 as (z & <- & Hz). apply (R3 z Hz). apply IA. right. exact H1.
        * intros x Hx. apply in_app_or in Hx. destruct Hx as [Hx|Hx]; [apply Hin; exact Hx|].
          destruct (R3 x Hx) as (H1 & H2). split; [exact H1|]. intros H. apply H2. apply IA. left. exact H.
        * intros cc [<-|Hcc]; [|apply R4; exact Hcc]. split; [|auto]. intros ->. simpl in Hc0. exact Hc0.
  Qed.
End Comps.

Lemma NoDup_cells cells : NoDup (coords cells) -> NoDup cells.
Proof. unfold coords. apply NoDup_map_inv. Qed.

(* Grid::components(): total, a partition of the cells, each block closed under the neighbour relation and connected *)
Theorem components_partition cells d :
  NoDup (coords cells) -> (forall x, In x cells -> length (ccoord x) = d) ->
  exists comps, components cells = Some comps /\
    Permutation (concat comps) cells /\
    (forall comp, In comp comps -> comp <> [] /\ closed cells comp /\ connected cells comp).
Proof.
  intros ND Hd. unfold components.
  set (fuel := (length cells * (2 * match cells with [] => 0 | c :: _ => length (ccoord c) end + 2) + 2)%nat).
  assert (Hf : ((2 * d + 1) * length cells + 1 <= fuel)%nat).
  { unfold fuel. destruct cells as [|c t]; [simpl; lia|]. rewrite (Hd c (or_introl eq_refl)). nia. }
  destruct (comps_from_spec cells ND d fuel Hd Hf cells [] (fun x H => H)) as (comps & E & R1 & R2 & R3 & R4).
  { intros x y _ _ _ []. }
  exists comps. split; [exact E|]. split; [|exact R4].
  apply NoDup_Permutation; [apply NoDup_cells; exact R2|apply NoDup_cells; exact ND|].
  intros x. split; [intros H; apply R3; exact H|]. intros H. destruct (R1 x H) as [[]|H']. exact H'.
Qed.
