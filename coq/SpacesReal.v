(* SpacesReal.v — the spaces model over the real numbers: metric laws (C06), interpolation laws (C07),
   bound enforcement (C08) for R^n, SO(2), time, discrete and weighted compounds of them. *)
From Coq Require Import List Bool Arith Reals Lra Lia.
From OmplV Require Import SpacesModel.
Import ListNotations.
Local Open Scope R_scope.

Definition Rltb (a b : R) : bool := if Rlt_dec a b then true else false.
Definition Rleb (a b : R) : bool := if Rle_dec a b then true else false.
Lemma Rltb_spec a b : reflect (a < b) (Rltb a b).
Proof. unfold Rltb. destruct (Rlt_dec a b); constructor; auto. Qed.
Lemma Rleb_spec a b : reflect (a <= b) (Rleb a b).
Proof. unfold Rleb. destruct (Rle_dec a b); constructor; auto. Qed.

Section Real.
  Variable fm : R -> R -> R.        (* fmod; only its specification is used *)
  Variable fl : R -> R.             (* floor *)
  Variable eps : R.
  Hypothesis eps_pos : 0 < eps.
  (* what is used of floor and fmod *)
  Hypothesis fl_int : forall (n : Z) (r : R), 0 <= r < 1 -> fl (IZR n + r) = IZR n.
  Hypothesis fl_mono : forall x y, x <= y -> fl x <= fl y.
  Hypothesis fl_integral : forall x, exists n, fl x = IZR n.
  Hypothesis fm_range : forall x p, 0 < p -> - p < fm x p < p.
  Hypothesis fm_small : forall x p, 0 < p -> - p < x < p -> fm x p = x.
  Hypothesis fm_cong : forall x p, 0 < p -> exists k : Z, fm x p = x - IZR k * p.
  Definition ReA : farith := mkFA R 0 2 (/ 2) Rplus Rminus Rmult sqrt Rabs fl fm Rltb Rleb PI eps.
  Notation RVs := (RV ReA). Notation SO2s := (SO2 ReA). Notation Comps := (Comp ReA).

  Ltac unf := cbn [F f0 f2 fhalf fadd fsub fmul fsqrt fabs ffloor ffmod flt fle fpi feps ReA] in *.
  Ltac cases := repeat match goal with
    | |- context [Rltb ?a ?b] => destruct (Rltb_spec a b)
    | |- context [Rleb ?a ?b] => destruct (Rleb_spec a b)
    | H : context [Rltb ?a ?b] |- _ => destruct (Rltb_spec a b)
    | H : context [Rleb ?a ?b] |- _ => destruct (Rleb_spec a b)
    end.

  (* ---------------- R^n ---------------- *)
  Fixpoint sqsum (a b : list R) : R :=
    match a, b with x :: a', y :: b' => (x - y) * (x - y) + sqsum a' b' | _, _ => 0 end.
  Lemma rv_sqdist_acc a : forall b acc, rv_sqdist ReA a b acc = acc + sqsum a b.
  Proof. induction a as [|x a IH]; intros [|y b] acc; simpl; unf; try lra. rewrite IH. lra. Qed.
  Lemma sqsum_nonneg a : forall b, 0 <= sqsum a b.
  Proof. induction a as [|x a IH]; intros [|y b]; simpl; try lra. specialize (IH b). pose proof (Rle_0_sqr (x - y)). unfold Rsqr in *. lra. Qed.
  Lemma rv_distance_eq a b : rv_distance ReA a b = sqrt (sqsum a b).
  Proof. unfold rv_distance. unf. rewrite rv_sqdist_acc. f_equal. lra. Qed.
  Lemma sqsum_sym a : forall b, sqsum a b = sqsum b a.
  Proof. induction a as [|x a IH]; intros [|y b]; simpl; try lra. rewrite IH. ring. Qed.
  Lemma sqsum_refl a : sqsum a a = 0.
  Proof. induction a as [|x a IH]; simpl; [reflexivity|]. rewrite IH. ring. Qed.

  (* Cauchy-Schwarz / Minkowski on lists *)
  Fixpoint dot (u v : list R) : R := match u, v with a :: u', b :: v' => a * b + dot u' v' | _, _ => 0 end.
  Fixpoint lin (t : R) (u v : list R) : list R := match u, v with a :: u', b :: v' => (t * a + b) :: lin t u' v' | _, _ => [] end.
  Fixpoint sub (x y : list R) : list R := match x, y with a :: x', b :: y' => (a - b) :: sub x' y' | _, _ => [] end.
  Lemma dot_self_nonneg u : 0 <= dot u u.
  Proof. induction u as [|a u IH]; simpl; [lra|]. pose proof (Rle_0_sqr a). unfold Rsqr in *. lra. Qed.
  Lemma expand t u : forall v, length u = length v -> dot (lin t u v) (lin t u v) = t * t * dot u u + 2 * t * dot u v + dot v v.
  Proof. induction u as [|a u IH]; intros [|b v] Hl; simpl in *; try discriminate; [ring|]. injection Hl as Hl. rewrite (IH v Hl). ring. Qed.
  Lemma cauchy_schwarz u v : length u = length v -> dot u v * dot u v <= dot u u * dot v v.
  Proof.
    intros Hl. set (X := dot u u). set (Y := dot v v). set (S := dot u v).
    assert (HX : 0 <= X) by apply dot_self_nonneg. assert (HY : 0 <= Y) by apply dot_self_nonneg.
    assert (Q : forall t, 0 <= t * t * X + 2 * t * S + Y).
    { intros t. unfold X, Y, S. rewrite <- (expand t u v Hl). apply dot_self_nonneg. }
    destruct (Req_dec X 0) as [E|N].
    - rewrite E in *. destruct (Req_dec S 0) as [->|NS]; [lra|].
      specialize (Q (- (Y + 1) / (2 * S))). exfalso.
      replace (- (Y + 1) / (2 * S) * (- (Y + 1) / (2 * S)) * 0 + 2 * (- (Y + 1) / (2 * S)) * S + Y) with (-1) in Q by (field; exact NS). lra.
    - assert (0 < X) by lra. specialize (Q (- S / X)).
      replace (- S / X * (- S / X) * X + 2 * (- S / X) * S + Y) with (Y - S * S / X) in Q by (field; lra).
      assert (H0 : S * S / X <= Y) by lra. apply (Rmult_le_compat_r X) in H0; [|lra].
      replace (S * S / X * X) with (S * S) in H0 by (field; lra). lra.
  Qed.
  Definition norm (u : list R) := sqrt (dot u u).
  Lemma minkowski u v : length u = length v -> norm (lin 1 u v) <= norm u + norm v.
  Proof.
    intros Hl. unfold norm. assert (HX := dot_self_nonneg u). assert (HY := dot_self_nonneg v).
    assert (Hs : 0 <= sqrt (dot u u) + sqrt (dot v v)) by (pose proof (sqrt_pos (dot u u)); pose proof (sqrt_pos (dot v v)); lra).
    apply Rsqr_incr_0_var; [|exact Hs]. rewrite Rsqr_sqrt by apply dot_self_nonneg. rewrite (expand 1 u v Hl). unfold Rsqr.
    replace ((sqrt (dot u u) + sqrt (dot v v)) * (sqrt (dot u u) + sqrt (dot v v)))
      with (dot u u + 2 * (sqrt (dot u u) * sqrt (dot v v)) + dot v v)
      by (pose proof (sqrt_sqrt _ HX); pose proof (sqrt_sqrt _ HY); ring_simplify; rewrite ?Rmult_assoc; nra).
    assert (dot u v <= sqrt (dot u u) * sqrt (dot v v)).
    { rewrite <- sqrt_mult by assumption. destruct (Rle_dec 0 (dot u v)) as [Pn|Pn].
      - apply Rsqr_incr_0_var; [|apply sqrt_pos]. rewrite Rsqr_sqrt by (apply Rmult_le_pos; assumption). unfold Rsqr. apply cauchy_schwarz; exact Hl.
      - pose proof (sqrt_pos (dot u u * dot v v)). lra. }
    lra.
  Qed.
  Lemma sqsum_dot x : forall y, length x = length y -> sqsum x y = dot (sub x y) (sub x y).
  Proof. induction x as [|a x IH]; intros [|b y] Hl; simpl in *; try discriminate; [reflexivity|]. injection Hl as Hl. rewrite (IH y Hl). ring. Qed.
  Lemma length_sub x : forall y, length x = length y -> length (sub x y) = length x.
  Proof. induction x as [|a x IH]; intros [|b y] Hl; simpl in *; try discriminate; auto. Qed.
  Lemma lin1_sub x : forall y z, length x = length y -> length y = length z -> lin 1 (sub x y) (sub y z) = sub x z.
  Proof. induction x as [|a x IH]; intros [|b y] [|c z] L1 L2; simpl in *; try discriminate; auto. injection L1 as L1. injection L2 as L2. rewrite (IH y z L1 L2). f_equal. ring. Qed.

  Theorem rv_triangle x y z : length x = length y -> length y = length z ->
    rv_distance ReA x z <= rv_distance ReA x y + rv_distance ReA y z.
  Proof.
    intros L1 L2. rewrite !rv_distance_eq. rewrite (sqsum_dot x z (eq_trans L1 L2)). rewrite (sqsum_dot x y L1), (sqsum_dot y z L2). fold (norm (sub x z)) (norm (sub x y)) (norm (sub y z)).
    rewrite <- (lin1_sub x y z L1 L2). apply minkowski. rewrite (length_sub x y L1), (length_sub y z L2). exact L1.
  Qed.
  Theorem rv_nonneg x y : 0 <= rv_distance ReA x y. Proof. rewrite rv_distance_eq. apply sqrt_pos. Qed.
  Theorem rv_sym x y : rv_distance ReA x y = rv_distance ReA y x. Proof. rewrite !rv_distance_eq, sqsum_sym. reflexivity. Qed.
  Theorem rv_refl x : rv_distance ReA x x = 0. Proof. rewrite rv_distance_eq, sqsum_refl. apply sqrt_0. Qed.

  (* exact bounds *)
  Fixpoint rv_inb (bs : list (R * R)) (a : list R) : Prop :=
    match bs, a with (lo, hi) :: bs', x :: a' => lo <= x <= hi /\ rv_inb bs' a' | [], [] => True | _, _ => False end.
  Fixpoint sqext (bs : list (R * R)) : R := match bs with (lo, hi) :: bs' => (hi - lo) * (hi - lo) + sqext bs' | [] => 0 end.
  Lemma rv_sqextent_acc bs : forall acc, rv_sqextent ReA bs acc = acc + sqext bs.
  Proof. induction bs as [|[lo hi] bs IH]; intros acc; simpl; unf; try lra. rewrite IH. lra. Qed.
  Theorem rv_le_extent bs : forall a b, rv_inb bs a -> rv_inb bs b -> rv_distance ReA a b <= extent ReA (RVs bs).
  Proof.
    intros a b Ha Hb. rewrite rv_distance_eq. unfold extent. cbn [extent_gen]. unf. rewrite rv_sqextent_acc. apply sqrt_le_1_alt.
    revert a b Ha Hb. induction bs as [|[lo hi] bs IH]; intros [|x a] [|y b] Ha Hb; simpl in *; try tauto; try lra.
    destruct Ha as (Hx & Ha), Hb as (Hy & Hb). specialize (IH a b Ha Hb). assert ((x - y) * (x - y) <= (hi - lo) * (hi - lo)) by nra. lra.
  Qed.

  (* ---------------- SO(2) ---------------- *)
  Definition so2_inb (x : R) : Prop := - PI <= x < PI.
  Theorem so2_dist_facts a b : so2_inb a -> so2_inb b ->
    0 <= so2_distance ReA a b <= PI /\ so2_distance ReA a b = so2_distance ReA b a /\ so2_distance ReA a a = 0.
  Proof.
    intros Ha Hb. unfold so2_inb, so2_distance, fgt, twopi in *. unf. pose proof PI_RGT_0.
    replace (a - a) with 0 by lra. rewrite Rabs_R0. rewrite (Rabs_minus_sym b a).
    cases; unfold Rabs in *; repeat destruct (Rcase_abs _); try lra.
  Qed.
  Theorem so2_triangle a b c : so2_inb a -> so2_inb b -> so2_inb c ->
    so2_distance ReA a c <= so2_distance ReA a b + so2_distance ReA b c.
  Proof.
    intros Ha Hb Hc. unfold so2_inb, so2_distance, fgt, twopi in *. unf. pose proof PI_RGT_0.
    cases; unfold Rabs in *; repeat destruct (Rcase_abs _); lra.
  Qed.

  (* ---------------- all spaces: shape, exact bounds, non-negative weights ---------------- *)
  Notation space := (SpacesModel.space ReA).
  Notation sv := (SpacesModel.sv ReA).

  Lemma space_ind' (Q : space -> Prop) :
    (forall bs, Q (RVs bs)) -> Q SO2s -> (forall lo hi, Q (TimeB ReA lo hi)) -> Q (TimeU ReA) -> (forall lo hi, Q (Disc ReA lo hi)) ->
    (forall subs, Forall (fun ws => Q (snd ws)) subs -> Q (Comps subs)) -> forall sp, Q sp.
  Proof.
    intros H1 H2 H3 H4 H5 H6. fix IH 1. intros [bs| |lo hi| |lo hi|subs]; [apply H1|exact H2|apply H3|exact H4|apply H5|].
    apply H6. induction subs as [|[w s] t IHt]; constructor; [apply IH|exact IHt].
  Qed.

  Fixpoint inb (sp : space) (a : sv) : Prop :=
    match sp, a with
    | RV _ bs, L _ x => rv_inb bs x
    | SO2 _, L _ [x] => so2_inb x
    | TimeB _ lo hi, L _ [x] => lo <= x <= hi
    | TimeU _, L _ [x] => True
    | Disc _ lo hi, L _ [x] => lo <= x <= hi /\ (exists n, x = IZR n) /\ (exists nl nh, lo = IZR nl /\ hi = IZR nh)
    | Comp _ subs, C _ xs =>
      (fix go (ss : list (R * space)) (xs : list sv) : Prop :=
         match ss, xs with
         | (w, s) :: ss', x :: xs' => 0 <= w /\ inb s x /\ go ss' xs'
         | [], [] => True
         | _, _ => False
         end) subs xs
    | _, _ => False
    end.

  Fixpoint csum (ss : list (R * space)) (xs ys : list sv) : R :=
    match ss, xs, ys with
    | (w, s) :: ss', x :: xs', y :: ys' => w * distance ReA s x y + csum ss' xs' ys'
    | _, _, _ => 0
    end.
  Lemma distance_comp subs xs ys : distance ReA (Comps subs) (C ReA xs) (C ReA ys) = csum subs xs ys.
  Proof.
    cbn [distance]. unf.
    assert (G : forall acc, (fix go (ss : list (R * space)) (xs0 ys0 : list sv) (acc0 : R) {struct ss} : R :=
               match ss with
               | [] => acc0
               | (w, s) :: ss' => match xs0 with [] => acc0 | x :: xs' => match ys0 with [] => acc0 | y :: ys' => go ss' xs' ys' (acc0 + w * distance ReA s x y) end end
               end) subs xs ys acc = acc + csum subs xs ys).
    { revert xs ys. induction subs as [|[w s] t IH]; intros xs ys acc; [simpl; lra|].
      destruct xs as [|x xs']; [simpl; lra|]. destruct ys as [|y ys']; [simpl; lra|]. cbn [csum]. rewrite IH. lra. }
    rewrite G. lra.
  Qed.

  Definition metric_on (sp : space) : Prop :=
    forall a b c, inb sp a -> inb sp b -> inb sp c ->
      0 <= distance ReA sp a b /\ distance ReA sp a b = distance ReA sp b a /\ distance ReA sp a a = 0 /\
      distance ReA sp a c <= distance ReA sp a b + distance ReA sp b c.

  Lemma rv_inb_length bs : forall a, rv_inb bs a -> length a = length bs.
  Proof. induction bs as [|[lo hi] bs IH]; intros [|x a] H; simpl in *; try tauto. f_equal. apply IH. tauto. Qed.

  Lemma abs_metric (x y z : R) : 0 <= Rabs (x - y) /\ Rabs (x - y) = Rabs (y - x) /\ Rabs (x - x) = 0 /\ Rabs (x - z) <= Rabs (x - y) + Rabs (y - z).
  Proof. unfold Rabs. repeat destruct (Rcase_abs _); lra. Qed.

  (* the distance of every space built from R^n, SO(2), time, discrete by weighted composition is a metric on
     in-bounds states, and the compound distance is the weighted sum of the component distances *)
  Theorem distance_is_metric : forall sp, metric_on sp.
  Proof.
    induction sp as [bs| |lo hi| |lo hi|subs IH] using space_ind'; intros a b c Ha Hb Hc.
    - destruct a as [x|]; [|simpl in Ha; tauto]. destruct b as [y|]; [|simpl in Hb; tauto]. destruct c as [z|]; [|simpl in Hc; tauto].
      cbn [inb distance] in *. pose proof (rv_inb_length _ _ Ha) as La. pose proof (rv_inb_length _ _ Hb) as Lb. pose proof (rv_inb_length _ _ Hc) as Lc.
      split; [apply rv_nonneg|]. split; [apply rv_sym|]. split; [apply rv_refl|]. apply rv_triangle; [exact (eq_trans La (eq_sym Lb))|exact (eq_trans Lb (eq_sym Lc))].
    - destruct a as [[|x [|? ?]]|]; try (simpl in Ha; tauto). destruct b as [[|y [|? ?]]|]; try (simpl in Hb; tauto). destruct c as [[|z [|? ?]]|]; try (simpl in Hc; tauto).
      cbn [inb distance hd0] in *. destruct (so2_dist_facts x y Ha Hb) as (A & B & C0). split; [lra|]. split; [exact B|]. split; [exact C0|]. apply so2_triangle; assumption.
    - destruct a as [[|x [|? ?]]|]; try (simpl in Ha; tauto). destruct b as [[|y [|? ?]]|]; try (simpl in Hb; tauto). destruct c as [[|z [|? ?]]|]; try (simpl in Hc; tauto).
      cbn [distance hd0]. unf. apply abs_metric.
    - destruct a as [[|x [|? ?]]|]; try (simpl in Ha; tauto). destruct b as [[|y [|? ?]]|]; try (simpl in Hb; tauto). destruct c as [[|z [|? ?]]|]; try (simpl in Hc; tauto).
      cbn [distance hd0]. unf. apply abs_metric.
    - destruct a as [[|x [|? ?]]|]; try (simpl in Ha; tauto). destruct b as [[|y [|? ?]]|]; try (simpl in Hb; tauto). destruct c as [[|z [|? ?]]|]; try (simpl in Hc; tauto).
      cbn [distance hd0]. unf. apply abs_metric.
    - destruct a as [|xs]; [simpl in Ha; tauto|]. destruct b as [|ys]; [simpl in Hb; tauto|]. destruct c as [|zs]; [simpl in Hc; tauto|].
      rewrite !distance_comp. cbn [inb] in Ha, Hb, Hc.
      revert xs ys zs Ha Hb Hc. induction IH as [|[w s] t Hs _ IHt]; intros xs ys zs Ha Hb Hc.
      + destruct xs, ys, zs; simpl; try tauto; lra.
      + destruct xs as [|x xs]; [tauto|]. destruct ys as [|y ys]; [tauto|]. destruct zs as [|z zs]; [tauto|].
        destruct Ha as (Hw & Hx & Ha), Hb as (_ & Hy & Hb), Hc as (_ & Hz & Hc). cbn [csum snd] in *.
        destruct (Hs x y z Hx Hy Hz) as (A1 & A2 & A3 & A4). destruct (IHt xs ys zs Ha Hb Hc) as (B1 & B2 & B3 & B4).
        rewrite A2, A3, B2, B3. repeat split; try nra.
  Qed.

  (* compound distance = weighted sum of the components' distances (definitional, stated for the record) *)
  Theorem compound_distance_weighted_sum subs xs ys :
    distance ReA (Comps subs) (C ReA xs) (C ReA ys) = csum subs xs ys.
  Proof. exact (distance_comp subs xs ys). Qed.

  (* ---- distance <= getMaximumExtent on every space without an unbounded time component (repaired compound rule) ---- *)
  Fixpoint bounded_sp (sp : space) : Prop :=
    match sp with
    | TimeU _ => False
    | Comp _ subs => (fix go (ss : list (R * space)) : Prop := match ss with (w, s) :: ss' => bounded_sp s /\ go ss' | [] => True end) subs
    | _ => True
    end.
  Fixpoint cext (ss : list (R * space)) : R :=
    match ss with (w, s) :: ss' => (if Rltb 0 w then w * extent ReA s else 0) + cext ss' | [] => 0 end.
  Lemma extent_comp subs : extent ReA (Comps subs) = cext subs.
  Proof.
    unfold extent at 1. cbn [extent_gen]. unf.
    assert (G : forall acc, (fix go (ss : list (R * space)) (acc0 : R) {struct ss} : R :=
               match ss with
               | [] => acc0
               | (w, s) :: ss' => go ss' (if fgt ReA w 0 then acc0 + w * extent_gen ReA (fun w0 : R => fgt ReA w0 0) s else acc0)
               end) subs acc = acc + cext subs).
    { induction subs as [|[w s] t IH]; intros acc; [simpl; lra|]. cbn [cext]. rewrite IH. unfold extent, fgt. unf. set (e := extent_gen ReA _ s). destruct (Rltb 0 w); lra. }
    rewrite G. lra.
  Qed.
  Theorem distance_le_extent : forall sp, bounded_sp sp -> forall a b, inb sp a -> inb sp b -> distance ReA sp a b <= extent ReA sp.
  Proof.
    induction sp as [bs| |lo hi| |lo hi|subs IH] using space_ind'; intros Hb a b Ha Hbb.
    - destruct a as [x|]; [|simpl in Ha; tauto]. destruct b as [y|]; [|simpl in Hbb; tauto]. cbn [inb distance] in *. apply rv_le_extent; assumption.
    - destruct a as [[|x [|? ?]]|]; try (simpl in Ha; tauto). destruct b as [[|y [|? ?]]|]; try (simpl in Hbb; tauto). cbn [inb distance hd0] in *.
      destruct (so2_dist_facts x y Ha Hbb) as (A & _). unfold extent. cbn [extent_gen]. unf. lra.
    - destruct a as [[|x [|? ?]]|]; try (simpl in Ha; tauto). destruct b as [[|y [|? ?]]|]; try (simpl in Hbb; tauto). cbn [inb distance hd0] in *.
      unfold extent. cbn [extent_gen]. unf. unfold Rabs. destruct (Rcase_abs _); lra.
    - destruct Hb.
    - destruct a as [[|x [|? ?]]|]; try (simpl in Ha; tauto). destruct b as [[|y [|? ?]]|]; try (simpl in Hbb; tauto). cbn [inb distance hd0] in *.
      unfold extent. cbn [extent_gen]. unf. unfold Rabs. destruct (Rcase_abs _); lra.
    - destruct a as [|xs]; [simpl in Ha; tauto|]. destruct b as [|ys]; [simpl in Hbb; tauto|]. rewrite distance_comp, extent_comp. cbn [inb bounded_sp] in Ha, Hbb, Hb.
      revert xs ys Ha Hbb Hb. induction IH as [|[w s] t Hs _ IHt]; intros xs ys Ha Hbb Hb.
      + destruct xs, ys; simpl; try tauto; lra.
      + destruct xs as [|x xs]; [tauto|]. destruct ys as [|y ys]; [tauto|]. destruct Ha as (Hw & Hx & Ha), Hbb as (_ & Hy & Hbb), Hb as (Hbs & Hb). cbn [csum cext snd] in *.
        specialize (IHt xs ys Ha Hbb Hb). specialize (Hs Hbs x y Hx Hy). destruct (distance_is_metric s x y y Hx Hy Hy) as (Hn & _).
        destruct (Rltb_spec 0 w) as [L|L]; [nra|]. assert (w = 0) by lra. subst w. lra.
  Qed.

  (* ================= C07: interpolation ================= *)
  Lemma rv_interp_01 a : forall b, length a = length b -> rv_interp ReA a b 0 = a /\ rv_interp ReA a b 1 = b.
  Proof. induction a as [|x a IH]; intros [|y b] Hl; simpl in *; try discriminate; [auto|]. injection Hl as Hl. destruct (IH b Hl) as (-> & ->). unf. split; f_equal; ring. Qed.
  Lemma rv_interp_inb bs : forall a b t, rv_inb bs a -> rv_inb bs b -> 0 <= t <= 1 -> rv_inb bs (rv_interp ReA a b t).
  Proof.
    induction bs as [|[lo hi] bs IH]; intros [|x a] [|y b] t Ha Hb Ht; simpl in *; try tauto.
    destruct Ha as (Hx & Ha), Hb as (Hy & Hb). split; [|apply IH; auto]. unf. nra.
  Qed.
  Lemma rv_interp_reparam a : forall b s u, rv_interp ReA (rv_interp ReA a b s) b u = rv_interp ReA a b (s + (1 - s) * u).
  Proof. induction a as [|x a IH]; intros [|y b] s u; simpl; try reflexivity. rewrite IH. unf. f_equal. ring. Qed.
  Lemma sqsum_interp a : forall b t, sqsum a (rv_interp ReA a b t) = t * t * sqsum a b.
  Proof. induction a as [|x a IH]; intros [|y b] t; simpl; try ring. rewrite IH. unf. ring. Qed.
  Theorem rv_interp_geodesic a b t : 0 <= t -> rv_distance ReA a (rv_interp ReA a b t) = t * rv_distance ReA a b.
  Proof.
    intros Ht. rewrite !rv_distance_eq, sqsum_interp. rewrite sqrt_mult; [|nra|apply sqsum_nonneg]. rewrite sqrt_square by exact Ht. reflexivity.
  Qed.

  Theorem so2_interp_endpoints a b : so2_inb a -> so2_inb b -> so2_interp ReA a b 0 = a /\ so2_interp ReA a b 1 = b.
  Proof.
    intros Ha Hb. unfold so2_inb, so2_interp, fgt, fge, twopi in *. unf. pose proof PI_RGT_0.
    split; cases; unfold Rabs in *; repeat destruct (Rcase_abs _); try lra.
  Qed.
  Theorem so2_interp_inb a b t : so2_inb a -> so2_inb b -> 0 <= t <= 1 -> so2_inb (so2_interp ReA a b t).
  Proof.
    intros Ha Hb Ht. unfold so2_inb, so2_interp, fgt, fge, twopi in *. unf. pose proof PI_RGT_0.
    cases; unfold Rabs in *; repeat destruct (Rcase_abs _); try nra.
  Qed.
  Theorem so2_interp_geodesic a b t : so2_inb a -> so2_inb b -> 0 <= t <= 1 ->
    so2_distance ReA a (so2_interp ReA a b t) = t * so2_distance ReA a b.
  Proof.
    intros Ha Hb Ht. unfold so2_inb, so2_interp, so2_distance, fgt, fge, twopi in *. unf. pose proof PI_RGT_0.
    cases; unfold Rabs in *; repeat destruct (Rcase_abs _); try nra.
  Qed.

  Lemma lin_interp_facts a b t : lin_interp ReA a b 0 = a /\ lin_interp ReA a b 1 = b /\
    (forall lo hi, lo <= a <= hi -> lo <= b <= hi -> 0 <= t <= 1 -> lo <= lin_interp ReA a b t <= hi) /\
    (0 <= t -> Rabs (a - lin_interp ReA a b t) = t * Rabs (a - b)) /\
    (forall s u, lin_interp ReA (lin_interp ReA a b s) b u = lin_interp ReA a b (s + (1 - s) * u)).
  Proof.
    unfold lin_interp. unf. split; [ring|]. split; [ring|]. split; [intros; nra|]. split.
    - intros Ht. replace (a - (a + (b - a) * t)) with (t * (a - b)) by ring. rewrite Rabs_mult, (Rabs_right t) by lra. reflexivity.
    - intros s u. ring.
  Qed.

  Lemma disc_interp_facts a b t na nb : a = IZR na -> b = IZR nb ->
    disc_interp ReA a b 0 = a /\ disc_interp ReA a b 1 = b /\
    (forall lo hi nl nh, lo = IZR nl -> hi = IZR nh -> lo <= a <= hi -> lo <= b <= hi -> 0 <= t <= 1 ->
        lo <= disc_interp ReA a b t <= hi /\ exists n, disc_interp ReA a b t = IZR n).
  Proof.
    intros -> ->. unfold disc_interp. unf. split; [|split].
    - replace (IZR na + (IZR nb - IZR na) * 0 + / 2) with (IZR na + / 2) by ring. apply fl_int. lra.
    - replace (IZR na + (IZR nb - IZR na) * 1 + / 2) with (IZR nb + / 2) by ring. apply fl_int. lra.
    - intros lo hi nl nh -> -> Ha Hb Ht. split; [|apply fl_integral].
      set (y := IZR na + (IZR nb - IZR na) * t). assert (Hy : IZR nl <= y <= IZR nh) by (unfold y; nra).
      split.
      + rewrite <- (fl_int nl (/ 2)) by lra. apply fl_mono. lra.
      + rewrite <- (fl_int nh (/ 2)) by lra. apply fl_mono. lra.
  Qed.

  Fixpoint cinterp (ss : list (R * space)) (xs ys : list sv) (t : R) : list sv :=
    match ss, xs, ys with (_, s) :: ss', x :: xs', y :: ys' => interpolate ReA s x y t :: cinterp ss' xs' ys' t | _, _, _ => [] end.
  Lemma interpolate_comp subs xs ys t : interpolate ReA (Comps subs) (C ReA xs) (C ReA ys) t = C ReA (cinterp subs xs ys t).
  Proof. cbn [interpolate]. f_equal. revert xs ys. induction subs as [|[w s] tl IH]; intros [|x xs] [|y ys]; try reflexivity. cbn [cinterp]. rewrite <- IH. reflexivity. Qed.
  Fixpoint cinb (ss : list (R * space)) (xs : list sv) : Prop :=
    match ss, xs with (w, s) :: ss', x :: xs' => 0 <= w /\ inb s x /\ cinb ss' xs' | [], [] => True | _, _ => False end.
  Lemma inb_comp subs xs : inb (Comps subs) (C ReA xs) <-> cinb subs xs.
  Proof. cbn [inb]. revert xs. induction subs as [|[w s] tl IH]; intros [|x xs]; try tauto. cbn [cinb]. rewrite <- IH. tauto. Qed.

  (* endpoints and bounds for every space, by induction over the nesting *)
  Theorem interpolate_endpoints_inb : forall sp a b, inb sp a -> inb sp b ->
    interpolate ReA sp a b 0 = a /\ interpolate ReA sp a b 1 = b /\
    (forall t, 0 <= t <= 1 -> inb sp (interpolate ReA sp a b t)).
  Proof.
    induction sp as [bs| |lo hi| |lo hi|subs IH] using space_ind'; intros a b Ha Hb.
    - destruct a as [x|]; [|simpl in Ha; tauto]. destruct b as [y|]; [|simpl in Hb; tauto]. cbn [inb interpolate] in *.
      pose proof (rv_inb_length _ _ Ha) as La. pose proof (rv_inb_length _ _ Hb) as Lb.
      destruct (rv_interp_01 x y (eq_trans La (eq_sym Lb))) as (-> & ->). split; [reflexivity|]. split; [reflexivity|].
      intros t Ht. apply rv_interp_inb; assumption.
    - destruct a as [[|x [|? ?]]|]; try (simpl in Ha; tauto). destruct b as [[|y [|? ?]]|]; try (simpl in Hb; tauto).
      cbn [inb interpolate hd0] in *. destruct (so2_interp_endpoints x y Ha Hb) as (-> & ->). split; [reflexivity|]. split; [reflexivity|].
      intros t Ht. apply so2_interp_inb; assumption.
    - destruct a as [[|x [|? ?]]|]; try (simpl in Ha; tauto). destruct b as [[|y [|? ?]]|]; try (simpl in Hb; tauto).
      cbn [inb interpolate hd0] in *. destruct (lin_interp_facts x y 0) as (-> & -> & H3 & _). split; [reflexivity|]. split; [reflexivity|].
      intros t Ht. destruct (lin_interp_facts x y t) as (_ & _ & H3' & _). apply H3'; assumption.
    - destruct a as [[|x [|? ?]]|]; try (simpl in Ha; tauto). destruct b as [[|y [|? ?]]|]; try (simpl in Hb; tauto).
      cbn [inb interpolate hd0] in *. destruct (lin_interp_facts x y 0) as (-> & -> & _). auto.
    - destruct a as [[|x [|? ?]]|]; try (simpl in Ha; tauto). destruct b as [[|y [|? ?]]|]; try (simpl in Hb; tauto).
      cbn [inb interpolate hd0] in *. destruct Ha as (Hx & (na & Ea) & (nl & nh & El & Eh)), Hb as (Hy & (nb & Eb) & _).
      destruct (disc_interp_facts x y 0 na nb Ea Eb) as (-> & -> & _). split; [reflexivity|]. split; [reflexivity|].
      intros t Ht. destruct (disc_interp_facts x y t na nb Ea Eb) as (_ & _ & H3). destruct (H3 lo hi nl nh El Eh Hx Hy Ht) as (B1 & B2).
      split; [exact B1|]. split; [exact B2|]. exists nl, nh. auto.
    - destruct a as [|xs]; [simpl in Ha; tauto|]. destruct b as [|ys]; [simpl in Hb; tauto|].
      apply inb_comp in Ha. apply inb_comp in Hb.
      assert (G : forall t, (t = 0 -> cinterp subs xs ys t = xs) /\ (t = 1 -> cinterp subs xs ys t = ys) /\ (0 <= t <= 1 -> cinb subs (cinterp subs xs ys t))).
      { intros t. revert xs ys Ha Hb. induction IH as [|[w s] tl Hs _ IHt]; intros xs ys Ha Hb.
        - destruct xs, ys; simpl in *; try tauto; repeat split; auto.
        - destruct xs as [|x xs]; [simpl in Ha; tauto|]. destruct ys as [|y ys]; [simpl in Hb; tauto|]. destruct Ha as (Hw & Hx & Ha), Hb as (_ & Hy & Hb).
          destruct (Hs x y Hx Hy) as (E0 & E1 & Eb). destruct (IHt xs ys Ha Hb) as (F0 & F1 & Fb). cbn [snd cinterp cinb] in *.
          split; [intros ->; rewrite E0, (F0 eq_refl); reflexivity|]. split; [intros ->; rewrite E1, (F1 eq_refl); reflexivity|].
          intros Ht. split; [exact Hw|]. split; [apply Eb; exact Ht|apply Fb; exact Ht]. }
      rewrite !interpolate_comp. split; [rewrite (proj1 (G 0) eq_refl); reflexivity|]. split; [rewrite (proj1 (proj2 (G 1)) eq_refl); reflexivity|].
      intros t Ht. rewrite interpolate_comp. apply inb_comp. apply (proj2 (proj2 (G t)) Ht).
  Qed.

  (* geodesic law: the point at t is at distance t * d from the start (spaces without rounding: no discrete part) *)
  Fixpoint smooth (sp : space) : Prop :=
    match sp with
    | Disc _ _ _ => False
    | Comp _ subs => (fix go (ss : list (R * space)) : Prop := match ss with (_, s) :: ss' => smooth s /\ go ss' | [] => True end) subs
    | _ => True
    end.
  Fixpoint csmooth (ss : list (R * space)) : Prop := match ss with (_, s) :: ss' => smooth s /\ csmooth ss' | [] => True end.
  Lemma smooth_comp subs : smooth (Comps subs) <-> csmooth subs.
  Proof. cbn [smooth]. induction subs as [|[w s] tl IH]; [tauto|]. cbn [csmooth]. rewrite <- IH. tauto. Qed.

  Theorem interpolate_geodesic : forall sp a b t, smooth sp -> inb sp a -> inb sp b -> 0 <= t <= 1 ->
    distance ReA sp a (interpolate ReA sp a b t) = t * distance ReA sp a b.
  Proof.
    induction sp as [bs| |lo hi| |lo hi|subs IH] using space_ind'; intros a b t Hsm Ha Hb Ht.
    - destruct a as [x|]; [|simpl in Ha; tauto]. destruct b as [y|]; [|simpl in Hb; tauto]. cbn [distance interpolate]. apply rv_interp_geodesic. lra.
    - destruct a as [[|x [|? ?]]|]; try (simpl in Ha; tauto). destruct b as [[|y [|? ?]]|]; try (simpl in Hb; tauto).
      cbn [inb distance interpolate hd0] in *. apply so2_interp_geodesic; assumption.
    - destruct a as [[|x [|? ?]]|]; try (simpl in Ha; tauto). destruct b as [[|y [|? ?]]|]; try (simpl in Hb; tauto).
      cbn [distance interpolate hd0]. unf. destruct (lin_interp_facts x y t) as (_ & _ & _ & H4 & _). apply H4. lra.
    - destruct a as [[|x [|? ?]]|]; try (simpl in Ha; tauto). destruct b as [[|y [|? ?]]|]; try (simpl in Hb; tauto).
      cbn [distance interpolate hd0]. unf. destruct (lin_interp_facts x y t) as (_ & _ & _ & H4 & _). apply H4. lra.
    - simpl in Hsm. tauto.
    - destruct a as [|xs]; [simpl in Ha; tauto|]. destruct b as [|ys]; [simpl in Hb; tauto|].
      apply inb_comp in Ha. apply inb_comp in Hb. apply smooth_comp in Hsm. rewrite interpolate_comp, !distance_comp.
      revert xs ys Ha Hb Hsm. induction IH as [|[w s] tl Hs _ IHt]; intros xs ys Ha Hb Hsm.
      + destruct xs, ys; simpl; lra.
      + destruct xs as [|x xs]; [simpl in Ha; tauto|]. destruct ys as [|y ys]; [simpl in Hb; tauto|].
        destruct Ha as (Hw & Hx & Ha), Hb as (_ & Hy & Hb), Hsm as (Hs1 & Hs2). cbn [cinterp csum snd] in *.
        rewrite (Hs x y t Hs1 Hx Hy Ht), (IHt xs ys Ha Hb Hs2). change (F ReA) with R. ring.
  Qed.

  (* re-parameterisation for the linear spaces (R^n, time) *)
  Theorem rv_time_reparam :
    (forall a b s u, rv_interp ReA (rv_interp ReA a b s) b u = rv_interp ReA a b (s + (1 - s) * u)) /\
    (forall a b s u, lin_interp ReA (lin_interp ReA a b s) b u = lin_interp ReA a b (s + (1 - s) * u)).
  Proof. split; [exact rv_interp_reparam|]. intros a b s u. apply (lin_interp_facts a b 0). Qed.

  (* ================= C08: bound enforcement and samplers ================= *)
  Fixpoint bounds_ok (bs : list (R * R)) : Prop := match bs with (lo, hi) :: bs' => lo <= hi /\ bounds_ok bs' | [] => True end.
  Lemma rv_enforce_facts bs : forall a, bounds_ok bs -> length a = length bs ->
    rv_inb bs (rv_enforce ReA bs a) /\ (rv_inb bs a -> rv_enforce ReA bs a = a).
  Proof.
    induction bs as [|[lo hi] bs IH]; intros [|x a] Hb Hl; simpl in *; try discriminate; [tauto|].
    destruct Hb as (Hlh & Hb). injection Hl as Hl. destruct (IH a Hb Hl) as (A & B). unfold fgt. unf. split.
    - split; [|exact A]. cases; lra.
    - intros (Hx & Ha). rewrite (B Ha). f_equal. cases; lra.
  Qed.
  Lemma twopi_pos : 0 < 2 * PI. Proof. pose proof PI_RGT_0. lra. Qed.
  Theorem so2_enforce_facts x :
    so2_inb (so2_enforce ReA x) /\ (so2_inb x -> so2_enforce ReA x = x) /\ (exists k : Z, so2_enforce ReA x = x - IZR k * (2 * PI)).
  Proof.
    unfold so2_inb, so2_enforce, fge, twopi. unf. pose proof PI_RGT_0. pose proof (fm_range x (2 * PI) twopi_pos) as Hr.
    split; [|split].
    - cases; lra.
    - intros Hx. rewrite (fm_small x (2 * PI) twopi_pos) by lra. cases; lra.
    - destruct (fm_cong x (2 * PI) twopi_pos) as (k & Ek). rewrite Ek. cases.
      + exists (k - 1)%Z. rewrite minus_IZR. lra.
      + exists (k + 1)%Z. rewrite plus_IZR. lra.
      + exists k. lra.
  Qed.
  Lemma clamp_facts lo hi x : lo <= hi -> lo <= clamp ReA lo hi x <= hi /\ (lo <= x <= hi -> clamp ReA lo hi x = x).
  Proof. intros H. unfold clamp, fgt. unf. split; [cases; lra|intros Hx; cases; lra]. Qed.
  Lemma disc_enforce_facts lo hi x : lo <= hi -> lo <= disc_enforce ReA lo hi x <= hi /\ (lo <= x <= hi -> disc_enforce ReA lo hi x = x) /\
    (disc_enforce ReA lo hi x = lo \/ disc_enforce ReA lo hi x = hi \/ disc_enforce ReA lo hi x = x).
  Proof. intros H. unfold disc_enforce, fgt. unf. split; [cases; lra|]. split; [intros Hx; cases; lra|cases; auto]. Qed.

  (* shape of a state and well-formedness of a space (bounds ordered, weights non-negative, discrete bounds integral) *)
  Fixpoint shaped (sp : space) (a : sv) : Prop :=
    match sp, a with
    | RV _ bs, L _ x => length x = length bs /\ bounds_ok bs
    | SO2 _, L _ [x] => True
    | TimeB _ lo hi, L _ [x] => lo <= hi
    | TimeU _, L _ [x] => True
    | Disc _ lo hi, L _ [x] => lo <= hi /\ (exists n, x = IZR n) /\ (exists nl nh, lo = IZR nl /\ hi = IZR nh)
    | Comp _ subs, C _ xs =>
      (fix go (ss : list (R * space)) (xs : list sv) : Prop :=
         match ss, xs with (w, s) :: ss', x :: xs' => 0 <= w /\ shaped s x /\ go ss' xs' | [], [] => True | _, _ => False end) subs xs
    | _, _ => False
    end.
  Fixpoint cshaped (ss : list (R * space)) (xs : list sv) : Prop :=
    match ss, xs with (w, s) :: ss', x :: xs' => 0 <= w /\ shaped s x /\ cshaped ss' xs' | [], [] => True | _, _ => False end.
  Lemma shaped_comp subs xs : shaped (Comps subs) (C ReA xs) <-> cshaped subs xs.
  Proof. cbn [shaped]. revert xs. induction subs as [|[w s] tl IH]; intros [|x xs]; try tauto. cbn [cshaped]. rewrite <- IH. tauto. Qed.
  Fixpoint cenforce (ss : list (R * space)) (xs : list sv) : list sv :=
    match ss, xs with (_, s) :: ss', x :: xs' => enforce ReA s x :: cenforce ss' xs' | _, _ => [] end.
  Lemma enforce_comp subs xs : enforce ReA (Comps subs) (C ReA xs) = C ReA (cenforce subs xs).
  Proof. cbn [enforce]. f_equal; revert xs; induction subs as [|[w s] tl IH]; intros [|x xs]; try reflexivity; cbn [cenforce]; rewrite <- IH; reflexivity. Qed.

  (* enforcing bounds turns any (finite) state into one within the bounds, leaves an in-bounds state unchanged, hence is idempotent *)
  Theorem enforce_laws : forall sp a, shaped sp a ->
    inb sp (enforce ReA sp a) /\ (inb sp a -> enforce ReA sp a = a).
  Proof.
    induction sp as [bs| |lo hi| |lo hi|subs IH] using space_ind'; intros a Hs.
    - destruct a as [x|]; [|simpl in Hs; tauto]. cbn [shaped inb enforce] in *. destruct Hs as (Hl & Hb).
      destruct (rv_enforce_facts bs x Hb Hl) as (A & B). split; [exact A|]. intros Hx. rewrite (B Hx). reflexivity.
    - destruct a as [[|x [|? ?]]|]; try (simpl in Hs; tauto). cbn [inb enforce hd0]. destruct (so2_enforce_facts x) as (A & B & _).
      split; [exact A|]. intros Hx. rewrite (B Hx). reflexivity.
    - destruct a as [[|x [|? ?]]|]; try (simpl in Hs; tauto). cbn [shaped inb enforce hd0] in *. destruct (clamp_facts lo hi x Hs) as (A & B).
      split; [exact A|]. intros Hx. rewrite (B Hx). reflexivity.
    - destruct a as [[|x [|? ?]]|]; try (simpl in Hs; tauto); cbn [inb enforce]; auto.
    - destruct a as [[|x [|? ?]]|]; try (simpl in Hs; tauto). cbn [shaped inb enforce hd0] in *. destruct Hs as (Hlh & (n & En) & (nl & nh & El & Eh)).
      destruct (disc_enforce_facts lo hi x Hlh) as (A & B & D). split.
      + split; [exact A|]. split; [|exists nl, nh; auto]. destruct D as [D|[D|D]]; rewrite D; eauto.
      + intros (Hx & _). rewrite (B Hx). reflexivity.
    - destruct a as [|xs]; [simpl in Hs; tauto|]. apply shaped_comp in Hs. rewrite enforce_comp.
      assert (G : cinb subs (cenforce subs xs) /\ (cinb subs xs -> cenforce subs xs = xs)).
      { revert xs Hs. induction IH as [|[w s] tl Hsp _ IHt]; intros xs Hs.
        - destruct xs; simpl in *; tauto.
        - destruct xs as [|x xs]; [simpl in Hs; tauto|]. destruct Hs as (Hw & Hx & Hs). cbn [snd cenforce cinb] in *.
          destruct (Hsp x Hx) as (A & B). destruct (IHt xs Hs) as (A' & B'). split; [tauto|]. intros (_ & Hi & Hr). rewrite (B Hi), (B' Hr). reflexivity. }
      destruct G as (G1 & G2). split; [apply inb_comp; exact G1|]. intros Hi. apply inb_comp in Hi. rewrite (G2 Hi). reflexivity.
  Qed.
  Corollary enforce_idempotent sp a : shaped sp a -> enforce ReA sp (enforce ReA sp a) = enforce ReA sp a.
  Proof. intros Hs. destruct (enforce_laws sp a Hs) as (A & _). destruct (enforce_laws sp (enforce ReA sp a)) as (_ & B); [|apply B; exact A].
    (* the enforced state has the same shape *)
    revert a Hs A. induction sp as [bs| |lo hi| |lo hi|subs IH] using space_ind'; intros a Hs A.
    - destruct a as [x|]; [|simpl in Hs; tauto]. cbn [shaped enforce] in *. destruct Hs as (Hl & Hb). split; [|exact Hb].
      clear A. revert x Hl. induction bs as [|[lo hi] bs IHb]; intros [|x xs] Hl; simpl in *; try discriminate; auto. f_equal. apply IHb; [tauto|lia].
    - destruct a as [[|x [|? ?]]|]; try (simpl in Hs; tauto); exact I.
    - destruct a as [[|x [|? ?]]|]; try (simpl in Hs; tauto); exact Hs.
    - destruct a as [[|x [|? ?]]|]; try (simpl in Hs; tauto); exact I.
    - destruct a as [[|x [|? ?]]|]; try (simpl in Hs; tauto). cbn [shaped inb enforce hd0] in *. destruct Hs as (Hlh & _ & Hb). destruct A as (_ & Hn & _). auto.
    - destruct a as [|xs]; [simpl in Hs; tauto|]. apply shaped_comp in Hs. rewrite enforce_comp in *. apply shaped_comp. apply inb_comp in A.
      revert xs Hs A. induction IH as [|[w s] tl Hsp _ IHt]; intros xs Hs A.
      + destruct xs; simpl in *; tauto.
      + destruct xs as [|x xs]; [simpl in Hs; tauto|]. destruct Hs as (Hw & Hx & Hs). cbn [snd cenforce cinb cshaped] in *. destruct A as (_ & A1 & A2).
        split; [exact Hw|]. split; [apply Hsp; assumption|apply IHt; assumption].
  Qed.

  (* samplers: for every variate in the distribution's range the sampled value is within the exact bounds *)
  Theorem uniform_real_in_range lo hi u : lo <= hi -> 0 <= u < 1 -> lo <= uniform_real ReA lo hi u <= hi.
  Proof. intros H Hu. unfold uniform_real. unf. nra. Qed.
  Theorem rv_sample_uniform_inb bs : forall us, bounds_ok bs -> length us = length bs -> Forall (fun u => 0 <= u < 1) us ->
    rv_inb bs (rv_sample_uniform ReA bs us).
  Proof.
    induction bs as [|[lo hi] bs IH]; intros [|u us] Hb Hl Hu; simpl in *; try discriminate; [exact I|].
    inversion Hu; subst. split; [apply uniform_real_in_range; tauto|apply IH; [tauto|lia|assumption]].
  Qed.
  Theorem rv_sample_near_inb bs : forall near dist us, rv_inb bs near -> 0 <= dist -> length us = length bs -> Forall (fun u => 0 <= u < 1) us ->
    rv_inb bs (rv_sample_near ReA bs near dist us).
  Proof.
    induction bs as [|[lo hi] bs IH]; intros [|x near] dist [|u us] Hn Hd Hl Hu; simpl in *; try discriminate; try tauto.
    inversion Hu; subst. destruct Hn as (Hx & Hn). split; [|apply IH; auto; lia].
    set (a := fmax ReA lo (fsub ReA x dist)). set (b := fmin ReA hi (fadd ReA x dist)).
    assert (Hab : lo <= a /\ a <= b /\ b <= hi).
    { unfold a, b, fmax, fmin. unf. cases; lra. }
    pose proof (uniform_real_in_range a b u ltac:(lra) ltac:(assumption)) as Hr. unfold uniform_real in Hr. subst a b. unf. lra.
  Qed.
  Theorem rv_sample_gauss_inb bs : forall mean sd gs, bounds_ok bs -> length mean = length bs -> length gs = length bs ->
    rv_inb bs (rv_sample_gauss ReA bs mean sd gs).
  Proof.
    induction bs as [|[lo hi] bs IH]; intros [|x mean] sd [|g gs] Hb Hm Hg; simpl in *; try discriminate; [exact I|].
    split; [|apply IH; [tauto|lia|lia]]. unfold fgt. cases; lra.
  Qed.
  Theorem so2_samplers_inb near dist sd u g : 0 <= u < 1 ->
    so2_inb (so2_sample_uniform ReA u) /\ so2_inb (so2_sample_near ReA near dist u) /\ so2_inb (so2_sample_gauss ReA near sd g).
  Proof.
    intros Hu. split; [|split; apply so2_enforce_facts].
    unfold so2_sample_uniform, so2_inb, uniform_real. unf. pose proof PI_RGT_0. nra.
  Qed.
End Real.
