(* ParRrtProofs.v — geometric::pRRT under every interleaving of its workers' atomic steps: the shared tree keeps the RRT
   invariant (roots are start states, every other node hangs off an earlier node by a motion its thread validated), and what
   solve() reports after joining the threads is a chain of such motions from a start state; an exact report ends in a state the
   goal accepts. *)
From Coq Require Import List Bool Arith Lia.
From OmplV Require Import RrtModel RrtProofs ParRrtModel LedgerProofs.
Import ListNotations.

Section ParP.
  Variables St D I : Type.
  Variable dlt : D -> D -> bool.
  Variable select : list (St * option (nat * unit)) -> I -> nat.
  Variable extend : St -> I -> option St.
  Variable sat : St -> bool.
  Variable gdist : St -> D.
  Variable dflt : St.
  Variable Ok : St -> St -> Prop.                      (* the motion was validated *)
  Hypothesis extend_ok : forall n i d, extend n i = Some d -> Ok n d.
  Hypothesis select_lt : forall tree i, tree <> [] -> (select tree i < length tree)%nat.
  Variable starts : list St.
  Definition pEdge (a : St) (_ : unit) (b : St) : Prop := Ok a b.
  Notation TInv := (TInv St unit pEdge starts).
  Notation state_at := (state_at St unit dflt).
  Notation par_step := (par_step St D I dlt select extend sat gdist dflt).

  Definition PInv (s : par_state St D) : Prop :=
    TInv (q_tree St D s) /\ q_tree St D s <> [] /\
    (forall t, match phase_of St (q_phase St D s) t with
               | Idle _ => True
               | Chosen _ pi d => (pi < length (q_tree St D s))%nat /\ Ok (state_at (q_tree St D s) pi) d
               | Added _ idx => (idx < length (q_tree St D s))%nat
               end) /\
    (forall i, q_sol St D s = Some i -> (i < length (q_tree St D s))%nat /\ sat (state_at (q_tree St D s) i) = true) /\
    (forall i dd, q_approx St D s = Some (i, dd) -> (i < length (q_tree St D s))%nat /\ dd = gdist (state_at (q_tree St D s) i)).

  Lemma phase_set l t ph u : phase_of St (set_phase St l t ph) u = if Nat.eqb t u then ph else phase_of St l u.
  Proof. reflexivity. Qed.
  Lemma state_at_app tree ext j : (j < length tree)%nat -> state_at (tree ++ ext) j = state_at tree j.
  Proof. intros H. unfold RrtProofs.state_at. rewrite app_nth1 by exact H. reflexivity. Qed.
  Lemma TInv_snoc tree d pi : TInv tree -> (pi < length tree)%nat -> Ok (state_at tree pi) d -> TInv (tree ++ [(d, Some (pi, tt))]).
  Proof.
    intros (T1 & T2) Hpi He. split.
    - intros k x Hk. rewrite nth_error_snoc in Hk. destruct (k <? length tree)%nat; [apply (T1 k x Hk)|]. destruct (k =? length tree)%nat; discriminate.
    - intros k x p e0 Hk. rewrite nth_error_snoc in Hk. destruct (Nat.ltb_spec k (length tree)) as [L|L].
      + destruct (T2 k x p e0 Hk) as (A2 & ps & pp & A3 & A4). split; [exact A2|]. exists ps, pp. split; [rewrite nth_error_app1 by lia; exact A3|exact A4].
      + destruct (Nat.eqb_spec k (length tree)) as [->|N]; [|discriminate]. injection Hk as <- <- <-. split; [exact Hpi|].
        destruct (nth_error tree pi) as [[ps pp]|] eqn:En; [|apply nth_error_None in En; lia]. exists ps, pp. split; [rewrite nth_error_app1 by lia; exact En|].
        unfold pEdge. unfold RrtProofs.state_at in He. erewrite nth_error_nth in He by exact En. exact He.
  Qed.

  Lemma par_step_inv s e : PInv s -> PInv (par_step s e).
  Proof.
    intros (T & Hne & Ph & So & Ap). destruct e as [t i|t|t]; cbn [ParRrtModel.par_step].
    - pose proof (Ph t) as Pt. destruct (phase_of St (q_phase St D s) t) eqn:Et; try (split; [exact T|split; [exact Hne|split; [exact Ph|split; [exact So|exact Ap]]]]).
      destruct (extend (fst (nth (select (q_tree St D s) i) (q_tree St D s) (dflt, None))) i) as [d|] eqn:Ex; [|split; [exact T|split; [exact Hne|split; [exact Ph|split; [exact So|exact Ap]]]]].
      unfold PInv. cbn [q_tree q_phase q_sol q_approx]. split; [exact T|]. split; [exact Hne|]. split; [|split; [exact So|exact Ap]]. intros u. rewrite phase_set. destruct (Nat.eqb t u); [|apply Ph].
      split; [apply select_lt; exact Hne|apply (extend_ok _ i d Ex)].
    - pose proof (Ph t) as Pt. destruct (phase_of St (q_phase St D s) t) as [|pi d|idx] eqn:Et; try (split; [exact T|split; [exact Hne|split; [exact Ph|split; [exact So|exact Ap]]]]).
      destruct Pt as (Hpi & Hok). unfold PInv. cbn [q_tree q_phase q_sol q_approx].
      split; [apply TInv_snoc; assumption|]. split; [destruct (q_tree St D s); discriminate|]. split; [|split].
      + intros u. rewrite phase_set. destruct (Nat.eqb t u); [rewrite app_length; cbn; lia|]. specialize (Ph u). destruct (phase_of St (q_phase St D s) u) as [|pj dj|idj]; [exact Logic.I| |rewrite app_length; lia].
        destruct Ph as (A & B). split; [rewrite app_length; lia|rewrite state_at_app by exact A; exact B].
      + intros j Hj. destruct (So j Hj) as (A & B). split; [rewrite app_length; lia|rewrite state_at_app by exact A; exact B].
      + intros j dd Hj. destruct (Ap j dd Hj) as (A & B). split; [rewrite app_length; lia|rewrite state_at_app by exact A; exact B].
    - pose proof (Ph t) as Pt. destruct (phase_of St (q_phase St D s) t) as [|pi d|idx] eqn:Et; try (split; [exact T|split; [exact Hne|split; [exact Ph|split; [exact So|exact Ap]]]]).
      assert (PhI : forall u, match phase_of St (set_phase St (q_phase St D s) t (Idle St)) u with
               | Idle _ => True
               | Chosen _ pj dj => (pj < length (q_tree St D s))%nat /\ Ok (state_at (q_tree St D s) pj) dj
               | Added _ idj => (idj < length (q_tree St D s))%nat end).
      { intros u. rewrite phase_set. destruct (Nat.eqb t u); [exact Logic.I|apply Ph]. }
      change (fst (nth idx (q_tree St D s) (dflt, None))) with (state_at (q_tree St D s) idx). destruct (sat (state_at (q_tree St D s) idx)) eqn:Es; unfold PInv; cbn [q_tree q_phase q_sol q_approx].
      + split; [exact T|]. split; [exact Hne|]. split; [exact PhI|]. split; [intros j Hj; injection Hj as <-; auto|intros j dd Hj; injection Hj as <- <-; auto].
      + split; [exact T|]. split; [exact Hne|]. split; [exact PhI|]. split; [exact So|]. intros j dd Hj. destruct (q_approx St D s) as [[bi bd]|] eqn:Ea.
        * destruct (dlt (gdist (state_at (q_tree St D s) idx)) bd); [injection Hj as <- <-; auto|apply Ap; exact Hj].
        * injection Hj as <- <-. auto.
  Qed.

  Theorem par_run_inv sched : starts <> [] -> PInv (par_run St D I dlt select extend sat gdist dflt starts sched).
  Proof.
    intros Hs. unfold par_run.
    assert (I0 : PInv (mkPar St D (map (fun x => (x, None)) starts) [] None None)).
    { split; [|split; [destruct starts; [congruence|discriminate]|split; [intros t; exact Logic.I|split; [intros i H; discriminate|intros i dd H; discriminate]]]].
      split; [intros i s Hi|intros i s p e Hi]; cbn [q_tree] in Hi; rewrite nth_error_map in Hi; destruct (nth_error starts i) eqn:E0; try discriminate. cbn in Hi. injection Hi as <-. eapply nth_error_In; exact E0. }
    generalize dependent (mkPar St D (map (fun x : St => (x, @None (nat * unit))) starts) [] None None). induction sched as [|e t IH]; intros s0 I0; [exact I0|]. cbn [fold_left]. apply IH. apply par_step_inv. exact I0.
  Qed.
  (* what solve() reports once the threads are joined *)
  Theorem par_report_spec sched : starts <> [] ->
    match par_report St D (par_run St D I dlt select extend sat gdist dflt starts sched) with
    | Some (path, approx) =>
        path <> [] /\ (exists s0, hd (None, dflt) path = (None, s0) /\ In s0 starts) /\ pathOk St unit pEdge path /\
        (approx = false -> sat (snd (last path (None, dflt))) = true)
    | None => True
    end.
  Proof.
    intros Hs. destruct (par_run_inv sched Hs) as (T & Hne & _ & So & Ap). set (s := par_run St D I dlt select extend sat gdist dflt starts sched) in *. unfold par_report.
    assert (CH : forall i, (i < length (q_tree St D s))%nat -> let c := chain St unit (S (length (q_tree St D s))) (q_tree St D s) i in
              c <> [] /\ snd (last c (None, dflt)) = state_at (q_tree St D s) i /\ (exists s1, hd (None, dflt) c = (None, s1) /\ In s1 starts) /\ pathOk St unit pEdge c).
    { intros i Hi. destruct (nth_error (q_tree St D s) i) as [[x p]|] eqn:En; [|apply nth_error_None in En; lia].
      destruct (chain_spec St unit dflt pEdge starts _ T (S (length (q_tree St D s))) i x p ltac:(lia) En) as (C1 & C2 & C3 & C4).
      split; [exact C1|]. split; [rewrite C2; unfold RrtProofs.state_at; erewrite nth_error_nth by exact En; reflexivity|]. split; assumption. }
    destruct (q_sol St D s) as [i|] eqn:Es.
    - destruct (So i eq_refl) as (A & B). destruct (CH i A) as (C1 & C2 & C3 & C4). split; [exact C1|]. split; [exact C3|]. split; [exact C4|]. intros _. rewrite C2. exact B.
    - destruct (q_approx St D s) as [[i dd]|] eqn:Ea; [|exact Logic.I]. destruct (Ap i dd eq_refl) as (A & _). destruct (CH i A) as (C1 & C2 & C3 & C4). split; [exact C1|]. split; [exact C3|]. split; [exact C4|]. discriminate.
  Qed.
End ParP.
