(* Properties_C08.v — property C08 (bound enforcement and samplers keep states inside the space) for R^n, SO(2),
   time, discrete and nested weighted compounds.  Statements only. *)
From Coq Require Import List Bool Arith Reals Floats.
From OmplV Require Import SpacesModel SpacesReal SpacesFloat.
Import ListNotations.
Local Open Scope R_scope.

Section C08.
  Variables (fm : R -> R -> R) (fl : R -> R) (eps : R).
  (* what is used of fmod(x, p), p > 0: result in (-p, p), identity on (-p, p), differs from x by a multiple of p *)
  Hypothesis fm_range : forall x p, 0 < p -> - p < fm x p < p.
  Hypothesis fm_small : forall x p, 0 < p -> - p < x < p -> fm x p = x.
  Hypothesis fm_cong : forall x p, 0 < p -> exists k : Z, fm x p = x - IZR k * p.
  Notation A := (ReA fm fl eps).

  (* enforcing bounds turns ANY state of the right shape into one within the bounds and leaves an in-bounds state unchanged *)
  Theorem C08_enforce_bounds : forall sp a, shaped fm fl eps sp a ->
    inb fm fl eps sp (enforce A sp a) /\ (inb fm fl eps sp a -> enforce A sp a = a).
  Proof. exact (enforce_laws fm fl eps fm_range fm_small fm_cong). Qed.
  Theorem C08_enforce_idempotent : forall sp a, shaped fm fl eps sp a -> enforce A sp (enforce A sp a) = enforce A sp a.
  Proof. exact (enforce_idempotent fm fl eps fm_range fm_small fm_cong). Qed.
  (* SO(2): the enforced angle is the same rotation *)
  Theorem C08_so2_enforce_same_rotation : forall x, exists k : Z, so2_enforce A x = x - IZR k * (2 * PI).
  Proof. intros x. apply (so2_enforce_facts fm fl eps fm_range fm_small fm_cong x). Qed.

  (* samplers as functions of the drawn variates: uniform, near and Gaussian sampling stay within the bounds for every
     uniform variate in [0,1) and every normal variate *)
  Theorem C08_rv_uniform_in_bounds : forall bs us, bounds_ok bs -> length us = length bs -> Forall (fun u => 0 <= u < 1) us ->
    rv_inb bs (rv_sample_uniform A bs us).
  Proof. exact (rv_sample_uniform_inb fm fl eps). Qed.
  Theorem C08_rv_near_in_bounds : forall bs near dist us, rv_inb bs near -> 0 <= dist -> length us = length bs -> Forall (fun u => 0 <= u < 1) us ->
    rv_inb bs (rv_sample_near A bs near dist us).
  Proof. exact (rv_sample_near_inb fm fl eps). Qed.
  Theorem C08_rv_gaussian_in_bounds : forall bs mean sd gs, bounds_ok bs -> length mean = length bs -> length gs = length bs ->
    rv_inb bs (rv_sample_gauss A bs mean sd gs).
  Proof. exact (rv_sample_gauss_inb fm fl eps). Qed.
  Theorem C08_so2_samplers_in_bounds : forall near dist sd u g, 0 <= u < 1 ->
    so2_inb (so2_sample_uniform A u) /\ so2_inb (so2_sample_near A near dist u) /\ so2_inb (so2_sample_gauss A near sd g).
  Proof. exact (so2_samplers_inb fm fl eps fm_range fm_small fm_cong). Qed.
End C08.

Print Assumptions C08_enforce_bounds.
Print Assumptions C08_enforce_idempotent.
Print Assumptions C08_so2_enforce_same_rotation.
Print Assumptions C08_rv_uniform_in_bounds.
Print Assumptions C08_rv_near_in_bounds.
Print Assumptions C08_rv_gaussian_in_bounds.
Print Assumptions C08_so2_samplers_in_bounds.

Local Open Scope float_scope.
Example C08_nonvacuous :
  so2_enforce FlA 100 = (-0.53096491487337971) /\ so2_satisfies FlA (so2_enforce FlA 100) = true /\
  rv_enforce FlA [(0, 1); (-2, 2)] [7; -0.5] = [1; -0.5] /\ so2_enforce FlA 0x1.921fb54442d18p+1 = (-0x1.921fb54442d18p+1).
Proof. vm_compute. repeat split. Qed.
