(* Properties_C08.v — property C08 (bound enforcement and samplers keep states inside the space) for R^n, SO(2),
   time, discrete and nested weighted compounds.  Statements only. *)
From Coq Require Import List Bool Arith Reals Floats.
From Coq Require Import ZArith.
From OmplV Require Import SpacesModel SpacesReal SpacesFloat SamplersModel SamplersReal VssModel VssProofs.
Import ListNotations.
Local Open Scope R_scope.

Section C08.
  Variables (fm : R -> R -> R) (fl : R -> R) (eps : R).
  (* what is used of fmod(x, p), p > 0: result in (-p, p), identity on (-p, p), differs from x by a multiple of p *)
  Hypothesis fm_range : forall x p, 0 < p -> - p < fm x p < p.
  Hypothesis fm_small : forall x p, 0 < p -> - p < x < p -> fm x p = x.
  Hypothesis fm_cong : forall x p, 0 < p -> exists k : Z, fm x p = x - IZR k * p.
  Notation A := (ReA fm fl eps).

  (* enforcing bounds turns ANY state of the right shape into one within the bounds and leaves an in-bounds state unchanged *)
  Theorem C08_enforce_bounds : forall sp a, shaped fm fl eps sp a ->
    inb fm fl eps sp (enforce A sp a) /\ (inb fm fl eps sp a -> enforce A sp a = a).
  Proof. exact (enforce_laws fm fl eps fm_range fm_small fm_cong). Qed.
  Theorem C08_enforce_idempotent : forall sp a, shaped fm fl eps sp a -> enforce A sp (enforce A sp a) = enforce A sp a.
  Proof. exact (enforce_idempotent fm fl eps fm_range fm_small fm_cong). Qed.
  (* SO(2): the enforced angle is the same rotation *)
  Theorem C08_so2_enforce_same_rotation : forall x, exists k : Z, so2_enforce A x = x - IZR k * (2 * PI).
  Proof. intros x. apply (so2_enforce_facts fm fl eps fm_range fm_small fm_cong x). Qed.

  (* samplers as functions of the drawn variates: uniform, near and Gaussian sampling stay within the bounds for every
     uniform variate in [0,1) and every normal variate *)
  Theorem C08_rv_uniform_in_bounds : forall bs us, bounds_ok bs -> length us = length bs -> Forall (fun u => 0 <= u < 1) us ->
    rv_inb bs (rv_sample_uniform A bs us).
  Proof. exact (rv_sample_uniform_inb fm fl eps). Qed.
  Theorem C08_rv_near_in_bounds : forall bs near dist us, rv_inb bs near -> 0 <= dist -> length us = length bs -> Forall (fun u => 0 <= u < 1) us ->
    rv_inb bs (rv_sample_near A bs near dist us).
  Proof. exact (rv_sample_near_inb fm fl eps). Qed.
  Theorem C08_rv_gaussian_in_bounds : forall bs mean sd gs, bounds_ok bs -> length mean = length bs -> length gs = length bs ->
    rv_inb bs (rv_sample_gauss A bs mean sd gs).
  Proof. exact (rv_sample_gauss_inb fm fl eps). Qed.
  Theorem C08_so2_samplers_in_bounds : forall near dist sd u g, 0 <= u < 1 ->
    so2_inb (so2_sample_uniform A u) /\ so2_inb (so2_sample_near A near dist u) /\ so2_inb (so2_sample_gauss A near sd g).
  Proof. exact (so2_samplers_inb fm fl eps fm_range fm_small fm_cong). Qed.
  (* every default sampler of every modelled space — compounds of any nesting, with the importance weighting of
     CompoundStateSampler — returns a state within the bounds: uniform and near for every tape of variates in [0,1), Gaussian
     for any variates; near / mean state in bounds, distance >= 0, any deviation.  (floor is only used through the three
     facts below; [need] bounds the number of variates consumed.) *)
  Hypothesis eps_pos : 0 < eps.
  Hypothesis fl_int : forall (n : Z) (r : R), 0 <= r < 1 -> fl (IZR n + r) = IZR n.
  Hypothesis fl_mono : forall x y, x <= y -> fl x <= fl y.
  Hypothesis fl_integral : forall x, exists n, fl x = IZR n.
  Theorem C08_uniform_sampler_in_bounds : forall sp, wfs fm fl eps sp -> forall tape, Forall unit01 tape -> (need fm fl eps sp <= length tape)%nat ->
    inb fm fl eps sp (fst (g_sample_uniform A sp tape)).
  Proof. intros sp Hw tape Ht Hn. apply (sample_uniform_inb fm fl eps fl_int fl_mono fl_integral fm_range fm_small fm_cong sp Hw tape Ht Hn). Qed.
  Theorem C08_near_sampler_in_bounds : forall sp, wfs fm fl eps sp -> forall near dist tape, inb fm fl eps sp near -> 0 <= dist -> Forall unit01 tape ->
    (need fm fl eps sp <= length tape)%nat -> inb fm fl eps sp (fst (g_sample_near A Rdiv sp near dist tape)).
  Proof. intros sp Hw near dist tape H1 H2 H3 H4. apply (sample_near_inb fm fl eps eps_pos fl_int fl_mono fl_integral fm_range fm_small fm_cong sp Hw near dist tape H1 H2 H3 H4). Qed.
  Theorem C08_gaussian_sampler_in_bounds : forall sp, wfs fm fl eps sp -> forall mean sd tape, inb fm fl eps sp mean ->
    (need fm fl eps sp <= length tape)%nat -> inb fm fl eps sp (fst (g_sample_gauss A Rdiv sp mean sd tape)).
  Proof. intros sp Hw mean sd tape H1 H2. apply (sample_gauss_inb fm fl eps fl_integral fm_range fm_small fm_cong sp Hw mean sd tape H1 H2). Qed.
  (* the RNG's range functions: uniformInt(lo, hi) in {lo..hi} for a variate in [0,1); halfNormalReal(r_min, r_max, focus) in
     [r_min, r_max] and halfNormalInt in {r_min..r_max} for every normal variate and every focus *)
  Theorem C08_rng_uniform_int_range : forall lo hi u (nl nh : Z), lo = IZR nl -> hi = IZR nh -> lo <= hi -> unit01 u ->
    lo <= uniform_int A lo hi u <= hi /\ exists n, uniform_int A lo hi u = IZR n.
  Proof. exact (uniform_int_facts fm fl eps fl_int fl_mono fl_integral). Qed.
  Theorem C08_rng_half_normal_real_range : forall rmin rmax focus g, rmin <= rmax ->
    rmin <= half_normal_real A Rdiv rmin rmax focus g <= rmax.
  Proof. exact (half_normal_real_range fm fl eps). Qed.
  Theorem C08_rng_half_normal_int_range : forall rmin rmax focus g (nl nh : Z), rmin = IZR nl -> rmax = IZR nh -> rmin <= rmax ->
    rmin <= half_normal_int A Rdiv rmin rmax focus g <= rmax /\ exists n, half_normal_int A Rdiv rmin rmax focus g = IZR n.
  Proof. exact (half_normal_int_range fm fl eps fl_int fl_mono fl_integral). Qed.
End C08.

Print Assumptions C08_rng_uniform_int_range.
Print Assumptions C08_rng_half_normal_real_range.
Print Assumptions C08_rng_half_normal_int_range.
Print Assumptions C08_enforce_bounds.
Print Assumptions C08_enforce_idempotent.
Print Assumptions C08_so2_enforce_same_rotation.
Print Assumptions C08_rv_uniform_in_bounds.
Print Assumptions C08_rv_near_in_bounds.
Print Assumptions C08_rv_gaussian_in_bounds.
Print Assumptions C08_so2_samplers_in_bounds.
Print Assumptions C08_uniform_sampler_in_bounds.
Print Assumptions C08_near_sampler_in_bounds.
Print Assumptions C08_gaussian_sampler_in_bounds.

(* ---- valid-state samplers: for every underlying sampler behaviour (tape of drawn states), validity predicate,
   number of attempts.  SpaceInformation::isValid is the user's checker alone, so in-bounds-ness of a returned state
   is inherited: P (= satisfiesBounds) holds for every draw (first half of C08) and is preserved by interpolation
   (C07) and by the motion validator's last valid state (C05). *)
Section C08_valid_samplers.
  Variable St : Type.
  Variables (chk : St -> bool) (clr : St -> Z) (mid lastv : St -> St -> St) (P : St -> Prop).
  Theorem C08_valid_samplers_success_is_valid_and_in_bounds :
    (forall temp s, chk temp = true -> chk s = false -> chk (lastv temp s) = true) ->
    (forall temp s, P temp -> P s -> P (lastv temp s)) ->
    (forall e s, P e -> P s -> P (mid e s)) ->
    forall attempts improve c st tape s t, Forall P tape ->
      (vss_uniform St chk attempts st tape = Some (true, s, t) \/
       vss_gauss St chk attempts st tape = Some (true, s, t) \/
       vss_obstacle St chk lastv attempts st tape = Some (true, s, t) \/
       vss_bridge St chk mid attempts st tape = Some (true, s, t) \/
       vss_maxclear St chk clr attempts improve st tape = Some (true, s, t) \/
       vss_minclear St chk clr attempts c st tape = Some (true, s, t)) -> chk s = true /\ P s.
  Proof. exact (all_samplers_success_valid_inbounds St chk clr mid lastv P). Qed.
  Theorem C08_uniform_valid_sampler_failure : forall attempts st tape s t,
      vss_uniform St chk attempts st tape = Some (false, s, t) ->
      exists pre, tape = pre ++ t /\ Forall (fun x => chk x = false) pre /\ length pre = Nat.max 1 attempts.
  Proof. exact (uniform_failure_exhausted St chk). Qed.
  Theorem C08_min_clearance_respected : forall attempts c st tape s t,
      vss_minclear St chk clr attempts c st tape = Some (true, s, t) -> chk s = true /\ (c <= clr s)%Z /\ In s tape.
  Proof. exact (minclear_success St chk clr). Qed.
End C08_valid_samplers.
Print Assumptions C08_valid_samplers_success_is_valid_and_in_bounds.
Print Assumptions C08_uniform_valid_sampler_failure.
Print Assumptions C08_min_clearance_respected.
Example C08_valid_samplers_nonvacuous :
  vss_run VUniform 3 0 0%Z [4; 8; 6; 2]%Z = Some (true, 6%Z, 3%nat) /\
  vss_run VUniform 2 0 0%Z [4; 8; 6; 2]%Z = Some (false, 8%Z, 2%nat) /\
  vss_run VBridge 5 0 0%Z [4; 8; 2; 8; 12]%Z = Some (true, 6%Z, 2%nat) /\
  vss_run VGauss 3 0 0%Z [4; 8; 12; 6]%Z = Some (true, 6%Z, 4%nat) /\
  vss_run VMaxClear 3 2 0%Z [4; 10; 6; 5]%Z = Some (true, 6%Z, 4%nat) /\
  vss_run VMinClear 3 0 3%Z [8; 2; 10]%Z = Some (true, 10%Z, 3%nat) /\
  vss_run VObstacle 3 0 0%Z [2; 4; 8; 6]%Z = Some (true, 6%Z, 4%nat).
Proof. vm_compute. repeat split. Qed.

Local Open Scope float_scope.
Example C08_nonvacuous :
  so2_enforce FlA 100 = (-0.53096491487337971) /\ so2_satisfies FlA (so2_enforce FlA 100) = true /\
  rv_enforce FlA [(0, 1); (-2, 2)] [7; -0.5] = [1; -0.5] /\ so2_enforce FlA 0x1.921fb54442d18p+1 = (-0x1.921fb54442d18p+1).
Proof. vm_compute. repeat split. Qed.
