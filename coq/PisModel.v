(* PisModel.v — bookkeeping of queries: Planner::setProblemDefinition / clear and PlannerInputStates
   (src/ompl/base/src/Planner.cpp: use, clear, restart, nextStart, nextGoal with the always-terminating condition,
   haveMoreStartStates / haveMoreGoalStates) over problem definitions whose start lists can grow.
   States are integer ids; each carries the verdict "in bounds and valid". A GoalStates object cycles through its
   list with its own position (samplePosition_), independent of the planner's sampledGoalsCount_. *)
From Coq Require Import List ZArith Bool Arith.
Import ListNotations.

Record pdef := mkPd { pd_starts : list (Z * bool); pd_goals : list (Z * bool); pd_gpos : nat }.
Record world := mkW {
  w_pdefs : list pdef;            (* problem definitions, addressed by index *)
  w_planner : option nat;         (* Planner::pdef_ *)
  w_pis : option nat;             (* PlannerInputStates::pdef_ *)
  w_added : nat;                  (* addedStartStates_ *)
  w_sampled : nat }.              (* sampledGoalsCount_ *)

Definition get_pd (w : world) (i : nat) : pdef := nth i (w_pdefs w) (mkPd [] [] 0).
Fixpoint set_nth {A} (l : list A) (i : nat) (x : A) : list A :=
  match l, i with
  | [], _ => []
  | _ :: t, O => x :: t
  | h :: t, S k => h :: set_nth t k x
  end.

(* PlannerInputStates::use *)
Definition pis_use (w : world) (p : option nat) : world :=
  match p with
  | Some i => if match w_pis w with Some j => Nat.eqb i j | None => false end then w
              else mkW (w_pdefs w) (w_planner w) (Some i) 0 0
  | None => w
  end.
(* Planner::setProblemDefinition: pdef_ = pdef; pis_.update() *)
Definition set_pdef (w : world) (i : nat) : world :=
  pis_use (mkW (w_pdefs w) (Some i) (w_pis w) (w_added w) (w_sampled w)) (Some i).
(* Planner::clear: pis_.clear(); pis_.update() *)
Definition planner_clear (w : world) : world :=
  pis_use (mkW (w_pdefs w) (w_planner w) None 0 0) (w_planner w).
Definition pis_restart (w : world) : world := mkW (w_pdefs w) (w_planner w) (w_pis w) 0 0.

(* nextStart: skip (and count) invalid / out-of-bounds starts *)
Fixpoint scan_start (l : list (Z * bool)) (added : nat) : option Z * nat :=
  match l with
  | [] => (None, added)
  | (s, ok) :: t => if ok then (Some s, S added) else scan_start t (S added)
  end.
Definition next_start (w : world) : option Z * world :=
  match w_pis w with
  | None => (None, w)                         (* the implementation throws *)
  | Some i =>
      let '(r, a) := scan_start (skipn (w_added w) (pd_starts (get_pd w i))) (w_added w) in
      (r, mkW (w_pdefs w) (w_planner w) (w_pis w) a (w_sampled w))
  end.
Definition have_more_starts (w : world) : bool :=
  match w_pis w with Some i => Nat.ltb (w_added w) (length (pd_starts (get_pd w i))) | None => false end.

(* nextGoal() (always-terminating condition): at most one sample of the goal per call *)
Definition next_goal (w : world) : option Z * world :=
  match w_pis w with
  | None => (None, w)
  | Some i =>
      let pd := get_pd w i in
      let n := length (pd_goals pd) in
      if Nat.ltb (w_sampled w) n then
        let '(g, ok) := nth (Nat.modulo (pd_gpos pd) n) (pd_goals pd) (0%Z, false) in
        let pd' := mkPd (pd_starts pd) (pd_goals pd) (S (pd_gpos pd)) in
        ((if ok then Some g else None),
         mkW (set_nth (w_pdefs w) i pd') (w_planner w) (w_pis w) (w_added w) (S (w_sampled w)))
      else (None, w)
  end.
Definition have_more_goals (w : world) : bool :=
  match w_pis w with Some i => Nat.ltb (w_sampled w) (length (pd_goals (get_pd w i))) | None => false end.

Definition add_start (w : world) (i : nat) (s : Z) (ok : bool) : world :=
  let pd := get_pd w i in
  mkW (set_nth (w_pdefs w) i (mkPd (pd_starts pd ++ [(s, ok)]) (pd_goals pd) (pd_gpos pd))) (w_planner w) (w_pis w) (w_added w) (w_sampled w).

Inductive qop := QUse (i : nat) | QClear | QRestart | QNextStart | QNextGoal | QAddStart (i : nat) (s : Z) (ok : bool) | QMoreStarts | QMoreGoals.
Inductive qout := OUnit | OState (s : option Z) | OBool (b : bool).
Definition qstep (w : world) (o : qop) : world * qout :=
  match o with
  | QUse i => (set_pdef w i, OUnit)
  | QClear => (planner_clear w, OUnit)
  | QRestart => (pis_restart w, OUnit)
  | QNextStart => let '(r, w') := next_start w in (w', OState r)
  | QNextGoal => let '(r, w') := next_goal w in (w', OState r)
  | QAddStart i s ok => (add_start w i s ok, OUnit)
  | QMoreStarts => (w, OBool (have_more_starts w))
  | QMoreGoals => (w, OBool (have_more_goals w))
  end.
Fixpoint qrun (w : world) (ops : list qop) : list qout :=
  match ops with [] => [] | o :: t => let '(w', r) := qstep w o in r :: qrun w' t end.

(* repeated nextStart until it reports none *)
Fixpoint drain_starts (fuel : nat) (w : world) : list Z * world :=
  match fuel with
  | O => ([], w)
  | S k => match next_start w with
           | (Some s, w') => let '(l, w'') := drain_starts k w' in (s :: l, w'')
           | (None, w') => ([], w')
           end
  end.
