(* Properties_C02.v — property C02 (control planners' solutions replay through the propagator to the goal).
   Statements only. *)
From Coq Require Import List ZArith Bool Arith Lia.
From OmplV Require Import ControlModel ControlProofs RrtModel RrtProofs.
Import ListNotations.

(* propagateWhileValid (single-result overload): r <= steps steps were performed, the result is the state after exactly
   r steps, each of those r states is valid, and an early stop means the next state is invalid — for every propagator,
   validity predicate, control and step count *)
Theorem C02_propagateWhileValid_spec : forall (St C : Type) (stepf : C -> St -> St) (valid : St -> bool) s c steps,
  let '(r, res) := pwv St C stepf valid s c steps in
  r <= steps /\ res = iter St C stepf c r s /\ (forall k, 1 <= k <= r -> valid (iter St C stepf c k s) = true) /\
  (r < steps -> valid (iter St C stepf c (S r) s) = false).
Proof. exact pwv_spec. Qed.
(* ... so the returned step count is THE longest valid prefix: no larger count within `steps` has all its states valid
   (the result is determined by the validity of the iterates alone) *)
Theorem C02_propagateWhileValid_is_maximal : forall (St C : Type) (stepf : C -> St -> St) (valid : St -> bool) s c steps r',
  r' <= steps -> (forall k, 1 <= k <= r' -> valid (iter St C stepf c k s) = true) ->
  r' <= fst (pwv St C stepf valid s c steps).
Proof.
  intros St C stepf valid s c steps r' Hle Hall.
  pose proof (C02_propagateWhileValid_spec St C stepf valid s c steps) as Sp.
  destruct (pwv St C stepf valid s c steps) as [r res]. destruct Sp as (_ & _ & _ & Hstop). cbn [fst].
  destruct (le_lt_dec r' r) as [L|G]; [exact L|exfalso].
  assert (Hf : valid (iter St C stepf c (S r) s) = false) by (apply Hstop; lia).
  rewrite (Hall (S r)) in Hf by lia. discriminate.
Qed.
(* the vector overload returns those same states, in order *)
Theorem C02_propagateWhileValid_states_spec : forall (St C : Type) (stepf : C -> St -> St) (valid : St -> bool) c fuel cur,
  let l := pwv_states St C stepf valid c fuel cur in
  length l <= fuel /\ (forall k, k < length l -> nth k l cur = iter St C stepf c (S k) cur /\ valid (iter St C stepf c (S k) cur) = true) /\
  (length l < fuel -> valid (iter St C stepf c (S (length l)) cur) = false).
Proof. exact pwv_states_spec. Qed.
(* a path assembled from propagateWhileValid results (parent -> child edges of a control tree) replays exactly and
   every propagation step of the replay is valid *)
Theorem C02_tree_paths_replay : forall (St C : Type) (stepf : C -> St -> St) (valid : St -> bool) edges s,
  chain_ok St C stepf valid s edges ->
  ends St C stepf s (map (fun e => let '(c, _, r, _) := e in (c, r)) edges) = map (fun e => let '(_, _, _, res) := e in res) edges /\
  Forall (fun blk => Forall (fun x => valid x = true) blk) (replay St C stepf s (map (fun e => let '(c, _, r, _) := e in (c, r)) edges)).
Proof. exact pwv_chain_replays. Qed.
(* the directed control sampler (SimpleDirectedControlSampler::getBestControl with k candidates): the control, step count
   and state it hands to the planner are consistent — the state is what the control reaches from the source in exactly
   that many steps, all of them valid, at most the sampled count — and no candidate ended closer to the target *)
Theorem C02_directed_sampler_result_replays : forall (St C : Type) (stepf : C -> St -> St) (valid : St -> bool) (dist : St -> Z) s first rest,
  let '(c, n, st) := best_control St C stepf valid dist s first rest in
  (exists m, In (c, m) (first :: rest) /\ n <= m /\ (n, st) = pwv St C stepf valid s c m) /\
  st = iter St C stepf c n s /\ (forall k, 1 <= k <= n -> valid (iter St C stepf c k s) = true) /\
  (forall cn, In cn (first :: rest) -> (dist st <= dist (snd (pwv St C stepf valid s (fst cn) (snd cn))))%Z).
Proof. exact best_control_spec. Qed.
(* control::RRT as a whole (RrtModel.crrt_solve: the RRT loop shared with the geometric planner, extension through the directed
   control sampler above, minimum control duration, goal test, exact / approximate bookkeeping, path extraction), for every
   propagator, validity predicate, goal, and every stream of targets and candidate controls: every motion of the tree — hence
   every segment of a reported path — replays: its control applied for its recorded number of steps (at least the minimum
   duration) from the parent state reproduces the child state and every propagation step lands on a valid state; the path
   starts at a start state; an exact report ends in a state the goal accepts *)
Theorem C02_control_rrt_paths_replay :
  forall (St C : Type) (stepf : C -> St -> St) (valid : St -> bool) dist sat gdist (dflt : St) minDur starts ins, starts <> [] ->
  let tree := fst (crrt_solve St C stepf valid dist sat gdist dflt minDur starts ins) in
  TInv St (C * nat) (cEdge St C stepf valid minDur) starts tree /\ (exists ext, tree = map (fun x => (x, None)) starts ++ ext) /\
  match snd (crrt_solve St C stepf valid dist sat gdist dflt minDur starts ins) with
  | Some (path, approx, dd) =>
      path <> [] /\ (exists s0, hd (None, dflt) path = (None, s0) /\ In s0 starts) /\
      pathOk St (C * nat) (cEdge St C stepf valid minDur) path /\ dd = gdist (snd (last path (None, dflt))) /\
      (exists i, (length starts <= i < length tree)%nat /\ snd (last path (None, dflt)) = state_at St (C * nat) dflt tree i) /\
      (if approx then sat (snd (last path (None, dflt))) = false /\
                      forall j, (length starts <= j < length tree)%nat -> (gdist (state_at St (C * nat) dflt tree j) <? dd)%Z = false
       else sat (snd (last path (None, dflt))) = true)
  | None => length tree = length starts
  end.
Proof. exact crrt_solve_spec. Qed.
(* control::RRT with intermediate states (crrti_solve: the chosen control is propagated again step by step and every valid state
   becomes a motion of one step, the chain ending at the first state that satisfies the goal): every motion of the tree and every
   segment of a reported path is exactly one propagation step of its control onto a valid state *)
Theorem C02_control_rrt_intermediate_states_paths_replay :
  forall (St C : Type) (stepf : C -> St -> St) (valid : St -> bool) dist sat gdist (dflt : St) minDur starts ins, starts <> [] ->
  let tree := fst (crrti_solve St C stepf valid dist sat gdist dflt minDur starts ins) in
  TInv St (C * nat) (cEdge1 St C stepf valid) starts tree /\ (exists ext, tree = map (fun x => (x, None)) starts ++ ext) /\
  match snd (crrti_solve St C stepf valid dist sat gdist dflt minDur starts ins) with
  | Some (path, approx, dd) =>
      path <> [] /\ (exists s0, hd (None, dflt) path = (None, s0) /\ In s0 starts) /\
      pathOk St (C * nat) (cEdge1 St C stepf valid) path /\ dd = gdist (snd (last path (None, dflt))) /\
      (exists i, (length starts <= i < length tree)%nat /\ snd (last path (None, dflt)) = state_at St (C * nat) dflt tree i) /\
      (if approx then sat (snd (last path (None, dflt))) = false /\
                      forall j, (length starts <= j < length tree)%nat -> (gdist (state_at St (C * nat) dflt tree j) <? dd)%Z = false
       else sat (snd (last path (None, dflt))) = true)
  | None => length tree = length starts
  end.
Proof. exact crrti_solve_spec. Qed.
(* meaning of the admission rule applied to every observed run *)
Theorem C02_admission_sound : forall r, cadjudicate r = CVok ->
  (c_is_solution (cr_status r) = true -> C02_solution r) /\ (c_is_solution (cr_status r) = false -> cr_paths_after r = cr_paths_before r).
Proof. exact cadjudicate_sound. Qed.

Print Assumptions C02_propagateWhileValid_spec.
Print Assumptions C02_propagateWhileValid_is_maximal.
Print Assumptions C02_propagateWhileValid_states_spec.
Print Assumptions C02_tree_paths_replay.
Print Assumptions C02_directed_sampler_result_replays.
Print Assumptions C02_control_rrt_paths_replay.
Print Assumptions C02_control_rrt_intermediate_states_paths_replay.
Print Assumptions C02_admission_sound.

Example C02_nonvacuous :
  pwv_run 5 10%Z [14%Z] = (15%Z, (3, 13%Z), [11; 12; 13]%Z) /\ pwv_run 4 0%Z [1%Z] = (4%Z, (0, 0%Z), []) /\ pwv_run 3 0%Z [] = (3%Z, (3, 3%Z), [1; 2; 3]%Z) /\
  cadjudicate (mkCR 6 true 0 1 false 0 true 3 [mkCS 4 true true true true true; mkCS 2 true true true true true] true 0) = CVok /\
  cadjudicate (mkCR 6 true 0 1 false 0 true 3 [mkCS 4 true true true true true; mkCS 2 true true true false true] true 0) = CVreplay.
Proof. vm_compute. repeat split. Qed.
(* the directed sampler: from 0 towards 10 with 3 invalid; (+2 x 4) stops after 1 step at 2, (+5 x 3) reaches 15, (+1 x 9) stops at 2:
   the second candidate wins with its own step count *)
Example C02_directed_nonvacuous :
  dcs_run 0 10 [3%Z; 4%Z] (2%Z, 4) [(5%Z, 3); (1%Z, 9)] = (5%Z, 3, 15%Z) /\ dcs_run 0 10 [4%Z; 5%Z] (2%Z, 4) [(5%Z, 3); (1%Z, 9)] = (1%Z, 3, 3%Z).
Proof. vm_compute. split; reflexivity. Qed.
(* control::RRT on the integer line, 7 and -3 invalid, goal 12 (threshold 1), two candidate controls per extension *)
Example C02_control_rrt_nonvacuous :
  crrt_run [7; -3]%Z 12%Z 1%Z 1 [0%Z] [false; false; false] [5; 9; 20]%Z
           [((2%Z, 3), [(1%Z, 5)]); ((3%Z, 2), [((-1)%Z, 4)]); ((2%Z, 2), [(1%Z, 1)])]
  = ([(0%Z, None); (5%Z, Some (0, (1%Z, 5))); (11%Z, Some (1, (3%Z, 2))); (15%Z, Some (2, (2%Z, 2)))],
     Some ([(None, 0%Z); (Some (1%Z, 5), 5%Z); (Some (3%Z, 2), 11%Z)], true, 1%Z)).
Proof. vm_compute. reflexivity. Qed.
