(* GnatProofs.v — the GNAT search loops of GnatModel.v return exactly what exhaustive search over the live elements
   returns, on every tree that satisfies the executable invariant (NNModel.inv_ok_root), for every removal cache,
   every sequence of offset_ values and every order in which the node queue yields its entries. *)
From Coq Require Import List ZArith Bool Arith Lia Permutation Sorted.
From OmplV Require Import NNModel NNProofs GnatModel.
Import ListNotations.
Local Open Scope Z_scope.

Section GP.
  Variable P : Type.
  Variable d : P -> P -> Z.
  Variable peqb : P -> P -> bool.
  Hypothesis d_sym : forall x y, d x y = d y x.
  Hypothesis d_tri : forall x y z, d x z <= d x y + d y z.
  Notation gnode := (gnode P).
  Notation nent := (nent P).
  Notation elems := (elems P).
  Notation node_pivot := (node_pivot P).
  Notation node_minR := (node_minR P).
  Notation node_maxR := (node_maxR P).
  Notation node_data := (node_data P).
  Notation node_children := (node_children P).
  Notation range_of := (range_of P).

  (* induction over trees *)
  Fixpoint gnode_rect' (Q : gnode -> Prop)
      (H : forall p a b r dat ch, Forall Q ch -> Q (GNode p a b r dat ch)) (n : gnode) : Q n :=
    match n with
    | GNode p a b r dat ch =>
      H p a b r dat ch ((fix go (l : list gnode) : Forall Q l :=
                           match l with [] => Forall_nil Q | c :: t => Forall_cons c (gnode_rect' Q H c) (go t) end) ch)
    end.

  Lemma ranges_ok_spec ch : ranges_ok P d ch = true ->
    forall i j ci cj, nth_error ch i = Some ci -> nth_error ch j = Some cj ->
      within P d (node_pivot ci) (fst (range_of ci j)) (snd (range_of ci j)) (elems cj) = true.
  Proof.
    unfold ranges_ok. intros H2 i j ci cj Hi Hj. rewrite forallb_forall in H2. specialize (H2 ci (nth_error_In _ _ Hi)).
    destruct ci as [pi a b rngi e f]. rewrite forallb_forall in H2. apply (H2 (j, cj)).
    clear - Hj. assert (G : forall s, In (s + j, cj)%nat (combine (seq s (length ch)) ch)).
    { revert j Hj. induction ch as [|c t IH]; intros j Hj s; [destruct j; discriminate|]. destruct j as [|j]; simpl in *.
      - injection Hj as ->. left. f_equal. lia.
      - right. replace (s + S j)%nat with (S s + j)%nat by lia. apply IH. exact Hj. }
    apply (G 0%nat).
  Qed.
  Lemma combine_seq_nth (ch : list gnode) : forall s i c, In (i, c) (combine (seq s (length ch)) ch) -> nth_error ch (i - s) = Some c /\ (s <= i)%nat.
  Proof.
    induction ch as [|c0 t IH]; intros s i c H; simpl in H; [destruct H|]. destruct H as [H|H].
    - injection H as <- <-. rewrite Nat.sub_diag. split; [reflexivity|lia].
    - destruct (IH (S s) i c H) as (E & L). split; [|lia]. replace (i - s)%nat with (S (i - S s)) by lia. exact E.
  Qed.

  (* what inv_ok gives at a node *)
  Definition kids_ok (ch : list gnode) : Prop := ranges_ok P d ch = true /\ forall c, In c ch -> inv_ok P d c = true.
  Lemma inv_ok_kids n : inv_ok P d n = true -> kids_ok (node_children n).
  Proof.
    destruct n as [p a b r dat ch]. cbn [inv_ok GnatModel.node_children]. intros H. apply andb_true_iff in H. destruct H as (H12 & H3).
    apply andb_true_iff in H12. destruct H12 as (_ & H2). split; [exact H2|]. rewrite forallb_forall in H3. exact H3.
  Qed.
  Lemma inv_ok_root_kids n : inv_ok_root P d n = true -> kids_ok (node_children n).
  Proof.
    destruct n as [p a b r dat ch]. cbn [inv_ok_root GnatModel.node_children]. intros H. apply andb_true_iff in H. destruct H as (H2 & H3).
    split; [exact H2|]. rewrite forallb_forall in H3. exact H3.
  Qed.
  Lemma inv_ok_within n : inv_ok P d n = true ->
    within P d (node_pivot n) (node_minR n) (node_maxR n) (node_data n ++ flat_map elems (node_children n)) = true.
  Proof.
    destruct n as [p a b r dat ch]. cbn [inv_ok]. intros H. apply andb_true_iff in H. destruct H as (H12 & _).
    apply andb_true_iff in H12. destruct H12 as (H1 & _). exact H1.
  Qed.

  Section Generic.
    Variable removed : P -> bool.
    Variable offs : nat -> nat.
    Variable pick : list (gnode * Z) -> nat.
    Variable ins : P -> Z -> list nent -> list nent * bool.
    Variable bound : list nent -> option Z.
    Variable q : P.
    Notation scan := (scan P d removed ins q).
    Notation cloop := (cloop P d ins bound q).
    Notation visit := (visit P d removed offs ins bound q).
    Notation gloop := (gloop P d removed offs pick ins bound q).
    Notation gsearch := (gsearch P d removed offs pick ins bound q).
    Notation prune_radius := (prune_radius P bound).
    Notation ent := (ent P).
    Notation killer := (killer P).
    Notation kill := (kill P).
    Notation killed_by := (killed_by P).
    Notation enqueue := (enqueue P bound).

    Definition live (x : P) : bool := negb (removed x).
    (* the elements a query may return: the pivots (never in the removal cache: removing a pivot rebuilds the tree)
       and the data that is not marked removed *)
    Fixpoint lelems (n : gnode) : list P :=
      match n with GNode p _ _ _ dat ch => p :: filter live dat ++ flat_map lelems ch end.
    Definition lbody (n : gnode) : list P := filter live (node_data n) ++ flat_map lelems (node_children n).
    Lemma lelems_eq n : lelems n = node_pivot n :: lbody n.
    Proof. destruct n; reflexivity. Qed.
    Lemma lelems_incl : forall n x, In x (lelems n) -> In x (elems n).
    Proof.
      apply (gnode_rect' (fun n => forall x, In x (lelems n) -> In x (elems n))). intros p a b r dat ch IH x H.
      cbn [lelems NNModel.elems] in *. destruct H as [H|H]; [left; exact H|right]. apply in_app_or in H. apply in_or_app.
      destruct H as [H|H]; [left; apply filter_In in H; tauto|right]. apply in_flat_map in H. destruct H as (c & Hc & Hx).
      apply in_flat_map. exists c. split; [exact Hc|]. rewrite Forall_forall in IH. apply (IH c Hc x Hx).
    Qed.
    Lemma lbody_incl n x : In x (lbody n) -> In x (node_data n ++ flat_map elems (node_children n)).
    Proof.
      unfold lbody. intros H. apply in_app_or in H. apply in_or_app. destruct H as [H|H]; [left; apply filter_In in H; tauto|right].
      apply in_flat_map in H. destruct H as (c & Hc & Hx). apply in_flat_map. exists c. split; [exact Hc|apply lelems_incl; exact Hx].
    Qed.
    Lemma lbody_incl_elems n x : In x (lbody n) -> In x (elems n).
    Proof. intros H. apply lelems_incl. rewrite lelems_eq. right. exact H. Qed.

    (* ---- what the two instances have in common ---- *)
    Variable Acc : list nent -> list P -> Prop.          (* the neighbour queue summarises the examined elements *)
    Hypothesis acc_perm : forall n E E', Permutation E E' -> Acc n E -> Acc n E'.
    Hypothesis acc_ins : forall n E x, Acc n E -> Acc (fst (ins x (d q x) n)) (x :: E).
    Definition Far (n : list nent) (y : P) : Prop := exists t, bound n = Some t /\ t < d q y.
    Hypothesis far_ins : forall n E x y, Acc n E -> Far n y -> Far (fst (ins x (d q x) n)) y.

    Lemma scan_spec dat : forall n piv E, Acc n E ->
      Acc (fst (scan dat (n, piv))) (filter live dat ++ E) /\ forall y, Far n y -> Far (fst (scan dat (n, piv))) y.
    Proof.
      unfold GnatModel.scan. induction dat as [|x t IH]; intros n piv E A; cbn [fold_left filter]; [split; [exact A|auto]|].
      unfold live at 1. destruct (removed x) eqn:R; cbn [negb fst snd].
      - apply IH. exact A.
      - destruct (ins x (d q x) n) as [n' b] eqn:I. cbn [fst snd].
        assert (A' : Acc n' (x :: E)) by (pose proof (acc_ins n E x A) as H; rewrite I in H; exact H).
        destruct (IH n' (if b then false else piv) (x :: E) A') as (A2 & F2). split.
        + eapply acc_perm; [|exact A2]. apply Permutation_sym. cbn [app]. apply Permutation_middle.
        + intros y Fy. apply F2. pose proof (far_ins n E x y A Fy) as H. rewrite I in H. exact H.
    Qed.

    (* ---- the children loop ---- *)
    Section Children.
      Variable ch : list gnode.
      Hypothesis KO : kids_ok ch.
      Definition Idx (e : ent) : Prop := nth_error ch (e_idx P e) = Some (e_node P e).
      Definition seenp (l : list ent) : list P :=
        flat_map (fun e => match e_dist P e with Some _ => [node_pivot (e_node P e)] | None => [] end) l.

      Lemma kill_fields kl e : e_idx P (kill kl e) = e_idx P e /\ e_node P (kill kl e) = e_node P e /\ e_dist P (kill kl e) = e_dist P e.
      Proof. unfold GnatModel.kill. destruct (e_alive P e && killed_by kl (e_idx P e)); auto. Qed.
      Lemma seenp_kill kl l : seenp (map (kill kl) l) = seenp l.
      Proof.
        unfold seenp. induction l as [|e t IH]; [reflexivity|]. cbn [map flat_map]. rewrite IH.
        destruct (kill_fields kl e) as (_ & E2 & E3). rewrite E2, E3. reflexivity.
      Qed.
      Lemma nodes_kill kl l : map (e_node P) (map (kill kl) l) = map (e_node P) l.
      Proof. rewrite map_map. apply map_ext. intros e. apply (kill_fields kl e). Qed.

      Lemma killer_sound i c j cj n' :
        nth_error ch i = Some c -> nth_error ch j = Some cj ->
        killed_by (mkK P c (d q (node_pivot c)) (bound n')) j = true -> forall x, In x (elems cj) -> Far n' x.
      Proof.
        intros Hi Hj K x Hx. unfold GnatModel.killed_by in K. cbn [k_bound k_dist k_node] in K.
        destruct (bound n') as [t|] eqn:B; [|discriminate]. exists t. split; [exact B|].
        destruct KO as (RO & _). pose proof (ranges_ok_spec ch RO i j c cj Hi Hj) as W.
        apply (prune_by_range_sound P d d_sym d_tri q (node_pivot c) _ _ (elems cj) t W K x Hx).
      Qed.

      Lemma cloop_nodes : forall todo done killers n piv,
        map (e_node P) (fst (fst (cloop done todo killers n piv))) = map (e_node P) (rev done) ++ map snd todo.
      Proof.
        induction todo as [|[i c] t IH]; intros done killers n piv; cbn [GnatModel.cloop map].
        - cbn [fst]. rewrite app_nil_r. reflexivity.
        - destruct (existsb (fun kl => killed_by kl i) killers).
          + rewrite IH. cbn [rev]. rewrite map_app. cbn [map e_node]. rewrite <- app_assoc. reflexivity.
          + destruct (ins (node_pivot c) (d q (node_pivot c)) n) as [n' b]. rewrite IH. cbn [rev]. rewrite map_app, map_rev, nodes_kill, <- map_rev.
            cbn [map e_node]. rewrite <- app_assoc. reflexivity.
      Qed.

      Lemma cloop_spec E0 : forall todo done killers n piv,
        (forall e, In e done -> Idx e) -> (forall i c, In (i, c) todo -> nth_error ch i = Some c) ->
        (forall e, In e done -> e_alive P e = false -> forall x, In x (elems (e_node P e)) -> Far n x) ->
        (forall kl, In kl killers -> forall j cj, nth_error ch j = Some cj -> killed_by kl j = true -> forall x, In x (elems cj) -> Far n x) ->
        (forall e dd, In e done -> e_dist P e = Some dd -> dd = d q (node_pivot (e_node P e))) ->
        (forall e, In e done -> e_dist P e = None -> e_alive P e = false) ->
        Acc n (seenp done ++ E0) ->
        let '(es, n', piv') := cloop done todo killers n piv in
        (forall e, In e es -> e_alive P e = false -> forall x, In x (elems (e_node P e)) -> Far n' x) /\
        (forall e dd, In e es -> e_dist P e = Some dd -> dd = d q (node_pivot (e_node P e))) /\
        (forall e, In e es -> e_dist P e = None -> e_alive P e = false) /\
        (forall e, In e es -> Idx e) /\
        Acc n' (seenp es ++ E0) /\ (forall y, Far n y -> Far n' y).
      Proof.
        induction todo as [|[i c] t IH]; intros done killers n piv C1 C1' C2 C3 C4 C5 C6; cbn [GnatModel.cloop].
        - split; [intros e He; apply C2; apply in_rev; exact He|]. split; [intros e dd He; apply C4; apply in_rev; exact He|].
          split; [intros e He; apply C5; apply in_rev; exact He|]. split; [intros e He; apply C1; apply in_rev; exact He|].
          split; [|auto]. eapply acc_perm; [|exact C6]. apply Permutation_app_tail. unfold seenp. apply Permutation_flat_map. apply Permutation_rev.
        - assert (Hic : nth_error ch i = Some c) by (apply C1'; left; reflexivity).
          destruct (existsb (fun kl => killed_by kl i) killers) eqn:X.
          + apply existsb_exists in X. destruct X as (kl & Hkl & K).
            apply IH.
            * intros e [<-|He]; [exact Hic|apply C1; exact He].
            * intros i' c' H. apply C1'. right. exact H.
            * intros e [<-|He] Ha x Hx; [cbn [e_node] in Hx; apply (C3 kl Hkl i c Hic K x Hx)|apply (C2 e He Ha x Hx)].
            * exact C3.
            * intros e dd [<-|He] Hd; [discriminate|apply (C4 e dd He Hd)].
            * intros e [<-|He] Hd; [reflexivity|apply (C5 e He Hd)].
            * exact C6.
          + destruct (ins (node_pivot c) (d q (node_pivot c)) n) as [n' b] eqn:I.
            set (kl := mkK P c (d q (node_pivot c)) (bound n')).
            assert (A' : Acc n' (node_pivot c :: seenp done ++ E0)).
            { pose proof (acc_ins n _ (node_pivot c) C6) as H. rewrite I in H. exact H. }
            assert (FM : forall y, Far n y -> Far n' y).
            { intros y Fy. pose proof (far_ins n _ (node_pivot c) y C6 Fy) as H. rewrite I in H. exact H. }
            specialize (IH (mkE P i c true (Some (d q (node_pivot c))) :: map (kill kl) done) (kl :: killers) n' (if b then true else piv)).
            destruct (cloop (mkE P i c true (Some (d q (node_pivot c))) :: map (kill kl) done) t (kl :: killers) n' (if b then true else piv)) as [[es n2] piv2].
            assert (G : (forall e, In e es -> e_alive P e = false -> forall x, In x (elems (e_node P e)) -> Far n2 x) /\
                        (forall e dd, In e es -> e_dist P e = Some dd -> dd = d q (node_pivot (e_node P e))) /\
                        (forall e, In e es -> e_dist P e = None -> e_alive P e = false) /\
                        (forall e, In e es -> Idx e) /\
                        Acc n2 (seenp es ++ E0) /\ (forall y, Far n' y -> Far n2 y)).
            { apply IH.
              - intros e [<-|He]; [exact Hic|]. apply in_map_iff in He. destruct He as (e0 & <- & He0).
                unfold Idx. destruct (kill_fields kl e0) as (E1 & E2 & _). rewrite E1, E2. apply C1. exact He0.
              - intros i' c' H. apply C1'. right. exact H.
              - intros e [<-|He] Ha x Hx; [discriminate|]. apply in_map_iff in He. destruct He as (e0 & <- & He0).
                destruct (kill_fields kl e0) as (E1 & E2 & _). rewrite E2 in Hx.
                unfold GnatModel.kill in Ha. destruct (e_alive P e0) eqn:A0; cbn [andb] in Ha.
                + destruct (killed_by kl (e_idx P e0)) eqn:K; [|congruence].
                  apply (killer_sound i c (e_idx P e0) (e_node P e0) n' Hic (C1 e0 He0) K x Hx).
                + apply FM. apply (C2 e0 He0 A0 x Hx).
              - intros kl' [<-|Hk] j cj Hj K x Hx; [apply (killer_sound i c j cj n' Hic Hj K x Hx)|apply FM; apply (C3 kl' Hk j cj Hj K x Hx)].
              - intros e dd [<-|He] Hd; [cbn [e_dist] in Hd; injection Hd as <-; reflexivity|]. apply in_map_iff in He. destruct He as (e0 & <- & He0).
                destruct (kill_fields kl e0) as (_ & E2 & E3). rewrite E3 in Hd. rewrite E2. apply (C4 e0 dd He0 Hd).
              - intros e [<-|He] Hd; [discriminate|]. apply in_map_iff in He. destruct He as (e0 & <- & He0).
                destruct (kill_fields kl e0) as (_ & _ & E3). rewrite E3 in Hd. pose proof (C5 e0 He0 Hd) as A0.
                unfold GnatModel.kill. rewrite A0. cbn [andb]. exact A0.
              - unfold seenp at 1. cbn [flat_map e_dist e_node]. fold (seenp (map (kill kl) done)). rewrite seenp_kill. exact A'. }
            destruct G as (G1 & G2 & G3 & G4 & G5 & G6). split; [exact G1|]. split; [exact G2|]. split; [exact G3|]. split; [exact G4|].
            split; [exact G5|]. intros y Fy. apply G6, FM, Fy.
      Qed.
    End Children.

    (* ---- a node visit ---- *)
    Definition qok (e : gnode * Z) : Prop := inv_ok P d (fst e) = true /\ snd e = d q (node_pivot (fst e)).
    Definition pend (nq : list (gnode * Z)) : list P := flat_map (fun e => lbody (fst e)) nq.
    Lemma pend_app a b : pend (a ++ b) = pend a ++ pend b. Proof. apply flat_map_app. Qed.

    Lemma perm_interleave3 {A} (a1 b1 c1 a2 b2 c2 : list A) :
      Permutation ((a1 ++ b1 ++ c1) ++ (a2 ++ b2 ++ c2)) ((a1 ++ a2) ++ (b1 ++ b2) ++ (c1 ++ c2)).
    Proof.
      rewrite <- !app_assoc. apply Permutation_app_head.
      eapply perm_trans; [rewrite app_assoc; apply Permutation_app_swap_app|]. apply Permutation_app_head.
      rewrite <- !app_assoc. apply Permutation_app_head. apply Permutation_app_swap_app.
    Qed.
    Lemma perm_flat_map3 {A} (f a b c : A -> list P) l : (forall e, In e l -> Permutation (f e) (a e ++ b e ++ c e)) ->
      Permutation (flat_map f l) (flat_map a l ++ flat_map b l ++ flat_map c l).
    Proof.
      induction l as [|e t IH]; intros H; cbn [flat_map]; [constructor|].
      eapply perm_trans; [apply Permutation_app; [apply H; left; reflexivity|apply IH; intros e' He'; apply H; right; exact He']|].
      apply perm_interleave3.
    Qed.
    Lemma flat_map_map {A B C} (g : A -> B) (f : B -> list C) l : flat_map f (map g l) = flat_map (fun x => f (g x)) l.
    Proof. induction l as [|x t IH]; [reflexivity|]. cbn [map flat_map]. rewrite IH. reflexivity. Qed.
    Lemma rot_perm {A} o (l : list A) : Permutation (rot o l) l.
    Proof. unfold rot. eapply perm_trans; [apply Permutation_app_comm|]. rewrite firstn_skipn. apply Permutation_refl. Qed.
    Lemma map_snd_combine_seq (ch : list gnode) : forall s, map snd (combine (seq s (length ch)) ch) = ch.
    Proof. induction ch as [|c t IH]; intros s; [reflexivity|]. cbn [length seq combine map snd]. rewrite IH. reflexivity. Qed.
    Lemma order_nodes_perm off ch : Permutation (map snd (order_of P off ch)) ch.
    Proof. unfold order_of. eapply perm_trans; [apply Permutation_map; apply rot_perm|]. rewrite map_snd_combine_seq. apply Permutation_refl. Qed.
    Lemma order_idx off ch i c : In (i, c) (order_of P off ch) -> nth_error ch i = Some c.
    Proof.
      unfold order_of. intros H. apply (Permutation_in _ (rot_perm _ _)) in H.
      destruct (combine_seq_nth ch 0 i c H) as (E & _). rewrite Nat.sub_0_r in E. exact E.
    Qed.

    (* what one slot contributes after the loop: its pivot if it was offered, its body if it is enqueued, the rest is
       out of reach of the current pruning distance *)
    Definition s_pe (n' : list nent) (e : ent) : list P :=
      match e_dist P e with
      | Some dp => if e_alive P e && negb (prune_radius n' dp (node_minR (e_node P e)) (node_maxR (e_node P e))) then lbody (e_node P e) else []
      | None => []
      end.
    Definition s_de (n' : list nent) (e : ent) : list P :=
      match e_dist P e with
      | Some dp => if e_alive P e && negb (prune_radius n' dp (node_minR (e_node P e)) (node_maxR (e_node P e))) then [] else lbody (e_node P e)
      | None => lelems (e_node P e)
      end.
    Lemma enqueue_pend es n' : pend (enqueue es n') = flat_map (s_pe n') es.
    Proof.
      unfold GnatModel.enqueue. induction es as [|e t IH]; [reflexivity|]. cbn [flat_map]. rewrite pend_app, IH. f_equal.
      unfold s_pe. destruct (e_dist P e) as [dp|]; [|reflexivity].
      destruct (e_alive P e && negb (prune_radius n' dp (node_minR (e_node P e)) (node_maxR (e_node P e)))); [|reflexivity].
      unfold pend. cbn [flat_map fst]. apply app_nil_r.
    Qed.
    Lemma radius_sound n' c dp : inv_ok P d c = true -> dp = d q (node_pivot c) ->
      prune_radius n' dp (node_minR c) (node_maxR c) = true -> forall x, In x (lbody c) -> Far n' x.
    Proof.
      intros I -> Pr x Hx. unfold GnatModel.prune_radius in Pr. destruct (bound n') as [t|] eqn:B; [|discriminate].
      exists t. split; [exact B|].
      apply (prune_by_radius_sound P d d_sym d_tri q (node_pivot c) _ _ _ t (inv_ok_within c I) Pr x (lbody_incl c x Hx)).
    Qed.

    Lemma visit_spec n vis nbh piv E0 : kids_ok (node_children n) -> Acc nbh E0 ->
      let '(nbh', piv', nq) := visit n vis nbh piv in
      exists E' D', Permutation (lbody n) (E' ++ pend nq ++ D') /\ Acc nbh' (E' ++ E0) /\ Forall (Far nbh') D' /\
                    (forall y, Far nbh y -> Far nbh' y) /\ Forall qok nq.
    Proof.
      intros KO A. unfold GnatModel.visit. destruct (scan_spec (node_data n) nbh piv E0 A) as (A1 & F1).
      destruct (scan (node_data n) (nbh, piv)) as [n1 p1]. cbn [fst] in A1, F1.
      destruct (node_children n) as [|c0 ct] eqn:Ech.
      - exists (filter live (node_data n)), []. unfold lbody. rewrite Ech. cbn [flat_map pend app]. rewrite !app_nil_r.
        split; [apply Permutation_refl|]. split; [exact A1|]. split; [constructor|]. split; [exact F1|constructor].
      - set (ch := c0 :: ct) in *. set (off := offs vis).
        pose proof (cloop_spec ch KO (filter live (node_data n) ++ E0) (order_of P off ch) [] [] n1 p1) as CS.
        pose proof (cloop_nodes (order_of P off ch) [] [] n1 p1) as CN.
        destruct (cloop [] (order_of P off ch) [] n1 p1) as [[es n2] p2]. cbn [fst rev map app] in CN.
        destruct CS as (G1 & G2 & G3 & G4 & G5 & G6).
        { intros e []. } { intros i c H. apply (order_idx off ch i c H). } { intros e []. } { intros kl []. } { intros e dd []. } { intros e []. }
        { cbn [seenp flat_map app]. exact A1. }
        exists (seenp es ++ filter live (node_data n)), (flat_map (s_de n2) es).
        split; [|split; [|split; [|split]]].
        + unfold lbody. rewrite Ech. fold ch.
          eapply perm_trans; [apply Permutation_app_comm|].
          eapply perm_trans; [apply Permutation_app_tail; apply Permutation_flat_map; apply Permutation_sym; apply (order_nodes_perm off ch)|].
          rewrite <- CN, flat_map_map, enqueue_pend.
          eapply perm_trans; [apply Permutation_app_tail; apply (perm_flat_map3 _ (fun e => match e_dist P e with Some _ => [node_pivot (e_node P e)] | None => [] end) (s_pe n2) (s_de n2))|].
          { intros e He. unfold s_pe, s_de. rewrite lelems_eq. destruct (e_dist P e) as [dp|]; [|apply Permutation_refl].
            destruct (e_alive P e && negb (prune_radius n2 dp (node_minR (e_node P e)) (node_maxR (e_node P e)))); cbn [app]; [rewrite app_nil_r|]; apply Permutation_refl. }
          fold (seenp es). rewrite <- !app_assoc. apply Permutation_app_head.
          rewrite (app_assoc (flat_map (s_pe n2) es)). apply Permutation_app_comm.
        + eapply acc_perm; [|exact G5]. rewrite <- app_assoc. apply Permutation_refl.
        + apply Forall_flat_map. rewrite Forall_forall. intros e He. rewrite Forall_forall. intros x Hx. unfold s_de in Hx.
          destruct (e_dist P e) as [dp|] eqn:Ed.
          * destruct (e_alive P e) eqn:Ea; cbn [andb] in Hx.
            -- destruct (prune_radius n2 dp (node_minR (e_node P e)) (node_maxR (e_node P e))) eqn:Pr; cbn [negb] in Hx; [|destruct Hx].
               apply (radius_sound n2 (e_node P e) dp); [|apply (G2 e dp He Ed)|exact Pr|exact Hx].
               destruct KO as (_ & KI). apply KI. apply (nth_error_In _ _ (G4 e He)).
            -- apply (G1 e He Ea). apply lbody_incl_elems. exact Hx.
          * apply (G1 e He (G3 e He Ed)). apply lelems_incl. exact Hx.
        + intros y Fy. apply G6, F1, Fy.
        + unfold GnatModel.enqueue. apply Forall_flat_map. rewrite Forall_forall. intros e He.
          destruct (e_dist P e) as [dp|] eqn:Ed; [|constructor].
          destruct (e_alive P e && negb (prune_radius n2 dp (node_minR (e_node P e)) (node_maxR (e_node P e)))); [|constructor].
          constructor; [|constructor]. split; cbn [fst snd]; [|apply (G2 e dp He Ed)].
          destruct KO as (_ & KI). apply KI. apply (nth_error_In _ _ (G4 e He)).
    Qed.

    (* ---- the node queue ---- *)
    Lemma nth_error_perm {A} (l : list A) : forall i x, nth_error l i = Some x -> Permutation l (x :: firstn i l ++ skipn (S i) l).
    Proof.
      induction l as [|a t IH]; intros i x H; [destruct i; discriminate|]. destruct i as [|i]; cbn [nth_error firstn skipn app] in *.
      - injection H as ->. apply Permutation_refl.
      - eapply perm_trans; [apply perm_skip; apply (IH i x H)|]. apply perm_swap.
    Qed.

    Lemma gloop_spec U : forall fuel vis nbh piv queue nbh' piv',
      gloop fuel vis nbh piv queue = Some (nbh', piv') ->
      (exists E D, Permutation U (E ++ pend queue ++ D) /\ Acc nbh E /\ Forall (Far nbh) D) -> Forall qok queue ->
      exists E D, Permutation U (E ++ D) /\ Acc nbh' E /\ Forall (Far nbh') D.
    Proof.
      induction fuel as [|f IH]; intros vis nbh piv queue nbh' piv' G (E & D & PU & A & FD) QO.
      - destruct queue; [|discriminate]. cbn [GnatModel.gloop] in G. injection G as <- <-. exists E, D. cbn [pend flat_map app] in PU. auto.
      - destruct queue as [|q0 qt]; [cbn [GnatModel.gloop] in G; injection G as <- <-; exists E, D; cbn [pend flat_map app] in PU; auto|].
        set (queue := q0 :: qt) in *. cbn [GnatModel.gloop] in G. fold queue in G.
        set (i := Nat.modulo (pick queue) (length queue)) in *.
        destruct (nth_error queue i) as [[n dn]|] eqn:Ni; [|discriminate].
        set (rest := firstn i queue ++ skipn (S i) queue) in *.
        pose proof (nth_error_perm queue i (n, dn) Ni) as PQ. fold rest in PQ.
        assert (PP : Permutation (pend queue) (lbody n ++ pend rest)).
        { unfold pend. eapply perm_trans; [apply Permutation_flat_map; exact PQ|]. cbn [flat_map fst]. apply Permutation_refl. }
        assert (QO' : Forall qok ((n, dn) :: rest)) by (eapply Permutation_Forall; [exact PQ|exact QO]).
        inversion QO' as [|? ? Qn Qr]; subst. destruct Qn as (In_ & Dn). cbn [fst snd] in In_, Dn.
        destruct (prune_radius nbh dn (node_minR n) (node_maxR n)) eqn:Pr.
        + apply (IH vis nbh piv rest nbh' piv' G); [|exact Qr]. exists E, (lbody n ++ D). split; [|split; [exact A|]].
          * eapply perm_trans; [exact PU|]. apply Permutation_app_head. eapply perm_trans; [apply Permutation_app_tail; exact PP|].
            rewrite <- app_assoc. apply Permutation_app_swap_app.
          * apply Forall_app. split; [|exact FD]. rewrite Forall_forall. intros x Hx. apply (radius_sound nbh n dn In_ Dn Pr x Hx).
        + pose proof (visit_spec n vis nbh piv E (inv_ok_kids n In_) A) as VS.
          destruct (visit n vis nbh piv) as [[n2 p2] nq]. destruct VS as (E' & D' & PB & A2 & FD' & FM & QN).
          apply (IH (S vis) n2 p2 (rest ++ nq) nbh' piv' G); [|apply Forall_app; split; assumption].
          exists (E' ++ E), (D' ++ D). split; [|split; [exact A2|]].
          * eapply perm_trans; [exact PU|]. eapply perm_trans; [apply Permutation_app_head; apply Permutation_app_tail; exact PP|].
            eapply perm_trans; [apply Permutation_app_head; apply Permutation_app_tail; apply Permutation_app_tail; exact PB|].
            rewrite pend_app. rewrite <- !app_assoc.
            (* E ++ E' ++ pend nq ++ D' ++ pend rest ++ D   ~   E' ++ E ++ pend rest ++ pend nq ++ D' ++ D *)
            eapply perm_trans; [apply Permutation_app_swap_app|]. apply Permutation_app_head. apply Permutation_app_head.
            eapply perm_trans; [rewrite app_assoc; apply Permutation_app_swap_app|]. apply Permutation_app_head.
            rewrite <- !app_assoc. apply Permutation_refl.
          * apply Forall_app. split; [exact FD'|]. rewrite Forall_forall in *. intros y Hy. apply FM, FD, Hy.
    Qed.

    Hypothesis acc_nil : Acc [] [].
    Theorem gsearch_spec tree nbh piv : inv_ok_root P d tree = true -> gsearch tree = Some (nbh, piv) ->
      exists E D, Permutation (lelems tree) (E ++ D) /\ Acc nbh E /\ Forall (Far nbh) D.
    Proof.
      intros IR G. unfold GnatModel.gsearch in G.
      pose proof (acc_ins [] [] (node_pivot tree) acc_nil) as A0.
      destruct (ins (node_pivot tree) (d q (node_pivot tree)) []) as [n0 p0]. cbn [fst] in A0.
      pose proof (visit_spec tree 0 n0 p0 [node_pivot tree] (inv_ok_root_kids tree IR) A0) as VS.
      destruct (visit tree 0 n0 p0) as [[n1 p1] q1]. destruct VS as (E' & D' & PB & A1 & FD & _ & QN).
      apply (gloop_spec (lelems tree) _ _ _ _ _ _ _ G); [|exact QN].
      exists (E' ++ [node_pivot tree]), D'. split; [|split; [exact A1|exact FD]].
      rewrite lelems_eq. eapply perm_trans; [apply perm_skip; exact PB|]. rewrite <- app_assoc.
      eapply perm_trans; [apply (Permutation_middle E' (pend q1 ++ D') (node_pivot tree))|]. cbn [app]. apply Permutation_refl.
    Qed.

    (* ---- the search always returns: every node is queued at most once ---- *)
    Notation nodes := (nodes P).
    Definition qsize (l : list (gnode * Z)) : nat := fold_right (fun e a => (nodes (fst e) + a)%nat) O l.
    Definition csize (l : list gnode) : nat := fold_right (fun c a => (nodes c + a)%nat) O l.
    Lemma qsize_app a b : qsize (a ++ b) = (qsize a + qsize b)%nat.
    Proof. unfold qsize. induction a as [|x t IH]; [reflexivity|]. cbn [app fold_right]. rewrite IH. lia. Qed.
    Lemma csize_app a b : csize (a ++ b) = (csize a + csize b)%nat.
    Proof. unfold csize. induction a as [|x t IH]; [reflexivity|]. cbn [app fold_right]. rewrite IH. lia. Qed.
    Lemma csize_perm a b : Permutation a b -> csize a = csize b.
    Proof. unfold csize. induction 1; cbn [fold_right]; lia. Qed.
    Lemma qsize_perm a b : Permutation a b -> qsize a = qsize b.
    Proof. unfold qsize. induction 1; cbn [fold_right]; lia. Qed.
    Lemma nodes_eq n : nodes n = S (csize (node_children n)).
    Proof. destruct n. reflexivity. Qed.
    Lemma enqueue_size es n' : (qsize (enqueue es n') <= csize (map (e_node P) es))%nat.
    Proof.
      unfold GnatModel.enqueue. induction es as [|e t IH]; [cbn; lia|]. cbn [flat_map map]. rewrite qsize_app.
      change (csize (e_node P e :: map (e_node P) t)) with (nodes (e_node P e) + csize (map (e_node P) t))%nat.
      assert ((qsize (match e_dist P e with
                      | Some dp => if e_alive P e && negb (prune_radius n' dp (node_minR (e_node P e)) (node_maxR (e_node P e))) then [(e_node P e, dp)] else []
                      | None => [] end) <= nodes (e_node P e))%nat).
      { destruct (e_dist P e); [|cbn; lia]. destruct (e_alive P e && negb _); cbn; lia. }
      lia.
    Qed.
    Lemma visit_size n vis nbh piv : (qsize (snd (visit n vis nbh piv)) < nodes n)%nat.
    Proof.
      unfold GnatModel.visit. destruct (scan (node_data n) (nbh, piv)) as [n1 p1]. rewrite nodes_eq.
      destruct (node_children n) as [|c0 ct] eqn:Ech; [cbn; lia|]. set (ch := c0 :: ct) in *.
      pose proof (cloop_nodes (order_of P (offs vis) ch) [] [] n1 p1) as CN.
      destruct (cloop [] (order_of P (offs vis) ch) [] n1 p1) as [[es n2] p2]. cbn [fst snd rev map app] in *.
      pose proof (enqueue_size es n2) as H. rewrite CN in H. rewrite (csize_perm _ _ (order_nodes_perm (offs vis) ch)) in H. lia.
    Qed.
    Lemma gloop_total : forall fuel vis nbh piv queue, (qsize queue <= fuel)%nat -> gloop fuel vis nbh piv queue <> None.
    Proof.
      induction fuel as [|f IH]; intros vis nbh piv queue Hq.
      - destruct queue as [|[n dn] t]; [cbn; discriminate|]. exfalso. cbn [qsize fold_right fst] in Hq. rewrite nodes_eq in Hq. lia.
      - destruct queue as [|q0 qt]; [cbn; discriminate|]. set (queue := q0 :: qt) in *. cbn [GnatModel.gloop]. fold queue.
        set (i := Nat.modulo (pick queue) (length queue)).
        assert (Hi : (i < length queue)%nat) by (apply Nat.mod_upper_bound; cbn; lia).
        destruct (nth_error queue i) as [[n dn]|] eqn:Ni; [|apply nth_error_None in Ni; lia].
        pose proof (qsize_perm _ _ (nth_error_perm queue i (n, dn) Ni)) as PS. cbn [qsize fold_right fst] in PS. fold (qsize (firstn i queue ++ skipn (S i) queue)) in PS.
        pose proof (nodes_eq n) as Nn.
        destruct (prune_radius nbh dn (node_minR n) (node_maxR n)).
        + apply IH. lia.
        + pose proof (visit_size n vis nbh piv) as VS. destruct (visit n vis nbh piv) as [[n2 p2] nq]. cbn [snd] in VS.
          apply IH. rewrite qsize_app. lia.
    Qed.
    Theorem gsearch_total tree : gsearch tree <> None.
    Proof.
      unfold GnatModel.gsearch. destruct (ins (node_pivot tree) (d q (node_pivot tree)) []) as [n0 p0].
      pose proof (visit_size tree 0 n0 p0) as VS. destruct (visit tree 0 n0 p0) as [[n1 p1] q1]. cbn [snd] in VS.
      apply gloop_total. lia.
    Qed.

    (* ---- which kind of element sits alone in the neighbour queue (the isPivot flag of nearestKInternal, k = 1) ---- *)
    Fixpoint anodes (n : gnode) : list gnode := n :: flat_map anodes (node_children n).
    Lemma anodes_self n : In n (anodes n). Proof. destruct n; left; reflexivity. Qed.
    Lemma anodes_child : forall t n c, In n (anodes t) -> In c (node_children n) -> In c (anodes t).
    Proof.
      apply (gnode_rect' (fun t => forall n c, In n (anodes t) -> In c (node_children n) -> In c (anodes t))).
      intros p a b r dat ch IH n c Hn Hc. cbn [anodes GnatModel.node_children] in *. destruct Hn as [<-|Hn].
      - right. cbn [GnatModel.node_children] in Hc. apply in_flat_map. exists c. split; [exact Hc|apply anodes_self].
      - right. apply in_flat_map in Hn. destruct Hn as (c0 & Hc0 & Hn). apply in_flat_map. exists c0. split; [exact Hc0|].
        rewrite Forall_forall in IH. apply (IH c0 Hc0 n c Hn Hc).
    Qed.
    Section Flag.
      Variable tree : gnode.
      Definition PV : list P := map node_pivot (anodes tree).
      Definition DT : list P := flat_map node_data (anodes tree).
      Definition W1 (n : list nent) : Prop := (length n <= 1)%nat.
      Hypothesis ins_sem : forall x dd n, W1 n ->
        W1 (fst (ins x dd n)) /\ (snd (ins x dd n) = true -> fst (ins x dd n) = [(dd, x)]) /\ (snd (ins x dd n) = false -> fst (ins x dd n) = n).
      (* the flag says where the single queued element comes from; a data element in the queue is never a removed one *)
      Definition Qf (s : list nent * bool) : Prop :=
        W1 (fst s) /\ forall dd x, fst s = [(dd, x)] -> if snd s then In x PV else (In x DT /\ removed x = false).

      Lemma scan_Q dat : forall s, (forall x, In x dat -> In x DT) -> Qf s -> Qf (scan dat s).
      Proof.
        unfold GnatModel.scan. induction dat as [|x t IH]; intros [n piv] Hd Hq; cbn [fold_left]; [exact Hq|].
        apply IH; [intros y Hy; apply Hd; right; exact Hy|]. destruct (removed x) eqn:R; [exact Hq|]. cbn [fst snd].
        destruct Hq as (Wn & Hn). cbn [fst snd] in *. destruct (ins_sem x (d q x) n Wn) as (W' & T & F0).
        destruct (ins x (d q x) n) as [n' b]. cbn [fst snd] in *. split; [exact W'|]. intros dd y E. destruct b.
        - rewrite (T eq_refl) in E. injection E as _ <-. split; [apply Hd; left; reflexivity|exact R].
        - rewrite (F0 eq_refl) in E. apply (Hn dd y E).
      Qed.
      Lemma cloop_Q : forall todo done killers n piv, (forall i c, In (i, c) todo -> In (node_pivot c) PV) ->
        Qf (n, piv) -> Qf (snd (fst (cloop done todo killers n piv)), snd (cloop done todo killers n piv)).
      Proof.
        induction todo as [|[i c] t IH]; intros done killers n piv Hp Hq; cbn [GnatModel.cloop]; [exact Hq|].
        destruct (existsb (fun kl => killed_by kl i) killers); [apply IH; [intros i' c' H; apply (Hp i' c'); right; exact H|exact Hq]|].
        destruct Hq as (Wn & Hn). cbn [fst snd] in *. destruct (ins_sem (node_pivot c) (d q (node_pivot c)) n Wn) as (W' & T & F0).
        destruct (ins (node_pivot c) (d q (node_pivot c)) n) as [n' b]. cbn [fst snd] in *.
        apply IH; [intros i' c' H; apply (Hp i' c'); right; exact H|]. split; [exact W'|]. cbn [fst snd]. intros dd y E. destruct b.
        - rewrite (T eq_refl) in E. injection E as _ <-. apply (Hp i c). left. reflexivity.
        - rewrite (F0 eq_refl) in E. apply (Hn dd y E).
      Qed.
      Lemma order_in off ch i c : In (i, c) (order_of P off ch) -> In c ch.
      Proof. intros H. apply order_idx in H. eapply nth_error_In. exact H. Qed.
      Lemma visit_Q n vis nbh piv : In n (anodes tree) -> Qf (nbh, piv) ->
        Qf (fst (fst (visit n vis nbh piv)), snd (fst (visit n vis nbh piv))) /\
        (forall e, In e (snd (visit n vis nbh piv)) -> In (fst e) (anodes tree)).
      Proof.
        intros Hn Hq. unfold GnatModel.visit.
        assert (Hd : forall x, In x (node_data n) -> In x DT) by (intros x Hx; unfold DT; apply in_flat_map; exists n; auto).
        pose proof (scan_Q (node_data n) (nbh, piv) Hd Hq) as Q1. destruct (scan (node_data n) (nbh, piv)) as [n1 p1].
        destruct (node_children n) as [|c0 ct] eqn:Ech; [cbn [fst snd]; split; [exact Q1|intros e []]|]. set (ch := c0 :: ct) in *.
        assert (Hch : forall c, In c ch -> In c (anodes tree)) by (intros c Hc; apply (anodes_child tree n c Hn); rewrite Ech; exact Hc).
        pose proof (cloop_Q (order_of P (offs vis) ch) [] [] n1 p1) as CQ.
        pose proof (cloop_nodes (order_of P (offs vis) ch) [] [] n1 p1) as CN.
        destruct (cloop [] (order_of P (offs vis) ch) [] n1 p1) as [[es n2] p2]. cbn [fst snd rev map app] in *.
        split.
        - apply CQ; [|exact Q1]. intros i c H. unfold PV. apply in_map. apply Hch. eapply order_in. exact H.
        - intros e He. unfold GnatModel.enqueue in He. apply in_flat_map in He. destruct He as (en & Hen & He).
          destruct (e_dist P en); [|destruct He]. destruct (e_alive P en && negb _); [|destruct He]. destruct He as [<-|[]]. cbn [fst].
          apply Hch. assert (Hin : In (e_node P en) (map (e_node P) es)) by (apply in_map; exact Hen). rewrite CN in Hin.
          apply in_map_iff in Hin. destruct Hin as ([i c] & E & Hic). cbn [snd] in E. subst c. eapply order_in. exact Hic.
      Qed.
      Lemma gloop_Q : forall fuel vis nbh piv queue nbh' piv',
        gloop fuel vis nbh piv queue = Some (nbh', piv') -> (forall e, In e queue -> In (fst e) (anodes tree)) -> Qf (nbh, piv) -> Qf (nbh', piv').
      Proof.
        induction fuel as [|f IH]; intros vis nbh piv queue nbh' piv' G Hq Q0.
        - destruct queue; [|discriminate]. cbn [GnatModel.gloop] in G. injection G as <- <-. exact Q0.
        - destruct queue as [|q0 qt]; [cbn [GnatModel.gloop] in G; injection G as <- <-; exact Q0|].
          set (queue := q0 :: qt) in *. cbn [GnatModel.gloop] in G. fold queue in G.
          set (i := Nat.modulo (pick queue) (length queue)) in *.
          destruct (nth_error queue i) as [[n dn]|] eqn:Ni; [|discriminate].
          assert (Hrest : forall e, In e (firstn i queue ++ skipn (S i) queue) -> In (fst e) (anodes tree)).
          { intros e He. apply Hq. apply (Permutation_in _ (Permutation_sym (nth_error_perm queue i (n, dn) Ni))). right. exact He. }
          destruct (prune_radius nbh dn (node_minR n) (node_maxR n)); [apply (IH _ _ _ _ _ _ G Hrest Q0)|].
          pose proof (visit_Q n vis nbh piv (Hq (n, dn) (nth_error_In _ _ Ni)) Q0) as (Q1 & Hnq).
          destruct (visit n vis nbh piv) as [[n2 p2] nq]. cbn [fst snd] in *.
          apply (IH _ _ _ _ _ _ G); [|exact Q1]. intros e He. apply in_app_or in He. destruct He as [He|He]; [apply Hrest; exact He|apply Hnq; exact He].
      Qed.
      Theorem gsearch_Q nbh piv : gsearch tree = Some (nbh, piv) -> Qf (nbh, piv).
      Proof.
        intros G. unfold GnatModel.gsearch in G.
        assert (W0 : W1 []) by (unfold W1; cbn; lia).
        destruct (ins_sem (node_pivot tree) (d q (node_pivot tree)) [] W0) as (W' & T & F0).
        destruct (ins (node_pivot tree) (d q (node_pivot tree)) []) as [n0 p0]. cbn [fst snd] in *.
        assert (Q0 : Qf (n0, p0)).
        { split; [exact W'|]. cbn [fst snd]. intros dd x E. destruct p0.
          - rewrite (T eq_refl) in E. injection E as _ <-. unfold PV. apply in_map. apply anodes_self.
          - rewrite (F0 eq_refl) in E. discriminate. }
        pose proof (visit_Q tree 0 n0 p0 (anodes_self tree) Q0) as (Q1 & Hnq).
        destruct (visit tree 0 n0 p0) as [[n1 p1] q1]. cbn [fst snd] in *.
        apply (gloop_Q _ _ _ _ _ _ _ G Hnq Q1).
      Qed.
    End Flag.
  End Generic.

  (* ---- the neighbour queue ---- *)
  Notation qins := (qins P).
  Notation top_dist := (top_dist P).
  Definition nle (a b : nent) : Prop := fst a <= fst b.
  Definition dists_ok (q : P) (n : list nent) : Prop := Forall (fun e => fst e = d q (snd e)) n.
  Lemma qins_perm x l : Permutation (qins x l) (x :: l).
  Proof.
    induction l as [|y t IH]; cbn [GnatModel.qins]; [apply Permutation_refl|]. destruct (fst x <? fst y); [apply Permutation_refl|].
    eapply perm_trans; [apply perm_skip; exact IH|apply perm_swap].
  Qed.
  Lemma qins_sorted x l : StronglySorted nle l -> StronglySorted nle (qins x l).
  Proof.
    induction l as [|y t IH]; intros S; cbn [GnatModel.qins]; [repeat constructor|]. inversion S as [|? ? St Fy]; subst.
    destruct (Z.ltb_spec (fst x) (fst y)) as [L|L].
    - constructor; [exact S|]. constructor; [unfold nle; lia|]. rewrite Forall_forall in *. intros z Hz. specialize (Fy z Hz). unfold nle in *. lia.
    - constructor; [apply IH; exact St|]. rewrite Forall_forall in *. intros z Hz.
      apply (Permutation_in _ (qins_perm x t)) in Hz. destruct Hz as [<-|Hz]; [unfold nle; lia|apply Fy; exact Hz].
  Qed.
  Lemma qins_dists q x l : fst x = d q (snd x) -> dists_ok q l -> dists_ok q (qins x l).
  Proof. intros Hx Hl. unfold dists_ok in *. eapply Permutation_Forall; [apply Permutation_sym, qins_perm|]. constructor; assumption. Qed.
  Lemma qins_length x l : length (qins x l) = S (length l).
  Proof. rewrite (Permutation_length (qins_perm x l)). reflexivity. Qed.
  Lemma top_dist_snoc m t : top_dist (m ++ [t]) = fst t.
  Proof. unfold GnatModel.top_dist. rewrite map_app. cbn [map]. apply last_last. Qed.
  Lemma top_dist_in l : l <> [] -> In (top_dist l) (map fst l).
  Proof.
    intros H. destruct (exists_last H) as (m & t & ->). rewrite top_dist_snoc, map_app. apply in_or_app. right. left. reflexivity.
  Qed.
  Lemma sorted_snoc m t : StronglySorted nle (m ++ [t]) -> StronglySorted nle m /\ forall a, In a m -> fst a <= fst t.
  Proof.
    induction m as [|a m IH]; cbn [app]; intros S; [split; [constructor|intros a []]|]. inversion S as [|? ? St Fa]; subst.
    destruct (IH St) as (Sm & Hm). split.
    - constructor; [exact Sm|]. rewrite Forall_forall in *. intros z Hz. apply Fa. apply in_or_app. left. exact Hz.
    - intros b [<-|Hb]; [|apply Hm; exact Hb]. rewrite Forall_forall in Fa. apply (Fa t). apply in_or_app. right. left. reflexivity.
  Qed.
  Lemma sorted_le_top l e : StronglySorted nle l -> In e l -> fst e <= top_dist l.
  Proof.
    intros S He. assert (H : l <> []) by (intros ->; destruct He). destruct (exists_last H) as (m & t & ->).
    rewrite top_dist_snoc. destruct (sorted_snoc m t S) as (_ & Hm). apply in_app_or in He. destruct He as [He|[<-|[]]]; [apply Hm; exact He|lia].
  Qed.
  Lemma perm_filter' {A} (f : A -> bool) l l' : Permutation l l' -> Permutation (filter f l) (filter f l').
  Proof.
    induction 1 as [|x l l' _ IH|x y l|l l' l'' _ IH1 _ IH2]; cbn [filter].
    - constructor.
    - destruct (f x); [constructor|]; exact IH.
    - destruct (f x), (f y); try apply Permutation_refl. apply perm_swap.
    - eapply perm_trans; eauto.
  Qed.

  (* ---- nearestR ---- *)
  Section RInst.
    Variable removed : P -> bool.
    Variable offs : nat -> nat.
    Variable pick : list (gnode * Z) -> nat.
    Variable r : Z.
    Variable q : P.
    Definition AccR (n : list nent) (E : list P) : Prop :=
      Permutation (map snd n) (filter (fun x => d q x <=? r) E) /\ StronglySorted nle n /\ dists_ok q n.
    Lemma accR_ins n E x : AccR n E -> AccR (fst (insR P r x (d q x) n)) (x :: E).
    Proof.
      intros (Pn & Sn & Dn). unfold insR, AccR. cbn [filter]. destruct (d q x <=? r); cbn [fst].
      - split; [|split; [apply qins_sorted; exact Sn|apply qins_dists; [reflexivity|exact Dn]]].
        eapply perm_trans; [apply Permutation_map; apply qins_perm|]. cbn [map snd]. apply perm_skip. exact Pn.
      - auto.
    Qed.
    Theorem gnat_nearestR_spec tree nbh piv :
      inv_ok_root P d tree = true -> gnat_nearestR P d removed offs pick r q tree = Some (nbh, piv) ->
      Permutation (map snd nbh) (filter (fun x => d q x <=? r) (lelems removed tree)) /\ StronglySorted nle nbh /\ dists_ok q nbh.
    Proof.
      intros IR G. unfold gnat_nearestR in G.
      assert (H1 : forall n E E', Permutation E E' -> AccR n E -> AccR n E').
      { intros n E E' PE (Pn & Sn & Dn). split; [|auto]. eapply perm_trans; [exact Pn|]. apply perm_filter'. exact PE. }
      assert (H3 : forall n E x y, AccR n E -> Far (boundR P r) q n y -> Far (boundR P r) q (fst (insR P r x (d q x) n)) y).
      { intros n E x y _ Fy. exact Fy. }
      assert (H4 : AccR [] []) by (split; [constructor|split; constructor]).
      destruct (gsearch_spec removed offs pick (insR P r) (boundR P r) q AccR H1 accR_ins H3 H4 tree nbh piv IR G) as (E & D & PU & (Pn & Sn & Dn) & FD).
      - split; [|auto]. eapply perm_trans; [exact Pn|]. eapply perm_trans; [|apply perm_filter'; apply Permutation_sym; exact PU].
        rewrite filter_app. assert (Z0 : filter (fun x => d q x <=? r) D = []).
        { clear - FD. induction D as [|y t IH]; [reflexivity|]. inversion FD as [|? ? (t0 & B & L) Ft]; subst. cbn [filter].
          unfold boundR in B. injection B as <-. destruct (Z.leb_spec (d q y) r); [lia|]. apply IH. exact Ft. }
        rewrite Z0, app_nil_r. apply Permutation_refl.
    Qed.
    Theorem gnat_nearestR_total tree : gnat_nearestR P d removed offs pick r q tree <> None.
    Proof. apply gsearch_total. Qed.
  End RInst.

  (* ---- nearestK ---- *)
  Section KInst.
    Variable removed : P -> bool.
    Variable offs : nat -> nat.
    Variable pick : list (gnode * Z) -> nat.
    Variable k : nat.
    Hypothesis k_pos : (1 <= k)%nat.
    Hypothesis d_nonneg : forall x y, 0 <= d x y.
    Variable q : P.
    Definition KBest (n : list nent) (E : list P) : Prop :=
      exists rest, Permutation E (map snd n ++ rest) /\ forall x y, In x (map snd n) -> In y rest -> d q x <= d q y.
    Definition AccK (n : list nent) (E : list P) : Prop :=
      StronglySorted nle n /\ dists_ok q n /\ length n = Nat.min k (length E) /\ KBest n E.
    Lemma in_snd_dist n x : dists_ok q n -> In x (map snd n) -> exists e, In e n /\ snd e = x /\ fst e = d q x.
    Proof.
      intros Dn H. apply in_map_iff in H. destruct H as (e & <- & He). exists e. unfold dists_ok in Dn. rewrite Forall_forall in Dn. auto.
    Qed.
    Lemma accK_ins n E x : AccK n E -> AccK (fst (insK P peqb k q x (d q x) n)) (x :: E).
    Proof.
      intros (Sn & Dn & Ln & rest & PE & HB). unfold insK.
      destruct (Nat.ltb_spec (length n) k) as [Lk|Lk]; cbn [fst].
      - (* room left: everything examined so far is in the queue *)
        assert (LE : length E = length n) by lia.
        assert (R0 : rest = []).
        { apply Permutation_length in PE. rewrite app_length, map_length in PE. unfold GnatModel.nent in *. destruct rest; [reflexivity|cbn [length] in PE; lia]. }
        subst rest. split; [apply qins_sorted; exact Sn|]. split; [apply qins_dists; [reflexivity|exact Dn]|].
        split; [rewrite qins_length; cbn [length]; lia|]. exists []. split; [|intros ? ? _ []].
        rewrite app_nil_r in *. eapply perm_trans; [apply perm_skip; exact PE|]. apply Permutation_sym.
        eapply perm_trans; [apply Permutation_map; apply qins_perm|]. apply Permutation_refl.
      - assert (Lnk : length n = k) by lia.
        assert (Hne : n <> []) by (intros ->; cbn in Lnk; lia).
        destruct (exists_last Hne) as (m & t & ->). rewrite top_dist_snoc, removelast_last.
        destruct (sorted_snoc m t Sn) as (Sm & Hm).
        assert (Dm : dists_ok q m /\ fst t = d q (snd t)).
        { unfold dists_ok in *. apply Forall_app in Dn. destruct Dn as (D1 & D2). inversion D2; subst. auto. }
        destruct Dm as (Dm & Dt).
        rewrite map_app in PE, HB. cbn [map] in PE, HB.
        destruct ((d q x <? fst t) || ((d q x <=? 0) && peqb x q)) eqn:C; cbn [fst].
        + (* the new element replaces the top *)
          assert (Cx : d q x <= fst t).
          { apply orb_true_iff in C. destruct C as [C|C]; [apply Z.ltb_lt in C; lia|]. apply andb_true_iff in C. destruct C as (C & _).
            apply Z.leb_le in C. rewrite Dt. pose proof (d_nonneg q (snd t)). lia. }
          split; [apply qins_sorted; exact Sm|]. split; [apply qins_dists; [reflexivity|exact Dm]|].
          split; [rewrite qins_length; rewrite app_length in *; cbn [length] in *; lia|].
          exists (snd t :: rest). split.
          * eapply perm_trans; [apply perm_skip; exact PE|]. apply Permutation_sym.
            eapply perm_trans; [apply Permutation_app_tail; apply Permutation_map; apply qins_perm|]. cbn [map snd app].
            apply perm_skip. rewrite <- app_assoc. cbn [app]. apply Permutation_refl.
          * intros a b Ha Hb. apply (Permutation_in _ (Permutation_map snd (qins_perm (d q x, x) m))) in Ha. cbn [map snd] in Ha.
            assert (Ha' : d q a <= fst t).
            { destruct Ha as [<-|Ha]; [exact Cx|]. destruct (in_snd_dist m a Dm Ha) as (e & He & <- & Ee). rewrite <- Ee. apply Hm. exact He. }
            destruct Hb as [<-|Hb]; [rewrite <- Dt; exact Ha'|].
            assert (d q (snd t) <= d q b) by (apply HB; [apply in_or_app; right; left; reflexivity|exact Hb]). lia.
        + (* rejected: it is at least as far as everything kept *)
          apply orb_false_iff in C. destruct C as (C & _). apply Z.ltb_ge in C.
          split; [exact Sn|]. split; [exact Dn|]. split; [cbn [length]; lia|].
          exists (x :: rest). split.
          * rewrite map_app. cbn [map]. eapply perm_trans; [apply perm_skip; exact PE|]. apply Permutation_middle.
          * rewrite map_app. cbn [map]. intros a b Ha Hb. destruct Hb as [<-|Hb]; [|apply HB; assumption].
            apply in_app_or in Ha. destruct Ha as [Ha|[<-|[]]]; [|lia].
            destruct (in_snd_dist m a Dm Ha) as (e & He & <- & Ee). rewrite <- Ee. specialize (Hm e He). lia.
    Qed.
    Lemma farK_ins n E x y : AccK n E -> Far (boundK P k) q n y -> Far (boundK P k) q (fst (insK P peqb k q x (d q x) n)) y.
    Proof.
      intros (Sn & Dn & Ln & _) (t0 & B & L). unfold boundK in B. destruct (Nat.eqb_spec (length n) k) as [Lk|]; [|discriminate]. injection B as <-.
      unfold insK. destruct (Nat.ltb_spec (length n) k) as [Lk'|_]; [lia|].
      destruct ((d q x <? top_dist n) || ((d q x <=? 0) && peqb x q)) eqn:C; cbn [fst].
      - assert (Hne : n <> []) by (intros ->; cbn in Lk; lia).
        destruct (exists_last Hne) as (m & t & ->). rewrite removelast_last. rewrite top_dist_snoc in *.
        destruct (sorted_snoc m t Sn) as (_ & Hm).
        assert (Dt : fst t = d q (snd t)).
        { unfold dists_ok in Dn. apply Forall_app in Dn. destruct Dn as (_ & D2). inversion D2; subst. auto. }
        assert (Cx : d q x <= fst t).
        { apply orb_true_iff in C. destruct C as [C|C]; [apply Z.ltb_lt in C; lia|]. apply andb_true_iff in C. destruct C as (C & _).
          apply Z.leb_le in C. rewrite Dt. pose proof (d_nonneg q (snd t)). lia. }
        exists (top_dist (qins (d q x, x) m)). split.
        + unfold boundK. rewrite qins_length. rewrite app_length in Lk. cbn [length] in Lk. replace (S (length m)) with k by lia. rewrite Nat.eqb_refl. reflexivity.
        + assert (Hin : In (top_dist (qins (d q x, x) m)) (map fst (qins (d q x, x) m))).
          { apply top_dist_in. intros H0. pose proof (qins_length (d q x, x) m) as HL. rewrite H0 in HL. discriminate. }
          apply (Permutation_in _ (Permutation_map fst (qins_perm (d q x, x) m))) in Hin. cbn [map fst] in Hin.
          destruct Hin as [<-|Hin]; [lia|]. apply in_map_iff in Hin. destruct Hin as (e & <- & He). specialize (Hm e He). lia.
      - exists (top_dist n). split; [|exact L]. unfold boundK. rewrite Lk, Nat.eqb_refl. reflexivity.
    Qed.
    Theorem gnat_nearestK_spec tree nbh piv :
      inv_ok_root P d tree = true -> gnat_nearestK P d peqb removed offs pick k q tree = Some (nbh, piv) ->
      StronglySorted nle nbh /\ dists_ok q nbh /\ length nbh = Nat.min k (length (lelems removed tree)) /\
      exists rest, Permutation (lelems removed tree) (map snd nbh ++ rest) /\ forall x y, In x (map snd nbh) -> In y rest -> d q x <= d q y.
    Proof.
      intros IR G. unfold gnat_nearestK in G.
      assert (H1 : forall n E E', Permutation E E' -> AccK n E -> AccK n E').
      { intros n E E' PE (Sn & Dn & Ln & rest & PE0 & HB). split; [exact Sn|]. split; [exact Dn|].
        split; [rewrite <- (Permutation_length PE); exact Ln|]. exists rest. split; [|exact HB]. eapply perm_trans; [apply Permutation_sym; exact PE|exact PE0]. }
      assert (H4 : AccK [] []).
      { split; [constructor|]. split; [constructor|]. split; [cbn; lia|]. exists []. split; [constructor|intros ? ? []]. }
      destruct (gsearch_spec removed offs pick (insK P peqb k q) (boundK P k) q AccK H1 accK_ins farK_ins H4 tree nbh piv IR G)
        as (E & D & PU & (Sn & Dn & Ln & rest & PE & HB) & FD).
      - split; [exact Sn|]. split; [exact Dn|]. split.
        + rewrite (Permutation_length PU), app_length. destruct D as [|y0 D']; [rewrite Nat.add_0_r; exact Ln|].
          inversion FD as [|? ? (t0 & B & _) _]; subst. unfold boundK in B. destruct (Nat.eqb_spec (length nbh) k); [|discriminate]. cbn [length]. lia.
        + exists (rest ++ D). split.
          * eapply perm_trans; [exact PU|]. rewrite app_assoc. apply Permutation_app_tail. exact PE.
          * intros a b Ha Hb. apply in_app_or in Hb. destruct Hb as [Hb|Hb]; [apply HB; assumption|].
            rewrite Forall_forall in FD. destruct (FD b Hb) as (t0 & B & L). unfold boundK in B. destruct (Nat.eqb_spec (length nbh) k); [|discriminate]. injection B as <-.
            destruct (in_snd_dist nbh a Dn Ha) as (e1 & He & <- & Ee). rewrite <- Ee. pose proof (sorted_le_top nbh e1 Sn He). lia.
    Qed.
    Theorem gnat_nearestK_total tree : gnat_nearestK P d peqb removed offs pick k q tree <> None.
    Proof. apply gsearch_total. Qed.
  End KInst.

  (* remove() and nearest(): nearestKInternal(data, 1) returns one element and a flag; the flag is true only if that
     element is a pivot of the tree and false only if it is a data element that is not marked removed *)
  Lemma insK1_sem peq q x dd n : (length n <= 1)%nat ->
    (length (fst (insK P peq 1 q x dd n)) <= 1)%nat /\
    (snd (insK P peq 1 q x dd n) = true -> fst (insK P peq 1 q x dd n) = [(dd, x)]) /\
    (snd (insK P peq 1 q x dd n) = false -> fst (insK P peq 1 q x dd n) = n).
  Proof.
    intros Hn. unfold insK. destruct n as [|e [|e' t]]; [| |cbn in Hn; lia]; cbn [length Nat.ltb Nat.leb].
    - cbn [GnatModel.qins fst snd length]. split; [lia|]. split; [reflexivity|discriminate].
    - destruct ((dd <? top_dist [e]) || ((dd <=? 0) && peq x q)); cbn [removelast GnatModel.qins fst snd length]; split; try lia; split; try reflexivity; discriminate.
  Qed.
  Theorem gnat_nearest1_flag removed offs pick q tree nbh piv :
    gnat_nearestK P d peqb removed offs pick 1 q tree = Some (nbh, piv) ->
    forall dd x, nbh = [(dd, x)] ->
      if piv then In x (map node_pivot (anodes tree)) else (In x (flat_map node_data (anodes tree)) /\ removed x = false).
  Proof.
    intros G. unfold gnat_nearestK in G.
    pose proof (gsearch_Q removed offs pick (insK P peqb 1 q) (boundK P 1) q tree (insK1_sem peqb q) nbh piv G) as (_ & H). exact H.
  Qed.

  (* when no pivot is in the removal cache (removing a pivot rebuilds the tree at once), the live elements are the
     tree's elements minus the removal cache *)
  Fixpoint pivots (n : gnode) : list P := match n with GNode p _ _ _ _ ch => p :: flat_map pivots ch end.
  Lemma lelems_filter removed : forall n, (forall p, In p (pivots n) -> removed p = false) ->
    lelems removed n = filter (fun x => negb (removed x)) (elems n).
  Proof.
    apply (gnode_rect' (fun n => (forall p, In p (pivots n) -> removed p = false) -> lelems removed n = filter (fun x => negb (removed x)) (elems n))).
    intros p a b r dat ch IH Hp. cbn [lelems NNModel.elems filter]. rewrite (Hp p (or_introl eq_refl)). cbn [negb]. f_equal.
    rewrite filter_app. f_equal. clear - IH Hp. cbn [pivots] in Hp.
    assert (Hc : forall c, In c ch -> forall p', In p' (pivots c) -> removed p' = false).
    { intros c Hc p' Hp'. apply Hp. right. apply in_flat_map. exists c. auto. }
    clear Hp. induction ch as [|c t IHt]; [reflexivity|]. cbn [flat_map]. rewrite filter_app. inversion IH as [|? ? Hc0 Ht]; subst.
    rewrite (Hc0 (Hc c (or_introl eq_refl))). f_equal. apply IHt; [exact Ht|]. intros c' Hc' p' Hp'. apply (Hc c' (or_intror Hc') p' Hp').
  Qed.
End GP.
