(* PdfFloat.v — the PDF model instantiated with Coq's primitive binary64 floats (executed by vm_compute). *)
From Coq Require Import Floats List.
From OmplV Require Import PdfModel.
Import ListNotations.

Definition Fl : arith := mkArith float 0%float PrimFloat.add PrimFloat.sub PrimFloat.mul PrimFloat.ltb.

Inductive fop := FOp (o : op Fl) | FSample (r : float) | FSampleOrig (r : float).
Inductive obs := OState (ids : list nat) (rows : list (list float)) | OSample (r : sres) | OExc.

Fixpoint frun (p : pdf Fl) (ops : list fop) : list obs :=
  match ops with
  | [] => []
  | FOp o :: t => match pdf_step Fl p o with
                  | Some p' => OState (map fst (data p')) (rows p') :: frun p' t
                  | None => OExc :: frun p t
                  end
  | FSample r :: t => OSample (pdf_sample Fl r 1%float p) :: frun p t
  | FSampleOrig r :: t => OSample (pdf_sample_orig Fl r 1%float p) :: frun p t
  end.
Definition frun0 := frun (empty Fl).
Definition fadd (id : nat) (w : float) : fop := FOp (@PAdd Fl id w).
Definition fupd (id : nat) (w : float) : fop := FOp (@PUpd Fl id w).
Definition frem (id : nat) : fop := FOp (@PRem Fl id).
Definition fclear : fop := FOp (@PClear Fl).
