(* ConstraintProofs.v — over the reals: every state a discrete geodesic appends is a successful projection (hence on
   the manifold), consecutive states are at most lambda*delta apart, and a geodesic that reports success ends within
   delta of the target; with interpolate = false every appended state is also valid. *)
From Coq Require Import List Bool Arith Reals Lra Lia.
From OmplV Require Import ConstraintModel.
Import ListNotations.
Local Open Scope R_scope.

Definition rleb (x y : R) : bool := if Rle_dec x y then true else false.
Definition rltb (x y : R) : bool := if Rlt_dec x y then true else false.
Definition ReG : garith := mkGA R 0 Rplus Rmult Rdiv rleb rltb (1 / 4503599627370496).
Lemma rleb_true : forall x y, rleb x y = true <-> x <= y.
Proof. intros x y. unfold rleb. destruct (Rle_dec x y); split; intros; auto; discriminate. Qed.
Lemma rltb_false : forall x y, rltb x y = false <-> y <= x.
Proof. intros x y. unfold rltb. destruct (Rlt_dec x y); split; intros; try discriminate; try lra; auto. Qed.

Section GeoP.
  Variable St : Type.
  Variable dist : St -> St -> R.
  Variable interp : St -> St -> R -> St.
  Variable project : St -> option St.
  Variable valid : St -> bool.
  Variables delta lambda : R.
  Notation geo_step := (geo_step ReG St dist interp project valid delta lambda).
  Notation geo_loop := (geo_loop ReG St dist interp project valid delta lambda).
  Notation discrete_geodesic := (discrete_geodesic ReG St dist interp project valid delta lambda).

  Definition on_manifold (s : St) : Prop := exists pre, project pre = Some s.
  (* consecutive states, starting from [prev] *)
  Fixpoint stepwise (prev : St) (l : list St) : Prop :=
    match l with [] => True | s :: r => dist prev s <= lambda * delta /\ stepwise s r end.

  Lemma geo_step_spec : forall ipol previous to d total maxlen s nd total',
    geo_step ipol previous to d total maxlen = Some (s, nd, total') ->
    on_manifold s /\ (ipol = false -> valid s = true) /\ dist previous s <= lambda * delta /\ nd = dist s to /\ nd < d /\ total' <= maxlen.
  Proof.
    intros ipol previous to d total maxlen s nd total' H. unfold ConstraintModel.geo_step in H. cbn [G gdiv gmul gadd gle glt ReG] in H.
    destruct (project (interp previous to (delta / d))) as [scratch|] eqn:Ep; [|discriminate].
    destruct (negb (ipol || valid scratch)) eqn:Ev; [discriminate|].
    destruct (rltb (lambda * delta) (dist previous scratch)) eqn:E1; [discriminate|].
    destruct (rltb maxlen (total + dist previous scratch)) eqn:E2; [discriminate|].
    destruct (rleb d (dist scratch to)) eqn:E3; [discriminate|].
    inversion H; subst. apply rltb_false in E1, E2.
    assert (E3' : ~ d <= dist s to) by (intros C; apply rleb_true in C; rewrite C in E3; discriminate).
    split; [exists (interp previous to (delta / d)); exact Ep|]. split.
    - intros ->. apply negb_false_iff in Ev. cbn in Ev. exact Ev.
    - repeat split; try lra.
  Qed.

  Lemma stepwise_app : forall l prev s, stepwise prev l -> dist (last l prev) s <= lambda * delta -> stepwise prev (l ++ [s]).
  Proof.
    induction l as [|a t IH]; intros prev s H Hd; cbn in *; [split; [exact Hd | exact I]|].
    destruct H as [H1 H2]. split; [exact H1|]. apply IH; [exact H2|].
    destruct t as [|b t']; [exact Hd|]. replace (last (b :: t') a) with (last (b :: t') prev); [exact Hd|].
    clear. revert b. induction t' as [|c t'' IHt]; intros b; [reflexivity|]. change (last (c :: t'') prev = last (c :: t'') a). apply IHt.
  Qed.
  Lemma last_app_one : forall (l : list St) s d, last (l ++ [s]) d = s.
  Proof. induction l as [|a t IH]; intros s d; [reflexivity|]. cbn [app]. destruct (t ++ [s]) eqn:E; [destruct t; discriminate|]. rewrite <- E. cbn [last]. rewrite E. rewrite <- E. apply IH. Qed.

  (* loop invariant: [acc] (newest first) reversed is a stepwise chain from [start] ending at [previous] *)
  Lemma geo_loop_spec : forall fuel ipol start previous to d total maxlen acc d' l,
    geo_loop fuel ipol previous to d total maxlen acc = (d', l) ->
    stepwise start (rev acc) -> Forall on_manifold acc -> (ipol = false -> Forall (fun s => valid s = true) acc) ->
    previous = last (rev acc) start -> d = dist previous to ->
    stepwise start l /\ Forall on_manifold l /\ (ipol = false -> Forall (fun s => valid s = true) l) /\ d' = dist (last l start) to.
  Proof.
    induction fuel as [|k IH]; intros ipol start previous to d total maxlen acc d' l H Hs Hm Hv Hp Hd; cbn [ConstraintModel.geo_loop] in H.
    - injection H as <- <-. split; [exact Hs|]. split; [apply Forall_rev; exact Hm|]. split; [intros E; apply Forall_rev; apply Hv; exact E|]. rewrite <- Hp. exact Hd.
    - destruct (geo_step ipol previous to d total maxlen) as [[[s nd] total']|] eqn:Es.
      + apply geo_step_spec in Es. destruct Es as [M [V [S1 [N [_ _]]]]].
        assert (Hs' : stepwise start (rev (s :: acc))) by (cbn [rev]; apply stepwise_app; [exact Hs | rewrite <- Hp; exact S1]).
        assert (Hm' : Forall on_manifold (s :: acc)) by (constructor; assumption).
        assert (Hv' : ipol = false -> Forall (fun x => valid x = true) (s :: acc)) by (intros E; constructor; [apply V; exact E | apply Hv; exact E]).
        assert (Hp' : s = last (rev (s :: acc)) start) by (cbn [rev]; rewrite last_app_one; reflexivity).
        cbn [G gle ReG] in H. destruct (rleb delta nd) eqn:Ec.
        * apply (IH ipol start s to nd total' maxlen (s :: acc) d' l H Hs' Hm' Hv' Hp' N).
        * injection H as <- <-. change (rev acc ++ [s]) with (rev (s :: acc)). split; [exact Hs'|]. split; [apply Forall_rev; exact Hm'|]. split; [intros E; apply Forall_rev; apply Hv'; exact E|].
          rewrite <- Hp'. exact N.
      + injection H as <- <-. split; [exact Hs|]. split; [apply Forall_rev; exact Hm|]. split; [intros E; apply Forall_rev; apply Hv; exact E|]. rewrite <- Hp. exact Hd.
  Qed.

  (* discreteGeodesic *)
  Theorem discrete_geodesic_spec : forall fuel ipol from to ok g, discrete_geodesic fuel ipol from to = (ok, g) ->
    exists l, g = from :: l /\ stepwise from l /\ Forall on_manifold l /\ (ipol = false -> Forall (fun s => valid s = true) l) /\
              (ok = true -> dist (last l from) to <= delta).
  Proof.
    intros fuel ipol from to ok g H. unfold ConstraintModel.discrete_geodesic in H. cbn [G gle gmul g0 ReG] in H.
    destruct (rleb (dist from to) delta) eqn:E0.
    - inversion H; subst. exists []. cbn. split; [reflexivity|]. split; [exact I|]. split; [constructor|]. split; [intros _; constructor|]. intros _. apply rleb_true in E0. exact E0.
    - destruct (geo_loop fuel ipol from to (dist from to) 0 (dist from to * lambda) []) as [d l] eqn:El.
      inversion H; subst.
      destruct (geo_loop_spec fuel ipol from from to (dist from to) 0 (dist from to * lambda) [] d l El I (Forall_nil _) (fun _ => Forall_nil _) eq_refl eq_refl) as [A1 [A2 [A3 A4]]].
      exists l. split; [reflexivity|]. split; [exact A1|]. split; [exact A2|]. split; [exact A3|]. intros Hok. apply rleb_true in Hok. rewrite <- A4. exact Hok.
  Qed.
End GeoP.

(* ---- geodesicInterpolate: for t >= 0 the returned state is one of the geodesic's states (never an access outside the
   vector), so together with the theorem above every interpolated state is `from' or a successful projection ---- *)
Section InterpP.
  Variable St : Type.
  Variable dist : St -> St -> R.
  Notation ginterp := (geodesic_interpolate ReG St dist Rminus Rabs 1).

  Lemma first_above_bound lastv t n : forall ds i, (i <= n - 1)%nat -> (first_above ReG ds lastv t i n <= n - 1)%nat.
  Proof.
    induction ds as [|x r IH]; intros i Hi; cbn [first_above]; [exact Hi|].
    destruct (Nat.ltb_spec i (n - 1)) as [L|L]; cbn [andb]; [|exact Hi].
    destruct (gle ReG (gdiv ReG x lastv) t); [apply IH; lia|exact Hi].
  Qed.
  Lemma partial_sums_length prev acc l : length (partial_sums ReG St dist prev acc l) = length l.
  Proof. revert prev acc. induction l as [|s r IH]; intros prev acc; cbn [partial_sums length]; [reflexivity|]. rewrite IH. reflexivity. Qed.
  Lemma nth_last_R (l : list R) : nth (length l - 1) l 0 = last l 0.
  Proof.
    induction l as [|a t IH]; [reflexivity|]. destruct t as [|b t']; [reflexivity|].
    cbn [length] in *. replace (S (S (length t')) - 1)%nat with (S (S (length t') - 1)) by lia. cbn [nth last]. exact IH.
  Qed.

  Theorem geodesic_interpolate_in (g : list St) (t : R) : g <> [] -> 0 <= t ->
    exists s, ginterp g t = Some s /\ In s g.
  Proof.
    intros Hg Ht. destruct g as [|s0 rest]; [congruence|]. unfold geodesic_interpolate.
    set (n := length (s0 :: rest)). set (d := g0 ReG :: partial_sums ReG St dist s0 (g0 ReG) rest).
    assert (Ld : length d = n) by (unfold d, n; cbn [length]; rewrite partial_sums_length; reflexivity).
    set (lastv := last d (g0 ReG)).
    destruct (gle ReG lastv (geps ReG)) eqn:E0; [exists s0; split; [reflexivity|left; reflexivity]|].
    assert (Hl : geps ReG < lastv).
    { cbn [gle ReG] in E0. unfold rleb in E0. destruct (Rle_dec lastv (geps ReG)); [discriminate|]. cbn [geps ReG] in *. lra. }
    assert (Epos : 0 < geps ReG) by (cbn [geps ReG]; lra).
    set (i := first_above ReG d lastv t 0 n).
    assert (Hi : (i <= n - 1)%nat) by (apply first_above_bound; lia).
    assert (Hn : (1 <= n)%nat) by (unfold n; cbn [length]; lia).
    assert (Some_i : forall j, (j < n)%nat -> exists s, nth_error (s0 :: rest) j = Some s /\ In s (s0 :: rest)).
    { intros j Hj. destruct (nth_error (s0 :: rest) j) as [s|] eqn:N; [exists s; split; [reflexivity|eapply nth_error_In; exact N]|].
      apply nth_error_None in N. fold n in N. lia. }
    match goal with |- context [if ?c then _ else _] => destruct c eqn:C end.
    - apply Some_i. lia.
    - apply Some_i. destruct (Nat.eq_dec i (n - 1)) as [Ei|Ni]; [|lia]. exfalso.
      (* i = n - 1: t1 = 1 - t and t2 = 1, so the test can only fail for t < 0 *)
      apply orb_false_iff in C. destruct C as (C1 & C2).
      assert (N2 : (2 <= n)%nat).
      { destruct (Nat.eq_dec n 1) as [E1|]; [|lia]. exfalso. unfold lastv, d in Hl. unfold n in E1. cbn [length] in E1.
        destruct rest; [|discriminate]. cbn [partial_sums last g0 ReG] in Hl. lra. }
      replace (Nat.leb i (n - 2)) with false in C1, C2 by (symmetry; apply Nat.leb_gt; lia).
      assert (Ed : nth i d (g0 ReG) = lastv) by (rewrite Ei, <- Ld; apply nth_last_R).
      rewrite Ed in C1, C2. cbn [gdiv ReG glt geps] in C1, C2.
      assert (E1 : lastv / lastv = 1) by (field; lra). rewrite E1 in C1, C2.
      apply rltb_false in C1. apply rltb_false in C2.
      assert (t = 0) by lra. subst t. replace (1 - 0 - 1) with 0 in C2 by ring. rewrite Rabs_R0 in C2. cbn [geps ReG] in *. lra.
  Qed.
End InterpP.
