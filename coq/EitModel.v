(* EitModel.v — executable model of EIT*'s multi-resolution edge validation (EITstar::isValidAtResolution, couldBeValid,
   isValid; src/ompl/geometric/planners/informedtrees/src/EITstar.cpp).  Definitions only.
   One call with numChecks = c on an edge whose full-resolution segment count is F walks the indices 1..c breadth first
   by midpoints, tests interpolate(source, target, mid / min(c+1, F)) for every walk position beyond the number of
   checks recorded for the edge, records c as that number, and whitelists the edge when min(c+1, F) = F.
   couldBeValid uses the planner's current sparse level (c0, 2 c0 + 1, ...), isValid uses c = F - 1. *)
From Coq Require Import List Arith Bool QArith.
Import ListNotations.
Local Open Scope nat_scope.

(* the queue of index segments; the k-th element of the result is the k-th midpoint visited *)
Fixpoint bfs (fuel : nat) (queue : list (nat * nat)) : list nat :=
  match fuel with
  | O => []
  | S f =>
    match queue with
    | [] => []
    | (a, b) :: rest =>
      let mid := Nat.div (a + b) 2 in
      mid :: bfs f (rest ++ (if Nat.ltb a mid then [(a, mid - 1)] else []) ++ (if Nat.ltb mid b then [(mid + 1, b)] else []))
    end
  end.
Definition order (c : nat) : list nat := bfs (S c) [(1, c)].

(* one call: the (midpoint, segment count) pairs actually tested, given the checks recorded so far *)
Definition seg_of (c full : nat) : nat := Nat.min (c + 1) full.
(* (repaired code) the checks recorded at sparser levels are only skipped while the call itself is sparse *)
Definition call_tests (c full performed : nat) : list (nat * nat) :=
  map (fun mid => (mid, seg_of c full)) (skipn (if Nat.eqb (seg_of c full) full then 0 else performed) (order c)).
(* as it stood at the pinned commit: always skipped *)
Definition call_tests_orig (c full performed : nat) : list (nat * nat) :=
  map (fun mid => (mid, seg_of c full)) (skipn performed (order c)).
Definition call_performed (c : nat) : nat := length (order c).
Definition call_whitelists (c full : nat) : bool := Nat.eqb (seg_of c full) full.

(* an edge on which every test succeeds, through a history of calls (the levels at which couldBeValid / isValid were
   invoked on it): all tested positions, and whether it ended whitelisted *)
Section History.
  Variable tests_of : nat -> nat -> nat -> list (nat * nat).
  Fixpoint history_gen (full performed : nat) (levels : list nat) : list (nat * nat) * bool :=
    match levels with
    | [] => ([], false)
    | c :: r =>
      let t := tests_of c full performed in
      if call_whitelists c full then (t, true)
      else let '(t', w) := history_gen full (call_performed c) r in (t ++ t', w)
    end.
End History.
Definition history := history_gen call_tests.
Definition history_orig := history_gen call_tests_orig.

(* the tested positions as fractions of the edge, with the two end states (known to be valid) *)
Definition frac (p : nat * nat) : Q := (Z.of_nat (fst p) # Pos.of_nat (snd p))%Q.
Fixpoint qinsert (x : Q) (l : list Q) : list Q :=
  match l with [] => [x] | y :: t => if Qle_bool x y then x :: l else y :: qinsert x t end.
Definition qsort (l : list Q) : list Q := fold_right qinsert [] l.
Fixpoint gaps_le (bound : Q) (l : list Q) : bool :=
  match l with
  | x :: ((y :: _) as t) => Qle_bool (y - x)%Q bound && gaps_le bound t
  | _ => true
  end.
(* no stretch of the edge longer than [k] full-resolution steps is left without a tested state *)
Definition covered_within (k full : nat) (tests : list (nat * nat)) : bool :=
  let inside := filter (fun q => Qle_bool q 1%Q) (map frac tests) in
  gaps_le (Z.of_nat k # Pos.of_nat full)%Q (qsort (0%Q :: 1%Q :: inside)).

(* the planner's sparse levels c0, 2 c0 + 1, ... (n of them), followed by the full-resolution check *)
Fixpoint sparse_levels (c0 n : nat) : list nat := match n with O => [] | S m => c0 :: sparse_levels (2 * c0 + 1) m end.
Definition schedule (c0 n full : nat) : list nat := sparse_levels c0 n ++ [full - 1].
