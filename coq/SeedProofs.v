(* SeedProofs.v — proofs about SeedModel.v, and the abstract model of RNG::setLocalSeed *)
From Coq Require Import List NArith Bool Arith Lia.
From OmplV Require Import SeedModel.
Import ListNotations.
Local Open Scope N_scope.

Lemma set_seed_fresh g s : 0 < s -> some_generated g = false ->
  set_seed s g = mkSG (Some s) false (Some (eng_seed s)).
Proof. intros Hs Hg. unfold set_seed. apply N.ltb_lt in Hs. rewrite Hs, Hg. reflexivity. Qed.

Lemma seeds_prefix : forall n m g, firstn n (seeds_from (n + m) g) = seeds_from n g.
Proof.
  induction n as [|n IH]; intros m g; [reflexivity|]. cbn [Nat.add seeds_from].
  destruct (next_seed g) as [r g']. cbn [firstn]. f_equal. apply IH.
Qed.

Lemma draw_seed_range : forall fuel e v e', draw_seed fuel e = Some (v, e') -> 1 <= v <= 1000000000.
Proof.
  induction fuel as [|f IH]; intros e v e' H; [discriminate|]. cbn [draw_seed] in H.
  destruct (draw_small 64 e) as [[hi e1]|]; [|discriminate]. destruct (eng_next e1) as [lo e2].
  remember (two24 * hi + lo) as x eqn:Ex. clear Ex.
  destruct (N.ltb_spec 999999999 x) as [G|G]; [apply (IH _ _ _ H)|]. injection H as <- _. lia.
Qed.

(* ---- RNG::setLocalSeed: engine + every cache that a distribution may hold ---- *)
Section Rng.
  Variable E : Type.                       (* std::mt19937 state *)
  Variable seedE : N -> E.                 (* generator_.seed(s) / construction from s *)
  Variable V : Type.                       (* a drawn value *)
  Variable K : Type.                       (* kind of draw: uniform01, gaussian, sphere of dimension d, ... *)
  (* caches: the saved second normal variate, and per-dimension state of the sphere generators *)
  Record caches := mkC { ncache : option V; sph : nat -> option V }.
  Definition no_cache : caches := mkC None (fun _ => None).
  Variable draw : K -> E * caches -> V * (E * caches).

  Definition rng_fresh (s : N) : E * caches := (seedE s, no_cache).
  (* generator_.seed(s); uniDist_.reset(); normalDist_.reset(); sphericalDataPtr_->reset() *)
  Definition set_local_seed (s : N) (st : E * caches) : E * caches := (seedE s, no_cache).

  Fixpoint draws (st : E * caches) (ks : list K) : list V :=
    match ks with [] => [] | k :: t => let '(v, st') := draw k st in v :: draws st' t end.

  Lemma reseed_reproduces s st ks : draws (set_local_seed s st) ks = draws (rng_fresh s) ks.
  Proof. reflexivity. Qed.
End Rng.
