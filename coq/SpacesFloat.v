(* SpacesFloat.v — the spaces model on Coq's primitive binary64 floats (executed by vm_compute).
   fmod and floor are computed exactly through the specification-float view (Prim2SF / binary_normalize / SF2Prim). *)
From Coq Require Import List ZArith Floats SpecFloat FloatOps.
From OmplV Require Import SpacesModel.
Import ListNotations.

Definition of_Zexp (m e : Z) : float := SF2Prim (binary_normalize prec emax m e false).
Definition fl_floor (x : float) : float :=
  match Prim2SF x with
  | S754_finite s m e =>
    if (0 <=? e)%Z then x
    else let n := Z.div (if s then Z.neg m else Z.pos m) (Z.pow 2 (- e)) in
         if (n =? 0)%Z then (if s then (-0)%float else 0%float) else of_Zexp n 0
  | _ => x
  end.
(* C fmod: x - trunc(x/y)*y, exact; sign of x *)
Definition fl_fmod (x y : float) : float :=
  match Prim2SF x, Prim2SF y with
  | S754_finite sx mx ex, S754_finite _ my ey =>
    let e := Z.min ex ey in
    let X := (Z.pos mx * Z.pow 2 (ex - e))%Z in
    let Y := (Z.pos my * Z.pow 2 (ey - e))%Z in
    let R := Z.rem X Y in
    if (R =? 0)%Z then (if sx then (-0)%float else 0%float) else of_Zexp (if sx then Z.opp R else R) e
  | S754_zero _, S754_finite _ _ _ => x
  | S754_finite _ _ _, S754_infinity _ => x
  | S754_zero _, S754_infinity _ => x
  | _, _ => nan
  end.

Definition FlA : farith :=
  mkFA float 0%float 2%float 0.5%float PrimFloat.add PrimFloat.sub PrimFloat.mul PrimFloat.sqrt PrimFloat.abs fl_floor fl_fmod
       PrimFloat.ltb PrimFloat.leb 0x1.921fb54442d18p+1%float 0x1p-52%float.
