(* RrtStarCost.v — the cost argument for geometric::RRTstar (RrtStarModel): with an order on costs in which adding a motion cost
   never decreases a cost, rewiring never closes a cycle, updateChildCosts restores `cost = parent cost + incCost' in the whole
   subtree, so after every pass every motion's cost is its parent's cost combined with the cost of the motion from the parent,
   and following parents reaches a root within the number of motions. *)
From Coq Require Import List Bool Arith Lia Permutation Relations Wellfounded.
From OmplV Require Import LedgerProofs RrtStarModel RrtStarProofs.
Import ListNotations.

Section Cost.
  Variables St C : Type.
  Variable clt : C -> C -> bool.
  Variable cadd : C -> C -> C.
  Variable c0 : C.
  Variable dflt : St.
  Notation node := (node St C).
  Notation nd := (nd St C c0 dflt).
  Notation n_st := (n_st St C).
  Notation n_par := (n_par St C).
  Notation n_inc := (n_inc St C).
  Notation n_cost := (n_cost St C).
  Notation mkN := (mkN St C).
  Definition cle (a b : C) : Prop := clt b a = false.              (* a <= b *)
  Hypothesis cle_trans : forall a b c, cle a b -> cle b c -> cle a c.
  Hypothesis clt_cle : forall a b, clt a b = true -> cle a b.
  Variable nn : C -> Prop.                                          (* "a motion cost": adding it never decreases a cost *)
  Hypothesis nn_add : forall a i, nn i -> cle a (cadd a i).

  (* ---- the parent structure *)
  Definition par_rel (l : list node) (p j : nat) : Prop := j < length l /\ n_par (nd l j) = Some p.
  Definition Acyc (l : list node) : Prop := forall j, Acc (par_rel l) j.
  Definition InRange (l : list node) : Prop := forall j p, j < length l -> n_par (nd l j) = Some p -> p < length l.
  (* the motion j, its parent, its parent's parent, ... at most fuel of them *)
  Fixpoint ancs (fuel : nat) (l : list node) (j : nat) : list nat :=
    match fuel with
    | O => []
    | S f => j :: match n_par (nd l j) with Some p => ancs f l p | None => [] end
    end.
  (* a is j or one of its ancestors *)
  Inductive anc (l : list node) : nat -> nat -> Prop :=
  | anc_refl : forall j, anc l j j
  | anc_step : forall j p a, par_rel l p j -> anc l p a -> anc l j a.
  Lemma anc_trans l j a b : anc l j a -> anc l a b -> anc l j b.
  Proof. induction 1 as [j|j p a H H1 IH]; intros H2; [exact H2|]. apply (anc_step l j p b H). apply IH. exact H2. Qed.
  Lemma in_ancs_anc : forall fuel l j a, j < length l -> InRange l -> In a (ancs fuel l j) -> anc l j a.
  Proof.
    induction fuel as [|f IH]; intros l j a Hj HR H; cbn [ancs] in H; [contradiction|].
    destruct H as [<-|H]; [apply anc_refl|]. destruct (n_par (nd l j)) as [p|] eqn:Ep; [|contradiction].
    apply (anc_step l j p a); [split; assumption|]. apply IH; [apply (HR j p Hj Ep)|exact HR|exact H].
  Qed.
  Lemma acc_no_loop l : forall j, Acc (par_rel l) j -> forall p, par_rel l p j -> anc l p j -> False.
  Proof.
    induction 1 as [j _ IH]. intros p Hp Ha.
    (* walk from p up to j: the last step enters j from a child c of j: c has parent j... *)
    revert Hp. induction Ha as [x|x q a Hq Ha IHa]; intros Hp.
    - (* p = j: j is its own parent *) apply (IH x Hp x Hp). apply anc_refl.
    - (* x -> q -> ... -> a, and x is the parent of a *)
      apply (IH x Hp q Hq). apply (anc_trans l q a x Ha). apply (anc_step l a x x Hp). apply anc_refl.
  Qed.

  Lemma ancs_nodup : forall fuel l j, j < length l -> InRange l -> Acyc l -> NoDup (ancs fuel l j).
  Proof.
    induction fuel as [|f IH]; intros l j Hj HR HA; cbn [ancs]; [constructor|].
    destruct (n_par (nd l j)) as [p|] eqn:Ep; [|constructor; [intros []|constructor]].
    assert (Hp : p < length l) by apply (HR j p Hj Ep).
    constructor; [|apply IH; assumption].
    intros Hin. apply (acc_no_loop l j (HA j) p); [split; assumption|]. apply (in_ancs_anc f l p j Hp HR Hin).
  Qed.
  Lemma ancs_lt : forall fuel l j a, j < length l -> InRange l -> In a (ancs fuel l j) -> a < length l.
  Proof.
    induction fuel as [|f IH]; intros l j a Hj HR H; cbn [ancs] in H; [contradiction|].
    destruct H as [<-|H]; [exact Hj|]. destruct (n_par (nd l j)) as [p|] eqn:Ep; [|contradiction]. apply (IH l p a (HR j p Hj Ep) HR H).
  Qed.
  Lemma ancs_length_le : forall fuel l j, j < length l -> InRange l -> Acyc l -> length (ancs fuel l j) <= length l.
  Proof.
    intros fuel l j Hj HR HA. rewrite <- (seq_length (length l) 0). apply NoDup_incl_length; [apply ancs_nodup; assumption|].
    intros a Ha. apply in_seq. pose proof (ancs_lt fuel l j a Hj HR Ha). lia.
  Qed.
  (* the k-th ancestor *)
  Fixpoint kth (l : list node) (j k : nat) : option nat :=
    match k with O => Some j | S k' => match n_par (nd l j) with Some p => kth l p k' | None => None end end.
  Lemma ancs_full : forall k l j, kth l j k <> None -> length (ancs (S k) l j) = S k.
  Proof.
    induction k as [|k IH]; intros l j H; [cbn [ancs length]; destruct (n_par (nd l j)); reflexivity|].
    cbn [kth] in H. cbn [ancs]. destruct (n_par (nd l j)) as [p|] eqn:Ep; [|congruence]. cbn [length]. f_equal. apply (IH l p H).
  Qed.
  (* pigeonhole: an ancestor k steps up exists only for k below the number of motions *)
  Lemma kth_bound l j k : j < length l -> InRange l -> Acyc l -> kth l j k <> None -> k < length l.
  Proof.
    intros Hj HR HA H. pose proof (ancs_full k l j H) as E. pose proof (ancs_length_le (S k) l j Hj HR HA). lia.
  Qed.
  (* following parents with fuel above the number of motions ends in a root *)
  Lemma chain_reaches_root : forall fuel l j, kth l j fuel = None -> exists k r, k < fuel /\ kth l j k = Some r /\ n_par (nd l r) = None.
  Proof.
    induction fuel as [|f IH]; intros l j H; [discriminate|]. cbn [kth] in H. destruct (n_par (nd l j)) as [p|] eqn:Ep.
    - destruct (IH l p H) as (k & r & H1 & H2 & H3). exists (S k), r. split; [lia|]. split; [cbn [kth]; rewrite Ep; exact H2|exact H3].
    - exists 0, j. split; [lia|]. split; [reflexivity|exact Ep].
  Qed.

  (* ---- shapes: the parent structure is what matters *)
  Notation same_shape := (same_shape St C c0 dflt).
  Lemma shape_par_rel l l' : same_shape l l' -> forall p j, par_rel l' p j <-> par_rel l p j.
  Proof. intros (A & B) p j. unfold par_rel. destruct (B j) as (_ & B2). rewrite A, B2. tauto. Qed.
  Lemma shape_acyc l l' : same_shape l l' -> Acyc l -> Acyc l'.
  Proof.
    intros HS HA j. specialize (HA j). induction HA as [j _ IH]. constructor. intros p Hp. apply IH. apply (shape_par_rel l l' HS). exact Hp.
  Qed.
  Lemma shape_inrange l l' : same_shape l l' -> InRange l -> InRange l'.
  Proof. intros (A & B) HR j p Hj Hp. destruct (B j) as (_ & B2). rewrite A in *. rewrite B2 in Hp. apply (HR j p Hj Hp). Qed.
  Lemma shape_kth l l' : same_shape l l' -> forall k j, kth l' j k = kth l j k.
  Proof. intros (A & B). induction k as [|k IH]; intros j; cbn [kth]; [reflexivity|]. destruct (B j) as (_ & B2). rewrite B2. destruct (n_par (nd l j)); [apply IH|reflexivity]. Qed.
  Lemma shape_anc l l' : same_shape l l' -> forall j a, anc l j a -> anc l' j a.
  Proof. intros HS j a H. induction H as [j|j p a Hp _ IH]; [apply anc_refl|]. apply (anc_step l' j p a); [apply (shape_par_rel l l' HS); exact Hp|exact IH]. Qed.
  Lemma same_shape_sym l l' : same_shape l l' -> same_shape l' l.
  Proof. intros (A & B). split; [congruence|]. intros j. destruct (B j). split; congruence. Qed.

  (* ---- the cost equation and updateChildCosts *)
  Definition K (l : list node) (j : nat) : Prop :=
    match n_par (nd l j) with Some p => n_cost (nd l j) = cadd (n_cost (nd l p)) (n_inc (nd l j)) | None => True end.
  Definition desc (l : list node) (m x : nat) : Prop := anc l x m /\ x <> m.     (* x is a proper descendant of m *)
  Definition hb (l : list node) (m f : nat) : Prop := forall d k, kth l d k = Some m -> k <= f.
  Definition set_cost (l : list node) (j : nat) (c : C) : list node := updn j (mkN (n_st (nd l j)) (n_par (nd l j)) (n_inc (nd l j)) c) l.
  Lemma set_cost_shape l j c : same_shape l (set_cost l j c).
  Proof. apply same_shape_cost. Qed.
  Lemma set_cost_other l j c x : x <> j -> nd (set_cost l j c) x = nd l x.
  Proof. intros H. unfold set_cost, RrtStarModel.nd. rewrite nth_updn_ne by congruence. reflexivity. Qed.
  Lemma set_cost_same l j c : j < length l -> nd (set_cost l j c) j = mkN (n_st (nd l j)) (n_par (nd l j)) (n_inc (nd l j)) c.
  Proof. intros H. unfold set_cost, RrtStarModel.nd. rewrite nth_updn_eq by exact H. reflexivity. Qed.
  Lemma par_lt l j p : n_par (nd l j) = Some p -> j < length l.
  Proof. intros H. destruct (Nat.lt_ge_cases j (length l)) as [Hj|Hj]; [exact Hj|]. unfold RrtStarModel.nd in H. rewrite nth_overflow in H by exact Hj. discriminate. Qed.
  Lemma child_not_self l j p : Acyc l -> n_par (nd l j) = Some p -> j <> p.
  Proof. intros HA Hp ->. apply (acc_no_loop l p (HA p) p); [split; [apply (par_lt l p p Hp)|exact Hp]|apply anc_refl]. Qed.

  Lemma kth_snoc : forall k l d j m, kth l d k = Some j -> n_par (nd l j) = Some m -> kth l d (S k) = Some m.
  Proof.
    induction k as [|k IH]; intros l d j m H Hp.
    - cbn [kth] in H. injection H as ->. cbn [kth]. rewrite Hp. reflexivity.
    - cbn [kth] in H. change (kth l d (S (S k))) with (match n_par (nd l d) with Some p => kth l p (S k) | None => None end).
      destruct (n_par (nd l d)) as [p|]; [apply (IH l p j m H Hp)|discriminate].
  Qed.
  Lemma anc_inv l x j : anc l x j -> x = j \/ exists p, par_rel l p x /\ anc l p j.
  Proof. intros H. destruct H as [x|x p a Hp Ha]; [left; reflexivity|right; exists p; split; assumption]. Qed.
  Lemma opt_nat_dec (a b : option nat) : {a = b} + {a <> b}.
  Proof. decide equality. apply Nat.eq_dec. Qed.

  Lemma upd_children_K : forall f (l : list node) m (E : nat -> Prop),
    InRange l -> Acyc l -> hb l m f ->
    (forall x, ~ E x -> n_par (nd l x) <> Some m -> K l x) ->
    (forall x, E x -> ~ desc l m x) ->
    forall x, ~ E x -> K (upd_children St C cadd c0 dflt f l m) x.
  Proof.
    induction f as [|f IH]; intros l m E HR HA Hhb HK HE x Hx.
    - cbn [upd_children]. apply HK; [exact Hx|]. intros Hp. assert (H1 : kth l x 1 = Some m) by (cbn [kth]; rewrite Hp; reflexivity). specialize (Hhb x 1 H1). lia.
    - cbn [upd_children].
      set (step := fun (l0 : list node) (j : nat) =>
                     if match n_par (nd l0 j) with Some p => Nat.eqb p m | None => false end
                     then upd_children St C cadd c0 dflt f (updn j (mkN (n_st (nd l0 j)) (n_par (nd l0 j)) (n_inc (nd l0 j)) (cadd (n_cost (nd l0 m)) (n_inc (nd l0 j)))) l0) j
                     else l0).
      assert (G : forall js lc, same_shape l lc ->
                    (forall y, ~ E y -> (n_par (nd l y) = Some m /\ In y js) \/ K lc y) ->
                    forall y, ~ E y -> K (fold_left step js lc) y).
      { induction js as [|j t IHjs]; intros lc HS HI y Hy; cbn [fold_left].
        - destruct (HI y Hy) as [(_ & [])|H]; exact H.
        - assert (Pj : n_par (nd lc j) = n_par (nd l j)) by (destruct HS as (_ & B); destruct (B j) as (_ & B2); exact B2).
          unfold step at 2. destruct (match n_par (nd lc j) with Some p => Nat.eqb p m | None => false end) eqn:Ec.
          + assert (Hpj : n_par (nd l j) = Some m).
            { rewrite <- Pj. destruct (n_par (nd lc j)) as [p|]; [|discriminate]. apply Nat.eqb_eq in Ec. subst p. reflexivity. }
            assert (Hjl : j < length l) by apply (par_lt l j m Hpj).
            assert (Hjm : j <> m) by apply (child_not_self l j m HA Hpj).
            set (lc1 := set_cost lc j (cadd (n_cost (nd lc m)) (n_inc (nd lc j)))).
            change (updn j (mkN (n_st (nd lc j)) (n_par (nd lc j)) (n_inc (nd lc j)) (cadd (n_cost (nd lc m)) (n_inc (nd lc j)))) lc) with lc1.
            assert (HS1 : same_shape l lc1) by (eapply same_shape_trans; [exact HS|apply set_cost_shape]).
            set (E' := fun z => E z \/ (n_par (nd l z) = Some m /\ In z t)).
            assert (Hjlc : j < length lc) by (destruct HS as (A & _); lia).
            assert (R : forall z, ~ E' z -> K (upd_children St C cadd c0 dflt f lc1 j) z).
            { apply (IH lc1 j E').
              - apply (shape_inrange l lc1 HS1 HR).
              - apply (shape_acyc l lc1 HS1 HA).
              - intros d k Hk. rewrite (shape_kth l lc1 HS1) in Hk. pose proof (kth_snoc k l d j m Hk Hpj) as Hk2. specialize (Hhb d (S k) Hk2). lia.
              - intros z Hz Hpz. destruct (Nat.eq_dec z j) as [->|Hzj].
                + unfold K, lc1. rewrite (set_cost_same lc j _ Hjlc). cbn [RrtStarModel.n_par RrtStarModel.n_cost RrtStarModel.n_inc]. rewrite Pj, Hpj.
                  rewrite (set_cost_other lc j _ m) by congruence. reflexivity.
                + assert (HzE : ~ E z) by (intros He; apply Hz; left; exact He).
                  destruct (HI z HzE) as [(Hz1 & Hz2)|Hz1].
                  * exfalso. apply Hz. right. split; [exact Hz1|]. destruct Hz2 as [->|Hz2]; [congruence|exact Hz2].
                  * unfold K, lc1 in *. rewrite (set_cost_other lc j _ z Hzj) in *. destruct (n_par (nd lc z)) as [p|] eqn:Epz; [|exact I].
                    rewrite (set_cost_other lc j _ p); [exact Hz1|]. intros ->. apply Hpz. reflexivity.
              - intros z Hz (Hd1 & Hd2). apply (shape_anc lc1 l (same_shape_sym l lc1 HS1)) in Hd1.
                destruct Hz as [Hz|(Hz1 & Hz2)].
                + apply (HE z Hz). split.
                  * apply (anc_trans l z j m Hd1). apply (anc_step l j m m); [split; assumption|apply anc_refl].
                  * intros ->. apply (acc_no_loop l j (HA j) m); [split; assumption|exact Hd1].
                + destruct (anc_inv l z j Hd1) as [->|(p & (Hp1 & Hp2) & Hp3)]; [congruence|].
                  rewrite Hz1 in Hp2. injection Hp2 as <-. apply (acc_no_loop l j (HA j) m); [split; assumption|exact Hp3]. }
            apply (IHjs (upd_children St C cadd c0 dflt f lc1 j)).
            * eapply same_shape_trans; [exact HS1|apply upd_children_shape].
            * intros z Hz. destruct (opt_nat_dec (n_par (nd l z)) (Some m)) as [Hpz|Hpz].
              -- destruct (in_dec Nat.eq_dec z t) as [Hin|Hnin]; [left; split; assumption|]. right. apply R. intros [He|(_ & Hin)]; [apply Hz; exact He|apply Hnin; exact Hin].
              -- right. apply R. intros [He|(Hq & _)]; [apply Hz; exact He|apply Hpz; exact Hq].
            * exact Hy.
          + apply (IHjs lc HS); [|exact Hy]. intros z Hz. destruct (HI z Hz) as [(Hz1 & Hz2)|Hz1]; [|right; exact Hz1].
            destruct Hz2 as [->|Hz2]; [|left; split; assumption]. exfalso. rewrite <- Pj in Hz1. rewrite Hz1, Nat.eqb_refl in Ec. discriminate. }
      apply (G (seq 0 (length l)) l (same_shape_refl St C c0 dflt l)); [|exact Hx].
      intros y Hy. destruct (opt_nat_dec (n_par (nd l y)) (Some m)) as [Hpy|Hpy].
      + left. split; [exact Hpy|]. apply in_seq. pose proof (par_lt l y m Hpy). lia.
      + right. apply HK; assumption.
  Qed.

  (* ---- incCosts never change under cost propagation *)
  Lemma upd_children_inc : forall fuel (l : list node) m j, n_inc (nd (upd_children St C cadd c0 dflt fuel l m) j) = n_inc (nd l j).
  Proof.
    induction fuel as [|f IH]; intros l m j; cbn [upd_children]; [reflexivity|].
    assert (G : forall (js : list nat) (l0 : list node),
               n_inc (nd (fold_left (fun l j0 => if match n_par (nd l j0) with Some p => Nat.eqb p m | None => false end
                 then upd_children St C cadd c0 dflt f (updn j0 (mkN (n_st (nd l j0)) (n_par (nd l j0)) (n_inc (nd l j0)) (cadd (n_cost (nd l m)) (n_inc (nd l j0)))) l) j0 else l) js l0) j) = n_inc (nd l0 j)).
    { induction js as [|j0 t IHj]; intros l0; cbn [fold_left]; [reflexivity|]. rewrite IHj.
      destruct (match n_par (nd l0 j0) with Some p => Nat.eqb p m | None => false end); [|reflexivity]. rewrite IH.
      destruct (Nat.eq_dec j j0) as [->|Hne].
      - destruct (Nat.lt_ge_cases j0 (length l0)) as [Hj|Hj].
        + unfold RrtStarModel.nd at 1. rewrite nth_updn_eq by exact Hj. reflexivity.
        + rewrite updn_ge by exact Hj. reflexivity.
      - unfold RrtStarModel.nd at 1. rewrite nth_updn_ne by congruence. reflexivity. }
    apply G.
  Qed.

  (* ---- the invariant that carries the cost argument *)
  Hypothesis clt_irrefl : forall a, clt a a = false.
  Hypothesis nn_c0 : nn c0.
  Definition NInv (l : list node) : Prop := forall x, nn (n_inc (nd l x)).
  Definition FInv (l : list node) : Prop := InRange l /\ Acyc l /\ (forall x, K l x) /\ NInv l.
  Lemma edge_le l x p : (forall y, K l y) -> NInv l -> n_par (nd l x) = Some p -> cle (n_cost (nd l p)) (n_cost (nd l x)).
  Proof. intros HK HN Hp. specialize (HK x). unfold K in HK. rewrite Hp in HK. rewrite HK. apply nn_add. apply HN. Qed.

  (* one rewiring: neighbour b gets the new motion idx as parent because the cost through it is strictly better *)
  Lemma rewire_one (l : list node) b idx inc' :
    FInv l -> b < length l -> idx < length l -> b <> idx -> nn inc' ->
    clt (cadd (n_cost (nd l idx)) inc') (n_cost (nd l b)) = true ->
    let l1 := updn b (mkN (n_st (nd l b)) (Some idx) inc' (cadd (n_cost (nd l idx)) inc')) l in
    FInv (upd_children St C cadd c0 dflt (length l1) l1 b).
  Proof.
    intros (HR & HA & HK & HN) Hb Hidx Hne Hnn Hlt l1.
    set (newc := cadd (n_cost (nd l idx)) inc') in *.
    assert (L1 : length l1 = length l) by apply updn_length.
    assert (Nb : nd l1 b = mkN (n_st (nd l b)) (Some idx) inc' newc) by (unfold l1, RrtStarModel.nd; rewrite nth_updn_eq by exact Hb; reflexivity).
    assert (No : forall x, x <> b -> nd l1 x = nd l x) by (intros x Hx; unfold l1, RrtStarModel.nd; rewrite nth_updn_ne by congruence; reflexivity).
    assert (Hcost : forall a, cle (n_cost (nd l a)) (n_cost (nd l idx)) -> a <> b).
    { intros a Ha ->. assert (H1 : cle (n_cost (nd l idx)) newc) by (apply nn_add; exact Hnn).
      pose proof (cle_trans _ _ _ Ha H1) as H2. unfold cle in H2. rewrite H2 in Hlt. discriminate. }
    assert (R1 : forall p j, par_rel l1 p j <-> ((j = b /\ p = idx) \/ (j <> b /\ par_rel l p j))).
    { intros p j. unfold par_rel. rewrite L1. destruct (Nat.eq_dec j b) as [->|Hj].
      - rewrite Nb. cbn [RrtStarModel.n_par]. split; [intros (_ & H); injection H as <-; left; split; reflexivity|intros [(_ & ->)|(H & _)]; [split; [exact Hb|reflexivity]|congruence]].
      - rewrite (No j Hj). split; [intros H; right; split; [exact Hj|exact H]|intros [(H & _)|(_ & H)]; [congruence|exact H]]. }
    assert (A1 : forall a, Acc (par_rel l) a -> cle (n_cost (nd l a)) (n_cost (nd l idx)) -> Acc (par_rel l1) a).
    { induction 1 as [a _ IHa]. intros Hc. constructor. intros p Hp. apply R1 in Hp. destruct Hp as [(Ha & _)|(_ & Hp)]; [exfalso; apply (Hcost a Hc Ha)|].
      apply (IHa p Hp). apply (cle_trans _ (n_cost (nd l a))); [apply (edge_le l a p HK HN (proj2 Hp))|exact Hc]. }
    assert (Aidx : Acc (par_rel l1) idx) by (apply A1; [apply HA|apply clt_irrefl]).
    assert (HA1 : Acyc l1).
    { intros j. specialize (HA j). induction HA as [j _ IHj]. constructor. intros p Hp. apply R1 in Hp. destruct Hp as [(_ & ->)|(_ & Hp)]; [exact Aidx|apply (IHj p Hp)]. }
    assert (HR1 : InRange l1).
    { intros j p Hj Hp. rewrite L1 in *. destruct (Nat.eq_dec j b) as [->|Hjb]; [rewrite Nb in Hp; injection Hp as <-; exact Hidx|rewrite (No j Hjb) in Hp; apply (HR j p Hj Hp)]. }
    assert (HN1 : NInv l1) by (intros x; destruct (Nat.eq_dec x b) as [->|Hx]; [rewrite Nb; exact Hnn|rewrite (No x Hx); apply HN]).
    assert (HK1 : forall x, ~ False -> n_par (nd l1 x) <> Some b -> K l1 x).
    { intros x _ Hpx. unfold K. destruct (Nat.eq_dec x b) as [->|Hx].
      - rewrite Nb. cbn [RrtStarModel.n_par RrtStarModel.n_cost RrtStarModel.n_inc]. rewrite (No idx) by congruence. reflexivity.
      - rewrite (No x Hx) in *. specialize (HK x). unfold K in HK. destruct (n_par (nd l x)) as [p|]; [|exact I]. rewrite (No p); [exact HK|]. intros ->. apply Hpx. reflexivity. }
    assert (Hhb : hb l1 b (length l1)).
    { intros d k Hk. destruct k as [|k]; [lia|]. assert (Hd : d < length l1).
      { cbn [kth] in Hk. destruct (n_par (nd l1 d)) as [p|] eqn:Ep; [apply (par_lt l1 d p Ep)|discriminate]. }
      pose proof (kth_bound l1 d (S k) Hd HR1 HA1 ltac:(congruence)). lia. }
    set (l2 := upd_children St C cadd c0 dflt (length l1) l1 b).
    pose proof (upd_children_shape St C cadd c0 dflt (length l1) l1 b) as HS. fold l2 in HS.
    split; [apply (shape_inrange l1 l2 HS HR1)|]. split; [apply (shape_acyc l1 l2 HS HA1)|]. split.
    - intros x. apply (upd_children_K (length l1) l1 b (fun _ => False) HR1 HA1 Hhb HK1); [intros y []|intros []].
    - intros x. unfold l2. rewrite upd_children_inc. apply HN1.
  Qed.

  (* ---- the planner's passes *)
  Variable dist : St -> St -> C.
  Variable mcost : St -> St -> C.
  Variable sym : bool.
  Variable csat : C -> bool.
  Variable steer : St -> St -> St.
  Variable maxd : C.
  Variable mv : St -> St -> bool.
  Variable sat : St -> bool.
  Variable gdist : St -> C.
  Variable goal_state : St.
  Variable bias : C.
  Variable kof : nat -> nat.
  Hypothesis nn_mcost : forall a b, nn (mcost a b).
  Notation rewire := (rewire St C dist clt cadd c0 mcost sym maxd mv dflt).

  Lemma rewire_finv : forall nbh (l : list node) pos changed incs marks idx x,
    FInv l -> idx < length l -> (forall b, In b nbh -> b < idx) -> (forall q, nn (nth q incs c0)) ->
    FInv (fst (rewire l idx x nbh incs marks pos changed)).
  Proof.
    induction nbh as [|b t IH]; intros l pos changed incs marks idx x HF Hidx Hlt Hinc; cbn [RrtStarModel.rewire]; [exact HF|].
    assert (Hlt' : forall b', In b' t -> b' < idx) by (intros b' Hb; apply Hlt; right; exact Hb).
    destruct (match n_par (nd l idx) with Some p => Nat.eqb p b | None => false end); [apply IH; assumption|].
    destruct (clt (cadd (n_cost (nd l idx)) (if sym then nth pos incs c0 else mcost x (n_st (nd l b)))) (n_cost (nd l b))) eqn:Elt; [|apply IH; assumption].
    destruct (match mark_of marks pos with None => clt (dist (n_st (nd l b)) x) maxd && mv x (n_st (nd l b)) | Some v => v end); [|apply IH; assumption].
    assert (Hb : b < idx) by (apply Hlt; left; reflexivity).
    assert (Hnn : nn (if sym then nth pos incs c0 else mcost x (n_st (nd l b)))) by (destruct sym; [apply Hinc|apply nn_mcost]).
    pose proof (rewire_one l b idx _ HF ltac:(lia) Hidx ltac:(lia) Hnn Elt) as HF2. cbv zeta in HF2.
    apply IH; [exact HF2| |exact Hlt'|exact Hinc].
    destruct (upd_children_shape St C cadd c0 dflt (length (updn b (mkN (n_st (nd l b)) (Some idx) (if sym then nth pos incs c0 else mcost x (n_st (nd l b))) (cadd (n_cost (nd l idx)) (if sym then nth pos incs c0 else mcost x (n_st (nd l b))))) l))
               (updn b (mkN (n_st (nd l b)) (Some idx) (if sym then nth pos incs c0 else mcost x (n_st (nd l b))) (cadd (n_cost (nd l idx)) (if sym then nth pos incs c0 else mcost x (n_st (nd l b))))) l) b) as (L2 & _).
    rewrite L2, updn_length. exact Hidx.
  Qed.

  Notation choose := (choose St C dist clt c0 maxd mv dflt).
  Lemma choose_in : forall (l : list node) x ni nbh order marks0 i marks, choose l x ni nbh order marks0 = (Some i, marks) -> In i order.
  Proof.
    intros l x ni nbh. induction order as [|i0 t IH]; intros marks0 i marks H; cbn [RrtStarModel.choose] in H; [discriminate|].
    destruct (Nat.eqb (nth i0 nbh 0) ni || (clt (dist (n_st (nd l (nth i0 nbh 0))) x) maxd && mv (n_st (nd l (nth i0 nbh 0))) x)).
    - injection H as <- _. left. reflexivity.
    - right. apply (IH _ _ _ H).
  Qed.
  Lemma nn_nth_map (f : nat -> C) (nbh : list nat) q : (forall b, nn (f b)) -> nn (nth q (map f nbh) c0).
  Proof. intros Hf. destruct (Nat.lt_ge_cases q (length nbh)) as [Hq|Hq]; [rewrite (nth_indep _ c0 (f 0)) by (rewrite map_length; exact Hq); rewrite map_nth; apply Hf|rewrite nth_overflow by (rewrite map_length; exact Hq); exact nn_c0]. Qed.

  Lemma nth_map_in (f : nat -> C) (nbh : list nat) i : i < length nbh -> nth i (map f nbh) c0 = f (nth i nbh 0).
  Proof. intros Hi. rewrite (nth_indep _ c0 (f 0)) by (rewrite map_length; exact Hi). apply map_nth. Qed.

  (* a new motion below an existing one *)
  Lemma append_finv (l : list node) x p inc : FInv l -> p < length l -> nn inc ->
    FInv (l ++ [mkN x (Some p) inc (cadd (n_cost (nd l p)) inc)]).
  Proof.
    intros (HR & HA & HK & HN) Hp Hnn. set (m := mkN x (Some p) inc (cadd (n_cost (nd l p)) inc)). set (l1 := l ++ [m]). set (idx := length l).
    assert (N1 : forall j, j < length l -> nd l1 j = nd l j) by (intros j Hj; unfold l1, RrtStarModel.nd; rewrite app_nth1 by exact Hj; reflexivity).
    assert (N1m : nd l1 idx = m) by (unfold l1, idx, RrtStarModel.nd; rewrite app_nth2 by lia; rewrite Nat.sub_diag; reflexivity).
    assert (L1 : length l1 = S idx) by (unfold l1, idx; rewrite app_length; cbn [length]; lia).
    assert (Nout : forall j, S idx <= j -> n_par (nd l1 j) = None) by (intros j Hj; unfold RrtStarModel.nd; rewrite nth_overflow by lia; reflexivity).
    assert (A1 : forall j, j < length l -> Acc (par_rel l1) j).
    { intros j Hj. pose proof (HA j) as Hacc. induction Hacc as [j _ IHj]. constructor. intros q (Hq1 & Hq2). rewrite (N1 j Hj) in Hq2.
      apply IHj; [split; assumption|apply (HR j q Hj Hq2)]. }
    split; [|split; [|split]].
    - intros j q Hj Hq. rewrite L1 in *. destruct (Nat.eq_dec j idx) as [->|Hne]; [rewrite N1m in Hq; injection Hq as <-; unfold idx in *; lia|].
      assert (Hjl : j < length l) by (unfold idx in *; lia). rewrite (N1 j Hjl) in Hq. pose proof (HR j q Hjl Hq). unfold idx in *. lia.
    - intros j. destruct (Nat.lt_ge_cases j (length l)) as [Hj|Hj]; [apply A1; exact Hj|]. constructor. intros q (Hq1 & Hq2).
      destruct (Nat.eq_dec j idx) as [->|Hne]; [rewrite N1m in Hq2; injection Hq2 as <-; apply A1; exact Hp|]. rewrite Nout in Hq2 by (unfold idx in *; lia). discriminate.
    - intros j. unfold K. destruct (Nat.lt_ge_cases j (length l)) as [Hj|Hj].
      + rewrite (N1 j Hj). specialize (HK j). unfold K in HK. destruct (n_par (nd l j)) as [q|] eqn:Eq; [|exact I]. rewrite (N1 q (HR j q Hj Eq)). exact HK.
      + destruct (Nat.eq_dec j idx) as [->|Hne]; [rewrite N1m; unfold m; cbn [RrtStarModel.n_par RrtStarModel.n_cost RrtStarModel.n_inc]; rewrite (N1 p Hp); reflexivity|].
        rewrite Nout by (unfold idx in *; lia). exact I.
    - intros j. destruct (Nat.lt_ge_cases j (length l)) as [Hj|Hj]; [rewrite (N1 j Hj); apply HN|].
      destruct (Nat.eq_dec j idx) as [->|Hne]; [rewrite N1m; exact Hnn|]. unfold RrtStarModel.nd. rewrite nth_overflow by (unfold idx in *; lia). exact nn_c0.
  Qed.

  Notation star_step := (star_step St C dist clt cadd c0 mcost sym csat steer maxd mv sat gdist dflt kof).
  Lemma star_step_finv (s : rs St C) r : nodes St C s <> [] -> FInv (nodes St C s) -> FInv (nodes St C (star_step s r)).
  Proof.
    intros Hne HF. unfold RrtStarModel.star_step. set (l := nodes St C s) in *.
    set (ni := nearest St C dist clt l r). set (n := n_st (nd l ni)). set (x := steer n r).
    destruct (mv n x); [|exact HF].
    set (nbh := neighbours St C dist clt c0 dflt kof l x).
    set (incs := map (fun b => mcost (n_st (nd l b)) x) nbh). set (costs := map (fun b => cadd (n_cost (nd l b)) (mcost (n_st (nd l b)) x)) nbh).
    set (order := sort_by C clt (fun i => nth i costs c0) (seq 0 (length nbh))).
    destruct (choose l x ni nbh order []) as [ch marks] eqn:Ech.
    assert (Hni : ni < length l) by (apply nearest_lt; exact Hne).
    assert (Hm : exists p inc, p < length l /\ nn inc /\
               match ch with Some i => mkN x (Some (nth i nbh 0)) (nth i incs c0) (nth i costs c0) | None => mkN x (Some ni) (mcost n x) (cadd (n_cost (nd l ni)) (mcost n x)) end
               = mkN x (Some p) inc (cadd (n_cost (nd l p)) inc)).
    { destruct ch as [i|].
      - pose proof (choose_in l x ni nbh order [] i marks Ech) as Hin.
        assert (Hi : i < length nbh) by (apply (Permutation_in _ (sort_by_perm _ _ _ _)) in Hin; apply in_seq in Hin; lia).
        exists (nth i nbh 0), (mcost (n_st (nd l (nth i nbh 0))) x). split; [apply (neighbours_lt St C dist clt c0 dflt kof l x); apply nth_In; exact Hi|]. split; [apply nn_mcost|].
        unfold incs, costs. rewrite !(nth_map_in _ nbh i Hi). reflexivity.
      - exists ni, (mcost n x). split; [exact Hni|]. split; [apply nn_mcost|reflexivity]. }
    destruct Hm as (p & inc & Hp & Hnn & ->).
    pose proof (append_finv l x p inc HF Hp Hnn) as HF1.
    destruct (rewire (l ++ [mkN x (Some p) inc (cadd (n_cost (nd l p)) inc)]) (length l) x nbh incs marks 0 false) as [l2 changed] eqn:Erw.
    cbn [nodes]. pose proof (rewire_finv nbh (l ++ [mkN x (Some p) inc (cadd (n_cost (nd l p)) inc)]) 0 false incs marks (length l) x HF1) as RW.
    rewrite Erw in RW. cbn [fst] in RW. apply RW.
    - rewrite app_length. cbn [length]. lia.
    - intros b Hb. apply (neighbours_lt St C dist clt c0 dflt kof l x b Hb).
    - intros q. unfold incs. apply (nn_nth_map (fun b => mcost (n_st (nd l b)) x)). intros b. apply nn_mcost.
  Qed.

  Variable starts : list St.
  Notation EInv := (EInv St C c0 mv dflt starts).
  Notation GInv := (GInv St C c0 sat dflt).
  Notation star_loop := (star_loop St C dist clt cadd c0 mcost sym csat steer maxd mv sat gdist goal_state dflt bias kof).
  Lemma star_loop_all : forall iters (s : rs St C) tape samples, nodes St C s <> [] -> EInv (nodes St C s) -> GInv s -> FInv (nodes St C s) ->
    let s' := star_loop iters s tape samples in nodes St C s' <> [] /\ EInv (nodes St C s') /\ GInv s' /\ FInv (nodes St C s').
  Proof.
    induction iters as [|k IH]; intros s tape samples Hn HE HG HF; cbn [RrtStarModel.star_loop]; [split; [assumption|split; [assumption|split; assumption]]|].
    destruct (match goals St C s with
              | [] => if clt (hd c0 tape) bias then (goal_state, tl tape, samples) else (hd dflt samples, tl tape, tl samples)
              | _ :: _ => (hd dflt samples, tape, tl samples)
              end) as [[r tape'] samples'].
    destruct (star_step_inv St C dist clt cadd c0 mcost sym csat steer maxd mv sat gdist goal_state dflt kof starts s r Hn HE HG) as (A & B & D).
    pose proof (star_step_finv s r Hn HF) as F.
    destruct (done St C csat (star_step s r)); [split; [assumption|split; [assumption|split; assumption]]|]. apply IH; assumption.
  Qed.

  (* following parents from a motion whose k-th ancestor is a root: the chain begins with that root *)
  Notation chain := (chain St C c0 dflt).
  Lemma chain_hd : forall fuel (l : list node) i k r, kth l i k = Some r -> n_par (nd l r) = None -> k < fuel ->
    hd dflt (chain fuel l i) = n_st (nd l r) /\ chain fuel l i <> [].
  Proof.
    induction fuel as [|f IH]; intros l i k r Hk Hr Hf; [lia|]. cbn [RrtStarModel.chain].
    destruct (n_par (nd l i)) as [p|] eqn:Ep.
    - destruct k as [|k']; [cbn [kth] in Hk; injection Hk as ->; congruence|]. cbn [kth] in Hk. rewrite Ep in Hk.
      destruct (IH l p k' r Hk Hr ltac:(lia)) as (H1 & H2). split; [|destruct (chain f l p); discriminate].
      destruct (chain f l p) as [|a t]; [congruence|]. exact H1.
    - destruct k as [|k']; [cbn [kth] in Hk; injection Hk as ->; split; [reflexivity|discriminate]|]. cbn [kth] in Hk. rewrite Ep in Hk. discriminate.
  Qed.
  Lemma kth_lt : forall k (l : list node) i r, InRange l -> i < length l -> kth l i k = Some r -> r < length l.
  Proof.
    induction k as [|k IH]; intros l i r HR Hi H; cbn [kth] in H; [injection H as <-; exact Hi|].
    destruct (n_par (nd l i)) as [p|] eqn:Ep; [|discriminate]. apply (IH l p r HR (HR i p Hi Ep) H).
  Qed.

  (* geometric::RRTstar, full statement: for an objective whose motion costs never decrease a cost (and an order on costs), every
     objective threshold, validator, neighbourhood size function, tape and sampler: the tree is acyclic, every motion's cost is its
     parent's cost combined with its incCost, every motion is validated parent -> child, and a reported path begins at a start state,
     consists of validated motions, ends in the reported motion whose cost is the stored cost, and an exact report ends in a goal state *)
  Theorem star_solve_full : forall iters tape samples, starts <> [] ->
    let res := star_solve St C dist clt cadd c0 mcost sym csat steer maxd mv sat gdist goal_state dflt bias kof starts iters tape samples in
    EInv (fst res) /\ FInv (fst res) /\
    match snd res with
    | Some (path, approx, dd, stored, opt) =>
        path <> [] /\ In (hd dflt path) starts /\ consecutive (fun a b => mv a b = true) path /\
        (exists i, i < length (fst res) /\ last path dflt = n_st (nd (fst res) i) /\ stored = n_cost (nd (fst res) i)) /\
        (approx = false -> sat (last path dflt) = true)
    | None => True
    end.
  Proof.
    intros iters tape samples Hs. cbv zeta. unfold RrtStarModel.star_solve.
    set (s0 := mkRS St C (map (fun x => mkN x None c0 c0) starts) [] None None).
    assert (N0 : forall j, nd (nodes St C s0) j = mkN (nth j starts dflt) None c0 c0).
    { intros j. cbn [nodes s0]. unfold RrtStarModel.nd. change (mkN dflt None c0 c0) with ((fun x => mkN x None c0 c0) dflt). rewrite map_nth. reflexivity. }
    assert (H0 : nodes St C s0 <> [] /\ EInv (nodes St C s0) /\ GInv s0 /\ FInv (nodes St C s0)).
    { split; [cbn [nodes s0]; destruct starts; [congruence|discriminate]|]. split; [|split].
      - intros j Hj. rewrite N0. cbn [RrtStarModel.n_par RrtStarModel.n_st]. cbn [nodes s0] in Hj. rewrite map_length in Hj. apply nth_In. exact Hj.
      - split; [intros g []|]. split; [intros g c H; discriminate|intros a d H; discriminate].
      - split; [|split; [|split]].
        + intros j p _ Hp. rewrite N0 in Hp. discriminate.
        + intros j. constructor. intros p (_ & Hp). rewrite N0 in Hp. discriminate.
        + intros j. unfold K. rewrite N0. exact I.
        + intros j. rewrite N0. exact nn_c0. }
    destruct H0 as (A0 & B0 & D0 & F0). destruct (star_loop_all iters s0 tape samples A0 B0 D0 F0) as (A & B & (G1 & G2 & G3) & F). cbv zeta in *.
    set (s := star_loop iters s0 tape samples) in *. set (l := nodes St C s) in *. cbn [fst snd]. split; [exact B|]. split; [exact F|].
    destruct F as (HR & HA & HK & HN).
    assert (RP : forall g, g < length l -> let path := chain (S (length l)) l g in
                 path <> [] /\ In (hd dflt path) starts /\ consecutive (fun a b => mv a b = true) path /\ last path dflt = n_st (nd l g)).
    { intros g Hg path. destruct (chain_spec St C c0 mv dflt starts (S (length l)) l g B Hg) as (C1 & C2). destruct (C2 ltac:(congruence)) as (C3 & C4).
      assert (Hnone : kth l g (length l) = None).
      { destruct (kth l g (length l)) eqn:E; [|reflexivity]. pose proof (kth_bound l g (length l) Hg HR HA ltac:(congruence)). lia. }
      destruct (chain_reaches_root (length l) l g Hnone) as (k & r & Hk1 & Hk2 & Hk3).
      destruct (chain_hd (S (length l)) l g k r Hk2 Hk3 ltac:(lia)) as (H1 & _).
      split; [exact C3|]. split; [|split; [exact C1|exact C4]]. unfold path. rewrite H1.
      pose proof (kth_lt k l g r HR Hg Hk2) as Hr. specialize (B r Hr). rewrite Hk3 in B. exact B. }
    destruct (best St C s) as [[g bc]|] eqn:Eb.
    - destruct (G1 g (G2 g bc eq_refl)) as (Hg & Hsat). fold l in Hg, Hsat. destruct (RP g Hg) as (P1 & P2 & P3 & P4).
      split; [exact P1|]. split; [exact P2|]. split; [exact P3|]. split; [exists g; split; [exact Hg|split; [exact P4|reflexivity]]|]. intros _. rewrite P4. exact Hsat.
    - destruct (approx St C s) as [[a ad]|] eqn:Ea; [|exact I]. specialize (G3 a ad eq_refl). fold l in G3. destruct (RP a G3) as (P1 & P2 & P3 & P4).
      split; [exact P1|]. split; [exact P2|]. split; [exact P3|]. split; [exists a; split; [exact G3|split; [exact P4|reflexivity]]|]. intros H. discriminate.
  Qed.
End Cost.
