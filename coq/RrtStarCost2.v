(* RrtStarCost2.v — what the stored costs of geometric::RRTstar (RrtStarModel) mean under the objective: every incCost is the
   objective's cost of the motion from the parent to the child — provided the planner's symmetric-cost shortcut (reuse of the cost
   of the opposite motion when the objective says it is symmetric) is only taken for an objective that IS symmetric —, roots cost
   the identity, hence (with the cost equation of RrtStarCost) the cost stored with a reported motion is the objective's cost of the
   reported path, accumulated from the start as PathGeometric::cost does. *)
From Coq Require Import List Bool Arith Lia Permutation.
From OmplV Require Import LedgerProofs RrtStarModel RrtStarProofs RrtStarCost.
Import ListNotations.

Section Cost2.
  Variables St C : Type.
  Variable clt : C -> C -> bool.
  Variable cadd : C -> C -> C.
  Variable c0 : C.
  Variable dflt : St.
  Variable dist : St -> St -> C.
  Variable mcost : St -> St -> C.
  Variable sym : bool.
  Variable csat : C -> bool.
  Variable steer : St -> St -> St.
  Variable maxd : C.
  Variable mv : St -> St -> bool.
  Variable sat : St -> bool.
  Variable gdist : St -> C.
  Variable goal_state : St.
  Variable bias : C.
  Variable kof : nat -> nat.
  Hypothesis sym_ok : sym = true -> forall a b, mcost a b = mcost b a.
  Notation node := (node St C).
  Notation nd := (nd St C c0 dflt).
  Notation n_st := (n_st St C).
  Notation n_par := (n_par St C).
  Notation n_inc := (n_inc St C).
  Notation n_cost := (n_cost St C).
  Notation mkN := (mkN St C).
  Notation same_shape := (same_shape St C c0 dflt).

  Definition XInv (l : list node) : Prop :=
    (forall j p, n_par (nd l j) = Some p -> n_inc (nd l j) = mcost (n_st (nd l p)) (n_st (nd l j))) /\
    (forall j, j < length l -> n_par (nd l j) = None -> n_cost (nd l j) = c0).

  Lemma upd_children_root : forall fuel (l : list node) m j, n_par (nd l j) = None -> n_cost (nd (upd_children St C cadd c0 dflt fuel l m) j) = n_cost (nd l j).
  Proof.
    induction fuel as [|f IH]; intros l m j Hj; cbn [upd_children]; [reflexivity|].
    assert (G : forall (js : list nat) (l0 : list node), n_par (nd l0 j) = None ->
               n_cost (nd (fold_left (fun l j0 => if match n_par (nd l j0) with Some p => Nat.eqb p m | None => false end
                 then upd_children St C cadd c0 dflt f (updn j0 (mkN (n_st (nd l j0)) (n_par (nd l j0)) (n_inc (nd l j0)) (cadd (n_cost (nd l m)) (n_inc (nd l j0)))) l) j0 else l) js l0) j) = n_cost (nd l0 j)).
    { induction js as [|j0 t IHj]; intros l0 H0; cbn [fold_left]; [reflexivity|].
      destruct (match n_par (nd l0 j0) with Some p => Nat.eqb p m | None => false end) eqn:Ec; [|apply IHj; exact H0].
      assert (Hne : j <> j0) by (intros ->; rewrite H0 in Ec; discriminate).
      assert (E1 : nd (updn j0 (mkN (n_st (nd l0 j0)) (n_par (nd l0 j0)) (n_inc (nd l0 j0)) (cadd (n_cost (nd l0 m)) (n_inc (nd l0 j0)))) l0) j = nd l0 j)
        by (unfold RrtStarModel.nd; rewrite nth_updn_ne by congruence; reflexivity).
      rewrite IHj.
      - rewrite IH by (rewrite E1; exact H0). rewrite E1. reflexivity.
      - destruct (upd_children_shape St C cadd c0 dflt f (updn j0 (mkN (n_st (nd l0 j0)) (n_par (nd l0 j0)) (n_inc (nd l0 j0)) (cadd (n_cost (nd l0 m)) (n_inc (nd l0 j0)))) l0) j0) as (_ & B).
        destruct (B j) as (_ & B2). rewrite B2, E1. exact H0. }
    apply G. exact Hj.
  Qed.
  Lemma xinv_upd_children (l : list node) m fuel : XInv l -> XInv (upd_children St C cadd c0 dflt fuel l m).
  Proof.
    intros (HM & HRt). destruct (upd_children_shape St C cadd c0 dflt fuel l m) as (L & B). split.
    - intros j p Hp. destruct (B j) as (B1 & B2). destruct (B p) as (B3 & _). rewrite B2 in Hp. rewrite upd_children_inc, B1, B3. apply HM. exact Hp.
    - intros j Hj Hp. destruct (B j) as (_ & B2). rewrite B2 in Hp. rewrite upd_children_root by exact Hp. apply HRt; [lia|exact Hp].
  Qed.

  Notation rewire := (rewire St C dist clt cadd c0 mcost sym maxd mv dflt).
  Lemma rewire_xinv : forall nbh (l : list node) pos changed incs marks idx x,
    XInv l -> idx < length l -> n_st (nd l idx) = x -> (forall b, In b nbh -> b < idx) ->
    (forall k, k < length nbh -> nth (pos + k) incs c0 = mcost (n_st (nd l (nth k nbh 0))) x) ->
    XInv (fst (rewire l idx x nbh incs marks pos changed)).
  Proof.
    induction nbh as [|b t IH]; intros l pos changed incs marks idx x HX Hidx Hx Hlt Hinc; cbn [RrtStarModel.rewire]; [exact HX|].
    assert (Hlt' : forall b', In b' t -> b' < idx) by (intros b' Hb; apply Hlt; right; exact Hb).
    assert (Hinc' : forall k, k < length t -> nth (S pos + k) incs c0 = mcost (n_st (nd l (nth k t 0))) x).
    { intros k Hk. replace (S pos + k) with (pos + S k) by lia. apply (Hinc (S k)). cbn [length]. lia. }
    destruct (match n_par (nd l idx) with Some p => Nat.eqb p b | None => false end); [apply IH; assumption|].
    destruct (clt (cadd (n_cost (nd l idx)) (if sym then nth pos incs c0 else mcost x (n_st (nd l b)))) (n_cost (nd l b))); [|apply IH; assumption].
    destruct (match mark_of marks pos with None => clt (dist (n_st (nd l b)) x) maxd && mv x (n_st (nd l b)) | Some v => v end); [|apply IH; assumption].
    set (inc' := if sym then nth pos incs c0 else mcost x (n_st (nd l b))).
    assert (Hb : b < idx) by (apply Hlt; left; reflexivity).
    assert (Einc : inc' = mcost x (n_st (nd l b))).
    { unfold inc'. destruct sym eqn:Es; [|reflexivity]. specialize (Hinc 0 ltac:(cbn [length]; lia)). rewrite Nat.add_0_r in Hinc. cbn [nth] in Hinc. rewrite Hinc. apply sym_ok. reflexivity. }
    set (l1 := updn b (mkN (n_st (nd l b)) (Some idx) inc' (cadd (n_cost (nd l idx)) inc')) l).
    assert (L1 : length l1 = length l) by apply updn_length.
    assert (Nb : nd l1 b = mkN (n_st (nd l b)) (Some idx) inc' (cadd (n_cost (nd l idx)) inc')) by (unfold l1, RrtStarModel.nd; rewrite nth_updn_eq by lia; reflexivity).
    assert (No : forall y, y <> b -> nd l1 y = nd l y) by (intros y Hy; unfold l1, RrtStarModel.nd; rewrite nth_updn_ne by congruence; reflexivity).
    assert (St1 : forall y, n_st (nd l1 y) = n_st (nd l y)) by (intros y; destruct (Nat.eq_dec y b) as [->|Hy]; [rewrite Nb; reflexivity|rewrite (No y Hy); reflexivity]).
    assert (HX1 : XInv l1).
    { destruct HX as (HM & HRt). split.
      - intros j p Hp. rewrite !St1. destruct (Nat.eq_dec j b) as [->|Hj].
        + rewrite Nb in Hp |- *. cbn [RrtStarModel.n_par RrtStarModel.n_inc] in *. injection Hp as <-. rewrite Hx. exact Einc.
        + rewrite (No j Hj) in Hp |- *. apply HM. exact Hp.
      - intros j Hj Hp. destruct (Nat.eq_dec j b) as [->|Hjb]; [rewrite Nb in Hp; discriminate|]. rewrite (No j Hjb) in Hp |- *. apply HRt; [lia|exact Hp]. }
    set (l2 := upd_children St C cadd c0 dflt (length l1) l1 b).
    pose proof (xinv_upd_children l1 b (length l1) HX1) as HX2. fold l2 in HX2.
    destruct (upd_children_shape St C cadd c0 dflt (length l1) l1 b) as (L2 & B2). fold l2 in L2, B2.
    apply IH; [exact HX2|lia| |exact Hlt'|].
    - destruct (B2 idx) as (A & _). rewrite A, St1. exact Hx.
    - intros k Hk. rewrite (Hinc' k Hk). destruct (B2 (nth k t 0)) as (A & _). rewrite A, St1. reflexivity.
  Qed.

  Notation star_step := (star_step St C dist clt cadd c0 mcost sym csat steer maxd mv sat gdist dflt kof).
  Lemma star_step_xinv (s : rs St C) r : nodes St C s <> [] -> InRange St C c0 dflt (nodes St C s) -> XInv (nodes St C s) -> XInv (nodes St C (star_step s r)).
  Proof.
    intros Hne HR HX. unfold RrtStarModel.star_step. set (l := nodes St C s) in *.
    set (ni := nearest St C dist clt l r). set (n := n_st (nd l ni)). set (x := steer n r).
    destruct (mv n x); [|exact HX].
    set (nbh := neighbours St C dist clt c0 dflt kof l x).
    set (incs := map (fun b => mcost (n_st (nd l b)) x) nbh). set (costs := map (fun b => cadd (n_cost (nd l b)) (mcost (n_st (nd l b)) x)) nbh).
    set (order := sort_by C clt (fun i => nth i costs c0) (seq 0 (length nbh))).
    destruct (RrtStarModel.choose St C dist clt c0 maxd mv dflt l x ni nbh order []) as [ch marks] eqn:Ech.
    assert (Hni : ni < length l) by (apply nearest_lt; exact Hne).
    assert (Hm : exists p c, p < length l /\
               match ch with Some i => mkN x (Some (nth i nbh 0)) (nth i incs c0) (nth i costs c0) | None => mkN x (Some ni) (mcost n x) (cadd (n_cost (nd l ni)) (mcost n x)) end
               = mkN x (Some p) (mcost (n_st (nd l p)) x) c).
    { destruct ch as [i|].
      - pose proof (choose_in St C clt c0 dflt dist maxd mv l x ni nbh order [] i marks Ech) as Hin.
        assert (Hi : i < length nbh) by (apply (Permutation_in _ (sort_by_perm _ _ _ _)) in Hin; apply in_seq in Hin; lia).
        exists (nth i nbh 0), (nth i costs c0). split; [apply (neighbours_lt St C dist clt c0 dflt kof l x); apply nth_In; exact Hi|].
        unfold incs. rewrite (nth_map_in C c0 (fun b => mcost (n_st (nd l b)) x) nbh i Hi). reflexivity.
      - exists ni, (cadd (n_cost (nd l ni)) (mcost n x)). split; [exact Hni|reflexivity]. }
    destruct Hm as (p & c & Hp & ->).
    set (m := mkN x (Some p) (mcost (n_st (nd l p)) x) c). set (l1 := l ++ [m]). set (idx := length l).
    assert (N1 : forall j, j < length l -> nd l1 j = nd l j) by (intros j Hj; unfold l1, RrtStarModel.nd; rewrite app_nth1 by exact Hj; reflexivity).
    assert (N1m : nd l1 idx = m) by (unfold l1, idx, RrtStarModel.nd; rewrite app_nth2 by lia; rewrite Nat.sub_diag; reflexivity).
    assert (L1 : length l1 = S idx) by (unfold l1, idx; rewrite app_length; cbn [length]; lia).
    assert (HX1 : XInv l1).
    { destruct HX as (HM & HRt). split.
      - intros j q Hq. destruct (Nat.lt_ge_cases j (length l)) as [Hj|Hj].
        + rewrite (N1 j Hj) in Hq |- *. rewrite (N1 q (HR j q Hj Hq)). apply HM. exact Hq.
        + destruct (Nat.eq_dec j idx) as [->|Hne2].
          * rewrite N1m in Hq |- *. unfold m in *. cbn [RrtStarModel.n_par RrtStarModel.n_inc RrtStarModel.n_st] in *. injection Hq as <-. rewrite (N1 p Hp). reflexivity.
          * unfold RrtStarModel.nd in Hq. rewrite nth_overflow in Hq by (unfold idx in *; lia). discriminate.
      - intros j Hj Hq. rewrite L1 in Hj. destruct (Nat.eq_dec j idx) as [->|Hne2]; [rewrite N1m in Hq; discriminate|].
        assert (Hjl : j < length l) by (unfold idx in *; lia). rewrite (N1 j Hjl) in Hq |- *. apply HRt; assumption. }
    destruct (rewire l1 idx x nbh incs marks 0 false) as [l2 changed] eqn:Erw. cbn [nodes].
    pose proof (rewire_xinv nbh l1 0 false incs marks idx x HX1 ltac:(lia) ltac:(rewrite N1m; reflexivity) (fun b Hb => neighbours_lt St C dist clt c0 dflt kof l x b Hb)) as RW.
    rewrite Erw in RW. cbn [fst] in RW. apply RW.
    intros k Hk. cbn [plus]. unfold incs. rewrite (nth_map_in C c0 (fun b => mcost (n_st (nd l b)) x) nbh k Hk).
    rewrite (N1 (nth k nbh 0)); [reflexivity|]. apply (neighbours_lt St C dist clt c0 dflt kof l x). apply nth_In. exact Hk.
  Qed.

  (* ---- the loop with all invariants, and the meaning of the stored cost *)
  Hypothesis cle_trans : forall a b c, cle C clt a b -> cle C clt b c -> cle C clt a c.
  Variable nn : C -> Prop.
  Hypothesis nn_add : forall a i, nn i -> cle C clt a (cadd a i).
  Hypothesis clt_irrefl : forall a, clt a a = false.
  Hypothesis nn_c0 : nn c0.
  Hypothesis nn_mcost : forall a b, nn (mcost a b).
  Variable starts : list St.
  Notation EInv := (EInv St C c0 mv dflt starts).
  Notation GInv := (GInv St C c0 sat dflt).
  Notation FInv := (FInv St C cadd c0 dflt nn).
  Notation star_loop := (star_loop St C dist clt cadd c0 mcost sym csat steer maxd mv sat gdist goal_state dflt bias kof).
  Lemma star_loop_x : forall iters (s : rs St C) tape samples, nodes St C s <> [] -> EInv (nodes St C s) -> GInv s -> FInv (nodes St C s) -> XInv (nodes St C s) ->
    let s' := star_loop iters s tape samples in nodes St C s' <> [] /\ EInv (nodes St C s') /\ GInv s' /\ FInv (nodes St C s') /\ XInv (nodes St C s').
  Proof.
    induction iters as [|k IH]; intros s tape samples Hn HE HG HF HX; cbn [RrtStarModel.star_loop]; [split; [assumption|split; [assumption|split; [assumption|split; assumption]]]|].
    destruct (match goals St C s with
              | [] => if clt (hd c0 tape) bias then (goal_state, tl tape, samples) else (hd dflt samples, tl tape, tl samples)
              | _ :: _ => (hd dflt samples, tape, tl samples)
              end) as [[r tape'] samples'].
    destruct (star_step_inv St C dist clt cadd c0 mcost sym csat steer maxd mv sat gdist goal_state dflt kof starts s r Hn HE HG) as (A & B & D).
    pose proof (star_step_finv St C clt cadd c0 dflt cle_trans nn nn_add clt_irrefl nn_c0 dist mcost sym csat steer maxd mv sat gdist kof nn_mcost s r Hn HF) as F.
    pose proof (star_step_xinv s r Hn (proj1 HF) HX) as X.
    destruct (done St C csat (star_step s r)); [split; [assumption|split; [assumption|split; [assumption|split; assumption]]]|]. apply IH; assumption.
  Qed.

  (* the cost of a path under the objective, accumulated from its first state as PathGeometric::cost does *)
  Definition pathcost (p : list St) : C :=
    match p with [] => c0 | a :: t => fst (fold_left (fun (acc : C * St) b => (cadd (fst acc) (mcost (snd acc) b), b)) t (c0, a)) end.
  Lemma pathcost_snoc : forall (p : list St) a b, pathcost ((p ++ [a]) ++ [b]) = cadd (pathcost (p ++ [a])) (mcost a b).
  Proof.
    intros p a b.
    assert (G : forall (l : list St) (acc : C * St), snd (fold_left (fun (acc : C * St) b => (cadd (fst acc) (mcost (snd acc) b), b)) (l ++ [a]) acc) = a).
    { induction l as [|y l' IHl]; intros acc; cbn [app fold_left snd]; [reflexivity|apply IHl]. }
    destruct p as [|h t]; [reflexivity|]. cbn [app pathcost]. rewrite fold_left_app. cbn [fold_left fst]. rewrite G. reflexivity.
  Qed.
  Notation chain := (chain St C c0 dflt).
  Lemma chain_cost : forall fuel (l : list node) i k r, (forall y, K St C cadd c0 dflt l y) -> XInv l -> InRange St C c0 dflt l -> i < length l ->
    kth St C c0 dflt l i k = Some r -> n_par (nd l r) = None -> k < fuel ->
    n_cost (nd l i) = pathcost (chain fuel l i) /\ exists q, chain fuel l i = q ++ [n_st (nd l i)].
  Proof.
    induction fuel as [|f IH]; intros l i k r HK HX HR Hi Hk Hr Hf; [lia|]. cbn [RrtStarModel.chain].
    destruct (n_par (nd l i)) as [p|] eqn:Ep.
    - destruct k as [|k']; [cbn [kth] in Hk; injection Hk as ->; congruence|]. cbn [kth] in Hk. rewrite Ep in Hk.
      destruct (IH l p k' r HK HX HR (HR i p Hi Ep) Hk Hr ltac:(lia)) as (H1 & q & H2). split; [|exists (chain f l p); reflexivity].
      rewrite H2. rewrite pathcost_snoc. rewrite <- H2, <- H1. specialize (HK i). unfold K in HK. rewrite Ep in HK. rewrite HK.
      destruct HX as (HM & _). rewrite (HM i p Ep). reflexivity.
    - destruct k as [|k']; [|cbn [kth] in Hk; rewrite Ep in Hk; discriminate]. split; [|exists []; reflexivity].
      cbn [pathcost fold_left fst]. destruct HX as (_ & HRt). apply HRt; assumption.
  Qed.

  (* geometric::RRTstar: the cost stored with a reported solution IS the objective's cost of the reported path *)
  Theorem star_stored_cost_is_path_cost : forall iters tape samples, starts <> [] ->
    match snd (star_solve St C dist clt cadd c0 mcost sym csat steer maxd mv sat gdist goal_state dflt bias kof starts iters tape samples) with
    | Some (path, approx, dd, stored, opt) => stored = pathcost path
    | None => True
    end.
  Proof.
    intros iters tape samples Hs. unfold RrtStarModel.star_solve.
    set (s0 := mkRS St C (map (fun x => mkN x None c0 c0) starts) [] None None).
    assert (N0 : forall j, nd (nodes St C s0) j = mkN (nth j starts dflt) None c0 c0).
    { intros j. cbn [nodes s0]. unfold RrtStarModel.nd. change (mkN dflt None c0 c0) with ((fun x => mkN x None c0 c0) dflt). rewrite map_nth. reflexivity. }
    assert (H0 : nodes St C s0 <> [] /\ EInv (nodes St C s0) /\ GInv s0 /\ FInv (nodes St C s0) /\ XInv (nodes St C s0)).
    { split; [cbn [nodes s0]; destruct starts; [congruence|discriminate]|]. split; [|split; [|split]].
      - intros j Hj. rewrite N0. cbn [RrtStarModel.n_par RrtStarModel.n_st]. cbn [nodes s0] in Hj. rewrite map_length in Hj. apply nth_In. exact Hj.
      - split; [intros g []|]. split; [intros g c H; discriminate|intros a d H; discriminate].
      - split; [|split; [|split]].
        + intros j p _ Hp. rewrite N0 in Hp. discriminate.
        + intros j. constructor. intros p (_ & Hp). rewrite N0 in Hp. discriminate.
        + intros j. unfold K. rewrite N0. exact I.
        + intros j. rewrite N0. exact nn_c0.
      - split; [intros j p Hp; rewrite N0 in Hp; discriminate|intros j _ _; rewrite N0; reflexivity]. }
    destruct H0 as (A0 & B0 & D0 & F0 & X0). destruct (star_loop_x iters s0 tape samples A0 B0 D0 F0 X0) as (A & B & (G1 & G2 & G3) & F & X). cbv zeta in *.
    set (s := star_loop iters s0 tape samples) in *. set (l := nodes St C s) in *. cbn [snd].
    destruct F as (HR & HA & HK & HN).
    assert (RP : forall g, g < length l -> n_cost (nd l g) = pathcost (chain (S (length l)) l g)).
    { intros g Hg.
      assert (Hnone : kth St C c0 dflt l g (length l) = None).
      { destruct (kth St C c0 dflt l g (length l)) eqn:E; [|reflexivity]. pose proof (kth_bound St C c0 dflt l g (length l) Hg HR HA ltac:(congruence)). lia. }
      destruct (chain_reaches_root St C c0 dflt (length l) l g Hnone) as (k & r & Hk1 & Hk2 & Hk3).
      destruct (chain_cost (S (length l)) l g k r HK X HR Hg Hk2 Hk3 ltac:(lia)) as (H1 & _). exact H1. }
    destruct (best St C s) as [[g bc]|] eqn:Eb.
    - destruct (G1 g (G2 g bc eq_refl)) as (Hg & _). fold l in Hg. apply (RP g Hg).
    - destruct (approx St C s) as [[a ad]|] eqn:Ea; [|exact I]. specialize (G3 a ad eq_refl). fold l in G3. apply (RP a G3).
  Qed.
End Cost2.
