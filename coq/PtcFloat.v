(* PtcFloat.v — cost-convergence update on primitive binary64 floats (executed by vm_compute) *)
From Coq Require Import List NArith ZArith Floats Uint63.
From OmplV Require Import PtcModel.
Import ListNotations.
Definition ofN (n : N) : float := PrimFloat.of_uint63 (Uint63.of_Z (Z.of_N n)).
Definition cc_stepF (window : N) (eps : float) := cc_step float PrimFloat.add PrimFloat.mul PrimFloat.div PrimFloat.sub PrimFloat.ltb ofN 1%float window eps.
(* averageCost_ starts at 0, solutions_ at 0; returns the fired flag after every reported cost *)
Fixpoint cc_runF (window : N) (eps : float) (s : cc float) (costs : list float) : list bool :=
  match costs with
  | [] => []
  | c :: t => let s' := cc_stepF window eps s c in fired s' :: cc_runF window eps s' t
  end.
Definition cc_run0 (window : N) (eps : float) (costs : list float) : list bool := cc_runF window eps (mkCC 0%N 0%float false) costs.
