(* PhsModel.v — the prolate hyperspheroid of the direct informed sampler in its own frame, and the retry loops of the
   informed samplers (src/ompl/util/src/ProlateHyperspheroid.cpp, GeometricEquations.cpp,
   base/samplers/informed/src/RejectionInfSampler.cpp, PathLengthDirectInfSampler.cpp).
   Frame: the centre is the origin, the first axis is the transverse axis; a point of R^n is (a, b) with a its
   coordinate along that axis and b >= 0 the norm of its orthogonal part (the map is rotationally symmetric about the
   axis); the foci are (-f, 0) and (f, 0) with f = minTransverseDiameter / 2; c is the transverse diameter. *)
From Coq Require Import List ZArith Bool Arith Reals.
Import ListNotations.

Definition focal_sum (f a b : R) : R := (sqrt ((a - f) * (a - f) + b * b) + sqrt ((a + f) * (a + f) + b * b))%R.
(* transformationWorldFromEllipse = rotation * diag(c/2, sqrt(c^2 - (2f)^2)/2, ...): image of the sphere point (u1, w) *)
Definition r1 (c : R) : R := (c / 2)%R.
Definition r2 (c f : R) : R := (sqrt (c * c - (2 * f) * (2 * f)) / 2)%R.
(* unit n-ball measure by the two-step recurrence, and prolateHyperspheroidMeasure *)
Fixpoint unit_ball (n : nat) : R :=
  match n with
  | O => 1%R
  | S O => 2%R
  | S ((S k) as m) => (2 * PI / INR n * match m with O => 1 | S k' => unit_ball k' end)%R
  end.
Definition phs_measure (n : nat) (c f : R) : R := (r1 c * r2 c f ^ (n - 1) * unit_ball n)%R.

(* ---- retry loops: a tape of candidate samples, each with an integer heuristic cost and an in-bounds flag *)
Record cand := mkCand { cd_id : Z; cd_cost : Z; cd_inb : bool; cd_keep : bool }.
(* RejectionInfSampler::sampleUniform(state, maxCost, iters): draw until cost < maxCost or the counter reaches numIters *)
Fixpoint rej_loop (maxc : Z) (fuel : nat) (it numit : nat) (last : option cand) (tape : list cand) : bool * option cand * nat * list cand :=
  match fuel with
  | O => (false, last, it, tape)
  | S k => if Nat.ltb it numit then
             match tape with
             | [] => (false, last, it, tape)
             | x :: t => if (cd_cost x <? maxc)%Z then (true, Some x, S it, t) else rej_loop maxc k (S it) numit (Some x) t
             end
           else (false, last, it, tape)
  end.
(* PathLengthDirectInfSampler::samplePhsRejectBounds: candidates come from inside a PHS (cost < maxCost by the
   geometry); keep with probability 1/K, then require the full state to be within the bounds *)
Fixpoint phs_loop (fuel : nat) (it numit : nat) (last : option cand) (tape : list cand) : bool * option cand * nat * list cand :=
  match fuel with
  | O => (false, last, it, tape)
  | S k => if Nat.ltb it numit then
             match tape with
             | [] => (false, last, it, tape)
             | x :: t => if cd_keep x then (if cd_inb x then (true, Some x, S it, t) else phs_loop k (S it) numit (Some x) t)
                         else phs_loop k (S it) numit last t
             end
           else (false, last, it, tape)
  end.
(* sampleUniform(state, minCost, maxCost): for (i = 0; i < numIters && !found; ++i) { found = inner(&i); if found: found = minCost <= cost } *)
Fixpoint minmax_loop (inner : nat -> option cand -> list cand -> bool * option cand * nat * list cand) (minc : Z)
         (fuel : nat) (i numit : nat) (last : option cand) (tape : list cand) : bool * option cand :=
  match fuel with
  | O => (false, last)
  | S k => if Nat.ltb i numit then
             let '(found, l, i', t) := inner i last tape in
             let found' := match l with Some x => found && (minc <=? cd_cost x)%Z | None => false end in
             if found' then (true, l) else minmax_loop inner minc k (S i') numit l t
           else (false, last)
  end.
Definition rejection_sample (maxc : Z) (numit : nat) (tape : list cand) := rej_loop maxc (S numit) 0 numit None tape.
Definition rejection_sample_minmax (minc maxc : Z) (numit : nat) (tape : list cand) :=
  minmax_loop (fun i l t => rej_loop maxc (S numit) i numit l t) minc (S numit) 0 numit None tape.
Definition direct_sample (numit : nat) (tape : list cand) := phs_loop (S numit) 0 numit None tape.
Definition direct_sample_minmax (minc : Z) (numit : nat) (tape : list cand) :=
  minmax_loop (fun i l t => phs_loop (S numit) i numit l t) minc (S numit) 0 numit None tape.
