(* EitProofs.v — EIT*'s edge validation (EitModel.v): the breadth-first midpoint walk visits every index exactly once, so
   an edge that gets whitelisted has had every full-resolution position tested, whatever sparse levels it went through
   before; at the pinned commit this was not so (refutation by a concrete history). *)
From Coq Require Import List Arith Bool Lia Permutation.
From OmplV Require Import EitModel.
Import ListNotations.
Local Open Scope nat_scope.

Definition span (ab : nat * nat) : list nat := seq (fst ab) (snd ab + 1 - fst ab).
Definition cover (q : list (nat * nat)) : list nat := flat_map span q.
Definition wfq (q : list (nat * nat)) : Prop := Forall (fun ab => 1 <= fst ab <= snd ab) q.
Definition qsize (q : list (nat * nat)) : nat := fold_right (fun ab a => snd ab + 1 - fst ab + a) 0 q.
Lemma qsize_app a b : qsize (a ++ b) = qsize a + qsize b.
Proof. unfold qsize. induction a as [|x t IH]; [reflexivity|]. cbn [app fold_right]. rewrite IH. lia. Qed.
Lemma cover_app a b : cover (a ++ b) = cover a ++ cover b.
Proof. apply flat_map_app. Qed.
Lemma mid_bounds a b : a <= b -> a <= (a + b) / 2 <= b.
Proof. intros H. pose proof (Nat.div_mod (a + b) 2 ltac:(lia)) as D. pose proof (Nat.mod_upper_bound (a + b) 2 ltac:(lia)) as M. lia. Qed.
Lemma span_split a b m : a <= m <= b -> span (a, b) = seq a (m - a) ++ [m] ++ seq (m + 1) (b - m).
Proof.
  intros H. unfold span. cbn [fst snd]. replace (b + 1 - a) with ((m - a) + (1 + (b - m))) by lia.
  rewrite seq_app. f_equal. replace (a + (m - a)) with m by lia. change (1 + (b - m)) with (S (b - m)). cbn [seq app]. replace (S m) with (m + 1) by lia. reflexivity.
Qed.

(* the walk over a queue of segments visits exactly the indices the segments cover *)
Lemma bfs_perm : forall fuel q, wfq q -> qsize q <= fuel -> Permutation (bfs fuel q) (cover q).
Proof.
  induction fuel as [|f IH]; intros q W S.
  - destruct q as [|[a b] r]; [constructor|]. inversion W as [|? ? Hab _]; subst. cbn [fst snd] in Hab. cbn [qsize fold_right fst snd] in S. lia.
  - destruct q as [|[a b] r]; [constructor|]. inversion W as [|? ? Hab Wr]; subst. cbn [fst snd] in Hab. cbn [bfs].
    set (m := (a + b) / 2). assert (Hm : a <= m <= b) by (apply mid_bounds; lia).
    set (left := if a <? m then [(a, m - 1)] else []). set (right := if m <? b then [(m + 1, b)] else []).
    assert (CL : cover left = seq a (m - a)).
    { unfold left. destruct (Nat.ltb_spec a m) as [L|L]; cbn [cover flat_map].
      - rewrite app_nil_r. unfold span. cbn [fst snd]. f_equal. lia.
      - replace (m - a) with 0 by lia. reflexivity. }
    assert (CR : cover right = seq (m + 1) (b - m)).
    { unfold right. destruct (Nat.ltb_spec m b) as [L|L]; cbn [cover flat_map].
      - rewrite app_nil_r. unfold span. cbn [fst snd]. f_equal. lia.
      - replace (b - m) with 0 by lia. reflexivity. }
    assert (WL : wfq left) by (unfold left; destruct (Nat.ltb_spec a m); constructor; [cbn [fst snd]; lia|constructor]).
    assert (WR : wfq right) by (unfold right; destruct (Nat.ltb_spec m b); constructor; [cbn [fst snd]; lia|constructor]).
    assert (SL : qsize left = m - a) by (unfold left; destruct (Nat.ltb_spec a m); cbn [qsize fold_right fst snd]; lia).
    assert (SR : qsize right = b - m) by (unfold right; destruct (Nat.ltb_spec m b); cbn [qsize fold_right fst snd]; lia).
    cbn [qsize fold_right fst snd] in S. fold (qsize r) in S.
    assert (P : Permutation (bfs f (r ++ left ++ right)) (cover (r ++ left ++ right))).
    { apply IH; [unfold wfq in *; apply Forall_app; split; [exact Wr|apply Forall_app; split; assumption]|]. rewrite !qsize_app, SL, SR. lia. }
    cbn [cover flat_map]. fold (cover r). rewrite (span_split a b m Hm).
    eapply perm_trans; [apply perm_skip; exact P|]. rewrite !cover_app, CL, CR.
    (* m :: cover r ++ L ++ R   ~   (L ++ [m] ++ R) ++ cover r *)
    eapply perm_trans; [apply perm_skip; apply (Permutation_app_comm (cover r) (seq a (m - a) ++ seq (m + 1) (b - m)))|].
    cbn [app]. rewrite <- !app_assoc. apply Permutation_middle.
Qed.
Theorem order_perm c : 1 <= c -> Permutation (order c) (seq 1 c).
Proof.
  intros H. unfold order. eapply perm_trans; [apply bfs_perm|].
  - constructor; [cbn [fst snd]; lia|constructor].
  - cbn [qsize fold_right fst snd]. lia.
  - cbn [cover flat_map]. rewrite app_nil_r. unfold span. cbn [fst snd]. replace (c + 1 - 1) with c by lia. apply Permutation_refl.
Qed.

(* an edge that ends whitelisted has had every full-resolution position i / F, 0 < i < F, tested in its last call *)
Theorem whitelisted_edge_fully_tested : forall levels full performed tests,
  1 <= full -> history full performed levels = (tests, true) -> forall i, 1 <= i <= full - 1 -> In (i, full) tests.
Proof.
  unfold history. induction levels as [|c r IH]; intros full performed tests HF H i Hi; cbn [history_gen] in H; [discriminate|].
  destruct (call_whitelists c full) eqn:Wl.
  - injection H as <-. unfold call_whitelists in Wl. apply Nat.eqb_eq in Wl. unfold call_tests. rewrite Wl, Nat.eqb_refl. cbn [skipn].
    apply in_map_iff. exists i. split; [reflexivity|]. unfold seg_of in Wl.
    assert (Hc : full <= c + 1) by lia.
    apply (Permutation_in _ (Permutation_sym (order_perm c ltac:(lia)))). apply in_seq. lia.
  - destruct (history_gen call_tests full (call_performed c) r) as [t' w] eqn:E. injection H as <- ->.
    apply in_or_app. right. apply (IH full (call_performed c) t' HF E i Hi).
Qed.
