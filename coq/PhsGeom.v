(* PhsGeom.v — the prolate hyperspheroid as the exact image of the unit ball, in every dimension.
   PhsProofs.v shows ball -> PHS (focal sum <= c).  Here: the converse (every point whose focal sum is at most c is the
   image of a ball point, so no state that can still help is excluded), the strict versions (open ball <-> cost
   strictly below the bound), and the lift from the (a, b) frame to vectors of any length: the diagonal part of
   ProlateHyperspheroid::transform (diag(r1, r2, ..., r2)), and RNG::uniformInBall (normalised direction times a
   radius in [0,1]). *)
From Coq Require Import List Reals Lra Lia Psatz.
From OmplV Require Import PhsModel PhsProofs.
Import ListNotations.
Local Open Scope R_scope.

(* ---- the (a, b) frame *)
Lemma r2_pos : forall c f, 0 <= f -> 2 * f < c -> 0 < r2 c f.
Proof.
  intros c f Hf Hc. unfold r2. assert (0 < sqrt (c * c - 2 * f * (2 * f))) by (apply sqrt_lt_R0; nra). lra.
Qed.
Lemma r1_pos : forall c f, 0 <= f -> 2 * f < c -> 0 < r1 c.
Proof. intros c f Hf Hc. unfold r1. lra. Qed.

(* the ellipse inequality from the focal sum *)
Lemma focal_sum_ellipse : forall c f a b, 0 <= f -> 2 * f <= c -> focal_sum f a b <= c ->
  a * a * (r2 c f * r2 c f) + b * b * (r1 c * r1 c) <= r1 c * r1 c * (r2 c f * r2 c f).
Proof.
  intros c f a b Hf Hc Hs. rewrite (r2_sq c f Hf Hc). unfold focal_sum in Hs.
  assert (Hp : c = 2 * r1 c) by (unfold r1; lra). set (p := r1 c) in *. clearbody p.
  assert (N1 : 0 <= (a - f) * (a - f) + b * b) by (apply Rplus_le_le_0_compat; apply Rle_0_sqr). assert (N2 : 0 <= (a + f) * (a + f) + b * b) by (apply Rplus_le_le_0_compat; apply Rle_0_sqr).
  pose proof (sqrt_pos ((a - f) * (a - f) + b * b)) as H1. pose proof (sqrt_pos ((a + f) * (a + f) + b * b)) as H2.
  pose proof (sqrt_sqrt _ N1) as Ed1. pose proof (sqrt_sqrt _ N2) as Ed2.
  set (d1 := sqrt ((a - f) * (a - f) + b * b)) in *. set (d2 := sqrt ((a + f) * (a + f) + b * b)) in *. clearbody d1 d2.
  pose (SS := a * a + f * f + b * b). pose (P := d1 * d2).
  assert (HP0 : 0 <= P) by (unfold P; nra).
  assert (HP2 : P * P = SS * SS - 4 * (a * a) * (f * f)).
  { unfold P. replace (d1 * d2 * (d1 * d2)) with ((d1 * d1) * (d2 * d2)) by ring. rewrite Ed1, Ed2. unfold SS. ring. }
  assert (Hsq : (d1 + d2) * (d1 + d2) <= (2 * p) * (2 * p)) by (apply Rmult_le_compat; lra).
  assert (HPle : P <= 2 * (p * p) - SS) by (unfold P, SS; nra).
  assert (HPsq : P * P <= (2 * (p * p) - SS) * (2 * (p * p) - SS)) by (apply Rmult_le_compat; lra).
  rewrite HP2 in HPsq. unfold SS in HPsq. nra.
Qed.
Lemma focal_sum_ellipse_lt : forall c f a b, 0 <= f -> 2 * f <= c -> focal_sum f a b < c ->
  a * a * (r2 c f * r2 c f) + b * b * (r1 c * r1 c) < r1 c * r1 c * (r2 c f * r2 c f).
Proof.
  intros c f a b Hf Hc Hs. rewrite (r2_sq c f Hf Hc). unfold focal_sum in Hs.
  assert (Hp : c = 2 * r1 c) by (unfold r1; lra). set (p := r1 c) in *. clearbody p.
  assert (N1 : 0 <= (a - f) * (a - f) + b * b) by (apply Rplus_le_le_0_compat; apply Rle_0_sqr). assert (N2 : 0 <= (a + f) * (a + f) + b * b) by (apply Rplus_le_le_0_compat; apply Rle_0_sqr).
  pose proof (sqrt_pos ((a - f) * (a - f) + b * b)) as H1. pose proof (sqrt_pos ((a + f) * (a + f) + b * b)) as H2.
  pose proof (sqrt_sqrt _ N1) as Ed1. pose proof (sqrt_sqrt _ N2) as Ed2.
  set (d1 := sqrt ((a - f) * (a - f) + b * b)) in *. set (d2 := sqrt ((a + f) * (a + f) + b * b)) in *. clearbody d1 d2.
  pose (SS := a * a + f * f + b * b). pose (P := d1 * d2).
  assert (HP0 : 0 <= P) by (unfold P; nra).
  assert (HP2 : P * P = SS * SS - 4 * (a * a) * (f * f)).
  { unfold P. replace (d1 * d2 * (d1 * d2)) with ((d1 * d1) * (d2 * d2)) by ring. rewrite Ed1, Ed2. unfold SS. ring. }
  assert (Hsq : (d1 + d2) * (d1 + d2) < (2 * p) * (2 * p)) by (apply Rmult_le_0_lt_compat; lra).
  assert (HPle : P < 2 * (p * p) - SS) by (unfold P, SS; nra).
  assert (HPsq : P * P < (2 * (p * p) - SS) * (2 * (p * p) - SS)) by (apply Rmult_le_0_lt_compat; lra).
  rewrite HP2 in HPsq. unfold SS in HPsq. nra.
Qed.

(* every point of the closed hyperspheroid is the image of a point of the closed unit ball *)
Theorem phs_point_is_image_of_ball : forall c f a b, 0 <= f -> 2 * f < c -> focal_sum f a b <= c ->
  let u1 := a / r1 c in let w := b / r2 c f in
  u1 * u1 + w * w <= 1 /\ r1 c * u1 = a /\ r2 c f * w = b.
Proof.
  intros c f a b Hf Hc Hs u1 w. pose proof (r1_pos c f Hf Hc) as P1. pose proof (r2_pos c f Hf Hc) as P2.
  assert (Hc' : 2 * f <= c) by lra. pose proof (focal_sum_ellipse c f a b Hf Hc' Hs) as He.
  split; [|split; unfold u1, w; field; lra].
  unfold u1, w. replace (a / r1 c * (a / r1 c) + b / r2 c f * (b / r2 c f))
    with ((a * a * (r2 c f * r2 c f) + b * b * (r1 c * r1 c)) / (r1 c * r1 c * (r2 c f * r2 c f))) by (field; lra).
  assert (0 < r1 c * r1 c * (r2 c f * r2 c f)) by (apply Rmult_lt_0_compat; apply Rmult_lt_0_compat; assumption).
  apply Rmult_le_reg_r with (r1 c * r1 c * (r2 c f * r2 c f)); [assumption|].
  unfold Rdiv. rewrite Rmult_assoc, Rinv_l by lra. lra.
Qed.
(* the open versions: open ball <-> heuristic cost strictly below the bound *)
Theorem phs_interior_is_image_of_open_ball : forall c f a b, 0 <= f -> 2 * f < c -> focal_sum f a b < c ->
  (a / r1 c) * (a / r1 c) + (b / r2 c f) * (b / r2 c f) < 1.
Proof.
  intros c f a b Hf Hc Hs. pose proof (r1_pos c f Hf Hc) as P1. pose proof (r2_pos c f Hf Hc) as P2.
  assert (Hc' : 2 * f <= c) by lra. pose proof (focal_sum_ellipse_lt c f a b Hf Hc' Hs) as He.
  replace (a / r1 c * (a / r1 c) + b / r2 c f * (b / r2 c f))
    with ((a * a * (r2 c f * r2 c f) + b * b * (r1 c * r1 c)) / (r1 c * r1 c * (r2 c f * r2 c f))) by (field; lra).
  assert (0 < r1 c * r1 c * (r2 c f * r2 c f)) by (apply Rmult_lt_0_compat; apply Rmult_lt_0_compat; assumption).
  apply Rmult_lt_reg_r with (r1 c * r1 c * (r2 c f * r2 c f)); [assumption|].
  unfold Rdiv. rewrite Rmult_assoc, Rinv_l by lra. lra.
Qed.
Lemma dist_sq_lt : forall c f u1 w s, 0 <= f -> 2 * f < c -> u1 * u1 + w * w < 1 -> (s = 1 \/ s = -1) ->
  (r1 c * u1 - s * f) * (r1 c * u1 - s * f) + (r2 c f * w) * (r2 c f * w) < (r1 c - s * f * u1) * (r1 c - s * f * u1).
Proof.
  intros c f u1 w s Hf Hc Hu Hs. assert (Hc' : 2 * f <= c) by lra.
  replace ((r2 c f * w) * (r2 c f * w)) with ((r2 c f * r2 c f) * (w * w)) by ring. rewrite (r2_sq c f Hf Hc').
  assert (Hr : f < r1 c) by (unfold r1; lra).
  assert (H0 : 0 < r1 c * r1 c - f * f) by nra.
  assert (Hw : w * w < 1 - u1 * u1) by lra.
  assert (Hm : (r1 c * r1 c - f * f) * (w * w) < (r1 c * r1 c - f * f) * (1 - u1 * u1)) by (apply Rmult_lt_compat_l; assumption).
  destruct Hs as [-> | ->]; nra.
Qed.
Theorem open_ball_maps_strictly_inside : forall c f u1 w, 0 <= f -> 2 * f < c -> u1 * u1 + w * w < 1 ->
  focal_sum f (r1 c * u1) (r2 c f * w) < c.
Proof.
  intros c f u1 w Hf Hc Hu. unfold focal_sum. assert (Hc' : 2 * f <= c) by lra. assert (Hu' : u1 * u1 + w * w <= 1) by lra.
  pose proof (dist_sq_lt c f u1 w 1 Hf Hc Hu (or_introl eq_refl)) as E1.
  pose proof (dist_sq_lt c f u1 w (-1) Hf Hc Hu (or_intror eq_refl)) as E2.
  pose proof (reduced_nonneg c f u1 w 1 Hf Hc' Hu' (or_introl eq_refl)) as N1.
  pose proof (reduced_nonneg c f u1 w (-1) Hf Hc' Hu' (or_intror eq_refl)) as N2.
  replace (r1 c * u1 - f) with (r1 c * u1 - 1 * f) by ring.
  replace (r1 c * u1 + f) with (r1 c * u1 - -1 * f) by ring.
  assert (M1 : 0 <= (r1 c * u1 - 1 * f) * (r1 c * u1 - 1 * f) + r2 c f * w * (r2 c f * w)) by (apply Rplus_le_le_0_compat; apply Rle_0_sqr).
  assert (M2 : 0 <= (r1 c * u1 - -1 * f) * (r1 c * u1 - -1 * f) + r2 c f * w * (r2 c f * w)) by (apply Rplus_le_le_0_compat; apply Rle_0_sqr).
  pose proof (sqrt_lt_1_alt _ _ (conj M1 E1)) as E1'. pose proof (sqrt_lt_1_alt _ _ (conj M2 E2)) as E2'.
  rewrite sqrt_square in E1' by exact N1. rewrite sqrt_square in E2' by exact N2.
  unfold r1 in *. lra.
Qed.

(* ---- vectors of any length *)
Definition norm2 (v : list R) : R := fold_right (fun x acc => x * x + acc) 0 v.
Lemma norm2_nonneg : forall v, 0 <= norm2 v.
Proof. induction v as [|x v IH]; cbn [norm2 fold_right]; [lra|]. fold (norm2 v). nra. Qed.
Lemma norm2_scale : forall k v, norm2 (map (fun x => k * x) v) = k * k * norm2 v.
Proof. intros k. induction v as [|x v IH]; cbn [norm2 fold_right map]; [ring|]. fold (norm2 v). fold (norm2 (map (fun x => k * x) v)). rewrite IH. ring. Qed.
(* the diagonal part of the transform: first coordinate times r1, all others times r2 *)
Definition phs_map (c f : R) (u : list R) : list R :=
  match u with [] => [] | u1 :: rest => r1 c * u1 :: map (fun x => r2 c f * x) rest end.
Definition phs_unmap (c f : R) (x : list R) : list R :=
  match x with [] => [] | a :: rest => a / r1 c :: map (fun y => y / r2 c f) rest end.
(* summed distance to the foci (-f, 0, ..., 0) and (f, 0, ..., 0) *)
Definition focal_sum_n (f : R) (x : list R) : R :=
  match x with [] => 0 | a :: rest => sqrt ((a - f) * (a - f) + norm2 rest) + sqrt ((a + f) * (a + f) + norm2 rest) end.
Lemma focal_sum_n_frame : forall f a rest, focal_sum_n f (a :: rest) = focal_sum f a (sqrt (norm2 rest)).
Proof. intros f a rest. cbn [focal_sum_n]. unfold focal_sum. rewrite sqrt_sqrt by apply norm2_nonneg. reflexivity. Qed.
Lemma sqrt_norm2_scale : forall k v, 0 <= k -> sqrt (norm2 (map (fun x => k * x) v)) = k * sqrt (norm2 v).
Proof.
  intros k v Hk. rewrite norm2_scale. rewrite sqrt_mult_alt by nra. rewrite sqrt_square by exact Hk. reflexivity.
Qed.
Lemma r2_nonneg : forall c f, 0 <= r2 c f.
Proof. intros c f. unfold r2. pose proof (sqrt_pos (c * c - 2 * f * (2 * f))). lra. Qed.

Theorem ball_maps_inside_n : forall c f u1 rest, 0 <= f -> 2 * f <= c -> norm2 (u1 :: rest) <= 1 ->
  focal_sum_n f (phs_map c f (u1 :: rest)) <= c.
Proof.
  intros c f u1 rest Hf Hc Hu. cbn [phs_map]. rewrite focal_sum_n_frame, sqrt_norm2_scale by apply r2_nonneg.
  apply ball_maps_inside; try assumption. rewrite sqrt_sqrt by apply norm2_nonneg. exact Hu.
Qed.
Theorem sphere_maps_onto_focal_sum_n : forall c f u1 rest, 0 <= f -> 2 * f <= c -> norm2 (u1 :: rest) = 1 ->
  focal_sum_n f (phs_map c f (u1 :: rest)) = c.
Proof.
  intros c f u1 rest Hf Hc Hu. cbn [phs_map]. rewrite focal_sum_n_frame, sqrt_norm2_scale by apply r2_nonneg.
  apply sphere_maps_onto_focal_sum; try assumption. rewrite sqrt_sqrt by apply norm2_nonneg. exact Hu.
Qed.
Theorem open_ball_maps_strictly_inside_n : forall c f u1 rest, 0 <= f -> 2 * f < c -> norm2 (u1 :: rest) < 1 ->
  focal_sum_n f (phs_map c f (u1 :: rest)) < c.
Proof.
  intros c f u1 rest Hf Hc Hu. cbn [phs_map]. rewrite focal_sum_n_frame, sqrt_norm2_scale by apply r2_nonneg.
  apply open_ball_maps_strictly_inside; try assumption. rewrite sqrt_sqrt by apply norm2_nonneg. exact Hu.
Qed.
Lemma map_map_id : forall k (v : list R), k <> 0 -> map (fun x => k * x) (map (fun y => y / k) v) = v.
Proof. intros k v Hk. rewrite map_map. rewrite <- (map_id v) at 2. apply map_ext. intros a. field. exact Hk. Qed.
Lemma map_map_id' : forall k (v : list R), k <> 0 -> map (fun y => y / k) (map (fun x => k * x) v) = v.
Proof. intros k v Hk. rewrite map_map. rewrite <- (map_id v) at 2. apply map_ext. intros a. field. exact Hk. Qed.
(* the map is a bijection between the closed unit ball and the closed hyperspheroid (and between their interiors):
   phs_unmap is its two-sided inverse and sends the hyperspheroid into the ball *)
Theorem phs_map_unmap : forall c f x, 0 <= f -> 2 * f < c -> phs_map c f (phs_unmap c f x) = x.
Proof.
  intros c f [|a rest] Hf Hc; [reflexivity|]. pose proof (r1_pos c f Hf Hc). pose proof (r2_pos c f Hf Hc).
  cbn [phs_map phs_unmap]. rewrite map_map_id by lra. f_equal. field. lra.
Qed.
Theorem phs_unmap_map : forall c f u, 0 <= f -> 2 * f < c -> phs_unmap c f (phs_map c f u) = u.
Proof.
  intros c f [|a rest] Hf Hc; [reflexivity|]. pose proof (r1_pos c f Hf Hc). pose proof (r2_pos c f Hf Hc).
  cbn [phs_map phs_unmap]. rewrite map_map_id' by lra. f_equal. field. lra.
Qed.
Lemma norm2_unmap : forall c f a rest, 0 <= f -> 2 * f < c ->
  norm2 (phs_unmap c f (a :: rest)) = (a / r1 c) * (a / r1 c) + (sqrt (norm2 rest) / r2 c f) * (sqrt (norm2 rest) / r2 c f).
Proof.
  intros c f a rest Hf Hc. pose proof (r2_pos c f Hf Hc) as P2. cbn [phs_unmap norm2 fold_right]. fold (norm2 (map (fun y => y / r2 c f) rest)).
  f_equal. replace (map (fun y => y / r2 c f) rest) with (map (fun y => / r2 c f * y) rest) by (apply map_ext; intros; unfold Rdiv; ring).
  rewrite norm2_scale. unfold Rdiv. replace (sqrt (norm2 rest) * / r2 c f * (sqrt (norm2 rest) * / r2 c f)) with (sqrt (norm2 rest) * sqrt (norm2 rest) * (/ r2 c f * / r2 c f)) by ring.
  rewrite sqrt_sqrt by apply norm2_nonneg. ring.
Qed.
Theorem phs_point_is_image_of_ball_n : forall c f a rest, 0 <= f -> 2 * f < c -> focal_sum_n f (a :: rest) <= c ->
  norm2 (phs_unmap c f (a :: rest)) <= 1 /\ phs_map c f (phs_unmap c f (a :: rest)) = a :: rest.
Proof.
  intros c f a rest Hf Hc Hs. split; [|apply phs_map_unmap; assumption].
  rewrite norm2_unmap by assumption. rewrite focal_sum_n_frame in Hs.
  apply (phs_point_is_image_of_ball c f a (sqrt (norm2 rest)) Hf Hc Hs).
Qed.
Theorem phs_interior_is_image_of_open_ball_n : forall c f a rest, 0 <= f -> 2 * f < c -> focal_sum_n f (a :: rest) < c ->
  norm2 (phs_unmap c f (a :: rest)) < 1.
Proof.
  intros c f a rest Hf Hc Hs. rewrite norm2_unmap by assumption. rewrite focal_sum_n_frame in Hs.
  apply (phs_interior_is_image_of_open_ball c f a (sqrt (norm2 rest)) Hf Hc Hs).
Qed.
(* the map is linear: it commutes with sums and scalings (so the image of the uniform density on the ball is the
   uniform density on the hyperspheroid, with the constant Jacobian r1 * r2^(n-1) of phs_measure_is_scaled_ball) *)
Fixpoint vadd (u v : list R) : list R := match u, v with x :: u', y :: v' => (x + y) :: vadd u' v' | _, _ => [] end.
Lemma map_vadd : forall k u v, map (fun x => k * x) (vadd u v) = vadd (map (fun x => k * x) u) (map (fun x => k * x) v).
Proof. intros k. induction u as [|x u IH]; intros [|y v]; cbn [vadd map]; try reflexivity. rewrite IH. f_equal. ring. Qed.
Theorem phs_map_linear : forall c f u v k, length u = length v ->
  phs_map c f (vadd u v) = vadd (phs_map c f u) (phs_map c f v) /\
  phs_map c f (map (fun x => k * x) u) = map (fun x => k * x) (phs_map c f u).
Proof.
  intros c f [|x u] [|y v] k Hl; try discriminate; cbn [phs_map vadd map]; [split; reflexivity|].
  split; [rewrite map_vadd; f_equal; ring|]. rewrite !map_map. f_equal; [ring|]. apply map_ext. intros a. ring.
Qed.

(* ---- RNG::uniformInBall(r = 1, n, v): a direction (Gaussian draws, normalised) times a radius rho = u^(1/n), u in [0,1) *)
Definition ball_point (g : list R) (rho : R) : list R := map (fun x => rho / sqrt (norm2 g) * x) g.
Theorem ball_point_norm : forall g rho, 0 < norm2 g -> norm2 (ball_point g rho) = rho * rho.
Proof.
  intros g rho Hg. unfold ball_point. rewrite norm2_scale.
  assert (Hs : 0 < sqrt (norm2 g)) by (apply sqrt_lt_R0; exact Hg).
  replace (rho / sqrt (norm2 g) * (rho / sqrt (norm2 g)) * norm2 g) with (rho * rho * (norm2 g / (sqrt (norm2 g) * sqrt (norm2 g)))) by (field; lra).
  rewrite sqrt_sqrt by lra. field. lra.
Qed.
(* a direct sample (before the rotation / translation): strictly inside the hyperspheroid for every Gaussian draw
   with a non-zero vector and every radius in [0, 1) *)
Theorem direct_sample_point_strictly_inside : forall c f g1 grest rho, 0 <= f -> 2 * f < c -> 0 < norm2 (g1 :: grest) -> 0 <= rho < 1 ->
  focal_sum_n f (phs_map c f (ball_point (g1 :: grest) rho)) < c.
Proof.
  intros c f g1 grest rho Hf Hc Hg Hr. pose proof (ball_point_norm (g1 :: grest) rho Hg) as Hn.
  unfold ball_point in *. cbn [map] in *. apply open_ball_maps_strictly_inside_n; try assumption. rewrite Hn. nra.
Qed.

(* ---- the world frame: ProlateHyperspheroid::transform applies a rotation (updateRotation: Eigen's SVD of the outer
   product of the focal direction with e1) and the translation to the centre.  For ANY distance-preserving placement T
   of the frame, summed distances to the placed foci are the frame's focal sums; whether the library's rotation is
   distance-preserving is floating-point linear algebra and is checked numerically on every run (phs_driver PHS). *)
Fixpoint vsub (u v : list R) : list R := match u, v with x :: u', y :: v' => (x - y) :: vsub u' v' | _, _ => [] end.
Definition dist2 (x y : list R) : R := norm2 (vsub x y).
Definition zeros (n : nat) : list R := repeat 0 n.
Lemma vsub_zeros : forall v, vsub v (zeros (length v)) = v.
Proof. induction v as [|x v IH]; cbn [vsub zeros repeat length]; [reflexivity|]. fold (zeros (length v)). rewrite IH. f_equal. ring. Qed.
Section World.
  Variable T : list R -> list R.
  Hypothesis T_iso : forall x y, length x = length y -> dist2 (T x) (T y) = dist2 x y.
  Definition focus (s f : R) (n : nat) : list R := (s * f) :: zeros n.
  Definition world_focal_sum (F1 F2 p : list R) : R := sqrt (dist2 p F1) + sqrt (dist2 p F2).
  Theorem world_focal_sum_is_frame_focal_sum : forall f a rest,
    world_focal_sum (T (focus 1 f (length rest))) (T (focus (-1) f (length rest))) (T (a :: rest)) = focal_sum_n f (a :: rest).
  Proof.
    intros f a rest. unfold world_focal_sum. rewrite !T_iso by (unfold focus, zeros; cbn [length]; rewrite repeat_length; reflexivity).
    unfold dist2, focus. cbn [vsub norm2 fold_right focal_sum_n]. rewrite vsub_zeros. fold (norm2 rest).
    replace (a - 1 * f) with (a - f) by ring. replace (a - -1 * f) with (a + f) by ring. reflexivity.
  Qed.
  (* what a direct sample is, in the world: strictly cheaper than the bound through the two foci *)
  Theorem direct_sample_world_cost_below_bound : forall c f g1 grest rho, 0 <= f -> 2 * f < c -> 0 < norm2 (g1 :: grest) -> 0 <= rho < 1 ->
    let n := length grest in
    world_focal_sum (T (focus 1 f n)) (T (focus (-1) f n)) (T (phs_map c f (ball_point (g1 :: grest) rho))) < c.
  Proof.
    intros c f g1 grest rho Hf Hc Hg Hr n. pose proof (direct_sample_point_strictly_inside c f g1 grest rho Hf Hc Hg Hr) as H.
    unfold ball_point in *. cbn [map phs_map] in *. unfold n.
    replace (length grest) with (length (map (fun x : R => r2 c f * x) (map (fun x : R => rho / sqrt (norm2 (g1 :: grest)) * x) grest))) by (rewrite !map_length; reflexivity).
    rewrite world_focal_sum_is_frame_focal_sum. exact H.
  Qed.
  (* and every world point that is cheaper than the bound is such an image: T (phs_map (ball point)) *)
  Theorem world_point_within_bound_is_image : forall c f a rest, 0 <= f -> 2 * f < c ->
    world_focal_sum (T (focus 1 f (length rest))) (T (focus (-1) f (length rest))) (T (a :: rest)) <= c ->
    exists u, norm2 u <= 1 /\ T (phs_map c f u) = T (a :: rest).
  Proof.
    intros c f a rest Hf Hc H. rewrite world_focal_sum_is_frame_focal_sum in H.
    destruct (phs_point_is_image_of_ball_n c f a rest Hf Hc H) as [Hn Hm].
    exists (phs_unmap c f (a :: rest)). split; [exact Hn|]. rewrite Hm. reflexivity.
  Qed.
End World.
