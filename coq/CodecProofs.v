(* CodecProofs.v — proofs about CodecModel.v *)
From Coq Require Import List ZArith Bool Arith Lia.
From OmplV Require Import CodecModel.
Import ListNotations.

(* induction principle for the nested space type *)
Lemma space_ind' (Q : space -> Prop) :
  (forall n, Q (SReal n)) -> Q SSO2 -> Q SSO3 -> Q STime -> Q SDiscrete ->
  (forall subs, Forall Q subs -> Q (SComp subs)) -> forall sp, Q sp.
Proof.
  intros H1 H2 H3 H4 H5 H6. fix IH 1. intros [n| | | | |subs]; [apply H1|exact H2|exact H3|exact H4|exact H5|].
  apply H6. induction subs as [|s t IHt]; constructor; [apply IH|exact IHt].
Qed.

Lemma take_kinds_app ks : forall cs r rest, take_kinds ks cs = Some (r, []) -> take_kinds ks (cs ++ rest) = Some (r, rest).
Proof.
  induction ks as [|k kt IH]; intros cs r rest H; simpl in *.
  - injection H as <- ->. reflexivity.
  - destruct cs as [|c ct]; [discriminate|]. simpl. destruct (Bool.eqb (is_double c) k); [|discriminate].
    destruct (take_kinds kt ct) as [[cs' r']|] eqn:E; [|discriminate]. injection H as <- ->.
    rewrite (IH ct cs' rest E). reflexivity.
Qed.
Lemma take_kinds_all ks : forall cs r, take_kinds ks cs = Some (r, []) -> r = cs.
Proof.
  induction ks as [|k kt IH]; intros cs r H; simpl in *.
  - injection H as <- <-. reflexivity.
  - destruct cs as [|c ct]; [discriminate|]. destruct (Bool.eqb (is_double c) k); [|discriminate].
    destruct (take_kinds kt ct) as [[cs' r']|] eqn:E; [|discriminate]. injection H as <- ->. f_equal. apply (IH ct cs' E).
Qed.

(* deserialization inverts serialization for every nesting, whatever follows in the buffer *)
Theorem deserialize_serialize : forall sp st rest, wf sp st = true -> deserialize sp (serialize st ++ rest) = Some (st, rest).
Proof.
  induction sp as [n| | | | |subs IH] using space_ind'; intros st rest W;
    try (destruct st as [cs|vs]; [|cbn [wf] in W; discriminate]; cbn [wf] in W; cbn [deserialize serialize];
         match type of W with (match ?t with _ => _ end) = true => destruct t as [[r [|x xs]]|] eqn:E; try discriminate end;
         rewrite (take_kinds_app _ _ _ rest E); rewrite (take_kinds_all _ _ _ E); reflexivity).
  destruct st as [cs|vs]; [cbn in W; discriminate|]. cbn [deserialize serialize].
  cut (forall subs0 vs0 rest0, Forall (fun sp => forall st rest, wf sp st = true -> deserialize sp (serialize st ++ rest) = Some (st, rest)) subs0 ->
        (fix go (ss : list space) (vs1 : list state) : bool := match ss, vs1 with [], [] => true | s :: st', v :: vt => wf s v && go st' vt | _, _ => false end) subs0 vs0 = true ->
        (fix go (ss : list space) (l : list cell) : option (list state * list cell) :=
           match ss with [] => Some ([], l) | s :: t => match deserialize s l with Some (v, l') => match go t l' with Some (vs1, l'') => Some (v :: vs1, l'') | None => None end | None => None end end)
          subs0 (flat_map serialize vs0 ++ rest0) = Some (vs0, rest0)).
  { intros C. cbn [wf] in W. rewrite (C subs vs rest IH W). reflexivity. }
  clear. induction subs0 as [|s t IHs]; intros vs0 rest0 F W; destruct vs0 as [|v vt]; try discriminate; [reflexivity|].
  apply andb_true_iff in W. destruct W as (W1 & W2). inversion F as [|? ? Fs Ft]; subst.
  cbn [flat_map]. rewrite <- app_assoc. rewrite (Fs v _ W1). rewrite (IHs vt rest0 Ft W2). reflexivity.
Qed.

Lemma take_kinds_bytes ks : forall cs r, take_kinds ks cs = Some (r, []) ->
  bytes_of cs = fold_right (fun (k : bool) (acc : nat) => (if k then 8 else 4) + acc) 0 ks.
Proof.
  induction ks as [|k kt IH]; intros cs r H; simpl in *.
  - injection H as _ ->. reflexivity.
  - destruct cs as [|c ct]; [discriminate|]. destruct (Bool.eqb (is_double c) k) eqn:Ek; [|discriminate].
    destruct (take_kinds kt ct) as [[cs' r']|] eqn:E; [|discriminate]. injection H as _ ->. simpl.
    rewrite (IH ct cs' E). apply Bool.eqb_prop in Ek. destruct c, k; simpl in *; try discriminate; reflexivity.
Qed.
Lemma bytes_of_app a b : bytes_of (a ++ b) = bytes_of a + bytes_of b.
Proof. unfold bytes_of. induction a as [|c t IH]; simpl; [reflexivity|]. rewrite IH. lia. Qed.

(* the serialization length is a function of the space alone *)
Theorem serialize_length : forall sp st, wf sp st = true -> bytes_of (serialize st) = ser_len sp.
Proof.
  induction sp as [n| | | | |subs IH] using space_ind'; intros st W;
    try (destruct st as [cs|vs]; [|cbn [wf] in W; discriminate]; cbn [wf] in W; cbn [serialize ser_len];
         match type of W with (match ?t with _ => _ end) = true => destruct t as [[r [|x xs]]|] eqn:E; try discriminate end;
         apply (take_kinds_bytes _ _ _ E)).
  destruct st as [cs|vs]; [cbn in W; discriminate|]. cbn [wf] in W. cbn [serialize ser_len].
  revert vs W. induction IH as [|s t Hs _ IHt]; intros vs W; destruct vs as [|v vt]; try discriminate; [reflexivity|].
  apply andb_true_iff in W. destruct W as (W1 & W2). cbn [flat_map fold_right]. rewrite bytes_of_app, (Hs v W1), (IHt vt W2). reflexivity.
Qed.

(* reals round trip *)
Lemma put_reals_own cs : forall extra, put_reals cs (flat_map (fun c => match c with CD b => [b] | CI _ => [] end) cs ++ extra) = (cs, extra).
Proof. induction cs as [|[b|v] t IH]; intros extra; simpl; [reflexivity| |]; rewrite IH; reflexivity. Qed.
Lemma state_ind' (Q : state -> Prop) :
  (forall cs, Q (VLeaf cs)) -> (forall vs, Forall Q vs -> Q (VComp vs)) -> forall st, Q st.
Proof. intros H1 H2. fix IH 1. intros [cs|vs]; [apply H1|]. apply H2. induction vs as [|v t IHt]; constructor; [apply IH|exact IHt]. Qed.
Theorem reals_roundtrip : forall st extra, from_reals st (to_reals st ++ extra) = (st, extra).
Proof.
  induction st as [cs|vs IH] using state_ind'; intros extra.
  - unfold to_reals. simpl. rewrite put_reals_own. reflexivity.
  - unfold to_reals. cbn [serialize from_reals].
    cut (forall extra0, (fix go (vs0 : list state) (rs : list Z) : list state * list Z :=
                           match vs0 with [] => ([], rs) | v :: t => let '(v', r1) := from_reals v rs in let '(t', r2) := go t r1 in (v' :: t', r2) end)
                          vs (flat_map (fun c => match c with CD b => [b] | CI _ => [] end) (flat_map serialize vs) ++ extra0) = (vs, extra0)).
    { intros C. rewrite C. reflexivity. }
    induction IH as [|v t Hv _ IHt]; intros extra0; [reflexivity|]. cbn [flat_map]. rewrite flat_map_app, <- app_assoc.
    fold (to_reals v). rewrite Hv. rewrite IHt. reflexivity.
Qed.

(* ---- state archives ---- *)
Lemma sig_eqb_refl a : sig_eqb a a = true.
Proof. induction a as [|x t IH]; simpl; [reflexivity|]. rewrite Z.eqb_refl. exact IH. Qed.
Lemma sig_eqb_eq a : forall b, sig_eqb a b = true -> a = b.
Proof. induction a as [|x t IH]; intros [|y b] H; simpl in H; try discriminate; [reflexivity|]. apply andb_true_iff in H. destruct H as (H1 & H2). apply Z.eqb_eq in H1. f_equal; auto. Qed.

Lemma load_blobs_store sp states rest : Forall (fun s => wf sp s = true) states ->
  load_blobs sp (length states) (map (fun s => TBlob (serialize s)) states ++ rest) = LOk states.
Proof.
  induction 1 as [|s t Hs _ IH]; simpl; [reflexivity|].
  pose proof (deserialize_serialize sp s [] Hs) as D. rewrite app_nil_r in D. rewrite D, IH. reflexivity.
Qed.
Theorem load_store_states sp states : Forall (fun s => wf sp s = true) states ->
  load_states sp (store_states sp states) = LOk states.
Proof.
  intros W. unfold store_states, load_states. cbn [app]. rewrite Z.eqb_refl, sig_eqb_refl. cbn [negb].
  rewrite <- (app_nil_r (map _ states)). apply load_blobs_store. exact W.
Qed.

Lemma load_blobs_prefix sp : forall states k, (k < length states)%nat ->
  load_blobs sp (length states) (firstn k (map (fun s => TBlob (serialize s)) states)) = LErr.
Proof.
  induction states as [|s t IH]; intros k Hk; simpl in Hk; [lia|]. destruct k as [|k]; [reflexivity|].
  cbn [length map firstn load_blobs]. destruct (deserialize sp (serialize s)) as [[st [|x xs]]|]; try reflexivity.
  rewrite (IH k) by lia. reflexivity.
Qed.
(* every strict prefix of a stored archive is rejected *)
Theorem load_rejects_every_strict_prefix sp states k :
  (k < length (store_states sp states))%nat -> load_states sp (firstn k (store_states sp states)) = LErr.
Proof.
  unfold store_states. intros Hk. rewrite app_length, map_length in Hk. cbn [length] in Hk.
  destruct k as [|[|[|k]]]; try reflexivity. cbn [app firstn load_states]. rewrite Z.eqb_refl, sig_eqb_refl. cbn [negb].
  apply load_blobs_prefix. lia.
Qed.
Theorem load_rejects_wrong_marker sp m n sg rest : m <> STATE_MARKER -> load_states sp (TMarker m :: TCount n :: TSig sg :: rest) = LErr.
Proof. intros H. cbn [load_states]. destruct (Z.eqb_spec m STATE_MARKER); [contradiction|reflexivity]. Qed.
Theorem load_rejects_other_signature sp sp' states :
  signature sp' <> signature sp -> load_states sp' (store_states sp states) = LErr.
Proof.
  intros H. unfold store_states, load_states. cbn [app]. rewrite Z.eqb_refl. cbn [negb].
  destruct (sig_eqb (signature sp) (signature sp')) eqn:E; [|reflexivity]. apply sig_eqb_eq in E. congruence.
Qed.

(* ---- PlannerData start / goal bookkeeping: binary search over a vector that must be kept sorted ---- *)
Definition sorted_nth (v : list nat) : Prop := forall i j, (i <= j < length v)%nat -> (nth i v 0 <= nth j v 0)%nat.

Lemma lower_bound_spec : forall fuel v first count x, sorted_nth v -> (count <= fuel)%nat -> (first + count <= length v)%nat ->
  let r := lower_bound fuel v first count x in
  (first <= r <= first + count)%nat /\ (forall i, (first <= i < r)%nat -> (nth i v 0 < x)%nat) /\
  (forall i, (r <= i < first + count)%nat -> (x <= nth i v 0)%nat).
Proof.
  induction fuel as [|f IH]; intros v first count x Hsrt Hf Hl; cbn [lower_bound].
  - assert (count = 0)%nat by lia. subst. split; [lia|]. split; intros; lia.
  - destruct (Nat.eqb_spec count 0) as [->|N]; [split; [lia|]; split; intros; lia|].
    set (step := Nat.div count 2). assert (Hs : (step < count)%nat) by (apply Nat.div_lt; lia).
    destruct (Nat.ltb_spec (nth (first + step) v 0) x) as [L|L].
    + destruct (IH v (S (first + step)) (count - step - 1)%nat x Hsrt ltac:(lia) ltac:(lia)) as (A & B & C).
      split; [lia|]. split.
      * intros i Hi. destruct (Nat.le_gt_cases i (first + step)) as [G|G]; [|apply B; lia].
        pose proof (Hsrt i (first + step)%nat ltac:(lia)). lia.
      * intros i Hi. apply C. lia.
    + destruct (IH v first step x Hsrt ltac:(lia) ltac:(lia)) as (A & B & C).
      split; [lia|]. split; [exact B|].
      intros i Hi. destruct (Nat.lt_ge_cases i (first + step)) as [G|G]; [apply C; lia|].
      pose proof (Hsrt (first + step)%nat i ltac:(lia)). lia.
Qed.

Theorem binary_search_correct v x : sorted_nth v -> (binary_search v x = true <-> In x v).
Proof.
  intros Hsrt. unfold binary_search.
  destruct (lower_bound_spec (S (length v)) v 0 (length v) x Hsrt ltac:(lia) ltac:(lia)) as (A & B & C).
  set (r := lower_bound (S (length v)) v 0 (length v) x) in *. split.
  - intros H. apply andb_true_iff in H. destruct H as (H1 & H2). apply Nat.ltb_lt in H1. apply Nat.eqb_eq in H2.
    rewrite <- H2. apply nth_In. exact H1.
  - intros H. destruct (In_nth v x 0%nat H) as (j & Hj & E).
    assert (Hrj : (r <= j)%nat).
    { destruct (Nat.le_gt_cases r j) as [G|G]; [exact G|]. specialize (B j ltac:(lia)). lia. }
    apply andb_true_iff. split; [apply Nat.ltb_lt; lia|]. apply Nat.eqb_eq.
    pose proof (C r ltac:(lia)). pose proof (Hsrt r j ltac:(lia)). lia.
Qed.

Lemma insert_sorted_in x l y : In y (insert_sorted x l) <-> y = x \/ In y l.
Proof. induction l as [|a t IH]; simpl; [intuition|]. destruct (x <=? a)%nat; simpl; [intuition|]. rewrite IH. intuition. Qed.
Lemma sort_nat_in l y : In y (sort_nat l) <-> In y l.
Proof. induction l as [|a t IH]; simpl; [tauto|]. rewrite insert_sorted_in, IH. split; intros [H|H]; auto. Qed.
Lemma sorted_nth_cons a l : sorted_nth l -> (forall y, In y l -> (a <= y)%nat) -> sorted_nth (a :: l).
Proof.
  intros Hsrt H i j Hij. destruct i as [|i], j as [|j]; simpl in *; try lia.
  - apply H. apply nth_In. lia.
  - apply Hsrt. lia.
Qed.
Lemma sorted_nth_tail a l : sorted_nth (a :: l) -> sorted_nth l /\ (forall y, In y l -> (a <= y)%nat).
Proof.
  intros Hsrt. split.
  - intros i j Hij. apply (Hsrt (S i) (S j)). simpl. lia.
  - intros y Hy. destruct (In_nth l y 0%nat Hy) as (j & Hj & <-). apply (Hsrt 0%nat (S j)). simpl. lia.
Qed.
Lemma insert_sorted_sorted x l : sorted_nth l -> sorted_nth (insert_sorted x l).
Proof.
  induction l as [|a t IH]; intros Hsrt; simpl.
  - intros i j Hij. simpl in Hij. assert (i = 0 /\ j = 0)%nat as (-> & ->) by lia. lia.
  - destruct (Nat.leb_spec x a) as [L|L].
    + apply sorted_nth_cons; [exact Hsrt|]. intros y [<-|Hy]; [exact L|]. destruct (sorted_nth_tail a t Hsrt) as (_ & H). specialize (H y Hy). lia.
    + destruct (sorted_nth_tail a t Hsrt) as (St & H). apply sorted_nth_cons; [apply IH; exact St|].
      intros y Hy. apply insert_sorted_in in Hy. destruct Hy as [->|Hy]; [lia|apply H; exact Hy].
Qed.
Lemma sort_nat_sorted l : sorted_nth (sort_nat l).
Proof. induction l as [|a t IH]; simpl; [intros i j H; simpl in H; lia|]. apply insert_sorted_sorted. exact IH. Qed.

(* marking a goal keeps the goal vector sorted and makes exactly that vertex (in addition) a goal *)
Theorem mark_goal_correct i g : sorted_nth (goals g) ->
  sorted_nth (goals (mark_goal i g)) /\
  (forall j, binary_search (goals (mark_goal i g)) j = true <-> j = i \/ binary_search (goals g) j = true) /\
  starts (mark_goal i g) = starts g.
Proof.
  intros Hsrt. unfold mark_goal. destruct (binary_search (goals g) i) eqn:E.
  - split; [exact Hsrt|]. split; [|reflexivity]. intros j. split; [auto|]. intros [->|H]; auto.
  - cbn [goals starts]. split; [apply sort_nat_sorted|]. split; [|reflexivity]. intros j.
    rewrite (binary_search_correct _ j (sort_nat_sorted _)), sort_nat_in, in_app_iff, (binary_search_correct _ j Hsrt). simpl. intuition.
Qed.
