(* LpaProofs.v — the queue bookkeeping of LPAstarOnGraph with the repaired removal rule: after every history of edge insertions,
   removals and shortest-path computations, a node's isInQueue flag is true exactly when the queue holds it, and holds it once.
   (With the pinned rule — std::multiset::erase(key), which removes every node with an equivalent key — the invariant fails after
   five operations, inconsistent nodes are lost, and an eleven-operation history makes computeShortestPath walk a cycle of parent
   pointers for ever; see Properties_C03.v.) *)
From Coq Require Import List Bool Arith ZArith Lia.
From OmplV Require Import LpaModel.
Import ListNotations.

Section LpaP.
  Variable hfun : nat -> Z.
  Notation find_node := find_node.
  Definition ids (s : lpa) : list nat := map n_id (l_nodes s).
  Definition BInv (s : lpa) : Prop :=
    NoDup (ids s) /\ NoDup (l_queue s) /\
    (forall i, In i (l_queue s) <-> exists n, find_node s i = Some n /\ n_inq n = true).

  Lemma find_node_spec s i n : find_node s i = Some n -> In n (l_nodes s) /\ n_id n = i.
  Proof. unfold LpaModel.find_node. intros H. apply find_some in H. destruct H as (A & B). apply Nat.eqb_eq in B. auto. Qed.
  Lemma find_node_none s i : find_node s i = None -> ~ In i (ids s).
  Proof. unfold LpaModel.find_node, ids. intros H Hin. apply in_map_iff in Hin. destruct Hin as (n & <- & Hn). apply (find_none _ _ H) in Hn. rewrite Nat.eqb_refl in Hn. discriminate. Qed.
  Lemma find_in_nodup : forall (l : list lnode) n, NoDup (map n_id l) -> In n l -> find (fun m => Nat.eqb (n_id m) (n_id n)) l = Some n.
  Proof.
    induction l as [|x t IH]; intros n ND Hn; [destruct Hn|]. cbn [map] in ND. inversion ND as [|? ? Hx ND']; subst. cbn [find]. destruct Hn as [<-|Hn]; [rewrite Nat.eqb_refl; reflexivity|].
    destruct (Nat.eqb_spec (n_id x) (n_id n)) as [E|N]; [exfalso; apply Hx; rewrite E; apply in_map; exact Hn|apply IH; assumption].
  Qed.
  Lemma ids_put s n : ids (put_node s n) = ids s.
  Proof. unfold ids, put_node. cbn [l_nodes]. rewrite map_map. apply map_ext_in. intros m _. destruct (Nat.eqb_spec (n_id m) (n_id n)) as [E|N]; [symmetry; exact E|reflexivity]. Qed.
  Lemma find_put s n j : find_node (put_node s n) j =
    if Nat.eqb j (n_id n) then (match find_node s j with Some _ => Some n | None => None end) else find_node s j.
  Proof.
    unfold LpaModel.find_node, put_node. cbn [l_nodes]. induction (l_nodes s) as [|x t IH]; cbn [map find]; [destruct (j =? n_id n)%nat; reflexivity|].
    destruct (Nat.eqb_spec (n_id x) (n_id n)) as [E|N].
    - destruct (Nat.eqb_spec j (n_id n)) as [Ej|Nj].
      + subst j. rewrite Nat.eqb_refl. rewrite E, Nat.eqb_refl. reflexivity.
      + rewrite E. destruct (Nat.eqb_spec (n_id n) j); [congruence|]. rewrite IH. destruct (Nat.eqb_spec j (n_id n)); [congruence|reflexivity].
    - destruct (Nat.eqb_spec (n_id x) j) as [Ej|Nj].
      + destruct (Nat.eqb_spec j (n_id n)); [congruence|reflexivity].
      + exact IH.
  Qed.
  Lemma find_app {A} (f : A -> bool) l1 l2 : find f (l1 ++ l2) = match find f l1 with Some x => Some x | None => find f l2 end.
  Proof. induction l1 as [|a t IH]; [reflexivity|]. cbn [app find]. destruct (f a); [reflexivity|exact IH]. Qed.
  Lemma NoDup_app_snoc (l : list nat) x : NoDup l -> ~ In x l -> NoDup (l ++ [x]).
  Proof. intros H Hx. induction l as [|a t IH]; [repeat constructor; intros []|]. inversion H as [|? ? Ha Ht]; subst. cbn [app]. constructor; [intros Hin; apply in_app_or in Hin; destruct Hin as [Hin|[<-|[]]]; [exact (Ha Hin)|apply Hx; left; reflexivity]|apply IH; [exact Ht|intros Hin; apply Hx; right; exact Hin]]. Qed.
  (* replacing a node by one with the same identity and the same flag keeps the invariant *)
  Lemma put_same_flag s n m : BInv s -> find_node s (n_id n) = Some m -> n_inq n = n_inq m -> BInv (put_node s n).
  Proof.
    intros (A & B & C) Hm Hf. split; [rewrite ids_put; exact A|]. split; [exact B|]. intros i. cbn [put_node l_queue]. rewrite C. rewrite find_put.
    destruct (Nat.eqb_spec i (n_id n)) as [->|N]; [|reflexivity]. rewrite Hm. split; intros (x & E & F); [injection E as <-; exists n; split; [reflexivity|congruence]|injection E as <-; exists m; split; [reflexivity|congruence]].
  Qed.

  Notation get_node := (get_node hfun).
  Lemma BInv_adj s adj : BInv s -> BInv (mkLpa (l_nodes s) (l_queue s) adj (l_src s) (l_tgt s)).
  Proof. intros H. exact H. Qed.
  Lemma get_node_inv s i : BInv s ->
    BInv (fst (get_node s i)) /\ find_node (fst (get_node s i)) i = Some (snd (get_node s i)) /\
    l_queue (fst (get_node s i)) = l_queue s /\ (forall j n, find_node s j = Some n -> find_node (fst (get_node s i)) j = Some n).
  Proof.
    intros (A & B & C). unfold LpaModel.get_node. destruct (find_node s i) as [n|] eqn:E; cbn [fst snd]; [repeat split; auto; apply C|].
    assert (Hni : ~ In i (ids s)) by (apply find_node_none; exact E).
    assert (F : forall j, LpaModel.find_node (mkLpa (l_nodes s ++ [new_node hfun i]) (l_queue s) (l_adj s) (l_src s) (l_tgt s)) j =
                          match find_node s j with Some n => Some n | None => if Nat.eqb i j then Some (new_node hfun i) else None end).
    { intros j. unfold LpaModel.find_node. cbn [l_nodes]. rewrite find_app. destruct (find (fun n => (n_id n =? j)%nat) (l_nodes s)); [reflexivity|]. cbn [find new_node n_id]. reflexivity. }
    split; [|split; [rewrite F, E, Nat.eqb_refl; reflexivity|split; [reflexivity|intros j n Hj; rewrite F, Hj; reflexivity]]].
    split; [unfold ids; cbn [l_nodes]; rewrite map_app; cbn [map new_node n_id]; apply NoDup_app_snoc; assumption|]. split; [exact B|].
    intros j. cbn [l_queue]. rewrite C, F. destruct (find_node s j) as [m|] eqn:Ej; [reflexivity|]. destruct (Nat.eqb i j); split; intros (x & X & Y); try discriminate. injection X as <-. cbn in Y. discriminate.
  Qed.

  Notation insert_queue := (insert_queue).
  Notation remove_queue := (remove_queue false).
  Notation update_vertex := (update_vertex false).
  Lemma in_q_insert s k i : forall q j, In j (q_insert s k i q) <-> j = i \/ In j q.
  Proof.
    induction q as [|a t IH]; intros j; cbn [q_insert]; [cbn; split; [intros [H|[]]; left; congruence|intros [H|[]]; left; congruence]|].
    destruct (klt k (key_of s a)); [cbn [In]; split; [intros [H|H]; [left; congruence|right; exact H]|intros [H|H]; [left; congruence|right; exact H]]|].
    cbn [In]. rewrite IH. split; [intros [H|[H|H]]; [right; left; exact H|left; exact H|right; right; exact H]|intros [H|[H|H]]; [right; left; exact H|left; exact H|right; right; exact H]].
  Qed.
  Lemma nodup_q_insert s k i : forall q, NoDup q -> ~ In i q -> NoDup (q_insert s k i q).
  Proof.
    induction q as [|a t IH]; intros ND Hi; cbn [q_insert]; [repeat constructor; intros []|]. destruct (klt k (key_of s a)); [constructor; assumption|].
    inversion ND as [|? ? Ha Ht]; subst. constructor; [rewrite in_q_insert; intros [->|H]; [apply Hi; left; reflexivity|exact (Ha H)]|apply IH; [exact Ht|intros H; apply Hi; right; exact H]].
  Qed.
  Lemma insert_queue_inv s i n : BInv s -> find_node s i = Some n -> n_inq n = false -> BInv (insert_queue s i).
  Proof.
    intros I Hn Hf. pose proof I as (A & B & C). unfold LpaModel.insert_queue. rewrite Hn.
    destruct (find_node_spec s i n Hn) as (_ & Ei). set (n' := mkN (n_id n) (n_g n) (n_h n) (n_r n) (calc_key n) true (n_par n)).
    assert (Hi : ~ In i (l_queue s)). { intros H. apply C in H. destruct H as (x & X & Y). rewrite Hn in X. injection X as <-. congruence. }
    split; [cbn [l_nodes]; change (NoDup (ids (put_node s n'))); rewrite ids_put; exact A|]. split; [cbn [l_queue put_node]; apply nodup_q_insert; assumption|].
    intros j. cbn [l_queue]. rewrite in_q_insert. change (LpaModel.find_node {| l_nodes := l_nodes (put_node s n'); l_queue := _; l_adj := _; l_src := _; l_tgt := _ |} j) with (find_node (put_node s n') j).
    rewrite find_put. cbn [n' n_id]. rewrite Ei. destruct (Nat.eqb_spec j i) as [->|N].
    - rewrite Hn. split; [intros _; exists n'; split; reflexivity|intros _; left; reflexivity].
    - cbn [put_node l_queue]. rewrite C. split; [intros [E|H]; [congruence|exact H]|intros H; right; exact H].
  Qed.
  Lemma remove_queue_inv s i : BInv s -> BInv (remove_queue s i) /\
    (forall j, find_node (remove_queue s i) j = match find_node s j with Some m => Some (if Nat.eqb j i then mkN (n_id m) (n_g m) (n_h m) (n_r m) (n_k m) false (n_par m) else m) | None => None end).
  Proof.
    intros I. pose proof I as (A & B & C). unfold LpaModel.remove_queue. destruct (find_node s i) as [n|] eqn:Hn.
    2: { split; [exact I|]. intros j. destruct (find_node s j) as [m|] eqn:Ej; [|reflexivity]. destruct (Nat.eqb_spec j i) as [->|N]; [congruence|reflexivity]. }
    destruct (find_node_spec s i n Hn) as (_ & Ei).
    destruct (n_inq n) eqn:Hf.
    2: { split; [exact I|]. intros j. destruct (find_node s j) as [m|] eqn:Ej; [|reflexivity]. destruct (Nat.eqb_spec j i) as [->|N]; [|reflexivity]. rewrite Hn in Ej. injection Ej as <-. destruct n; cbn in *; subst; reflexivity. }
    set (n' := mkN (n_id n) (n_g n) (n_h n) (n_r n) (n_k n) false (n_par n)).
    assert (F : forall j, LpaModel.find_node {| l_nodes := l_nodes (put_node s n'); l_queue := q_remove false (put_node s n') (n_k n) i (l_queue (put_node s n')); l_adj := l_adj (put_node s n'); l_src := l_src (put_node s n'); l_tgt := l_tgt (put_node s n') |} j = find_node (put_node s n') j) by reflexivity.
    split.
    - split; [cbn [l_nodes]; change (NoDup (ids (put_node s n'))); rewrite ids_put; exact A|]. split; [cbn [l_queue q_remove put_node]; apply NoDup_filter; exact B|].
      intros j. rewrite F, find_put. cbn [l_queue q_remove put_node n' n_id]. rewrite filter_In, Ei. destruct (Nat.eqb_spec j i) as [->|N].
      + rewrite Hn. split; [intros (_ & H); cbn in H; discriminate|intros (x & X & Y); injection X as <-; discriminate].
      + rewrite C. split; [intros (H & _); exact H|intros H; split; [exact H|reflexivity]].
    - intros j. rewrite F, find_put. cbn [n' n_id]. rewrite Ei. destruct (Nat.eqb_spec j i) as [->|N]; [rewrite Hn; reflexivity|destruct (find_node s j); reflexivity].
  Qed.
  Lemma update_vertex_inv s i : BInv s -> BInv (update_vertex s i).
  Proof.
    intros I. unfold LpaModel.update_vertex. destruct (find_node s i) as [n|] eqn:Hn; [|exact I].
    destruct (negb (ceq (n_g n) (n_r n))).
    - destruct (n_inq n) eqn:Hf; [|apply (insert_queue_inv s i n I Hn Hf)].
      destruct (remove_queue_inv s i I) as (I' & F). apply (insert_queue_inv _ i (mkN (n_id n) (n_g n) (n_h n) (n_r n) (n_k n) false (n_par n)) I'); [rewrite F, Hn, Nat.eqb_refl; reflexivity|reflexivity].
    - destruct (n_inq n); [apply remove_queue_inv; exact I|exact I].
  Qed.

  Notation choose_best := (choose_best hfun).
  Lemma best_in_inv : forall es s best bmin, BInv s -> BInv (fst (fst (best_in hfun s es best bmin))) /\
    (forall j n, find_node s j = Some n -> find_node (fst (fst (best_in hfun s es best bmin))) j = Some n).
  Proof.
    induction es as [|[u c] t IH]; intros s best bmin I; cbn [best_in]; [cbn [fst]; auto|].
    destruct (get_node_inv s u I) as (I1 & _ & _ & M1). destruct (get_node s u) as [s1 nu]. cbn [fst snd] in *.
    destruct (clt (cadd (n_g nu) c) bmin); [destruct (IH s1 (Some u) (cadd (n_g nu) c) I1) as (X & Y)|destruct (IH s1 best bmin I1) as (X & Y)]; (split; [exact X|intros j n H; apply Y, M1; exact H]).
  Qed.
  Lemma choose_best_inv s v : BInv s -> BInv (choose_best s v).
  Proof.
    intros I. unfold LpaModel.choose_best. destruct (best_in_inv (adj_of s v) s None None I) as (I1 & _).
    destruct (best_in hfun s (adj_of s v) None None) as [[s1 best] bmin]. cbn [fst] in I1.
    destruct (find_node s1 v) as [n|] eqn:Hn; [|exact I1]. destruct (find_node_spec s1 v n Hn) as (_ & Ei).
    apply (put_same_flag s1 _ n I1); [cbn [n_id]; rewrite Ei; exact Hn|reflexivity].
  Qed.
  Lemma insert_edge_inv s u v c : BInv s -> BInv (insert_edge false hfun s u v c).
  Proof.
    intros I. unfold LpaModel.insert_edge. destruct (get_node_inv s u I) as (I1 & _ & _ & _). destruct (get_node s u) as [s1 nu]. cbn [fst snd] in *.
    destruct (get_node_inv s1 v I1) as (I2 & F2 & _ & _). destruct (get_node s1 v) as [s2 nv]. cbn [fst snd] in *.
    destruct (clt (cadd (n_g nu) c) (n_r nv)); [|exact I2]. apply update_vertex_inv. destruct (find_node_spec s2 v nv F2) as (_ & Ei).
    apply (put_same_flag s2 _ nv I2); [cbn [n_id]; rewrite Ei; exact F2|reflexivity].
  Qed.
  Lemma remove_edge_inv s u v : BInv s -> BInv (remove_edge false hfun s u v).
  Proof.
    intros I. unfold LpaModel.remove_edge. destruct (get_node_inv s u I) as (I1 & _ & _ & _). destruct (get_node s u) as [s1 nu]. cbn [fst snd] in *.
    destruct (get_node_inv s1 v I1) as (I2 & _ & _ & _). destruct (get_node s1 v) as [s2 nv]. cbn [fst snd] in *.
    apply update_vertex_inv. destruct (n_par nv) as [p|]; [destruct (Nat.eqb p u); [apply choose_best_inv; exact I2|exact I2]|exact I2].
  Qed.
  Lemma op_insert_inv s u v c : BInv s -> BInv (op_insert false hfun s u v c).
  Proof. intros I. unfold op_insert. apply insert_edge_inv, insert_edge_inv. apply BInv_adj. exact I. Qed.
  Lemma op_remove_inv s u v : BInv s -> BInv (op_remove false hfun s u v).
  Proof. intros I. unfold op_remove. destruct (has_edge s u v); [|exact I]. apply remove_edge_inv, remove_edge_inv. apply BInv_adj. exact I. Qed.

  (* the search loop *)
  Lemma fold_inv {A} (f : lpa -> A -> lpa) : (forall s a, BInv s -> BInv (f s a)) -> forall l s, BInv s -> BInv (fold_left f l s).
  Proof. intros H. induction l as [|a t IH]; intros s I; [exact I|]. cbn [fold_left]. apply IH, H, I. Qed.
  Lemma over_step_inv s u : BInv s -> find_node s (n_id u) = Some u -> n_inq u = true -> hd_error (l_queue s) = Some (n_id u) -> BInv (over_step false hfun s u).
  Proof.
    intros I Hu Hf Hq. pose proof I as (A & B & C). unfold over_step.
    set (u' := mkN (n_id u) (n_r u) (n_h u) (n_r u) (n_k u) false (n_par u)).
    assert (I2 : BInv (mkLpa (l_nodes (put_node s u')) (tl (l_queue (put_node s u'))) (l_adj (put_node s u')) (l_src (put_node s u')) (l_tgt (put_node s u')))).
    { destruct (l_queue s) as [|q0 qt] eqn:Eq; [discriminate|]. cbn [hd_error] in Hq. injection Hq as ->. inversion B as [|? ? Hn0 Bt]; subst.
      split; [cbn [l_nodes]; change (NoDup (ids (put_node s u'))); rewrite ids_put; exact A|]. split; [cbn [l_queue put_node tl]; rewrite Eq; exact Bt|].
      intros j. cbn [l_queue put_node]. rewrite Eq. cbn [tl]. change (LpaModel.find_node {| l_nodes := l_nodes (put_node s u'); l_queue := qt; l_adj := _; l_src := _; l_tgt := _ |} j) with (find_node (put_node s u') j).
      rewrite find_put. cbn [u' n_id]. destruct (Nat.eqb_spec j (n_id u)) as [->|N].
      - rewrite Hu. split; [intros H; contradiction|intros (x & X & Y); injection X as <-; discriminate].
      - specialize (C j). cbn [In] in C. rewrite <- C. split; [intros H; right; exact H|intros [H|H]; [congruence|exact H]]. }
    apply fold_inv; [|exact I2]. intros st e Ist. destruct (get_node_inv st (fst e) Ist) as (I3 & F3 & _ & _). destruct (get_node st (fst e)) as [st1 nv]. cbn [fst snd] in *.
    destruct (clt (cadd (n_r u) (snd e)) (n_r nv)); [|exact I3]. apply update_vertex_inv. destruct (find_node_spec st1 (fst e) nv F3) as (_ & Ei).
    apply (put_same_flag st1 _ nv I3); [cbn [n_id]; rewrite Ei; exact F3|reflexivity].
  Qed.
  Lemma under_step_inv s u : BInv s -> find_node s (n_id u) = Some u -> BInv (under_step false hfun s u).
  Proof.
    intros I Hu. unfold under_step. apply fold_inv.
    - intros st e Ist. destruct (get_node_inv st (fst e) Ist) as (I3 & _ & _ & _). destruct (get_node st (fst e)) as [st1 nv]. cbn [fst snd] in *.
      destruct ((fst e =? l_src st1)%nat || negb match n_par nv with Some p => (p =? n_id u)%nat | None => false end); [exact I3|]. apply update_vertex_inv, choose_best_inv. exact I3.
    - apply update_vertex_inv. apply (put_same_flag s _ u I); [exact Hu|reflexivity].
  Qed.

  Lemma search_inv : forall fuel s, BInv s -> BInv (fst (search false hfun fuel s)).
  Proof.
    induction fuel as [|f IH]; intros s I; cbn [search]; [exact I|].
    destruct (l_queue s) as [|top qt] eqn:Eq; [exact I|]. destruct (find_node s (l_tgt s)) as [t|] eqn:Et; [|exact I]. destruct (find_node s top) as [u|] eqn:Eu; [|exact I].
    set (t' := mkN (n_id t) (n_g t) (n_h t) (n_r t) (calc_key t) (n_inq t) (n_par t)).
    destruct (find_node_spec s _ t Et) as (_ & Eit). destruct (find_node_spec s _ u Eu) as (_ & Eiu).
    assert (I0 : BInv (put_node s t')) by (apply (put_same_flag s t' t I); [cbn [t' n_id]; rewrite Eit; exact Et|reflexivity]).
    set (u0 := if (top =? l_tgt s)%nat then t' else u).
    destruct (klt (n_k u0) (n_k t') || negb (ceq (n_r t') (n_g t'))); [|exact I0]. apply IH.
    pose proof I as (A & B & C).
    assert (Hin : exists n, find_node s top = Some n /\ n_inq n = true) by (apply C; rewrite Eq; left; reflexivity). destruct Hin as (n & Hn & Hf). rewrite Eu in Hn. injection Hn as <-.
    assert (Eid : n_id u0 = top) by (unfold u0; destruct (Nat.eqb_spec top (l_tgt s)) as [E|N]; [cbn [t' n_id]; congruence|exact Eiu]).
    assert (F0 : find_node (put_node s t') (n_id u0) = Some u0).
    { rewrite find_put, Eid. cbn [t' n_id]. rewrite Eit. unfold u0. destruct (Nat.eqb_spec top (l_tgt s)) as [E|N]; [rewrite E, Et; reflexivity|exact Eu]. }
    assert (Hf0 : n_inq u0 = true).
    { unfold u0. destruct (Nat.eqb_spec top (l_tgt s)) as [E|N]; [|exact Hf]. cbn [t' n_inq]. rewrite E in Eu. rewrite Et in Eu. injection Eu as ->. exact Hf. }
    destruct (clt (n_r u0) (n_g u0)).
    - apply over_step_inv; [exact I0|exact F0|exact Hf0|]. cbn [put_node l_queue]. rewrite Eq, Eid. reflexivity.
    - apply under_step_inv; [exact I0|exact F0].
  Qed.
  Lemma shortest_path_inv fuel s : BInv s -> BInv (fst (fst (shortest_path false hfun fuel s))).
  Proof.
    intros I. unfold shortest_path. destruct (l_queue s) eqn:Eq; [exact I|]. pose proof (search_inv fuel s I) as I1. destruct (search false hfun fuel s) as [s1 fin]. cbn [fst] in I1.
    destruct (negb fin); [exact I1|]. destruct (find_node s1 (l_tgt s1)); exact I1.
  Qed.
  Lemma init_inv src tgt : src <> tgt -> BInv (lpa_init hfun src tgt).
  Proof.
    intros Hne. unfold lpa_init. set (ns := mkN src None (hfun src) (Some 0%Z) _ false None). set (nt := mkN tgt None 0%Z None _ false None).
    apply (insert_queue_inv _ src ns).
    - split; [cbn; constructor; [intros [H|[]]; congruence|constructor; [intros []|constructor]]|]. split; [constructor|].
      intros i. cbn [l_queue]. split; [intros []|]. intros (n & Hn & Hf). unfold LpaModel.find_node in Hn. cbn [l_nodes find ns nt n_id] in Hn.
      destruct (src =? i)%nat; [injection Hn as <-; discriminate|]. destruct (tgt =? i)%nat; [injection Hn as <-; discriminate|discriminate].
    - unfold LpaModel.find_node. cbn [l_nodes find ns n_id]. rewrite Nat.eqb_refl. reflexivity.
    - reflexivity.
  Qed.
  (* every history of operations *)
  Theorem lpa_history_inv src tgt fuel : src <> tgt -> forall ops,
    BInv (fold_left (fun s o => fst (lpa_step false hfun fuel s o)) ops (lpa_init hfun src tgt)).
  Proof.
    intros Hne ops. assert (H : forall ops s, BInv s -> BInv (fold_left (fun s o => fst (lpa_step false hfun fuel s o)) ops s)).
    { induction ops0 as [|o t IH]; intros s I; [exact I|]. cbn [fold_left]. apply IH. destruct o as [u v c|u v|]; cbn [lpa_step fst].
      - apply op_insert_inv; exact I.
      - apply op_remove_inv; exact I.
      - pose proof (shortest_path_inv fuel s I) as X. destruct (shortest_path false hfun fuel s) as [[s1 c] p]. exact X. }
    apply H. apply init_inv. exact Hne.
  Qed.

  (* ---- no inconsistent node outside the queue ---- *)
  (* every node other than those in [ex] that has g <> rhs carries the queued flag *)
  Definition CInv (ex : list nat) (s : lpa) : Prop :=
    forall i n, find_node s i = Some n -> ~ In i ex -> ceq (n_g n) (n_r n) = false -> n_inq n = true.
  Lemma CInv_weaken ex ex' s : (forall i, In i ex -> In i ex') -> CInv ex s -> CInv ex' s.
  Proof. intros H C i n Hn Hi Hc. apply (C i n Hn); [intros X; apply Hi, H, X|exact Hc]. Qed.
  Lemma get_node_cinv ex s i : BInv s -> CInv ex s -> CInv ex (fst (get_node s i)).
  Proof.
    intros I C. unfold LpaModel.get_node. destruct (find_node s i) as [n|] eqn:E; cbn [fst]; [exact C|].
    intros j m Hm Hj Hc. unfold LpaModel.find_node in Hm. cbn [l_nodes] in Hm. rewrite find_app in Hm. fold (find_node s j) in Hm.
    destruct (find_node s j) as [x|] eqn:Ej; [injection Hm as <-; apply (C j x Ej Hj Hc)|]. cbn [find new_node n_id] in Hm. destruct (i =? j)%nat; [injection Hm as <-; cbn in Hc; discriminate|discriminate].
  Qed.
  (* queue operations on node i do not touch g, rhs or the flag of any other node *)
  Lemma insert_queue_find s i j : BInv s -> find_node (insert_queue s i) j =
    match find_node s j with Some m => Some (if Nat.eqb j i then mkN (n_id m) (n_g m) (n_h m) (n_r m) (calc_key m) true (n_par m) else m) | None => None end.
  Proof.
    intros I. unfold LpaModel.insert_queue. destruct (find_node s i) as [n|] eqn:Hn.
    - destruct (find_node_spec s i n Hn) as (_ & Ei).
      change (LpaModel.find_node {| l_nodes := l_nodes (put_node s _); l_queue := _; l_adj := _; l_src := _; l_tgt := _ |} j) with (find_node (put_node s (mkN (n_id n) (n_g n) (n_h n) (n_r n) (calc_key n) true (n_par n))) j).
      rewrite find_put. cbn [n_id]. subst i. destruct (Nat.eqb_spec j (n_id n)) as [->|N]; [rewrite Hn; reflexivity|destruct (find_node s j); reflexivity].
    - destruct (find_node s j) as [m|] eqn:Ej; [|reflexivity]. destruct (Nat.eqb_spec j i) as [->|N]; [congruence|reflexivity].
  Qed.
  Lemma update_vertex_find s v j : BInv s -> j <> v -> find_node (update_vertex s v) j = find_node s j.
  Proof.
    intros I N. unfold LpaModel.update_vertex. destruct (find_node s v) as [n|] eqn:Hn; [|reflexivity].
    destruct (negb (ceq (n_g n) (n_r n))).
    - destruct (n_inq n).
      + destruct (remove_queue_inv s v I) as (I' & F). rewrite (insert_queue_find _ v j I'), F. destruct (find_node s j); [|reflexivity]. destruct (Nat.eqb_spec j v); [congruence|reflexivity].
      + rewrite (insert_queue_find _ v j I). destruct (find_node s j); [|reflexivity]. destruct (Nat.eqb_spec j v); [congruence|reflexivity].
    - destruct (n_inq n); [|reflexivity]. destruct (remove_queue_inv s v I) as (_ & F). rewrite F. destruct (find_node s j); [|reflexivity]. destruct (Nat.eqb_spec j v); [congruence|reflexivity].
  Qed.
  Lemma update_vertex_self s v n : BInv s -> find_node s v = Some n -> exists n', find_node (update_vertex s v) v = Some n' /\ n_g n' = n_g n /\ n_r n' = n_r n /\ n_par n' = n_par n /\
    (ceq (n_g n) (n_r n) = false -> n_inq n' = true).
  Proof.
    intros I Hn. unfold LpaModel.update_vertex. rewrite Hn. destruct (ceq (n_g n) (n_r n)) eqn:Ec; cbn [negb].
    - destruct (n_inq n) eqn:Hf.
      + destruct (remove_queue_inv s v I) as (_ & F). rewrite F, Hn, Nat.eqb_refl. eexists. split; [reflexivity|]. cbn. repeat split; auto; try discriminate.
      + exists n. repeat split; auto; try discriminate.
    - destruct (n_inq n) eqn:Hf.
      + destruct (remove_queue_inv s v I) as (I' & F). rewrite (insert_queue_find _ v v I'), F, Hn, !Nat.eqb_refl. eexists. split; [reflexivity|]. cbn. auto.
      + rewrite (insert_queue_find _ v v I), Hn, Nat.eqb_refl. eexists. split; [reflexivity|]. cbn. auto.
  Qed.
  (* updateVertex(v) restores the property at v and keeps it elsewhere *)
  Lemma update_vertex_cinv ex s v : BInv s -> CInv (v :: ex) s -> CInv ex (update_vertex s v).
  Proof.
    intros I C j m Hm Hj Hc. destruct (Nat.eq_dec j v) as [->|N].
    - destruct (find_node s v) as [n|] eqn:Hn.
      + destruct (update_vertex_self s v n I Hn) as (n' & F & G1 & G2 & _ & G4). rewrite F in Hm. injection Hm as <-. apply G4. rewrite <- G1, <- G2. exact Hc.
      + unfold LpaModel.update_vertex in Hm. rewrite Hn in Hm. congruence.
    - rewrite (update_vertex_find s v j I N) in Hm. apply (C j m Hm); [intros [E|E]; [congruence|exact (Hj E)]|exact Hc].
  Qed.
  (* changing g / rhs / parent of node v only: the property may now fail at v alone *)
  Lemma put_cinv ex s n m : BInv s -> CInv ex s -> find_node s (n_id n) = Some m -> CInv (n_id n :: ex) (put_node s n).
  Proof.
    intros I C Hm j x Hx Hj Hc. rewrite find_put in Hx. destruct (Nat.eqb_spec j (n_id n)) as [->|N]; [exfalso; apply Hj; left; reflexivity|].
    apply (C j x Hx); [intros E; apply Hj; right; exact E|exact Hc].
  Qed.

  Definition WInv (s : lpa) : Prop := BInv s /\ CInv [] s.
  Lemma put_keep_cinv ex s n m : CInv ex s -> find_node s (n_id n) = Some m -> (ceq (n_g n) (n_r n) = false -> n_inq n = true) -> CInv ex (put_node s n).
  Proof.
    intros C Hm Hk j x Hx Hj Hc. rewrite find_put in Hx. destruct (Nat.eqb_spec j (n_id n)) as [->|N]; [rewrite Hm in Hx; injection Hx as <-; apply Hk; exact Hc|apply (C j x Hx Hj Hc)].
  Qed.
  Lemma best_in_cinv ex : forall es s best bmin, BInv s -> CInv ex s -> CInv ex (fst (fst (best_in hfun s es best bmin))).
  Proof.
    induction es as [|[u c] t IH]; intros s best bmin I C; cbn [best_in]; [exact C|].
    pose proof (get_node_cinv ex s u I C) as C1. destruct (get_node_inv s u I) as (I1 & _). destruct (get_node s u) as [s1 nu]. cbn [fst snd] in *.
    destruct (clt (cadd (n_g nu) c) bmin); apply IH; assumption.
  Qed.
  Lemma choose_best_cinv ex s v : BInv s -> CInv ex s -> CInv (v :: ex) (choose_best s v).
  Proof.
    intros I C. unfold LpaModel.choose_best. pose proof (best_in_cinv ex (adj_of s v) s None None I C) as C1. destruct (best_in_inv (adj_of s v) s None None I) as (I1 & _).
    destruct (best_in hfun s (adj_of s v) None None) as [[s1 best] bmin]. cbn [fst] in *.
    destruct (find_node s1 v) as [n|] eqn:Hn; [|apply (CInv_weaken ex); [intros i H; right; exact H|exact C1]].
    destruct (find_node_spec s1 v n Hn) as (_ & Ei). rewrite <- Ei at 1.
    apply (put_cinv ex s1 (mkN (n_id n) (n_g n) (n_h n) bmin (n_k n) (n_inq n) best) n I1 C1). cbn [n_id]. rewrite Ei. exact Hn.
  Qed.
  Lemma insert_edge_winv s u v c : WInv s -> WInv (insert_edge false hfun s u v c).
  Proof.
    intros (I & C). split; [apply insert_edge_inv; exact I|]. unfold LpaModel.insert_edge.
    pose proof (get_node_cinv [] s u I C) as C1. destruct (get_node_inv s u I) as (I1 & _). destruct (get_node s u) as [s1 nu]. cbn [fst snd] in *.
    pose proof (get_node_cinv [] s1 v I1 C1) as C2. destruct (get_node_inv s1 v I1) as (I2 & F2 & _). destruct (get_node s1 v) as [s2 nv]. cbn [fst snd] in *.
    destruct (clt (cadd (n_g nu) c) (n_r nv)); [|exact C2]. destruct (find_node_spec s2 v nv F2) as (_ & Ei).
    set (nv' := mkN (n_id nv) (n_g nv) (n_h nv) (cadd (n_g nu) c) (n_k nv) (n_inq nv) (Some u)).
    apply update_vertex_cinv; [apply (put_same_flag s2 nv' nv I2); [cbn [nv' n_id]; rewrite Ei; exact F2|reflexivity]|].
    rewrite <- Ei. apply (put_cinv [] s2 nv' nv I2 C2). cbn [nv' n_id]. rewrite Ei. exact F2.
  Qed.
  Lemma remove_edge_winv s u v : WInv s -> WInv (remove_edge false hfun s u v).
  Proof.
    intros (I & C). split; [apply remove_edge_inv; exact I|]. unfold LpaModel.remove_edge.
    pose proof (get_node_cinv [] s u I C) as C1. destruct (get_node_inv s u I) as (I1 & _). destruct (get_node s u) as [s1 nu]. cbn [fst snd] in *.
    pose proof (get_node_cinv [] s1 v I1 C1) as C2. destruct (get_node_inv s1 v I1) as (I2 & _). destruct (get_node s1 v) as [s2 nv]. cbn [fst snd] in *.
    assert (W : CInv [v] s2) by (apply (CInv_weaken []); [intros i []|exact C2]).
    destruct (n_par nv) as [p|]; [destruct (Nat.eqb p u)|]; apply update_vertex_cinv; try assumption; [apply choose_best_inv; exact I2|apply choose_best_cinv; assumption].
  Qed.
  Lemma WInv_adj s adj : WInv s -> WInv (mkLpa (l_nodes s) (l_queue s) adj (l_src s) (l_tgt s)).
  Proof. intros H. exact H. Qed.
  Lemma op_insert_winv s u v c : WInv s -> WInv (op_insert false hfun s u v c).
  Proof. intros W. unfold op_insert. apply insert_edge_winv, insert_edge_winv, WInv_adj, W. Qed.
  Lemma op_remove_winv s u v : WInv s -> WInv (op_remove false hfun s u v).
  Proof. intros W. unfold op_remove. destruct (has_edge s u v); [|exact W]. apply remove_edge_winv, remove_edge_winv, WInv_adj, W. Qed.
  Lemma fold_winv {A} (f : lpa -> A -> lpa) : (forall s a, WInv s -> WInv (f s a)) -> forall l s, WInv s -> WInv (fold_left f l s).
  Proof. intros H. induction l as [|a t IH]; intros s W; [exact W|]. cbn [fold_left]. apply IH, H, W. Qed.
  Lemma over_step_winv s u : WInv s -> find_node s (n_id u) = Some u -> n_inq u = true -> hd_error (l_queue s) = Some (n_id u) -> WInv (over_step false hfun s u).
  Proof.
    intros (I & C) Hu Hf Hq. split; [apply over_step_inv; assumption|].
    pose proof I as (A & B & Cq). unfold over_step.
    set (u' := mkN (n_id u) (n_r u) (n_h u) (n_r u) (n_k u) false (n_par u)).
    set (s2 := mkLpa (l_nodes (put_node s u')) (tl (l_queue (put_node s u'))) (l_adj (put_node s u')) (l_src (put_node s u')) (l_tgt (put_node s u'))).
    assert (I2 : BInv s2).
    { destruct (l_queue s) as [|q0 qt] eqn:Eq; [discriminate|]. cbn [hd_error] in Hq. injection Hq as ->. inversion B as [|? ? Hn0 Bt]; subst.
      split; [cbn [l_nodes s2]; change (NoDup (ids (put_node s u'))); rewrite ids_put; exact A|]. split; [cbn [l_queue put_node tl s2]; rewrite Eq; exact Bt|].
      intros j. cbn [l_queue put_node s2]. rewrite Eq. cbn [tl]. change (LpaModel.find_node s2 j) with (find_node (put_node s u') j).
      rewrite find_put. cbn [u' n_id]. destruct (Nat.eqb_spec j (n_id u)) as [->|N].
      - rewrite Hu. split; [intros H; contradiction|intros (x & X & Y); injection X as <-; discriminate].
      - specialize (Cq j). cbn [In] in Cq. rewrite <- Cq. split; [intros H; right; exact H|intros [H|H]; [congruence|exact H]]. }
    assert (C2 : CInv [] s2).
    { intros j x Hx Hj Hc. change (LpaModel.find_node s2 j) with (find_node (put_node s u') j) in Hx. revert Hx Hj Hc. apply (put_keep_cinv [] s u' u C Hu).
      cbn [u' n_g n_r]. intros Hc'. destruct (n_r u) as [z|]; cbn in Hc'; [rewrite Z.eqb_refl in Hc'; discriminate|discriminate]. }
    assert (W2 : WInv s2) by (split; assumption).
    change (CInv [] (fold_left (fun st e => let '(st1, nv) := get_node st (fst e) in
              if clt (cadd (n_r u) (snd e)) (n_r nv) then LpaModel.update_vertex false (put_node st1 (mkN (n_id nv) (n_g nv) (n_h nv) (cadd (n_r u) (snd e)) (n_k nv) (n_inq nv) (Some (n_id u)))) (fst e) else st1) (adj_of s2 (n_id u)) s2)).
    apply fold_winv; [|exact W2]. clear - hfun. intros st e (Ist & Cst). 
    pose proof (get_node_cinv [] st (fst e) Ist Cst) as C3. destruct (get_node_inv st (fst e) Ist) as (I3 & F3 & _). destruct (get_node st (fst e)) as [st1 nv]. cbn [fst snd] in *.
    destruct (clt (cadd (n_r u) (snd e)) (n_r nv)); [|split; assumption]. destruct (find_node_spec st1 (fst e) nv F3) as (_ & Ei).
    set (nv' := mkN (n_id nv) (n_g nv) (n_h nv) (cadd (n_r u) (snd e)) (n_k nv) (n_inq nv) (Some (n_id u))).
    assert (Ip : BInv (put_node st1 nv')) by (apply (put_same_flag st1 nv' nv I3); [cbn [nv' n_id]; rewrite Ei; exact F3|reflexivity]).
    split; [apply update_vertex_inv; exact Ip|]. apply update_vertex_cinv; [exact Ip|]. rewrite <- Ei. apply (put_cinv [] st1 nv' nv I3 C3). cbn [nv' n_id]. rewrite Ei. exact F3.
  Qed.

  Lemma under_step_winv s u : WInv s -> find_node s (n_id u) = Some u -> WInv (under_step false hfun s u).
  Proof.
    intros (I & C) Hu. split; [apply under_step_inv; assumption|]. unfold under_step.
    set (u' := mkN (n_id u) None (n_h u) (n_r u) (n_k u) (n_inq u) (n_par u)).
    assert (Ip : BInv (put_node s u')) by (apply (put_same_flag s u' u I); [exact Hu|reflexivity]).
    assert (W1 : WInv (LpaModel.update_vertex false (put_node s u') (n_id u))).
    { split; [apply update_vertex_inv; exact Ip|]. apply update_vertex_cinv; [exact Ip|]. apply (put_cinv [] s u' u I C Hu). }
    change (CInv [] (fold_left (fun st e => let '(st1, nv) := get_node st (fst e) in
              if Nat.eqb (fst e) (l_src st1) || negb (match n_par nv with Some p => Nat.eqb p (n_id u) | None => false end) then st1
              else LpaModel.update_vertex false (choose_best st1 (fst e)) (fst e)) (adj_of (LpaModel.update_vertex false (put_node s u') (n_id u)) (n_id u)) (LpaModel.update_vertex false (put_node s u') (n_id u)))).
    apply fold_winv; [|exact W1]. clear - hfun. intros st e (Ist & Cst).
    pose proof (get_node_cinv [] st (fst e) Ist Cst) as C3. destruct (get_node_inv st (fst e) Ist) as (I3 & _). destruct (get_node st (fst e)) as [st1 nv]. cbn [fst snd] in *.
    destruct ((fst e =? l_src st1)%nat || negb match n_par nv with Some p => (p =? n_id u)%nat | None => false end); [split; assumption|].
    split; [apply update_vertex_inv, choose_best_inv; exact I3|]. apply update_vertex_cinv; [apply choose_best_inv; exact I3|apply choose_best_cinv; assumption].
  Qed.
  Lemma search_winv : forall fuel s, WInv s -> WInv (fst (search false hfun fuel s)).
  Proof.
    induction fuel as [|f IH]; intros s W; cbn [search]; [exact W|]. pose proof W as (I & C).
    destruct (l_queue s) as [|top qt] eqn:Eq; [exact W|]. destruct (find_node s (l_tgt s)) as [t|] eqn:Et; [|exact W]. destruct (find_node s top) as [u|] eqn:Eu; [|exact W].
    set (t' := mkN (n_id t) (n_g t) (n_h t) (n_r t) (calc_key t) (n_inq t) (n_par t)).
    destruct (find_node_spec s _ t Et) as (_ & Eit). destruct (find_node_spec s _ u Eu) as (_ & Eiu).
    assert (Ht' : find_node s (n_id t') = Some t) by (cbn [t' n_id]; rewrite Eit; exact Et).
    assert (I0 : BInv (put_node s t')) by (apply (put_same_flag s t' t I Ht'); reflexivity).
    assert (C0 : CInv [] (put_node s t')).
    { apply (put_keep_cinv [] s t' t C Ht'). cbn [t' n_g n_r n_inq]. intros Hc. apply (C _ t Et); [intros []|exact Hc]. }
    assert (W0 : WInv (put_node s t')) by (split; assumption).
    set (u0 := if (top =? l_tgt s)%nat then t' else u).
    destruct (klt (n_k u0) (n_k t') || negb (ceq (n_r t') (n_g t'))); [|exact W0]. apply IH.
    pose proof I as (A & B & Cq).
    assert (Hin : exists n, find_node s top = Some n /\ n_inq n = true) by (apply Cq; rewrite Eq; left; reflexivity). destruct Hin as (n & Hn & Hf). rewrite Eu in Hn. injection Hn as <-.
    assert (Eid : n_id u0 = top) by (unfold u0; destruct (Nat.eqb_spec top (l_tgt s)) as [E|N]; [cbn [t' n_id]; congruence|exact Eiu]).
    assert (F0 : find_node (put_node s t') (n_id u0) = Some u0).
    { rewrite find_put, Eid. cbn [t' n_id]. rewrite Eit. unfold u0. destruct (Nat.eqb_spec top (l_tgt s)) as [E|N]; [rewrite E, Et; reflexivity|exact Eu]. }
    assert (Hf0 : n_inq u0 = true).
    { unfold u0. destruct (Nat.eqb_spec top (l_tgt s)) as [E|N]; [|exact Hf]. cbn [t' n_inq]. rewrite E in Eu. rewrite Et in Eu. injection Eu as ->. exact Hf. }
    destruct (clt (n_r u0) (n_g u0)).
    - apply over_step_winv; [exact W0|exact F0|exact Hf0|]. cbn [put_node l_queue]. rewrite Eq, Eid. reflexivity.
    - apply under_step_winv; [exact W0|exact F0].
  Qed.
  Lemma shortest_path_winv fuel s : WInv s -> WInv (fst (fst (shortest_path false hfun fuel s))).
  Proof.
    intros W. unfold shortest_path. destruct (l_queue s) eqn:Eq; [exact W|]. pose proof (search_winv fuel s W) as W1. destruct (search false hfun fuel s) as [s1 fin]. cbn [fst] in W1.
    destruct (negb fin); [exact W1|]. destruct (find_node s1 (l_tgt s1)); exact W1.
  Qed.
  Lemma init_winv src tgt : src <> tgt -> WInv (lpa_init hfun src tgt).
  Proof.
    intros Hne. split; [apply init_inv; exact Hne|]. intros j x Hx _ Hc. unfold lpa_init in Hx. rewrite insert_queue_find in Hx.
    - unfold LpaModel.find_node in Hx. cbn [l_nodes find n_id] in Hx. destruct (Nat.eqb_spec src j) as [->|N1].
      + rewrite Nat.eqb_refl in Hx. injection Hx as <-. reflexivity.
      + destruct (Nat.eqb_spec tgt j) as [->|N2]; [|discriminate]. destruct (Nat.eqb_spec j src); [congruence|]. injection Hx as <-. cbn in Hc. discriminate.
    - split; [cbn; constructor; [intros [H|[]]; congruence|constructor; [intros []|constructor]]|]. split; [constructor|].
      intros i. cbn [l_queue]. split; [intros []|]. intros (n & Hn & Hf). unfold LpaModel.find_node in Hn. cbn [l_nodes find n_id] in Hn.
      destruct (src =? i)%nat; [injection Hn as <-; discriminate|]. destruct (tgt =? i)%nat; [injection Hn as <-; discriminate|discriminate].
  Qed.
  (* every history of operations: flags and queue agree, and no inconsistent node is outside the queue *)
  Theorem lpa_history_winv src tgt fuel : src <> tgt -> forall ops,
    WInv (fold_left (fun s o => fst (lpa_step false hfun fuel s o)) ops (lpa_init hfun src tgt)).
  Proof.
    intros Hne ops. assert (H : forall ops s, WInv s -> WInv (fold_left (fun s o => fst (lpa_step false hfun fuel s o)) ops s)).
    { induction ops0 as [|o t IH]; intros s W; [exact W|]. cbn [fold_left]. apply IH. destruct o as [u v c|u v|]; cbn [lpa_step fst].
      - apply op_insert_winv; exact W.
      - apply op_remove_winv; exact W.
      - pose proof (shortest_path_winv fuel s W) as X. destruct (shortest_path false hfun fuel s) as [[s1 c] p]. exact X. }
    apply H. apply init_winv. exact Hne.
  Qed.
End LpaP.
