(* ThreadModel.v — a small interleaving theory for the mechanisms the thread-safe surface of OMPL relies on, and the
   configuration record that a translator regenerates from /repo's sources on every run (lib/thread_config.py).
   Counters: a shared counter incremented by several threads, either by an atomic read-modify-write or by a plain
   read followed by a write.  Locked structures: every operation on the shared structure runs under one mutex, so an
   execution is a merge of the threads' operation lists. *)
From Coq Require Import List ZArith Bool Arith.
Import ListNotations.

(* ---- counters *)
Inductive cev := AInc (t : nat) | PRead (t : nat) | PWrite (t : nat).
Record cstate := mkCS { shared : nat; regs : nat -> nat }.
Definition upd (f : nat -> nat) (t v : nat) : nat -> nat := fun x => if Nat.eqb x t then v else f x.
Definition cstep (s : cstate) (e : cev) : cstate :=
  match e with
  | AInc _ => mkCS (S (shared s)) (regs s)
  | PRead t => mkCS (shared s) (upd (regs s) t (shared s))
  | PWrite t => mkCS (S (regs s t)) (regs s)
  end.
Definition crun (sched : list cev) : cstate := fold_left cstep sched (mkCS 0 (fun _ => 0)).
Definition is_ainc (e : cev) : bool := match e with AInc _ => true | _ => false end.
Definition count_incs (sched : list cev) : nat := length (filter is_ainc sched).

(* ---- one structure behind one mutex: an execution is a schedule of (thread, operation) *)
Section Locked.
  Variables S Op Out : Type.
  Variable apply : S -> Op -> S * Out.
  Fixpoint lrun (s : S) (sched : list (nat * Op)) : S * list (nat * Out) :=
    match sched with
    | [] => (s, [])
    | (t, o) :: r => let '(s1, out) := apply s o in let '(s2, outs) := lrun s1 r in (s2, (t, out) :: outs)
    end.
  (* what thread t did / saw, in its own order *)
  Definition proj_ops (t : nat) (sched : list (nat * Op)) : list Op := map snd (filter (fun p => Nat.eqb (fst p) t) sched).
  Definition proj_outs (t : nat) (outs : list (nat * Out)) : list Out := map snd (filter (fun p => Nat.eqb (fst p) t) outs).
  (* the sequential execution of the same operations in schedule order, by one thread *)
  Fixpoint srun (s : S) (ops : list Op) : S * list Out :=
    match ops with
    | [] => (s, [])
    | o :: r => let '(s1, out) := apply s o in let '(s2, outs) := srun s1 r in (s2, out :: outs)
    end.
End Locked.

(* ---- what the translator extracts from the sources *)
Record config := mkCfg {
  mv_counters_atomic : bool;        (* MotionValidator::valid_ / invalid_ are std::atomic *)
  mv_increments_rmw : bool;         (* DiscreteMotionValidator only uses ++ / += on them (one read-modify-write) *)
  ptc_flags_atomic : bool;          (* PlannerTerminationCondition: terminate_, evalValue_, signalThreadStop_ are std::atomic *)
  ptc_eval_terminate_first : bool;  (* eval() tests terminate_ before anything else, and terminate() writes nothing but terminate_ / the stop signal *)
  prrt_atomic_steps : bool;         (* pRRT::threadSolve: nearest(), parent + add(), solution and approximate-solution updates are each one critical section *)
  pdef_solutions_locked : bool;     (* every method of PlannerSolutionSet takes its mutex first *)
  rng_seeds_locked : bool;          (* RNGSeedGenerator methods take the mutex; creation through call_once *)
  spaces_registry_locked : bool;    (* the registry of allocated state spaces is guarded by its mutex in every function that touches it *)
  console_locked : bool;            (* log output is serialised by a mutex *)
  gnat_query_no_shared_scratch : bool;    (* the thread-safe GNAT keeps no mutable per-query scratch data in the object *)
  prm_bestcost_before_thread : bool }.    (* PRM::solve resets bestCost_ before it starts the solution checking thread, and constructRoadmap does not overwrite it *)
Definition config_ok (c : config) : bool :=
  mv_counters_atomic c && mv_increments_rmw c && ptc_flags_atomic c && ptc_eval_terminate_first c && prrt_atomic_steps c && pdef_solutions_locked c && rng_seeds_locked c &&
  spaces_registry_locked c && console_locked c && gnat_query_no_shared_scratch c && prm_bestcost_before_thread c.
(* the schedule shape a configuration allows for the motion counters: atomic increments only, or read/write pairs *)
Definition counter_events_ok (c : config) (sched : list cev) : bool :=
  if mv_counters_atomic c && mv_increments_rmw c then forallb is_ainc sched else true.

(* ---- a termination condition with an evaluation thread, as a machine over its two atomic flags.  Events of any number
   of threads, in the order in which they take effect: a call of terminate(), the evaluation thread storing the value
   its predicate returned, a call of eval().  [first] says which of two designs is in the sources: eval() tests
   terminate_ first (the shipped one), or eval() of a periodic condition only reads the cached value and terminate()
   also writes that value (a design that looks equivalent and is not). *)
Inductive pev := PTerminate | PThreadStore (v : bool) | PEval.
Record pst := mkP { p_term : bool; p_cached : bool }.
Definition pstep (first periodic fn : bool) (s : pst) (e : pev) : pst * option bool :=
  match e with
  | PTerminate => (if first then mkP true (p_cached s) else mkP true true, None)
  | PThreadStore v => (mkP (p_term s) v, None)
  | PEval => (s, Some (if first then p_term s || (if periodic then p_cached s else fn)
                       else if periodic then p_cached s else p_term s || fn))
  end.
Fixpoint prun (first periodic fn : bool) (s : pst) (l : list pev) : list bool :=
  match l with
  | [] => []
  | e :: t => let '(s1, o) := pstep first periodic fn s e in
              match o with Some b => b :: prun first periodic fn s1 t | None => prun first periodic fn s1 t end
  end.

(* ---- PRM's best cost: the planning thread resets it (BInit: bestCost_ = infinite cost), the solution checking thread lowers it
   to the cost of every path it finds (BStore c: if c is better than bestCost_ then bestCost_ = c).  Events in the order in
   which they take effect; after the thread has been joined solve() stores the final value with the solution.  None = infinite.
   Resetting before the thread is started means that every BStore of the call comes after its BInit. *)
Inductive bev := BInit | BStore (c : nat).
Definition bstep (s : option nat) (e : bev) : option nat :=
  match e with
  | BInit => None
  | BStore c => match s with None => Some c | Some b => Some (Nat.min b c) end
  end.
Definition brun (s : option nat) (l : list bev) : option nat := fold_left bstep l s.
