(* RrtConnectModel.v — geometric::RRTConnect::solve (without intermediate states) over abstract collaborators: two trees grown
   alternately, goal states entering the goal tree on demand, growTree with its three outcomes, the connect loop, the
   junction of the two trees into the reported path, and the approximate solution kept for the start tree. *)
From Coq Require Import List Bool Arith.
Import ListNotations.

Section Rc.
  Variables St D : Type.
  Variable dist : St -> St -> D.
  Variable dlt : D -> D -> bool.
  Variable steer : St -> St -> option (St * bool).   (* from the nearest state towards the target: None = no progress (equalStates after interpolation);
                                                        Some (state to add, whether it is the target itself) *)
  Variable mvS : St -> St -> bool.                   (* start tree: checkMotion(nearest, new) *)
  Variable mvG : St -> St -> bool.                   (* goal tree: isValid(new) && checkMotion(new, nearest), arguments (new, nearest) *)
  Variable gdist : St -> D.                          (* goal->isSatisfied(state, &dist): the distance *)
  Variable goals : list St.                          (* the valid goal states PlannerInputStates::nextGoal hands out, in order *)
  Variable dflt : St.

  Definition node := (St * option nat)%type.
  Fixpoint nearest_from (tree : list node) (q : St) (j best : nat) (bd : D) : nat :=
    match tree with
    | [] => best
    | (s, _) :: t => if dlt (dist s q) bd then nearest_from t q (S j) j (dist s q) else nearest_from t q (S j) best bd
    end.
  Definition nearest (tree : list node) (q : St) : nat :=
    match tree with [] => O | (s, _) :: t => nearest_from t q 1 O (dist s q) end.
  Definition st_at (tree : list node) (i : nat) : St := fst (nth i tree (dflt, None)).

  Inductive gstate := Trapped | Advanced | Reached.
  (* growTree: at most one node appended *)
  Definition grow (tree : list node) (is_start : bool) (r : St) : list node * gstate :=
    let ni := nearest tree r in
    let n := st_at tree ni in
    match steer n r with
    | None => (tree, Trapped)
    | Some (d, reach) =>
      if (if is_start then mvS n d else mvG d n) then (tree ++ [(d, Some ni)], if reach then Reached else Advanced)
      else (tree, Trapped)
    end.
  (* while (gsc == ADVANCED) gsc = growTree(otherTree, ...) *)
  Fixpoint connect_more (fuel : nat) (tree : list node) (is_start : bool) (r : St) : list node * gstate :=
    match fuel with
    | O => (tree, Advanced)
    | S f => let '(t', g) := grow tree is_start r in match g with Advanced => connect_more f t' is_start r | _ => (t', g) end
    end.

  Record cst := mkC { c_ts : list node; c_tg : list node; c_flag : bool (* startTree_ *); c_gcount : nat;
                      c_approx : option (nat * D); c_sol : option (nat * nat) (* start-tree motion, goal-tree motion of the connection *) }.
  Definition add_goal (s : cst) : cst :=
    if (length (c_tg s) =? 0)%nat || (c_gcount s <? Nat.div (length (c_tg s)) 2)%nat then
      match nth_error goals (c_gcount s) with
      | Some g => mkC (c_ts s) (c_tg s ++ [(g, None)]) (c_flag s) (S (c_gcount s)) (c_approx s) (c_sol s)
      | None => s
      end
    else s.
  Definition upd_approx (s : cst) (ts : list node) (i : nat) : option (nat * D) :=
    match c_approx s with
    | Some (_, bd) => if dlt (gdist (st_at ts i)) bd then Some (i, gdist (st_at ts i)) else c_approx s
    | None => Some (i, gdist (st_at ts i))
    end.
  Definition rc_step (fuel : nat) (s0 : cst) (r : St) : cst :=
    let is_start := c_flag s0 in
    let s := add_goal (mkC (c_ts s0) (c_tg s0) (negb is_start) (c_gcount s0) (c_approx s0) (c_sol s0)) in
    match c_tg s with
    | [] => s                                              (* INVALID_GOAL: the loop ends *)
    | _ =>
      let tree := if is_start then c_ts s else c_tg s in
      let other := if is_start then c_tg s else c_ts s in
      let '(tree1, gs) := grow tree is_start r in
      match gs with
      | Trapped => s
      | _ =>
        let added := length tree in
        let r' := st_at tree1 added in
        let '(other1, gsc0) := grow other (negb is_start) r' in
        let tgi_start := match gsc0 with Trapped => is_start | _ => negb is_start end in
        let '(other2, gsc) := match gsc0 with Advanced => connect_more fuel other1 (negb is_start) r' | _ => (other1, gsc0) end in
        let ts' := if is_start then tree1 else other2 in
        let tg' := if is_start then other2 else tree1 in
        (* tgi.xmotion: the last motion created *)
        let x_in_other := match gsc0 with Trapped => false | _ => true end in
        let xidx := if x_in_other then length other2 - 1 else added in
        match gsc with
        | Reached =>
          let sm := if tgi_start then xidx else added in
          let gm := if tgi_start then added else xidx in
          mkC ts' tg' (c_flag s) (c_gcount s) (c_approx s) (Some (sm, gm))
        | _ =>
          if tgi_start then mkC ts' tg' (c_flag s) (c_gcount s) (upd_approx s ts' xidx) None
          else mkC ts' tg' (c_flag s) (c_gcount s) (c_approx s) None
        end
      end
    end.
  Fixpoint rc_loop (fuel : nat) (s : cst) (samples : list St) : cst :=
    match c_sol s with
    | Some _ => s
    | None => match samples with
              | [] => s
              | r :: t => let s' := rc_step fuel s r in
                          match c_tg s' with [] => s' | _ => rc_loop fuel s' t end
              end
    end.
  (* root-first chain of states to node i *)
  Fixpoint chain (fuel : nat) (tree : list node) (i : nat) : list St :=
    match fuel with
    | O => []
    | S f => match nth_error tree i with
             | None => []
             | Some (s, None) => [s]
             | Some (s, Some p) => chain f tree p ++ [s]
             end
    end.
  Definition parent_of (tree : list node) (i : nat) : option nat := match nth_error tree i with Some (_, p) => p | None => None end.
  (* the reported path *)
  Definition rc_report (s : cst) : option (list St * bool * option D) :=
    match c_sol s with
    | Some (sm, gm) =>
      let fs := S (length (c_ts s)) in let fg := S (length (c_tg s)) in
      Some (match parent_of (c_ts s) sm with
            | Some p => chain fs (c_ts s) p ++ rev (chain fg (c_tg s) gm)
            | None => chain fs (c_ts s) sm ++ rev (match parent_of (c_tg s) gm with Some q => chain fg (c_tg s) q | None => [] end)
            end, false, None)
    | None =>
      match c_approx s with
      | Some (i, dd) => Some (chain (S (length (c_ts s))) (c_ts s) i, true, Some dd)
      | None => None
      end
    end.
  Definition rc_solve (fuel : nat) (starts : list St) (samples : list St) : cst * option (list St * bool * option D) :=
    let s := rc_loop fuel (mkC (map (fun x => (x, None)) starts) [] true 0 None None) samples in (s, rc_report s).
  (* further solve() calls without clear(): both trees, the alternation flag and the count of goal states taken are kept, the
     solution and the approximate solution are local to a call *)
  Definition rc_resume (fuel : nat) (s : cst) (samples : list St) : cst :=
    rc_loop fuel (mkC (c_ts s) (c_tg s) (c_flag s) (c_gcount s) None None) samples.
  Fixpoint rc_calls (fuel : nat) (s : cst) (calls : list (list St)) : cst * list (option (list St * bool * option D)) :=
    match calls with
    | [] => (s, [])
    | smp :: rest => let s1 := rc_resume fuel s smp in let '(s2, reps) := rc_calls fuel s1 rest in (s2, rc_report s1 :: reps)
    end.
  Definition rc_solves (fuel : nat) (starts : list St) (calls : list (list St)) :=
    rc_calls fuel (mkC (map (fun x => (x, None)) starts) [] true 0 None None) calls.
End Rc.
