(* Properties_C20.v — property C20 (a fixed seed reproduces the random streams).  Statements only. *)
From Coq Require Import List NArith Bool Arith Floats.
From OmplV Require Import SeedModel SeedProofs RngModel RngProofs.
Import ListNotations.
Local Open Scope N_scope.

(* setting the global seed before any generator exists fixes the whole sequence of local seeds, whatever the
   clock-derived initial state of the seed generator was *)
Theorem C20_seed_sequence_independent_of_initial_state :
  forall g s n, 0 < s -> some_generated g = false ->
    seeds_from n (set_seed s g) = local_seeds s n /\ first_seed (set_seed s g) = Some s.
Proof.
  intros g s n Hs Hg. unfold local_seeds. rewrite (set_seed_fresh g s Hs Hg), (set_seed_fresh sg_init s Hs eq_refl). split; reflexivity.
Qed.

(* the i-th generator's seed depends only on the global seed and on i (not on how many are created later) *)
Theorem C20_ith_seed_depends_on_seed_and_index :
  forall s n m, firstn n (local_seeds s (n + m)) = local_seeds s n.
Proof. intros. apply seeds_prefix. Qed.

(* local seeds are in [1, 10^9] *)
Theorem C20_local_seed_range :
  forall g v g', next_seed g = (Seed v, g') -> 1 <= v <= 1000000000.
Proof.
  intros g v g' H. unfold next_seed in H. destruct (eng g) as [e|]; [|discriminate].
  destruct (draw_seed 64 e) as [[s e']|] eqn:E; [|discriminate]. injection H as <- _. apply (draw_seed_range 64 e s e' E).
Qed.

(* changing the seed after generators exist does not change the recorded first seed (the documented error path) *)
Theorem C20_late_set_seed_keeps_first_seed :
  forall g s, some_generated g = true -> first_seed (set_seed s g) = first_seed g.
Proof. intros g s H. unfold set_seed. rewrite H. destruct (0 <? s); reflexivity. Qed.

(* a generator reseeded with a local seed reproduces the stream of a fresh generator with that seed, for
   every earlier history (engine state, pending cached normal variate, sphere generators) *)
Theorem C20_reseed_reproduces_stream :
  forall (E V K : Type) (seedE : N -> E) (draw : K -> E * caches V -> V * (E * caches V)) s st ks,
    draws E V K draw (set_local_seed E seedE V s st) ks = draws E V K draw (rng_fresh E seedE V s) ks.
Proof. intros. apply reseed_reproduces. Qed.

(* ---- the generator behind a local seed (RngModel: std::mt19937 and std::uniform_real_distribution as libstdc++ 12 implements them;
   the check compares its draws with ompl::RNG's bit for bit).  The stream of the i-th generator created after setSeed(s): *)
Definition ith_generator_stream (s : N) (i n : nat) : option (list float) :=
  match nth_error (local_seeds s (S i)) i with Some (Seed v) => Some (rng_uniform01_stream v n) | _ => None end.
(* it depends only on the global seed and on i, however many generators are created afterwards *)
Theorem C20_ith_generator_stream_depends_on_seed_and_index :
  forall s i n m, match nth_error (local_seeds s (S i + m)) i with Some (Seed v) => Some (rng_uniform01_stream v n) | _ => None end = ith_generator_stream s i n.
Proof.
  intros s i n m. unfold ith_generator_stream. rewrite <- (C20_ith_seed_depends_on_seed_and_index s (S i) m).
  rewrite nth_error_firstn_lt; [reflexivity|apply Nat.lt_succ_diag_r].
Qed.
(* every draw leaves the generator with its 624 words and the position inside them (no draw reads outside the state) *)
Theorem C20_generator_state_shape_kept : forall s, mt_ok s -> mt_ok (snd (mt_next s)).
Proof. exact mt_next_ok. Qed.
Theorem C20_generator_state_shape_after_seeding : forall sd, mt_ok (mt_seed sd).
Proof. exact mt_seed_ok. Qed.
(* ... hence after ANY number of draws from any seed *)
Theorem C20_generator_state_shape_for_every_draw_count :
  forall sd n, mt_ok (Nat.iter n (fun s => snd (mt_next s)) (mt_seed sd)).
Proof.
  intros sd n. induction n as [|n IH]; cbn [Nat.iter nat_rect].
  - exact (C20_generator_state_shape_after_seeding sd).
  - exact (C20_generator_state_shape_kept _ IH).
Qed.
(* setLocalSeed forgets the history: uniform01 / uniformBool / uniformInt draws after it are those of a fresh generator *)
Theorem C20_mt_reseed_reproduces_draws : forall (old : mt) sd pat, mt_draws pat (mt_set_local_seed old sd) = rng_draws sd pat.
Proof. exact reseed_reproduces_stream. Qed.

Print Assumptions C20_ith_generator_stream_depends_on_seed_and_index.
Print Assumptions C20_generator_state_shape_kept.
Print Assumptions C20_generator_state_shape_after_seeding.
Print Assumptions C20_generator_state_shape_for_every_draw_count.
Print Assumptions C20_mt_reseed_reproduces_draws.
Print Assumptions C20_seed_sequence_independent_of_initial_state.
Print Assumptions C20_ith_seed_depends_on_seed_and_index.
Print Assumptions C20_local_seed_range.
Print Assumptions C20_late_set_seed_keeps_first_seed.
Print Assumptions C20_reseed_reproduces_stream.

(* the transcription reproduces the values observed from the real library (libstdc++ 12) *)
Example C20_seed_1 : local_seeds 1 4 = [Seed 523834656; Seed 303609453; Seed 703111751; Seed 571238571].
Proof. vm_compute. reflexivity. Qed.

(* the transcription of the generator meets the C++ standard's check value (10000th output of mt19937 seeded with 5489) and
   reproduces what the first generator after setSeed(1) draws in the real library *)
Example C20_mt19937_known_answer : nth (N.to_nat 9999) (raw_stream (N.to_nat 10000) (mt_seed 5489)) 0 = 4123659995.
Proof. exact mt19937_known_answer. Qed.
