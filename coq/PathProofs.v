(* PathProofs.v — interpolate(count) yields exactly the requested number of states and keeps the original vertices in
   order, whatever the floating-point estimate; subdivide doubles the segments; a vertex shortcut keeps both end states,
   introduces only the validated motion, and never lengthens the path in a metric space. *)
From Coq Require Import List ZArith Bool Arith Lia Reals Lra.
From OmplV Require Import PathModel SolProofs LedgerProofs.
Import ListNotations.
Local Open Scope Z_scope.

Definition zsum (l : list Z) : Z := fold_right Z.add 0 l.

Lemma interp_step_bounds : forall est size i last count ns c',
  interp_step est size i last count = (ns, c') ->
  0 <= ns /\ c' = count - (ns + 1) /\ (0 < count + Z.of_nat i - size -> ns <= count + Z.of_nat i - size) /\
  (count + Z.of_nat i - size <= 0 -> ns = 0) /\ (last = true -> 0 < count + Z.of_nat i - size -> ns = count + Z.of_nat i - size).
Proof.
  intros est size i last count ns c' H. unfold interp_step in H.
  destruct (0 <? count + Z.of_nat i - size) eqn:E.
  - apply Z.ltb_lt in E.
    set (ns0 := if last then count + Z.of_nat i - size + 2 else est i count) in H.
    destruct (2 <? ns0) eqn:E2.
    + apply Z.ltb_lt in E2. destruct (count + Z.of_nat i - size <? ns0 - 2) eqn:E3; inversion H; subst.
      * apply Z.ltb_lt in E3. split; [lia|]. split; [reflexivity|]. split; [lia|]. split; [lia|]. intros Hl _. reflexivity.
      * apply Z.ltb_ge in E3. split; [lia|]. split; [reflexivity|]. split; [lia|]. split; [lia|]. intros Hl _. subst ns0. rewrite Hl. lia.
    + apply Z.ltb_ge in E2. inversion H; subst. split; [lia|]. split; [reflexivity|]. split; [lia|]. split; [lia|].
      intros Hl _. subst ns0. rewrite Hl in E2. lia.
  - apply Z.ltb_ge in E. inversion H; subst. split; [lia|]. split; [reflexivity|]. split; [lia|]. split; [reflexivity|]. intros _ Hp. lia.
Qed.

Lemma interp_loop_total : forall est size nsegs i count, (0 < nsegs)%nat ->
  Z.of_nat i + Z.of_nat nsegs + 1 = size -> Z.of_nat nsegs + 1 <= count ->
  zsum (interp_loop est size i nsegs count) + Z.of_nat nsegs + 1 = count /\ Forall (fun n => 0 <= n) (interp_loop est size i nsegs count).
Proof.
  intros est size nsegs. induction nsegs as [|k IH]; intros i count Hpos Hsz Hc; [lia|].
  cbn [interp_loop]. destruct (interp_step est size i (Nat.eqb k 0) count) as [ns c'] eqn:E.
  apply interp_step_bounds in E. destruct E as [Hns [Hc' [Hle [Hz Hlast]]]].
  destruct k as [|k'].
  - unfold zsum. cbn [interp_loop fold_right]. split; [|constructor; [exact Hns | constructor]].
    destruct (Z_lt_le_dec 0 (count + Z.of_nat i - size)) as [Hp|Hn].
    + rewrite (Hlast eq_refl Hp). lia.
    + rewrite (Hz Hn). lia.
  - assert (Hrest : Z.of_nat (S k') + 1 <= c').
    { destruct (Z_lt_le_dec 0 (count + Z.of_nat i - size)) as [Hp|Hn]; [specialize (Hle Hp); lia | rewrite (Hz Hn) in Hc'; lia]. }
    destruct (IH (S i) c' ltac:(lia) ltac:(lia) Hrest) as [I1 I2].
    unfold zsum in *. cbn [fold_right]. split; [lia | constructor; assumption].
Qed.

Lemma interp_loop_length : forall est sz nsegs i c, length (interp_loop est sz i nsegs c) = nsegs.
Proof.
  intros est sz nsegs. induction nsegs as [|k IH]; intros i c; [reflexivity|].
  cbn [interp_loop]. destruct (interp_step est sz i (Nat.eqb k 0) c). cbn [length]. rewrite IH. reflexivity.
Qed.
Lemma interp_counts_length : forall est size request, length (interp_counts est size request) = (size - 1)%nat.
Proof.
  intros est size request. unfold interp_counts. destruct ((request <? Z.of_nat size) || (size <? 2)%nat); [apply repeat_length | apply interp_loop_length].
Qed.

(* exactly the requested number of states, for every estimate *)
Theorem interpolate_exact_count : forall est size request, (2 <= size)%nat -> Z.of_nat size <= request ->
  total_states size (interp_counts est size request) = request /\ Forall (fun n => 0 <= n) (interp_counts est size request).
Proof.
  intros est size request Hs Hr. unfold total_states. rewrite interp_counts_length.
  destruct (Nat.eqb_spec size 0) as [->|_]; [lia|].
  unfold interp_counts. destruct (Z.ltb_spec request (Z.of_nat size)) as [H|_]; [lia|]. destruct (Nat.ltb_spec size 2) as [H|_]; [lia|]. cbn [orb].
  destruct (interp_loop_total est (Z.of_nat size) (size - 1) 0 request ltac:(lia) ltac:(lia) ltac:(lia)) as [H1 H2].
  split; [unfold zsum in H1; lia | exact H2].
Qed.
(* fewer states requested than present (or a degenerate path): nothing is inserted *)
Theorem interpolate_noop : forall est size request, request < Z.of_nat size \/ (size < 2)%nat ->
  interp_counts est size request = repeat 0 (size - 1).
Proof.
  intros est size request H. unfold interp_counts.
  destruct H as [H|H]; [apply Z.ltb_lt in H; rewrite H; reflexivity | apply Nat.ltb_lt in H; rewrite H; rewrite orb_true_r; reflexivity].
Qed.

(* the original vertices survive, in order, and the layout has total_states entries *)
Lemma originals_new_states : forall i n, originals (new_states i n) = [].
Proof.
  intros i n. unfold originals, new_states. induction (seq 0 (Z.to_nat n)) as [|k t IH]; [reflexivity|]. cbn. exact IH.
Qed.
Lemma originals_app : forall a b, originals (a ++ b) = originals a ++ originals b.
Proof. intros a b. unfold originals. rewrite filter_app, map_app. reflexivity. Qed.
Theorem layout_keeps_originals_in_order : forall counts i, originals (layout i counts) = seq i (S (length counts)).
Proof.
  induction counts as [|n t IH]; intros i; [reflexivity|].
  cbn [layout]. change ((i, 0%nat) :: new_states i n ++ layout (S i) t) with ([(i, 0%nat)] ++ new_states i n ++ layout (S i) t).
  rewrite !originals_app, originals_new_states, IH. reflexivity.
Qed.
Theorem layout_length : forall counts i, Forall (fun n => 0 <= n) counts ->
  Z.of_nat (length (layout i counts)) = zsum counts + Z.of_nat (length counts) + 1.
Proof.
  induction counts as [|n t IH]; intros i H; [reflexivity|].
  inversion H; subst. cbn [layout length zsum fold_right]. rewrite app_length. unfold new_states at 1. rewrite map_length, seq_length.
  specialize (IH (S i) H3). unfold zsum in IH. lia.
Qed.

Theorem subdivide_count : forall size, (1 <= size)%nat -> total_states size (subdivide_counts size) = 2 * Z.of_nat size - 1.
Proof.
  intros size H. unfold total_states, subdivide_counts. destruct (Nat.eqb_spec size 0) as [->|_]; [lia|]. rewrite repeat_length.
  assert (E : forall k, fold_right Z.add 0 (repeat 1 k) = Z.of_nat k) by (induction k as [|k IH]; [reflexivity | cbn [repeat fold_right]; rewrite IH; lia]).
  rewrite E. lia.
Qed.

(* ---------- vertex shortcut *)
Section ShortcutP.
  Variable St : Type.
  Variable mv : St -> St -> bool.
  Notation linked := (consecutive (fun a b : St => mv a b = true)).

  Lemma consecutive_app : forall (R : St -> St -> Prop) l1 x y l2,
    consecutive R (l1 ++ [x]) -> R x y -> consecutive R (y :: l2) -> consecutive R (l1 ++ x :: y :: l2).
  Proof.
    intros R. induction l1 as [|a t IH]; intros x y l2 H1 Hxy H2.
    - cbn. split; assumption.
    - destruct t as [|b t'].
      + cbn in *. destruct H1 as [Hax _]. split; [exact Hax | split; assumption].
      + change (consecutive R (a :: b :: (t' ++ x :: y :: l2))). change (consecutive R (a :: b :: (t' ++ [x]))) in H1.
        destruct H1 as [Hab Hrest]. split; [exact Hab|]. apply (IH x y l2); assumption.
  Qed.
  Lemma consecutive_prefix : forall (R : St -> St -> Prop) l1 l2, consecutive R (l1 ++ l2) -> consecutive R l1.
  Proof.
    intros R. induction l1 as [|a t IH]; intros l2 H; [exact I|].
    destruct t as [|b t']; [exact I|]. change (consecutive R (a :: b :: (t' ++ l2))) in H. destruct H as [Hab Hr].
    split; [exact Hab | apply (IH l2); exact Hr].
  Qed.
  Lemma consecutive_suffix : forall (R : St -> St -> Prop) l1 l2, consecutive R (l1 ++ l2) -> consecutive R l2.
  Proof.
    intros R. induction l1 as [|a t IH]; intros l2 H; [exact H|].
    apply IH. destruct t as [|b t']; [destruct l2; [exact I | destruct H as [_ H]; exact H] | destruct H as [_ H]; exact H].
  Qed.

  (* decomposition of a path at two vertices *)
  Lemma split_two : forall (p : list St) i j d, (S i < j)%nat -> (j < length p)%nat ->
    exists A M B, p = A ++ nth i p d :: M ++ nth j p d :: B /\ firstn (S i) p = A ++ [nth i p d] /\ skipn j p = nth j p d :: B.
  Proof.
    intros p i j d Hij Hj.
    assert (Hi : (i < length p)%nat) by lia.
    pose proof (firstn_skipn j p) as E1.
    assert (E2 : skipn j p = nth j p d :: skipn (S j) p).
    { clear -Hj. revert j Hj. induction p as [|x t IH]; intros j Hj; [cbn in Hj; lia|]. destruct j; [reflexivity|]. cbn. apply IH. cbn in Hj. lia. }
    set (F := firstn j p) in *.
    assert (LF : length F = j) by (subst F; rewrite firstn_length; lia).
    pose proof (firstn_skipn (S i) F) as E3.
    assert (E4 : firstn (S i) F = firstn i F ++ [nth i F d]).
    { clear -LF Hij. assert (Hi : (i < length F)%nat) by lia. clear LF Hij. revert i Hi. induction F as [|x t IH]; intros i Hi; [cbn in Hi; lia|]. destruct i; [reflexivity|]. cbn. f_equal. apply IH. cbn in Hi. lia. }
    assert (E5 : nth i F d = nth i p d).
    { subst F. clear -Hij Hj. revert i j Hij Hj. induction p as [|x t IH]; intros i j Hij Hj; [cbn in Hj; lia|]. destruct j; [lia|]. destruct i; [reflexivity|]. cbn. apply (IH i j); [lia | cbn in Hj; lia]. }
    assert (E6 : firstn (S i) F = firstn (S i) p).
    { subst F. rewrite firstn_firstn. f_equal. lia. }
    exists (firstn i F), (skipn (S i) F), (skipn (S j) p). repeat split.
    - assert (EF : F = firstn i F ++ nth i p d :: skipn (S i) F).
      { transitivity (firstn (S i) F ++ skipn (S i) F); [symmetry; exact E3|]. rewrite E4, E5, <- app_assoc. reflexivity. }
      transitivity (F ++ skipn j p); [symmetry; exact E1|]. rewrite E2.
      replace (F ++ nth j p d :: skipn (S j) p) with ((firstn i F ++ nth i p d :: skipn (S i) F) ++ nth j p d :: skipn (S j) p) by (rewrite <- EF; reflexivity).
      rewrite <- app_assoc. reflexivity.
    - rewrite <- E6, E4, E5. reflexivity.
    - exact E2.
  Qed.

  Theorem shortcut_keeps_ends_and_validated : forall p i j d,
    hd d (shortcut St mv p i j d) = hd d p /\ last (shortcut St mv p i j d) d = last p d /\
    (linked p -> linked (shortcut St mv p i j d)).
  Proof.
    intros p i j d. unfold shortcut.
    destruct (Nat.ltb_spec (S i) j) as [Hij|]; cbn [andb]; [|auto].
    destruct (Nat.ltb_spec j (length p)) as [Hj|]; cbn [andb]; [|auto].
    destruct (mv (nth i p d) (nth j p d)) eqn:Em; [|auto].
    destruct (split_two p i j d Hij Hj) as [A [M [B [Ep [Ef Es]]]]].
    set (x := nth i p d) in *. set (y := nth j p d) in *. rewrite Ef, Es.
    assert (L : forall (l : list St) a r, last (l ++ a :: r) d = last (a :: r) d).
    { induction l as [|b t IH]; intros a r; [reflexivity|]. cbn [app]. destruct (t ++ a :: r) eqn:Et; [destruct t; discriminate|]. rewrite <- Et. cbn [last]. rewrite Et. rewrite <- Et. apply IH. }
    split; [|split].
    - rewrite Ep. destruct A; reflexivity.
    - rewrite Ep. rewrite <- app_assoc. cbn [app].
      rewrite (L A x (y :: B)). rewrite (L A x (M ++ y :: B)).
      change (last (x :: y :: B) d = last ((x :: M) ++ y :: B) d).
      rewrite (L (x :: M) y B). reflexivity.
    - intros Hl. rewrite <- app_assoc. cbn [app]. apply consecutive_app.
      + rewrite <- Ef. rewrite <- (firstn_skipn (S i) p) in Hl. apply consecutive_prefix in Hl. exact Hl.
      + exact Em.
      + rewrite <- Es. rewrite <- (firstn_skipn j p) in Hl. apply consecutive_suffix in Hl. exact Hl.
  Qed.

  Theorem shortcuts_keep_ends_and_validated : forall ijs p d,
    hd d (shortcuts St mv p ijs d) = hd d p /\ last (shortcuts St mv p ijs d) d = last p d /\
    (linked p -> linked (shortcuts St mv p ijs d)).
  Proof.
    induction ijs as [|[i j] t IH]; intros p d; [cbn; auto|].
    unfold shortcuts. cbn [fold_left fst snd]. fold (shortcuts St mv (shortcut St mv p i j d) t d).
    destruct (IH (shortcut St mv p i j d) d) as [H1 [H2 H3]].
    destruct (shortcut_keeps_ends_and_validated p i j d) as [G1 [G2 G3]].
    split; [rewrite H1; exact G1 | split; [rewrite H2; exact G2 | intros Hl; apply H3; apply G3; exact Hl]].
  Qed.

  (* length: in a metric space a shortcut never lengthens the path *)
  Variable dist : St -> St -> R.
  Hypothesis dist_refl : forall x, dist x x = 0%R.
  Hypothesis dist_tri : forall x y z, (dist x z <= dist x y + dist y z)%R.
  Notation plen := (plen St dist).
  Lemma plen_cons2 : forall a b t, plen (a :: b :: t) = (dist a b + plen (b :: t))%R.
  Proof. reflexivity. Qed.
  Lemma plen_app : forall l x r, plen (l ++ x :: r) = (plen (l ++ [x]) + plen (x :: r))%R.
  Proof.
    induction l as [|a t IH]; intros x r; [cbn; lra|].
    destruct t as [|b t'].
    - cbn [app]. rewrite !plen_cons2. cbn. lra.
    - cbn [app]. rewrite !plen_cons2. specialize (IH x r). cbn [app] in IH. rewrite IH. lra.
  Qed.
  Theorem shortcut_never_longer : forall p i j d, (plen (shortcut St mv p i j d) <= plen p)%R.
  Proof.
    intros p i j d. unfold shortcut.
    destruct (Nat.ltb_spec (S i) j) as [Hij|]; cbn [andb]; [|lra].
    destruct (Nat.ltb_spec j (length p)) as [Hj|]; cbn [andb]; [|lra].
    destruct (mv (nth i p d) (nth j p d)); [|lra].
    destruct (split_two p i j d Hij Hj) as [A [M [B [Ep [Ef Es]]]]].
    set (x := nth i p d) in *. set (y := nth j p d) in *. rewrite Ef, Es. rewrite Ep.
    rewrite <- app_assoc. cbn [app]. rewrite (plen_app A x (y :: B)). rewrite (plen_app A x (M ++ y :: B)).
    change (x :: M ++ y :: B) with ((x :: M) ++ y :: B). rewrite (plen_app (x :: M) y B).
    change (plen (x :: y :: B)) with (dist x y + plen (y :: B))%R.
    pose proof (plen_ge_direct St dist dist_refl dist_tri (M ++ [y]) x) as G.
    assert (EL : forall (l : list St) a b, last (l ++ [b]) a = b).
    { induction l as [|c t IHl]; intros a b; [reflexivity|]. cbn [app]. destruct (t ++ [b]) eqn:E; [destruct t; discriminate|]. rewrite <- E. cbn [last]. rewrite E. rewrite <- E. apply IHl. }
    specialize (EL M x y).
    rewrite EL in G. change ((x :: M) ++ [y]) with (x :: M ++ [y]). lra.
  Qed.
  Theorem shortcuts_never_longer : forall ijs p d, (plen (shortcuts St mv p ijs d) <= plen p)%R.
  Proof.
    induction ijs as [|[i j] t IH]; intros p d; [cbn; lra|].
    unfold shortcuts. cbn [fold_left fst snd]. fold (shortcuts St mv (shortcut St mv p i j d) t d).
    pose proof (IH (shortcut St mv p i j d) d). pose proof (shortcut_never_longer p i j d). lra.
  Qed.
End ShortcutP.

(* ---------- reduceVertices: the loop is a sequence of validated vertex shortcuts, for every stream of variates *)
Section ReduceP.
  Variable St : Type.
  Variable mv : St -> St -> bool.
  Variable range_of : Z -> Z.
  Hypothesis range_nonneg : forall c, 0 <= range_of c.
  Definition uok (u : Z * Z) : Prop := 0 <= fst u < snd u.

  Lemma uniform_int_range lo hi u : lo <= hi -> uok u -> lo <= uniform_int lo hi u <= hi.
  Proof.
    intros Hl (H0 & H1). unfold uniform_int. set (n := hi + 1 - lo). assert (Hn : 0 < n) by (unfold n; lia).
    assert (A : 0 <= n * fst u / snd u) by (apply Z.div_pos; nia).
    assert (B : n * fst u / snd u < n) by (apply Z.div_lt_upper_bound; nia).
    lia.
  Qed.
  Lemma rv_pick_guard count range u1 u2 a b : 1 <= count -> 0 <= range -> uok u1 -> uok u2 ->
    rv_pick count range u1 u2 = Some (a, b) -> (S a < b)%nat /\ (Z.of_nat b < count).
  Proof.
    intros Hc Hr U1 U2. unfold rv_pick.
    pose proof (uniform_int_range 0 (count - 1) u1 ltac:(lia) U1) as P1. set (p1 := uniform_int 0 (count - 1) u1) in *.
    pose proof (uniform_int_range (Z.max (p1 - range) 0) (Z.min (count - 1) (p1 + range)) u2 ltac:(lia) U2) as P2.
    set (p2 := uniform_int (Z.max (p1 - range) 0) (Z.min (count - 1) (p1 + range)) u2) in *.
    destruct (Z.ltb_spec (Z.abs (p1 - p2)) 2) as [L|L].
    - destruct (Z.ltb_spec p1 (count - 1 - 1)) as [L1|L1].
      + intros E. injection E as <- <-. lia.
      + destruct (Z.ltb_spec 1 p1) as [L2|L2]; [|discriminate]. intros E. injection E as <- <-. lia.
    - intros E. injection E as <- <-. lia.
  Qed.
  Lemma shortcut_eq (p : list St) a b d : (S a < b)%nat -> (b < length p)%nat -> mv (nth a p d) (nth b p d) = true ->
    shortcut St mv p a b d = firstn (S a) p ++ skipn b p.
  Proof.
    intros H1 H2 H3. unfold shortcut. destruct (Nat.ltb_spec (S a) b); [|lia]. destruct (Nat.ltb_spec b (length p)); [|lia]. rewrite H3. reflexivity.
  Qed.
  Lemma Forall_tl {A} (Q : A -> Prop) l : Forall Q l -> Forall Q (tl l).
  Proof. intros H. destruct l; [constructor|inversion H; assumption]. Qed.
  Lemma hd_ok tape : Forall uok tape -> uok (hd (0, 1) tape).
  Proof. intros H. destruct tape; [unfold uok; cbn; lia|inversion H; assumption]. Qed.

  Theorem rv_loop_is_shortcuts : forall steps nochange maxEmpty p tape changed d, (1 <= length p)%nat -> Forall uok tape ->
    exists ijs, fst (rv_loop St mv range_of steps nochange maxEmpty p tape changed d) = shortcuts St mv p ijs d /\
      (snd (rv_loop St mv range_of steps nochange maxEmpty p tape changed d) = false -> changed = false /\ fst (rv_loop St mv range_of steps nochange maxEmpty p tape changed d) = p).
  Proof.
    induction steps as [|k IH]; intros nochange maxEmpty p tape changed d Hp Ht; cbn [rv_loop].
    - exists []. split; [reflexivity|cbn; auto].
    - destruct (nochange <? maxEmpty)%nat; [|exists []; split; [reflexivity|cbn; auto]].
      assert (T2 : Forall uok (tl (tl tape))) by (apply Forall_tl, Forall_tl; exact Ht).
      destruct (rv_pick (Z.of_nat (length p)) (range_of (Z.of_nat (length p))) (hd (0, 1) tape) (hd (0, 1) (tl tape))) as [[a b]|] eqn:Ep; [|apply IH; assumption].
      destruct (rv_pick_guard (Z.of_nat (length p)) _ _ _ a b ltac:(lia) (range_nonneg _) (hd_ok tape Ht) (hd_ok (tl tape) (Forall_tl _ _ Ht)) Ep) as (G1 & G2).
      destruct (mv (nth a p d) (nth b p d)) eqn:Em; [|apply IH; assumption].
      assert (Hl : (1 <= length (firstn (S a) p ++ skipn b p))%nat) by (rewrite app_length, firstn_length; lia).
      destruct (IH 1%nat maxEmpty (firstn (S a) p ++ skipn b p) (tl (tl tape)) true d Hl T2) as (ijs & E & F).
      exists ((a, b) :: ijs). split.
      + rewrite E. unfold shortcuts. cbn [fold_left fst snd]. rewrite (shortcut_eq p a b d G1 ltac:(lia) Em). reflexivity.
      + intros Hf. destruct (F Hf) as (Hc & _). discriminate.
  Qed.
  Lemma skipn_last (p : list St) d : (1 <= length p)%nat -> skipn (length p - 1) p = [last p d] /\ nth (length p - 1) p d = last p d.
  Proof.
    induction p as [|x t IH]; intros H; [cbn in H; lia|]. destruct t as [|y t']; [cbn; auto|].
    replace (length (x :: y :: t') - 1)%nat with (S (length (y :: t') - 1)) by (cbn; lia). cbn [skipn nth]. change (last (x :: y :: t') d) with (last (y :: t') d). apply IH. cbn. lia.
  Qed.
  Theorem reduce_vertices_is_shortcuts : forall p maxSteps maxEmpty tape d, Forall uok tape ->
    exists ijs, fst (reduce_vertices St mv range_of p maxSteps maxEmpty tape d) = shortcuts St mv p ijs d /\
      (snd (reduce_vertices St mv range_of p maxSteps maxEmpty tape d) = false -> fst (reduce_vertices St mv range_of p maxSteps maxEmpty tape d) = p).
  Proof.
    intros p maxSteps maxEmpty tape d Ht. unfold reduce_vertices. destruct (Nat.ltb_spec (length p) 3) as [L|L]; [exists []; split; [reflexivity|auto]|].
    destruct (mv (hd d p) (last p d)) eqn:Em.
    - exists [(0%nat, (length p - 1)%nat)]. split; [|cbn; discriminate]. unfold shortcuts. cbn [fold_left fst snd].
      destruct (skipn_last p d ltac:(lia)) as (S1 & S2).
      rewrite shortcut_eq; [rewrite S1; destruct p; [cbn in L; lia|reflexivity]|lia|lia|rewrite S2; destruct p; [cbn in L; lia|exact Em]].
    - destruct (rv_loop_is_shortcuts (if (maxSteps =? 0)%nat then length p else maxSteps) 0%nat (if (maxEmpty =? 0)%nat then length p else maxEmpty) p tape false d ltac:(lia) Ht) as (ijs & E & F).
      exists ijs. split; [exact E|]. intros Hf. apply F. exact Hf.
  Qed.
End ReduceP.

(* ---------- collapseCloseVertices: also a sequence of validated vertex shortcuts; the pair tried is a closest open pair *)
Section CollapseP.
  Variable St : Type.
  Variable mv : St -> St -> bool.
  Variable dist : St -> St -> Z.
  Variable steq : St -> St -> bool.
  Notation cc_best := (cc_best St dist steq).
  Notation cc_entry := (cc_entry St dist steq).

  Lemma in_cc_pairs n a b : In (a, b) (cc_pairs n) <-> (S a < b)%nat /\ (b < n)%nat.
  Proof.
    unfold cc_pairs. rewrite in_flat_map. split.
    - intros (i & Hi & Hin). apply in_map_iff in Hin. destruct Hin as (j & E & Hj). injection E as <- <-. apply in_seq in Hi, Hj. lia.
    - intros (H1 & H2). exists a. split; [apply in_seq; lia|]. apply in_map_iff. exists b. split; [reflexivity|apply in_seq; lia].
  Qed.
  (* the scan returns a pair of the list whose entry is open and minimal among the open entries *)
  Lemma cc_best_spec p blocked d : match cc_best p blocked d with
    | Some ((a, b), v) => In (a, b) (cc_pairs (length p)) /\ cc_entry blocked (nth a p d) (nth b p d) = Some v /\
                          (forall a' b' v', In (a', b') (cc_pairs (length p)) -> cc_entry blocked (nth a' p d) (nth b' p d) = Some v' -> v <= v')
    | None => forall a' b', In (a', b') (cc_pairs (length p)) -> cc_entry blocked (nth a' p d) (nth b' p d) = None
    end.
  Proof.
    unfold PathModel.cc_best. set (F := fun best ij => _).
    assert (G : forall l best seen,
      match best with
      | Some ((a, b), v) => In (a, b) seen /\ cc_entry blocked (nth a p d) (nth b p d) = Some v /\ (forall a' b' v', In (a', b') seen -> cc_entry blocked (nth a' p d) (nth b' p d) = Some v' -> v <= v')
      | None => forall a' b', In (a', b') seen -> cc_entry blocked (nth a' p d) (nth b' p d) = None
      end ->
      match fold_left F l best with
      | Some ((a, b), v) => In (a, b) (seen ++ l) /\ cc_entry blocked (nth a p d) (nth b p d) = Some v /\ (forall a' b' v', In (a', b') (seen ++ l) -> cc_entry blocked (nth a' p d) (nth b' p d) = Some v' -> v <= v')
      | None => forall a' b', In (a', b') (seen ++ l) -> cc_entry blocked (nth a' p d) (nth b' p d) = None
      end).
    { induction l as [|[i j] t IH]; intros best seen H; cbn [fold_left]; [rewrite app_nil_r; exact H|].
      replace (seen ++ (i, j) :: t) with ((seen ++ [(i, j)]) ++ t) by (rewrite <- app_assoc; reflexivity). apply IH. unfold F at 1. cbn [fst snd].
      destruct (cc_entry blocked (nth i p d) (nth j p d)) as [v|] eqn:Ev.
      - destruct best as [[[a b] bv]|].
        + destruct H as (H1 & H2 & H3). destruct (Z.ltb_spec v bv) as [L|L].
          * split; [apply in_or_app; right; left; reflexivity|]. split; [exact Ev|]. intros a' b' v' Hin He. apply in_app_or in Hin. destruct Hin as [Hin|[E|[]]]; [specialize (H3 a' b' v' Hin He); lia|]. injection E as <- <-. rewrite Ev in He. injection He as <-. lia.
          * split; [apply in_or_app; left; exact H1|]. split; [exact H2|]. intros a' b' v' Hin He. apply in_app_or in Hin. destruct Hin as [Hin|[E|[]]]; [apply (H3 a' b' v' Hin He)|]. injection E as <- <-. rewrite Ev in He. injection He as <-. lia.
        + split; [apply in_or_app; right; left; reflexivity|]. split; [exact Ev|]. intros a' b' v' Hin He. apply in_app_or in Hin. destruct Hin as [Hin|[E|[]]]; [rewrite (H a' b' Hin) in He; discriminate|]. injection E as <- <-. rewrite Ev in He. injection He as <-. lia.
      - destruct best as [[[a b] bv]|].
        + destruct H as (H1 & H2 & H3). split; [apply in_or_app; left; exact H1|]. split; [exact H2|]. intros a' b' v' Hin He. apply in_app_or in Hin. destruct Hin as [Hin|[E|[]]]; [apply (H3 a' b' v' Hin He)|]. injection E as <- <-. rewrite Ev in He. discriminate.
        + intros a' b' Hin. apply in_app_or in Hin. destruct Hin as [Hin|[E|[]]]; [apply (H a' b' Hin)|]. injection E as <- <-. exact Ev. }
    apply (G (cc_pairs (length p)) None []). intros a' b' [].
  Qed.

  Theorem cc_loop_is_shortcuts : forall steps nochange maxEmpty p blocked changed d,
    exists ijs, fst (cc_loop St mv dist steq steps nochange maxEmpty p blocked changed d) = shortcuts St mv p ijs d /\
      (snd (cc_loop St mv dist steq steps nochange maxEmpty p blocked changed d) = false -> changed = false /\ fst (cc_loop St mv dist steq steps nochange maxEmpty p blocked changed d) = p).
  Proof.
    induction steps as [|k IH]; intros nochange maxEmpty p blocked changed d; cbn [cc_loop].
    - exists []. split; [reflexivity|cbn; auto].
    - destruct (nochange <? maxEmpty)%nat; [|exists []; split; [reflexivity|cbn; auto]].
      pose proof (cc_best_spec p blocked d) as BS. destruct (cc_best p blocked d) as [[[a b] v]|]; [|exists []; split; [reflexivity|cbn; auto]].
      destruct BS as (Hin & _ & _). apply in_cc_pairs in Hin. destruct Hin as (G1 & G2).
      destruct (mv (nth a p d) (nth b p d)) eqn:Em; [|apply IH].
      destruct (IH 1%nat maxEmpty (firstn (S a) p ++ skipn b p) blocked true d) as (ijs & E & F).
      exists ((a, b) :: ijs). split.
      + rewrite E. unfold shortcuts. cbn [fold_left fst snd]. rewrite (shortcut_eq St mv p a b d G1 G2 Em). reflexivity.
      + intros Hf. destruct (F Hf) as (Hc & _). discriminate.
  Qed.
  Theorem collapse_close_is_shortcuts : forall p maxSteps maxEmpty d,
    exists ijs, fst (collapse_close St mv dist steq p maxSteps maxEmpty d) = shortcuts St mv p ijs d /\
      (snd (collapse_close St mv dist steq p maxSteps maxEmpty d) = false -> fst (collapse_close St mv dist steq p maxSteps maxEmpty d) = p).
  Proof.
    intros p maxSteps maxEmpty d. unfold collapse_close. destruct (length p <? 3)%nat; [exists []; split; [reflexivity|auto]|].
    destruct (cc_loop_is_shortcuts (if (maxSteps =? 0)%nat then length p else maxSteps) 0%nat (if (maxEmpty =? 0)%nat then length p else maxEmpty) p [] false d) as (ijs & E & F).
    exists ijs. split; [exact E|]. intros Hf. apply F. exact Hf.
  Qed.
End CollapseP.
