(* RrtModel.v — geometric::RRT::solve (without intermediate states) over abstract collaborators: the state space's distance
   and interpolation (through [steer]), the motion validator, the goal, a linear nearest-neighbour structure (first strict
   minimum in insertion order), the stream of goal-bias decisions and the stream of sampled states. *)
From Coq Require Import List Bool Arith.
Import ListNotations.

Section Rrt.
  Variables St D : Type.
  Variable dist : St -> St -> D.
  Variable dlt : D -> D -> bool.               (* strict comparison of distances *)
  Variable steer : St -> St -> St.             (* the state to connect to: the sample, or the point at maxDistance towards it *)
  Variable mv : St -> St -> bool.              (* si_->checkMotion *)
  Variable sat : St -> bool.                   (* goal->isSatisfied(state, &dist): verdict *)
  Variable gdist : St -> D.                    (*                                  and distance *)
  Variable goal_state : St.                    (* what sampleGoal returns *)
  Variable dflt : St.

  Definition node := (St * option nat)%type.   (* state, index of the parent motion *)
  (* NearestNeighborsLinear::nearest: first strict minimum *)
  Fixpoint nearest_from (tree : list node) (q : St) (j best : nat) (bd : D) : nat :=
    match tree with
    | [] => best
    | (s, _) :: t => if dlt (dist s q) bd then nearest_from t q (S j) j (dist s q) else nearest_from t q (S j) best bd
    end.
  Definition nearest (tree : list node) (q : St) : nat :=
    match tree with [] => O | (s, _) :: t => nearest_from t q 1 O (dist s q) end.

  Record rst := mkR { r_tree : list node; r_approx : option (nat * D); r_sol : option nat }.
  (* one iteration of the main loop; [hit] = the goal-bias draw selected the goal *)
  Definition rrt_step (s : rst) (r : St) : rst :=
    let tree := r_tree s in
    let ni := nearest tree r in
    let nstate := fst (nth ni tree (dflt, None)) in
    let dstate := steer nstate r in
    if mv nstate dstate then
      let idx := length tree in
      let tree' := tree ++ [(dstate, Some ni)] in
      if sat dstate then mkR tree' (Some (idx, gdist dstate)) (Some idx)
      else match r_approx s with
           | Some (_, bd) => if dlt (gdist dstate) bd then mkR tree' (Some (idx, gdist dstate)) None else mkR tree' (r_approx s) None
           | None => mkR tree' (Some (idx, gdist dstate)) None
           end
    else s.
  Fixpoint rrt_loop (s : rst) (hits : list bool) (samples : list St) : rst :=
    match r_sol s with
    | Some _ => s
    | None =>
      match hits with
      | [] => s
      | true :: hs => rrt_loop (rrt_step s goal_state) hs samples
      | false :: hs => rrt_loop (rrt_step s (hd dflt samples)) hs (tl samples)
      end
    end.
  (* the motions from a node back to its root, root first *)
  Fixpoint chain (fuel : nat) (tree : list node) (i : nat) : list St :=
    match fuel with
    | O => []
    | S f => match nth_error tree i with
             | None => []
             | Some (s, None) => [s]
             | Some (s, Some p) => chain f tree p ++ [s]
             end
    end.
  (* solve(): the tree, the reported path, the approximate flag and the reported difference; None = no solution reported *)
  Definition rrt_solve (starts : list St) (hits : list bool) (samples : list St) : list node * option (list St * bool * D) :=
    match starts with [] => ([], None) | _ =>
    let s := rrt_loop (mkR (map (fun x => (x, None)) starts) None None) hits samples in
    (r_tree s,
     match r_sol s, r_approx s with
     | Some i, Some (_, dd) => Some (chain (S (length (r_tree s))) (r_tree s) i, false, dd)
     | None, Some (i, dd) => Some (chain (S (length (r_tree s))) (r_tree s) i, true, dd)
     | _, None => None
     end)
    end.
End Rrt.
