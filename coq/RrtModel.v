(* RrtModel.v — the RRT family's solve() over abstract collaborators.
   Tree section: one loop shared by geometric::RRT and control::RRT (without intermediate states): per iteration a target
   state, the nearest tree node (linear structure: first strict minimum in insertion order), an attempt to extend from it
   (which yields the new state and the label of the new motion, or nothing), the goal test and the exact / approximate
   bookkeeping; then the extraction of the reported path by following parents.
   Geometric instance: extend = steer towards the target at most maxDistance + checkMotion.
   Control instance: extend = SimpleDirectedControlSampler::getBestControl (ControlModel.best_control) + minimum duration. *)
From Coq Require Import List Bool Arith ZArith.
From OmplV Require Import ControlModel.
Import ListNotations.

Section Nearest.
  Variables St D E : Type.
  Variable dist : St -> St -> D.
  Variable dlt : D -> D -> bool.
  (* NearestNeighborsLinear::nearest: first strict minimum *)
  Fixpoint nearest_from (tree : list (St * option (nat * E))) (q : St) (j best : nat) (bd : D) : nat :=
    match tree with
    | [] => best
    | (s, _) :: t => if dlt (dist s q) bd then nearest_from t q (S j) j (dist s q) else nearest_from t q (S j) best bd
    end.
  Definition nearest (tree : list (St * option (nat * E))) (q : St) : nat :=
    match tree with [] => O | (s, _) :: t => nearest_from t q 1 O (dist s q) end.
End Nearest.

Section Tree.
  Variables St D I E : Type.
  Variable dlt : D -> D -> bool.               (* strict comparison of distances *)
  Variable select : list (St * option (nat * E)) -> I -> nat.   (* the tree node the iteration extends from (an index below the tree size):
                                                                   the nearest node to the target (RRT), a random node (RLRT) *)
  Variable extend : St -> I -> list (St * E).  (* the states to add, each hanging off the previous one (the first off the selected node),
                                                  with the labels of the motions; [] = nothing to add *)
  Variable sat : St -> bool.                   (* goal->isSatisfied(state, &dist): verdict *)
  Variable gdist : St -> D.                    (*                                  and distance *)
  Variable dflt : St.

  Definition node := (St * option (nat * E))%type.   (* state, parent index and label of the motion from the parent *)
  Record rst := mkR { r_tree : list node; r_approx : option (nat * D); r_sol : option nat }.
  (* one new motion below node [pi], with the goal test and the exact / approximate bookkeeping *)
  Definition add_one (s : rst) (pi : nat) (x : St * E) : rst :=
    let tree := r_tree s in
    let idx := length tree in
    let tree' := tree ++ [(fst x, Some (pi, snd x))] in
    if sat (fst x) then mkR tree' (Some (idx, gdist (fst x))) (Some idx)
    else match r_approx s with
         | Some (_, bd) => if dlt (gdist (fst x)) bd then mkR tree' (Some (idx, gdist (fst x))) None else mkR tree' (r_approx s) None
         | None => mkR tree' (Some (idx, gdist (fst x))) None
         end.
  (* a chain of new motions; it ends early at the first state that satisfies the goal *)
  Fixpoint add_chain (s : rst) (pi : nat) (xs : list (St * E)) : rst :=
    match r_sol s with
    | Some _ => s
    | None => match xs with [] => s | x :: t => add_chain (add_one s pi x) (length (r_tree s)) t end
    end.
  Definition tree_step (s : rst) (i : I) : rst :=
    let tree := r_tree s in
    let ni := select tree i in
    add_chain s ni (extend (fst (nth ni tree (dflt, None))) i).
  Fixpoint tree_loop (s : rst) (ins : list I) : rst :=
    match r_sol s with
    | Some _ => s
    | None => match ins with [] => s | i :: t => tree_loop (tree_step s i) t end
    end.
  (* the motions from a root to a node: (label of the motion into the state, state), root first *)
  Fixpoint chain (fuel : nat) (tree : list node) (i : nat) : list (option E * St) :=
    match fuel with
    | O => []
    | S f => match nth_error tree i with
             | None => []
             | Some (s, None) => [(None, s)]
             | Some (s, Some (p, e)) => chain f tree p ++ [(Some e, s)]
             end
    end.
  (* one call of solve() on a planner that already holds [tree0] (empty for the first call), with the start states not handed
     out before: the tree, the reported path, the approximate flag and the reported difference; None = no solution reported *)
  Definition tree_call (tree0 : list node) (new_starts : list St) (ins : list I) : list node * option (list (option E * St) * bool * D) :=
    match tree0 ++ map (fun x => (x, None)) new_starts with
    | [] => ([], None)
    | init =>
      let s := tree_loop (mkR init None None) ins in
      (r_tree s,
       match r_sol s, r_approx s with
       | Some i, Some (_, dd) => Some (chain (S (length (r_tree s))) (r_tree s) i, false, dd)
       | None, Some (i, dd) => Some (chain (S (length (r_tree s))) (r_tree s) i, true, dd)
       | _, None => None
       end)
    end.
  Definition tree_solve (starts : list St) (ins : list I) := tree_call [] starts ins.
  (* a sequence of solve() calls without clear(): the starts are handed out in the first call; every call's report *)
  Fixpoint tree_calls (tree0 : list node) (new_starts : list St) (calls : list (list I)) : list node * list (option (list (option E * St) * bool * D)) :=
    match calls with
    | [] => (tree0 ++ map (fun x => (x, None)) new_starts, [])
    | ins :: rest => let '(t1, rep) := tree_call tree0 new_starts ins in let '(t2, reps) := tree_calls t1 [] rest in (t2, rep :: reps)
    end.
End Tree.

(* ---- geometric::RRT ---- *)
Section Rrt.
  Variables St D : Type.
  Variable dist : St -> St -> D.
  Variable dlt : D -> D -> bool.
  Variable steer : St -> St -> St.             (* the state to connect to: the sample, or the point at maxDistance towards it *)
  Variable mv : St -> St -> bool.              (* si_->checkMotion *)
  Variable sat : St -> bool.
  Variable gdist : St -> D.
  Variable goal_state : St.                    (* what sampleGoal returns *)
  Variable dflt : St.
  (* the targets of the iterations: a goal-bias hit takes the goal state, otherwise the next sample is drawn *)
  Fixpoint targets (hits : list bool) (samples : list St) : list St :=
    match hits with
    | [] => []
    | true :: hs => goal_state :: targets hs samples
    | false :: hs => hd dflt samples :: targets hs (tl samples)
    end.
  Definition rrt_extend (n r : St) : option (St * unit) := let d := steer n r in if mv n d then Some (d, tt) else None.
  (* the geometric planners of the family: they differ in how the node to extend from is chosen *)
  Definition geo_solve (I : Type) (select : list (St * option (nat * unit)) -> I -> nat) (tg : I -> St) (starts : list St) (ins : list I)
    : list (St * option nat) * option (list St * bool * D) :=
    let '(tree, rep) := tree_solve St D I unit dlt select (fun n i => match rrt_extend n (tg i) with Some x => [x] | None => [] end) sat gdist dflt starts ins in
    (map (fun n => (fst n, option_map fst (snd n))) tree,
     match rep with Some (path, approx, dd) => Some (map snd path, approx, dd) | None => None end).
  Definition rrt_solve (starts : list St) (hits : list bool) (samples : list St) : list (St * option nat) * option (list St * bool * D) :=
    geo_solve St (fun tree r => nearest St D unit dist dlt tree r) (fun r => r) starts (targets hits samples).
  (* several solve() calls without clear(): each call has its own goal-bias draws and samples *)
  Definition rrt_calls (starts : list St) (calls : list (list bool * list St)) : list (St * option nat) * list (option (list St * bool * D)) :=
    let '(tree, reps) := tree_calls St D St unit dlt (fun tree r => nearest St D unit dist dlt tree r) (fun n r => match rrt_extend n r with Some x => [x] | None => [] end) sat gdist dflt [] starts (map (fun c => targets (fst c) (snd c)) calls) in
    (map (fun n => (fst n, option_map fst (snd n))) tree,
     map (fun rep => match rep with Some (path, approx, dd) => Some (map snd path, approx, dd) | None => None end) reps).
End Rrt.

(* ---- geometric::RLRT (range-limited random tree, keepLast off): the node to extend from is drawn uniformly (RNG::uniformInt) ---- *)
Section Rlrt.
  Variables St D : Type.
  Variable dlt : D -> D -> bool.
  Variable steer : St -> St -> St.
  Variable mv : St -> St -> bool.
  Variable sat : St -> bool.
  Variable gdist : St -> D.
  Variable goal_state dflt : St.
  (* one iteration's input: the variate (as a fraction) that picks the node, and the target state *)
  Definition rl_select (tree : list (St * option (nat * unit))) (i : (Z * Z) * St) : nat :=
    let n := Z.of_nat (length tree) in Z.to_nat (Z.min (n - 1) ((n * fst (fst i)) / snd (fst i))).
  Definition rlrt_solve (starts : list St) (us : list (Z * Z)) (hits : list bool) (samples : list St) : list (St * option nat) * option (list St * bool * D) :=
    geo_solve St D dlt steer mv sat gdist dflt ((Z * Z) * St) rl_select snd starts (combine us (targets St goal_state dflt hits samples)).
End Rlrt.

(* ---- control::RRT (no intermediate states) with SimpleDirectedControlSampler ---- *)
Section CRrt.
  Variables St C : Type.
  Variable stepf : C -> St -> St.
  Variable valid : St -> bool.
  Variable dist : St -> St -> Z.
  Variable sat : St -> bool.
  Variable gdist : St -> Z.
  Variable dflt : St.
  Variable minDur : nat.
  (* one iteration's input: the target state and the candidate (control, sampled step count) pairs of the directed sampler *)
  Definition citer := (St * ((C * nat) * list (C * nat)))%type.
  Definition crrt_extend (n : St) (i : citer) : option (St * (C * nat)) :=
    let '(c, k, st) := best_control St C stepf valid (fun x => dist x (fst i)) n (fst (snd i)) (snd (snd i)) in
    if (minDur <=? k)%nat then Some (st, (c, k)) else None.
  Definition crrt_solve (starts : list St) (ins : list citer) :=
    tree_solve St Z citer (C * nat) Z.ltb (fun tree i => nearest St Z (C * nat) dist Z.ltb tree (fst i))
               (fun n i => match crrt_extend n i with Some x => [x] | None => [] end) sat gdist dflt starts ins.
  (* with intermediate states: the control found by the directed sampler is propagated again step by step and every valid state
     becomes a motion of one step; the chain ends at the first state that satisfies the goal *)
  Definition crrti_extend (n : St) (i : citer) : list (St * (C * nat)) :=
    let '(c, k, _) := best_control St C stepf valid (fun x => dist x (fst i)) n (fst (snd i)) (snd (snd i)) in
    let ps := pwv_states St C stepf valid c k n in
    if (minDur <=? length ps)%nat then map (fun s => (s, (c, 1%nat))) ps else [].
  Definition crrti_solve (starts : list St) (ins : list citer) :=
    tree_solve St Z citer (C * nat) Z.ltb (fun tree i => nearest St Z (C * nat) dist Z.ltb tree (fst i)) crrti_extend sat gdist dflt starts ins.
End CRrt.

(* the control instance run against the implementation: integer states, a control is the increment per step *)
Definition crrt_run (bad : list Z) (goal thr : Z) (minDur : nat) (starts : list Z) (hits : list bool) (samples : list Z) (cands : list ((Z * nat) * list (Z * nat)))
  : list (Z * option (nat * (Z * nat))) * option (list (option (Z * nat) * Z) * bool * Z) :=
  crrt_solve Z Z (fun u x => (x + u)%Z) (zc_valid bad) (fun a b => Z.abs (a - b)) (fun s => (Z.abs (s - goal) <? thr)%Z) (fun s => Z.abs (s - goal)) 0%Z minDur starts
             (combine (targets Z goal 0%Z hits samples) cands).
Definition crrti_run (bad : list Z) (goal thr : Z) (minDur : nat) (starts : list Z) (hits : list bool) (samples : list Z) (cands : list ((Z * nat) * list (Z * nat)))
  : list (Z * option (nat * (Z * nat))) * option (list (option (Z * nat) * Z) * bool * Z) :=
  crrti_solve Z Z (fun u x => (x + u)%Z) (zc_valid bad) (fun a b => Z.abs (a - b)) (fun s => (Z.abs (s - goal) <? thr)%Z) (fun s => Z.abs (s - goal)) 0%Z minDur starts
              (combine (targets Z goal 0%Z hits samples) cands).
