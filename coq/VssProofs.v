(* VssProofs.v — a valid-state sampler reports success only with a state that the checker accepts and that is in
   bounds whenever the underlying sampler's draws are; failure means the attempts ran out on rejected draws.
   For every tape (= every underlying sampler behaviour), every validity predicate, every number of attempts. *)
From Coq Require Import List ZArith Bool Lia.
From OmplV Require Import VssModel.
Import ListNotations.

Section VssP.
  Variable St : Type.
  Variables (chk : St -> bool) (clr : St -> Z).
  Variable mid : St -> St -> St.
  Variable lastv : St -> St -> St.
  (* [P] stands for satisfiesBounds (any property of states preserved by the two interpolating operations) *)
  Variable P : St -> Prop.

  Lemma until_true : forall test n st tape s t,
      vss_until St test n st tape = Some (true, s, t) ->
      test s = true /\ exists pre, tape = pre ++ s :: t /\ Forall (fun x => test x = false) pre /\ length pre < n.
  Proof.
    intros test n; induction n as [|k IH]; intros st tape s t H; cbn [vss_until] in H; [discriminate|].
    destruct tape as [|x tl]; [discriminate|].
    destruct (test x) eqn:Ex.
    - inversion H; subst. split; [exact Ex|]. exists []. cbn. repeat split; [constructor | lia].
    - apply IH in H. destruct H as [Hs [pre [Ht [Hf Hl]]]]. split; [exact Hs|].
      exists (x :: pre). subst tl. cbn. repeat split; [constructor; assumption | lia].
  Qed.

  Lemma last_nonempty : forall (l : list St) a d d', last (a :: l) d = last (a :: l) d'.
  Proof. induction l as [|b l IH]; intros a d d'; [reflexivity|]. change (last (b :: l) d = last (b :: l) d'). apply IH. Qed.

  Lemma until_false : forall test n st tape s t,
      vss_until St test n st tape = Some (false, s, t) ->
      exists pre, tape = pre ++ t /\ Forall (fun x => test x = false) pre /\ length pre = n /\ s = last pre st.
  Proof.
    intros test n; induction n as [|k IH]; intros st tape s t H; cbn [vss_until] in H.
    - inversion H; subst. exists []. cbn. repeat split. constructor.
    - destruct tape as [|x tl]; [discriminate|].
      destruct (test x) eqn:Ex; [discriminate|].
      apply IH in H. destruct H as [pre [Ht [Hf [Hl Hs]]]].
      exists (x :: pre). subst tl. cbn [app length]. repeat split; [constructor; assumption | lia |].
      subst s. destruct pre as [|p pre']; [reflexivity|]. change (last (p :: pre') x = last (p :: pre') st). apply last_nonempty.
  Qed.

  Lemma until_in : forall test n st tape s t, vss_until St test n st tape = Some (true, s, t) -> In s tape.
  Proof.
    intros test n st tape s t H. apply until_true in H. destruct H as [_ [pre [Ht _]]]. subst tape.
    apply in_or_app. right. left. reflexivity.
  Qed.

  Lemma until_rest : forall test n st tape b s t, vss_until St test n st tape = Some (b, s, t) -> exists pre, tape = pre ++ t.
  Proof.
    intros test n st tape b s t H. destruct b.
    - apply until_true in H. destruct H as [_ [pre [Ht _]]]. exists (pre ++ [s]). rewrite <- app_assoc. exact Ht.
    - apply until_false in H. destruct H as [pre [Ht _]]. exists pre. exact Ht.
  Qed.

  (* ---- uniform *)
  Theorem uniform_success : forall attempts st tape s t,
      vss_uniform St chk attempts st tape = Some (true, s, t) -> chk s = true /\ In s tape.
  Proof.
    intros attempts st tape s t H. split; [|eapply until_in; exact H]. apply until_true in H. destruct H as [H _]. exact H.
  Qed.

  Theorem uniform_failure_exhausted : forall attempts st tape s t,
      vss_uniform St chk attempts st tape = Some (false, s, t) ->
      exists pre, tape = pre ++ t /\ Forall (fun x => chk x = false) pre /\ length pre = Nat.max 1 attempts.
  Proof.
    intros attempts st tape s t H. apply until_false in H. destruct H as [pre [H1 [H2 [H3 _]]]]. exists pre. auto.
  Qed.

  (* ---- Gaussian *)
  Lemma gauss_loop_success : forall n st tape s t, vss_gauss_loop St chk n st tape = Some (true, s, t) -> chk s = true /\ In s tape.
  Proof.
    induction n as [|k IH]; intros st tape s t H; cbn [vss_gauss_loop] in H; [discriminate|].
    destruct tape as [|x [|g tl]]; try discriminate. unfold si_valid in H.
    destruct (chk x) eqn:E1, (chk g) eqn:E2; cbn in H.
    - apply IH in H. destruct H as [H1 H2]. split; [exact H1 | right; right; exact H2].
    - inversion H; subst. split; [exact E1 | left; reflexivity].
    - inversion H; subst. split; [exact E2 | right; left; reflexivity].
    - apply IH in H. destruct H as [H1 H2]. split; [exact H1 | right; right; exact H2].
  Qed.
  Theorem gauss_success : forall attempts st tape s t,
      vss_gauss St chk attempts st tape = Some (true, s, t) -> chk s = true /\ In s tape.
  Proof. intros; eapply gauss_loop_success; eassumption. Qed.

  (* ---- obstacle based; the motion validator's contract is a hypothesis discharged by C05 / C07 *)
  Theorem obstacle_success :
    (forall temp s, chk temp = true -> chk s = false -> chk (lastv temp s) = true) ->
    (forall temp s, P temp -> P s -> P (lastv temp s)) ->
    forall attempts st tape s t, Forall P tape ->
      vss_obstacle St chk lastv attempts st tape = Some (true, s, t) -> chk s = true /\ P s.
  Proof.
    intros Hl HP attempts st tape s t HF H. unfold vss_obstacle in H.
    destruct (vss_until St (fun s0 => negb (si_valid St chk s0)) (rounds attempts) st tape) as [[[b1 s1] t1]|] eqn:E1; [|discriminate].
    destruct b1; [|discriminate].
    destruct (vss_until St (si_valid St chk) (rounds attempts) s1 t1) as [[[b2 s2] t2]|] eqn:E2; [|discriminate].
    destruct b2; [|discriminate]. inversion H; subst.
    pose proof (until_in _ _ _ _ _ _ E1) as I1. pose proof (until_in _ _ _ _ _ _ E2) as I2.
    pose proof (until_rest _ _ _ _ _ _ _ E1) as [pre1 R1].
    apply until_true in E1. apply until_true in E2. destruct E1 as [E1 _]. destruct E2 as [E2 _]. unfold si_valid in *.
    rewrite Forall_forall in HF. split.
    - apply Hl; [exact E2|]. destruct (chk s1); [discriminate|reflexivity].
    - apply HP; [apply HF; subst tape; apply in_or_app; right; exact I2 | apply HF; exact I1].
  Qed.

  (* ---- bridge test *)
  Lemma bridge_loop_success :
    (forall e s, P e -> P s -> P (mid e s)) ->
    forall n st tape s t, Forall P tape -> vss_bridge_loop St chk mid n st tape = Some (true, s, t) -> chk s = true /\ P s.
  Proof.
    intros HP. induction n as [|k IH]; intros st tape s t HF H; cbn [vss_bridge_loop] in H; [discriminate|].
    destruct tape as [|x tl]; [discriminate|]. unfold si_valid in H.
    inversion HF as [|? ? Px HFtl]; subst.
    destruct (chk x) eqn:E1; [apply IH in H; [exact H | exact HFtl]|].
    destruct tl as [|e tl']; [discriminate|].
    inversion HFtl as [|? ? Pe HFtl']; subst.
    destruct (chk e) eqn:E2; [apply IH in H; [exact H | exact HFtl']|].
    destruct (chk (mid e x)) eqn:E3; [inversion H; subst; split; [exact E3 | apply HP; assumption] | apply IH in H; [exact H | exact HFtl']].
  Qed.
  Theorem bridge_success :
    (forall e s, P e -> P s -> P (mid e s)) ->
    forall attempts st tape s t, Forall P tape -> vss_bridge St chk mid attempts st tape = Some (true, s, t) -> chk s = true /\ P s.
  Proof. intros HP attempts st tape s t HF H. eapply bridge_loop_success; eassumption. Qed.

  (* ---- clearance-based samplers *)
  Lemma improve_inv : forall n st d tape s t,
      vss_improve St chk clr n st d tape = Some (true, s, t) -> chk st = true -> d = clr st ->
      chk s = true /\ (s = st \/ In s tape) /\ (clr st <= clr s)%Z.
  Proof.
    induction n as [|k IH]; intros st d tape s t H Hc Hd; cbn [vss_improve] in H.
    - inversion H; subst. repeat split; [assumption | left; reflexivity | lia].
    - destruct tape as [|w tl]; [discriminate|].
      destruct (chk w && (d <? clr w)%Z) eqn:E.
      + apply andb_prop in E. destruct E as [Ew El]. apply Z.ltb_lt in El.
        apply IH in H; [|exact Ew|reflexivity]. destruct H as [H1 [H2 H3]].
        repeat split; [exact H1 | right; destruct H2 as [->|H2]; [left; reflexivity | right; exact H2] | lia].
      + apply IH in H; [|exact Hc|exact Hd]. destruct H as [H1 [H2 H3]].
        repeat split; [exact H1 | destruct H2 as [H2|H2]; [left; exact H2 | right; right; exact H2] | exact H3].
  Qed.

  Theorem maxclear_success : forall attempts improve st tape s t,
      vss_maxclear St chk clr attempts improve st tape = Some (true, s, t) -> chk s = true /\ In s tape.
  Proof.
    intros attempts improve st tape s t H. unfold vss_maxclear in H.
    destruct (vss_until St chk (rounds attempts) st tape) as [[[b1 s1] t1]|] eqn:E1; [|discriminate].
    destruct b1; [|discriminate].
    pose proof (until_true _ _ _ _ _ _ E1) as [Hc [pre [Ht _]]].
    apply improve_inv in H; [|exact Hc|reflexivity]. destruct H as [H1 [H2 _]]. split; [exact H1|].
    subst tape. apply in_or_app. right. destruct H2 as [->|H2]; [left; reflexivity | right; exact H2].
  Qed.

  Theorem minclear_success : forall attempts c st tape s t,
      vss_minclear St chk clr attempts c st tape = Some (true, s, t) -> chk s = true /\ (c <= clr s)%Z /\ In s tape.
  Proof.
    intros attempts c st tape s t H. unfold vss_minclear in H.
    pose proof (until_in _ _ _ _ _ _ H) as Hin. apply until_true in H. destruct H as [H _].
    apply andb_prop in H. destruct H as [H1 H2]. apply negb_true_iff in H2. apply Z.ltb_ge in H2. auto.
  Qed.

  (* the C08 clause: with an underlying sampler whose draws are all in bounds (first half of C08) and interpolation /
     motion checking that stay in bounds (C07, C05), every success comes with a valid, in-bounds state *)
  Theorem all_samplers_success_valid_inbounds :
    (forall temp s, chk temp = true -> chk s = false -> chk (lastv temp s) = true) ->
    (forall temp s, P temp -> P s -> P (lastv temp s)) ->
    (forall e s, P e -> P s -> P (mid e s)) ->
    forall attempts improve c st tape s t, Forall P tape ->
      (vss_uniform St chk attempts st tape = Some (true, s, t) \/
       vss_gauss St chk attempts st tape = Some (true, s, t) \/
       vss_obstacle St chk lastv attempts st tape = Some (true, s, t) \/
       vss_bridge St chk mid attempts st tape = Some (true, s, t) \/
       vss_maxclear St chk clr attempts improve st tape = Some (true, s, t) \/
       vss_minclear St chk clr attempts c st tape = Some (true, s, t)) -> chk s = true /\ P s.
  Proof.
    intros Hl HPl HPm attempts improve c st tape s t HF H.
    assert (Hin : forall x, In x tape -> P x) by (rewrite Forall_forall in HF; exact HF).
    destruct H as [H|[H|[H|[H|[H|H]]]]].
    - apply uniform_success in H. destruct H as [H1 H2]. split; [exact H1 | apply Hin; exact H2].
    - apply gauss_success in H. destruct H as [H1 H2]. split; [exact H1 | apply Hin; exact H2].
    - eapply obstacle_success; eassumption.
    - eapply bridge_success; eassumption.
    - apply maxclear_success in H. destruct H as [H1 H2]. split; [exact H1 | apply Hin; exact H2].
    - apply minclear_success in H. destruct H as [H1 [_ H2]]. split; [exact H1 | apply Hin; exact H2].
  Qed.
End VssP.
