(* SolModel.v — executable model of PlannerSolution::operator< and PlannerSolutionSet::add
   (src/ompl/base/src/ProblemDefinition.cpp).  Costs / lengths / differences are integers here; the
   correspondence feeds the implementation the same integers as doubles. *)
From Coq Require Import List ZArith Bool.
Import ListNotations.
Local Open Scope Z_scope.

Record sol := mkSol { sid : nat; approx : bool; diff : Z; optimized : bool;
                      has_opt : bool; maximize : bool;       (* opt_ set?  isCostBetterThan = '>' (clearance) or '<' *)
                      cost : Z; len : Z }.

Definition better (mx : bool) (c1 c2 : Z) : bool := if mx then c2 <? c1 else c1 <? c2.

(* operator< *)
Definition slt (a b : sol) : bool :=
  if negb (approx a) && approx b then true
  else if approx a && negb (approx b) then false
  else if approx a && approx b then diff a <? diff b
  else if optimized a && negb (optimized b) then true
  else if negb (optimized a) && optimized b then false
  else if has_opt a then better (maximize a) (cost a) (cost b) else len a <? len b.

(* add(): push_back, then std::sort; any sorting algorithm gives the same sequence of equivalence classes when
   slt is a strict weak order; the model uses stable insertion *)
Fixpoint insert (x : sol) (l : list sol) : list sol :=
  match l with
  | [] => [x]
  | y :: t => if slt x y then x :: l else y :: insert x t
  end.
Fixpoint sort (l : list sol) : list sol :=
  match l with [] => [] | x :: t => insert x (sort t) end.
Definition sol_add (s : sol) (set : list sol) : list sol := sort (set ++ [s]).
Definition sol_top (set : list sol) : option sol := hd_error set.

(* lexicographic rank that the order is meant to implement *)
Definition rank (s : sol) : Z * Z * Z :=
  if approx s then (1, diff s, 0)
  else (0, (if optimized s then 0 else 1),
        (if has_opt s then (if maximize s then - cost s else cost s) else len s)).
Definition lexlt (a b : Z * Z * Z) : bool :=
  let '(a1, a2, a3) := a in let '(b1, b2, b3) := b in
  (a1 <? b1) || ((a1 =? b1) && ((a2 <? b2) || ((a2 =? b2) && (a3 <? b3)))).

Definition meets_objective (mx : bool) (c threshold : Z) : bool := better mx c threshold.   (* OptimizationObjective::isSatisfied *)
