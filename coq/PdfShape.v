(* PdfShape.v — shape invariant of the PDF sum tree, for EVERY arithmetic (no algebraic law is
   used): row i+1 has ceil(|row i|/2) entries, the top row has one entry, every other row >= 2.
   Consequence: the repaired sample() never indexes outside a row or outside data_. *)
From Coq Require Import List Arith ZArith Lia Bool ZifyNat Permutation.
From OmplV Require Import PdfModel.
Import ListNotations.

Ltac Zify.zify_post_hook ::= Z.to_euclidean_division_equations.

Section Shape.
  Variable A : arith.
  Notation T := (T A).

  Fixpoint shapeN (l : list nat) : Prop :=
    match l with
    | [] => True
    | n :: rest => match rest with
                   | [] => n = 1
                   | m :: _ => 2 <= n /\ m = (n + 1) / 2 /\ shapeN rest
                   end
    end.
  Definition shape (rows : list (list T)) : Prop := shapeN (map (@length T) rows).

  Lemma shapeN_cons2 n m rest : shapeN (n :: m :: rest) = (2 <= n /\ m = (n + 1) / 2 /\ shapeN (m :: rest)).
  Proof. reflexivity. Qed.
  Lemma shape_cons2 r0 r1 rest : shape (r0 :: r1 :: rest) = (2 <= length r0 /\ length r1 = (length r0 + 1) / 2 /\ shape (r1 :: rest)).
  Proof. reflexivity. Qed.
  Lemma length_updn {X} i (x : X) v : length (updn i x v) = length v.
  Proof. revert i; induction v as [|h t IH]; intros [|i]; simpl; auto. Qed.
  Lemma length_removelast {X} (v : list X) : length (removelast v) = length v - 1.
  Proof. induction v as [|h t IH]; simpl; auto. destruct t; simpl in *; auto. lia. Qed.
  Lemma length_bump w r : r <> [] -> length (bump A w r) = length r.
  Proof. intros H. unfold bump. rewrite app_length, length_removelast. simpl. destruct r; [congruence|simpl; lia]. Qed.
  Lemma length_unbump w r : r <> [] -> length (unbump A w r) = length r.
  Proof. intros H. unfold unbump. rewrite app_length, length_removelast. simpl. destruct r; [congruence|simpl; lia]. Qed.

  Lemma shapeN_pos l : shapeN l -> Forall (fun n => 1 <= n) l.
  Proof.
    induction l as [|n rest IH]; intros H; [constructor|]. simpl in H. destruct rest as [|m rest'].
    - subst. constructor; [lia|constructor].
    - destruct H as (H2 & _ & H'). constructor; [lia|apply IH; exact H'].
  Qed.
  Lemma shape_nonempty rows : shape rows -> Forall (fun r => r <> []) rows.
  Proof.
    intros H. apply shapeN_pos in H. rewrite Forall_map in H. eapply Forall_impl; [|exact H].
    intros r Hr E. subst. simpl in Hr. lia.
  Qed.
  Lemma map_length_ext (f : list T -> list T) rows :
    Forall (fun r => r <> []) rows -> (forall r, r <> [] -> length (f r) = length r) ->
    map (@length T) (map f rows) = map (@length T) rows.
  Proof. intros H E. induction H as [|r rest Hr _ IH]; simpl; [reflexivity|]. rewrite E by exact Hr. f_equal. exact IH. Qed.

  (* ---------- add ---------- *)
  Definition add_rows (r0' : list T) (rest : list (list T)) (w : T) : list (list T) :=
    let '(rest', h) := add_up A (length r0') rest w in
    let t := r0' :: rest' in
    if h then t ++ [[add A (getw A (last t []) 0) (getw A (last t []) 1)]] else t.

  Lemma add_rows_cons r0' r1 rest1 w :
    Nat.odd (length r0') = true ->
    add_rows r0' (r1 :: rest1) w = r0' :: add_rows (r1 ++ [w]) rest1 w.
  Proof.
    intros Ho. unfold add_rows. cbn [add_up]. rewrite Ho.
    destruct (add_up A (length (r1 ++ [w])) rest1 w) as [rest' h]. destruct h; [|reflexivity].
    cbn [app]. f_equal.
  Qed.
  Lemma add_rows_even r0' rest w :
    rest <> [] -> Nat.odd (length r0') = false -> add_rows r0' rest w = r0' :: map (bump A w) rest.
  Proof. intros Hne Ho. unfold add_rows. destruct rest as [|r1 rest1]; [congruence|]. cbn [add_up]. rewrite Ho. reflexivity. Qed.

  Lemma add_rows_shape : forall rest r0 w, shape (r0 :: rest) -> shape (add_rows (r0 ++ [w]) rest w).
  Proof.
    induction rest as [|r1 rest1 IH]; intros r0 w H.
    - unfold shape in H. simpl in H. unfold add_rows. cbn [add_up]. unfold shape. simpl.
      rewrite app_length. simpl. rewrite H. simpl. auto.
    - rewrite shape_cons2 in H. destruct H as (H2 & Hm & Hs).
      destruct (Nat.odd (length (r0 ++ [w]))) eqn:Ho.
      + rewrite add_rows_cons by exact Ho.
        specialize (IH r1 w Hs).
        assert (Hne : exists rest', add_rows (r1 ++ [w]) rest1 w = (r1 ++ [w]) :: rest').
        { unfold add_rows. destruct (add_up A (length (r1 ++ [w])) rest1 w) as [rest' h]. destruct h; eexists; reflexivity. }
        destruct Hne as (rest' & E). rewrite E in *. rewrite shape_cons2.
        rewrite !app_length in *. cbn [length] in *. split; [lia|]. split; [|exact IH].
        rewrite Nat.odd_spec in Ho. destruct Ho as (k & Hk). lia.
      + rewrite add_rows_even by (auto; discriminate).
        assert (E : map (@length T) (map (bump A w) (r1 :: rest1)) = map (@length T) (r1 :: rest1)).
        { apply map_length_ext; [apply shape_nonempty; exact Hs|intros r Hr; apply length_bump; exact Hr]. }
        unfold shape in *. cbn [map] in *. rewrite E. rewrite shapeN_cons2. rewrite app_length. cbn [length].
        split; [lia|]. split; [|exact Hs].
        assert (He : Nat.even (length (r0 ++ [w])) = true) by (rewrite <- Nat.negb_odd, Ho; reflexivity).
        rewrite Nat.even_spec in He. destruct He as (k & Hk). rewrite app_length in Hk. cbn [length] in Hk. lia.
  Qed.

  (* ---------- update ---------- *)
  Lemma upd_up_lengths : forall rs idx c, map (@length T) (upd_up A idx c rs) = map (@length T) rs.
  Proof. induction rs as [|r rest IH]; intros idx c; simpl; [reflexivity|]. rewrite length_updn. f_equal. apply IH. Qed.

  (* ---------- remove ---------- *)
  Definition rem_rows (r0' : list T) (rest : list (list T)) (w : T) : list (list T) :=
    let '(rest', h) := rem_up A (length r0') rest w in
    let t := r0' :: rest' in if h then removelast t else t.

  Lemma rem_rows_shape : forall rest r0 r0' w,
    shape (r0 :: rest) -> 2 <= length r0 -> length r0' = length r0 - 1 -> shape (rem_rows r0' rest w).
  Proof.
    induction rest as [|r1 rest1 IH]; intros r0 r0' w H H2 Hl.
    - unfold shape in H. simpl in H. lia.
    - rewrite shape_cons2 in H. destruct H as (_ & Hm & Hs).
      unfold rem_rows. cbn [rem_up].
      destruct (Nat.leb_spec (length r0') 1) as [Hle|Hgt].
      + (* two leaves -> one: the head row goes *)
        assert (length r1 = 1) by lia.
        destruct rest1 as [|r2 rest2].
        * simpl. unfold shape. simpl. lia.
        * exfalso. rewrite shape_cons2 in Hs. lia.
      + destruct (Nat.even (length r0')) eqn:He.
        * rewrite Nat.even_spec in He. destruct He as (k & Hk).
          assert (L1 : 2 <= length r1) by lia.
          assert (Hr1 : length (removelast r1) = length r1 - 1) by apply length_removelast.
          specialize (IH r1 (removelast r1) w Hs L1 Hr1).
          assert (rest1 <> []) as Hne.
          { intros ->. unfold shape in Hs. simpl in Hs. lia. }
          unfold rem_rows in IH.
          destruct (rem_up A (length (removelast r1)) rest1 w) as [rest' h] eqn:E.
          assert (Hne' : h = true -> rest' <> []).
          { intros ->. destruct rest1 as [|r2 rest2]; [congruence|]. cbn [rem_up] in E.
            destruct (length (removelast r1) <=? 1); [injection E as <-; discriminate|].
            destruct (Nat.even (length (removelast r1))).
            - destruct (rem_up A (length (removelast r2)) rest2 w). injection E as <- _. discriminate.
            - injection E as <-. discriminate. }
          destruct h.
          -- destruct rest' as [|a b]; [exfalso; apply Hne'; auto|].
             change (removelast (r0' :: removelast r1 :: a :: b)) with (r0' :: removelast (removelast r1 :: a :: b)).
             change (removelast (removelast r1 :: a :: b)) with (removelast r1 :: removelast (a :: b)) in *.
             rewrite shape_cons2. split; [lia|]. split; [lia|exact IH].
          -- rewrite shape_cons2. split; [lia|]. split; [lia|exact IH].
        * (* odd number of leaves left: ancestors of the last leaf lose `weight` *)
          assert (E : map (@length T) (map (unbump A w) (r1 :: rest1)) = map (@length T) (r1 :: rest1)).
          { apply map_length_ext; [apply shape_nonempty; exact Hs|intros r Hr; apply length_unbump; exact Hr]. }
          unfold shape in *. cbn [map] in *. rewrite E. rewrite shapeN_cons2.
          split; [lia|]. split; [|exact Hs].
          assert (Ho : Nat.odd (length r0') = true) by (rewrite <- Nat.negb_even, He; reflexivity).
          rewrite Nat.odd_spec in Ho. destruct Ho as (k & Hk). lia.
  Qed.

  (* ---------- sample never leaves the storage (repaired code), for every arithmetic ---------- *)
  (* the same shape read top-down: u = length of the row above *)
  Lemma last_indep {X} (l : list X) d d' : l <> [] -> last l d = last l d'.
  Proof. induction l as [|a t IH]; [congruence|]. intros _. destruct t; [reflexivity|]. cbn [last]. apply IH. discriminate. Qed.
  Fixpoint shapeD (u : nat) (down : list nat) : Prop :=
    match down with
    | [] => True
    | n :: rest => 2 <= n /\ u = (n + 1) / 2 /\ shapeD n rest
    end.
  Lemma shapeD_snoc : forall down u n, shapeD u down -> 2 <= n -> last down u = (n + 1) / 2 -> shapeD u (down ++ [n]).
  Proof.
    induction down as [|m rest IH]; intros u n H H2 Hl.
    - cbn [app shapeD]. simpl in Hl. auto.
    - cbn [app shapeD] in *. destruct H as (A1 & A2 & A3). split; [exact A1|]. split; [exact A2|]. apply IH; auto.
      destruct rest as [|a rest']; [exact Hl|].
      change (last (m :: a :: rest') u) with (last (a :: rest') u) in Hl. rewrite <- Hl. apply last_indep. discriminate.
  Qed.
  Lemma shapeN_topdown : forall l, shapeN l -> forall top down, rev l = top :: down -> top = 1 /\ shapeD 1 down.
  Proof.
    induction l as [|n rest IH]; intros H top down E; [discriminate|].
    cbn [shapeN] in H. destruct rest as [|m rest'].
    - simpl in E. injection E as <- <-. subst. simpl. auto.
    - destruct H as (H2 & Hm & Hs). change (rev (n :: m :: rest')) with (rev (m :: rest') ++ [n]) in E.
      destruct (rev (m :: rest')) as [|t d'] eqn:Er.
      { exfalso. apply (f_equal (@rev _)) in Er. rewrite rev_involutive in Er. discriminate. }
      cbn [app] in E. injection E as <- <-.
      destruct (IH Hs t d' eq_refl) as (Ht & Hd). split; [exact Ht|].
      apply shapeD_snoc; [exact Hd|exact H2|].
      assert (Hlast : last (t :: d') 0 = m).
      { rewrite <- Er. cbn [rev]. apply last_last. }
      destruct d' as [|x d'']; [simpl in *; lia|].
      rewrite <- Hm. rewrite <- Hlast.
      change (last (t :: x :: d'') 0) with (last (x :: d'') 0). apply last_indep. discriminate.
  Qed.

  Lemma descend_in_bounds : forall down u st,
    shapeD u (map (@length T) down) -> snd st < u ->
    exists st', descend A true down st = Some st' /\ snd st' < last (map (@length T) down) u.
  Proof.
    induction down as [|row rest IH]; intros u [rho node] Hs Hn.
    - exists (rho, node). split; [reflexivity|]. simpl. exact Hn.
    - cbn [descend step_checked]. cbn [map shapeD] in Hs. destruct Hs as (H2 & Hu & Hs'). simpl in Hn.
      assert (Hn2 : 2 * node < length row) by lia.
      destruct (nth_error row (2 * node)) as [x|] eqn:E; [|apply nth_error_None in E; lia].
      assert (Hlast : forall y : nat, last (map (@length T) (row :: rest)) u = last (map (@length T) rest) (length row)).
      { intros _. cbn [map]. destruct (map (@length T) rest) as [|a l] eqn:El; [reflexivity|]. cbn [last]. destruct l; [reflexivity|]. apply last_indep. discriminate. }
      destruct (ltb A x rho && (2 * node + 1 <? length row)) eqn:G.
      + apply andb_true_iff in G. destruct G as (_ & G). apply Nat.ltb_lt in G.
        destruct (IH (length row) (sub A rho x, S (2 * node)) Hs' ltac:(simpl; lia)) as (st' & E' & B).
        exists st'. split; [exact E'|]. rewrite (Hlast 0). exact B.
      + destruct (IH (length row) (rho, 2 * node) Hs' ltac:(simpl; lia)) as (st' & E' & B).
        exists st'. split; [exact E'|]. rewrite (Hlast 0). exact B.
  Qed.

  Theorem sample_in_bounds (p : pdf A) r one :
    shape (rows p) -> rows p <> [] -> length (hd [] (rows p)) = length (data p) ->
    pdf_sample A r one p <> SOob.
  Proof.
    intros Hs Hne Hl. unfold pdf_sample, pdf_sample_g.
    destruct (data p) as [|d0 dt] eqn:Ed; [discriminate|].
    destruct (ltb A r (zero A) || ltb A one r); [discriminate|].
    destruct (rev (rows p)) as [|top down] eqn:Er.
    { exfalso. apply Hne. apply (f_equal (@rev _)) in Er. rewrite rev_involutive in Er. exact Er. }
    assert (Erev : rev (map (@length T) (rows p)) = length top :: map (@length T) down).
    { rewrite <- map_rev, Er. reflexivity. }
    destruct (shapeN_topdown _ Hs _ _ Erev) as (Htop & Hd).
    destruct top as [|w wt]; [simpl in Htop; lia|].
    destruct (descend_in_bounds down 1 (mul A r w, 0) Hd ltac:(simpl; lia)) as ([rho node] & E & B).
    rewrite E. cbn [snd] in B.
    assert (Hb : node < length (d0 :: dt)).
    { rewrite <- Hl. assert (Erows : rows p = rev down ++ [w :: wt]).
      { rewrite <- (rev_involutive (rows p)), Er. reflexivity. }
      rewrite Erows. destruct down as [|d1 dr].
      - simpl in *. lia.
      - assert (L : last (map (@length T) (d1 :: dr)) 1 = length (hd [] (rev (d1 :: dr) ++ [w :: wt]))).
        { destruct (rev (d1 :: dr)) as [|a l] eqn:Ea.
          - exfalso. apply (f_equal (@rev _)) in Ea. rewrite rev_involutive in Ea. discriminate.
          - cbn [app hd]. apply (f_equal (@rev _)) in Ea. rewrite rev_involutive in Ea. rewrite Ea.
            cbn [rev]. rewrite map_app. cbn [map]. apply last_last. }
        rewrite <- L. exact B. }
    destruct (nth_error (d0 :: dt) node) as [[id ix]|] eqn:En; [discriminate|].
    apply nth_error_None in En. lia.
  Qed.

  (* ---------- the structural invariant, preserved by every operation for every arithmetic ---------- *)
  Definition IndexOK (d : list (nat * nat)) : Prop := forall i, i < length d -> snd (nth i d (0, 0)) = i.
  Definition ids (d : list (nat * nat)) : list nat := map fst d.
  Definition SInv (p : pdf A) : Prop :=
    IndexOK (data p) /\ NoDup (ids (data p)) /\
    ((data p = [] /\ rows p = []) \/
     (rows p <> [] /\ shape (rows p) /\ length (hd [] (rows p)) = length (data p))).

  Lemma nth_updn_eq {X} (d : X) i x v : i < length v -> nth i (updn i x v) d = x.
  Proof. revert i; induction v as [|h t IH]; intros [|i] H; simpl in *; try lia; auto; try (apply IH; lia). Qed.
  Lemma nth_updn_ne {X} (d : X) i j x v : i <> j -> nth j (updn i x v) d = nth j v d.
  Proof. revert i j; induction v as [|h t IH]; intros [|i] [|j] H; simpl in *; auto; try lia; try (apply IH; lia). Qed.
  Lemma nth_removelast {X} (d : X) v i : i < length v - 1 -> nth i (removelast v) d = nth i v d.
  Proof.
    revert i; induction v as [|h t IH]; intros i H; simpl in *; [lia|].
    destruct t as [|h' t']; [simpl in *; lia|]. destruct i as [|i]; [reflexivity|]. apply IH. simpl in *. lia.
  Qed.
  Lemma map_updn {X Y} (f : X -> Y) i x v : map f (updn i x v) = updn i (f x) (map f v).
  Proof. revert i; induction v as [|h t IH]; intros [|i]; simpl; auto. f_equal. apply IH. Qed.
  Lemma map_removelast {X Y} (f : X -> Y) l : map f (removelast l) = removelast (map f l).
  Proof. induction l as [|a t IH]; [reflexivity|]. destruct t; [reflexivity|]. simpl in *. f_equal. exact IH. Qed.
  Lemma In_updn {X} (y : X) i x v : In y (updn i x v) -> y = x \/ In y v.
  Proof. revert i; induction v as [|h t IH]; intros [|i] H; simpl in *; auto; destruct H as [H|H]; auto. destruct (IH _ H); auto. Qed.
  Lemma NoDup_updn_fresh i (x : nat) v : NoDup v -> ~ In x v -> NoDup (updn i x v).
  Proof.
    revert i; induction v as [|h t IH]; intros [|i] ND Hx; simpl in *; auto; inversion ND; subst; constructor; auto.
    - intros Hin. apply In_updn in Hin. destruct Hin as [->|Hin]; auto.
  Qed.
  Lemma In_removelast {X} (y : X) v : In y (removelast v) -> In y v.
  Proof. induction v as [|h t IH]; simpl; auto. destruct t; simpl in *; [tauto|]. intros [H|H]; auto. Qed.
  Lemma NoDup_removelast (v : list nat) : NoDup v -> NoDup (removelast v) /\ (v <> [] -> ~ In (last v 0) (removelast v)).
  Proof.
    induction v as [|h t IH]; intros ND; [split; [constructor|congruence]|]. inversion ND; subst.
    destruct t as [|h' t']; [split; [constructor|simpl; tauto]|].
    destruct (IH H2) as (A1 & A2). split.
    - change (NoDup (h :: removelast (h' :: t'))). constructor; auto. intros Hin. apply H1. apply In_removelast. exact Hin.
    - intros _. change (~ In (last (h' :: t') 0) (h :: removelast (h' :: t'))). intros [E|Hin].
      + apply H1. rewrite E. clear. generalize h'. induction t' as [|a t'' IH']; intros b; [left; reflexivity|]. right. apply IH'.
      + apply A2; [discriminate|exact Hin].
  Qed.

  Lemma index_of_some id : forall d ix, index_of id d = Some ix ->
    exists i, i < length d /\ fst (nth i d (0, 0)) = id /\ snd (nth i d (0, 0)) = ix.
  Proof.
    induction d as [|[i0 x0] t IH]; intros ix H; simpl in H; [discriminate|].
    destruct (Nat.eqb_spec i0 id) as [E|N].
    - injection H as <-. exists 0. simpl. split; [lia|]. auto.
    - destruct (IH ix H) as (i & Hi & B1 & B2). exists (S i). simpl. split; [lia|]. auto.
  Qed.
  Lemma index_of_ok id d ix : IndexOK d -> index_of id d = Some ix -> ix < length d /\ fst (nth ix d (0, 0)) = id.
  Proof. intros H F. destruct (index_of_some id d ix F) as (i & Hi & B1 & B2). rewrite H in B2 by exact Hi. subst. auto. Qed.
  Lemma index_of_none id d : index_of id d = None <-> ~ In id (ids d).
  Proof.
    induction d as [|[i0 x0] t IH]; simpl; [tauto|].
    destruct (Nat.eqb_spec i0 id) as [E|N]; [split; [discriminate|intros H; exfalso; apply H; auto]|]. rewrite IH. tauto.
  Qed.

  Lemma hd_add_rows r0' rest w : hd [] (add_rows r0' rest w) = r0' /\ add_rows r0' rest w <> [].
  Proof. unfold add_rows. destruct (add_up A (length r0') rest w) as [rest' h]. destruct h; split; simpl; auto; discriminate. Qed.
  Lemma hd_rem_rows r0' rest w : rest <> [] -> hd [] (rem_rows r0' rest w) = r0' /\ rem_rows r0' rest w <> [].
  Proof.
    intros Hne. unfold rem_rows. destruct (rem_up A (length r0') rest w) as [rest' h] eqn:E. destruct h; [|split; simpl; auto; discriminate].
    assert (rest' <> []).
    { destruct rest as [|r1 rest1]; [congruence|]. cbn [rem_up] in E.
      destruct (length r0' <=? 1); [injection E as <-; discriminate|].
      destruct (Nat.even (length r0')).
      - destruct (rem_up A (length (removelast r1)) rest1 w). injection E as <- _. discriminate.
      - injection E as <-. discriminate. }
    destruct rest' as [|a b]; [congruence|]. split; simpl; auto; discriminate.
  Qed.

  Lemma rem_rows_cons r0' r1 rest1 w : 1 < length r0' -> Nat.even (length r0') = true -> rest1 <> [] ->
    rem_rows r0' (r1 :: rest1) w = r0' :: rem_rows (removelast r1) rest1 w.
  Proof.
    intros H1 He Hne. destruct (hd_rem_rows (removelast r1) rest1 w Hne) as (_ & Hn).
    unfold rem_rows in *. cbn [rem_up]. destruct (Nat.leb_spec (length r0') 1); [lia|]. rewrite He.
    destruct (rem_up A (length (removelast r1)) rest1 w) as [rest' h]. destruct h; [|reflexivity].
    destruct rest' as [|y ys]; [simpl in Hn; congruence|reflexivity].
  Qed.
  Lemma rem_rows_odd r0' rest w : 1 < length r0' -> Nat.even (length r0') = false -> rest <> [] ->
    rem_rows r0' rest w = r0' :: map (unbump A w) rest.
  Proof.
    intros H1 He Hne. destruct rest as [|r1 rest1]; [congruence|]. unfold rem_rows. cbn [rem_up].
    destruct (Nat.leb_spec (length r0') 1); [lia|]. rewrite He. reflexivity.
  Qed.
  Lemma rem_rows_small r0' r1 rest1 w : length r0' <= 1 -> rem_rows r0' (r1 :: rest1) w = removelast (r0' :: r1 :: rest1).
  Proof. intros H. unfold rem_rows. cbn [rem_up]. destruct (Nat.leb_spec (length r0') 1); [reflexivity|lia]. Qed.

  Lemma shape_ext rows rows' : map (@length T) rows = map (@length T) rows' -> shape rows -> shape rows'.
  Proof. unfold shape. intros ->. auto. Qed.

  Lemma length_swap_last {X} (d : X) i v : length (swap_last d i v) = length v.
  Proof. unfold swap_last. rewrite !length_updn. reflexivity. Qed.

  Lemma sinv_empty : SInv (empty A).
  Proof. split; [intros i Hi; simpl in Hi; lia|]. split; [constructor|]. left. auto. Qed.

  Lemma pdf_add_unfold id w (p : pdf A) r0 rest :
    rows p = r0 :: rest -> (length (data p ++ [(id, length (data p))]) =? 1) = false ->
    pdf_add A id w p = mkPdf (data p ++ [(id, length (data p))]) (add_rows (r0 ++ [w]) rest w).
  Proof.
    intros Er En. unfold pdf_add, add_rows. rewrite En, Er.
    destruct (add_up A (length (r0 ++ [w])) rest w) as [rest' h]. destruct h; reflexivity.
  Qed.

  Lemma sinv_add id w p : SInv p -> index_of id (data p) = None -> SInv (pdf_add A id w p).
  Proof.
    intros (IO & ND & Hr) Hn.
    assert (IO' : IndexOK (data p ++ [(id, length (data p))])).
    { intros i Hi. rewrite app_length in Hi. cbn [length] in Hi. destruct (Nat.eq_dec i (length (data p))) as [->|N].
      - rewrite nth_middle. reflexivity.
      - rewrite app_nth1 by lia. apply IO. lia. }
    assert (ND' : NoDup (ids (data p ++ [(id, length (data p))]))).
    { unfold ids. rewrite map_app. cbn [map fst].
      apply Permutation_NoDup with (l := id :: map fst (data p)).
      - apply Permutation_cons_append.
      - constructor; [apply index_of_none; exact Hn|exact ND]. }
    destruct Hr as [(Ed & Er)|(Hne & Hs & Hl)].
    - unfold pdf_add. rewrite Ed in *. rewrite Er. cbn [length app Nat.add Nat.eqb]. split; [exact IO'|]. split; [exact ND'|]. right.
      cbn [rows data hd length]. split; [discriminate|]. split; [unfold shape; simpl; reflexivity|reflexivity].
    - destruct (rows p) as [|r0 rest] eqn:Er; [congruence|].
      assert (En : (length (data p ++ [(id, length (data p))]) =? 1) = false).
      { apply Nat.eqb_neq. rewrite app_length. cbn [length]. cbn [hd] in Hl.
        apply shape_nonempty in Hs. inversion Hs; subst. destruct r0; [congruence|simpl in Hl; lia]. }
      rewrite (pdf_add_unfold id w p r0 rest Er En).
      split; [exact IO'|]. split; [exact ND'|]. right. cbn [rows data].
      destruct (hd_add_rows (r0 ++ [w]) rest w) as (H1 & H2). split; [exact H2|]. split; [apply add_rows_shape; exact Hs|].
      rewrite H1, !app_length. cbn [hd length] in *. lia.
  Qed.

  Lemma sinv_update ix w p : SInv p -> SInv (pdf_update_at A ix w p).
  Proof.
    intros (IO & ND & Hr). unfold pdf_update_at. destruct (rows p) as [|r0 rest] eqn:Er; [split; [exact IO|split; [exact ND|rewrite Er; exact Hr]]|].
    split; [exact IO|]. split; [exact ND|]. right. cbn [rows data].
    destruct Hr as [(Ed & Er')|(Hne & Hs & Hl)]; [discriminate|].
    split; [discriminate|]. split.
    - eapply shape_ext; [|exact Hs]. cbn [map]. rewrite length_updn, upd_up_lengths. reflexivity.
    - cbn [hd] in *. rewrite length_updn. exact Hl.
  Qed.

  Lemma nth_rl_swap {X} (d : X) i l j : i < length l - 1 -> j < length l - 1 ->
    nth j (removelast (swap_last d i l)) d = if j =? i then nth (length l - 1) l d else nth j l d.
  Proof.
    intros Hi Hj. rewrite nth_removelast by (rewrite length_swap_last; exact Hj).
    unfold swap_last. rewrite nth_updn_ne by lia.
    destruct (Nat.eqb_spec j i) as [->|N]; [apply nth_updn_eq; lia|apply nth_updn_ne; lia].
  Qed.

  Lemma pdf_remove_unfold idx (p : pdf A) r0 rest :
    rows p = r0 :: rest -> (length (data p) =? 1) = false ->
    pdf_remove_at A idx p =
      let '(dat, r0s, rest1, weight) := rem_prep A idx (length (data p)) (data p) r0 rest in
      mkPdf (removelast dat) (rem_rows (removelast r0s) rest1 weight).
  Proof.
    intros Er En. unfold pdf_remove_at, rem_rows. rewrite En, Er.
    destruct (rem_prep A idx (length (data p)) (data p) r0 rest) as [[[dat r0s] rest1] weight].
    destruct (rem_up A (length (removelast r0s)) rest1 weight) as [rest' h]. destruct h; reflexivity.
  Qed.

  (* what rem_prep does to the storage, pointwise *)
  Lemma rem_prep_facts idx n dat0 r0 rest dat r0s rest1 weight :
    rem_prep A idx n dat0 r0 rest = (dat, r0s, rest1, weight) -> n = length dat0 -> idx < n ->
    length r0s = length r0 /\ map (@length T) rest1 = map (@length T) rest /\ length dat = n /\
    (forall j, j < n - 1 ->
       nth j (removelast dat) (0, 0) =
         if (j =? idx) && negb (idx + 1 =? n) then (fst (nth (n - 1) dat0 (0, 0)), idx) else nth j dat0 (0, 0)).
  Proof.
    intros E Hn Hi. unfold rem_prep in E. destruct (Nat.eqb_spec (idx + 1) n) as [E1|N1].
    - injection E as <- <- <- <-. split; [reflexivity|]. split; [reflexivity|]. split; [auto|].
      intros j Hj. rewrite andb_false_r. apply nth_removelast. lia.
    - set (sw := swap_last (0, 0) idx dat0) in *.
      set (dat' := updn idx (fst (nth idx sw (0, 0)), idx) sw) in *.
      assert (Ld : length dat' = n) by (unfold dat', sw; rewrite length_updn, length_swap_last; auto).
      assert (Pt : forall j, j < n - 1 -> nth j (removelast dat') (0, 0) =
                 if (j =? idx) && negb false then (fst (nth (n - 1) dat0 (0, 0)), idx) else nth j dat0 (0, 0)).
      { intros j Hj. rewrite nth_removelast by lia. unfold dat'.
        assert (Hsw : forall k, k < n - 1 -> nth k sw (0, 0) = if k =? idx then nth (n - 1) dat0 (0, 0) else nth k dat0 (0, 0)).
        { intros k Hk. unfold sw, swap_last. rewrite <- Hn. rewrite nth_updn_ne by lia.
          destruct (Nat.eqb_spec k idx) as [->|Nk]; [apply nth_updn_eq; lia|apply nth_updn_ne; lia]. }
        destruct (Nat.eqb_spec j idx) as [->|Nj]; cbn [andb negb].
        - rewrite nth_updn_eq by (unfold sw; rewrite length_swap_last; lia). rewrite Hsw by lia. rewrite Nat.eqb_refl. reflexivity.
        - rewrite nth_updn_ne by lia. rewrite Hsw by lia. destruct (Nat.eqb_spec j idx); [lia|reflexivity]. }
      destruct ((idx + 2 =? n) && Nat.even idx).
      + injection E as <- <- <- <-. split; [apply length_swap_last|]. split; [reflexivity|]. split; [exact Ld|exact Pt].
      + injection E as <- <- <- <-. split; [apply length_swap_last|]. split; [apply upd_up_lengths|]. split; [exact Ld|exact Pt].
  Qed.

  Lemma sinv_remove ix p : SInv p -> ix < length (data p) -> SInv (pdf_remove_at A ix p).
  Proof.
    intros (IO & ND & Hr) Hix.
    destruct Hr as [(Ed & Er)|(Hne & Hs & Hl)]; [rewrite Ed in Hix; simpl in Hix; lia|].
    destruct (Nat.eqb_spec (length (data p)) 1) as [E1|N1].
    { unfold pdf_remove_at. rewrite E1. cbn [Nat.eqb]. apply sinv_empty. }
    destruct (rows p) as [|r0 rest] eqn:Er; [congruence|]. cbn [hd] in Hl.
    rewrite (pdf_remove_unfold ix p r0 rest Er) by (apply Nat.eqb_neq; exact N1).
    destruct (rem_prep A ix (length (data p)) (data p) r0 rest) as [[[dat r0s] rest1] weight] eqn:Ep.
    destruct (rem_prep_facts _ _ _ _ _ _ _ _ _ Ep eq_refl Hix) as (L0 & Lr & Ld & Pt).
    set (n := length (data p)) in *.
    assert (Hn2 : 2 <= n) by lia.
    assert (Hrest : rest <> []).
    { intros ->. unfold shape in Hs. simpl in Hs. lia. }
    assert (Hrest1 : rest1 <> []).
    { intros ->. destruct rest; [congruence|discriminate]. }
    assert (Lrd : length (removelast dat) = n - 1) by (rewrite length_removelast; lia).
    split; [|split].
    - (* IndexOK *)
      cbn [data]. intros j Hj. rewrite Lrd in Hj. rewrite Pt by exact Hj.
      destruct ((j =? ix) && negb (ix + 1 =? n)) eqn:G.
      + apply andb_true_iff in G. destruct G as (G & _). apply Nat.eqb_eq in G. subst. reflexivity.
      + apply IO. lia.
    - (* handles stay unique *)
      cbn [data]. unfold ids. apply (NoDup_nth (map fst (removelast dat)) 0).
      rewrite map_length, Lrd. intros j k Hj Hk Ejk.
      assert (Fj : forall j, j < n - 1 -> nth j (map fst (removelast dat)) 0 =
                 if (j =? ix) && negb (ix + 1 =? n) then nth (n - 1) (ids (data p)) 0 else nth j (ids (data p)) 0).
      { intros m Hm. change 0 with (fst (0, 0)) at 1. rewrite map_nth. rewrite Pt by exact Hm. unfold ids.
        destruct ((m =? ix) && negb (ix + 1 =? n)); cbn [fst]; change 0 with (fst (0, 0)); rewrite map_nth; reflexivity. }
      rewrite !Fj in Ejk by assumption.
      pose proof (proj1 (NoDup_nth (ids (data p)) 0) ND) as Inj. unfold ids in Inj at 1 2. rewrite map_length in Inj. fold n in Inj.
      destruct ((j =? ix) && negb (ix + 1 =? n)) eqn:Gj; destruct ((k =? ix) && negb (ix + 1 =? n)) eqn:Gk.
      + apply andb_true_iff in Gj, Gk. destruct Gj as (Gj & _), Gk as (Gk & _). apply Nat.eqb_eq in Gj, Gk. lia.
      + apply Inj in Ejk; lia.
      + apply Inj in Ejk; lia.
      + apply Inj in Ejk; lia.
    - right. cbn [rows data].
      destruct (hd_rem_rows (removelast r0s) rest1 weight Hrest1) as (H1 & H2).
      split; [exact H2|]. split.
      + apply (rem_rows_shape rest1 r0s); [|lia|apply length_removelast].
        eapply shape_ext; [|exact Hs]. cbn [map]. rewrite L0, Lr. reflexivity.
      + rewrite H1, length_removelast, Lrd. lia.
  Qed.

  Theorem sinv_step p o p' : SInv p -> pdf_step A p o = Some p' -> SInv p'.
  Proof.
    intros I S. destruct o as [id w|id w|id|]; cbn [pdf_step] in S.
    - destruct (ltb A w (zero A)); [discriminate|]. destruct (index_of id (data p)) eqn:F; [discriminate|].
      injection S as <-. apply sinv_add; auto.
    - destruct (index_of id (data p)) as [ix|]; [|discriminate]. destruct (ix <? length (data p)); [|discriminate].
      injection S as <-. apply sinv_update; auto.
    - destruct (index_of id (data p)) as [ix|] eqn:F; [|discriminate]. injection S as <-.
      destruct I as (IO & ND & Hr). apply sinv_remove; [split; auto|]. apply (index_of_ok id (data p) ix IO F).
    - injection S as <-. apply sinv_empty.
  Qed.

  Theorem sinv_reachable : forall ops p p', SInv p -> pdf_run A p ops = Some p' -> SInv p'.
  Proof.
    induction ops as [|o t IH]; intros p p' I R; cbn [pdf_run] in R; [injection R as <-; exact I|].
    destruct (pdf_step A p o) as [p1|] eqn:S; [|discriminate]. apply (IH p1 p'); [|exact R]. apply (sinv_step p o p1 I S).
  Qed.

  (* the repaired sample() never reads outside its storage, whatever the arithmetic does *)
  Theorem sample_never_oob : forall ops p r one, pdf_run A (empty A) ops = Some p -> pdf_sample A r one p <> SOob.
  Proof.
    intros ops p r one R. pose proof (sinv_reachable ops _ _ sinv_empty R) as (IO & ND & Hr).
    destruct Hr as [(Ed & Er)|(Hne & Hs & Hl)].
    - unfold pdf_sample, pdf_sample_g. rewrite Ed. discriminate.
    - apply sample_in_bounds; auto.
  Qed.
End Shape.
