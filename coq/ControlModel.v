(* ControlModel.v — control::SpaceInformation::propagate / propagateWhileValid (both overloads) over an abstract
   deterministic one-step propagator, and the replay of a control path (states, controls, step counts). *)
From Coq Require Import List ZArith Bool Arith.
Import ListNotations.

Section Control.
  Variables St C : Type.
  Variable stepf : C -> St -> St.          (* StatePropagator::propagate(state, control, stepSize) *)
  Variable valid : St -> bool.             (* SpaceInformation::isValid *)

  Fixpoint iter (c : C) (n : nat) (s : St) : St := match n with O => s | S k => iter c k (stepf c s) end.
  (* propagate(state, control, steps, result) *)
  Definition propagate (s : St) (c : C) (steps : nat) : St := iter c steps s.

  (* the loop of the single-result overload after a valid first step: [i] steps done, [cur] the last valid state *)
  Fixpoint pwv_loop (c : C) (fuel : nat) (i : nat) (cur : St) : nat * St :=
    match fuel with
    | O => (i, cur)
    | S k => let nxt := stepf c cur in if valid nxt then pwv_loop c k (S i) nxt else (i, cur)
    end.
  (* propagateWhileValid(state, control, steps, result): number of steps performed and the last valid state *)
  Definition pwv (s : St) (c : C) (steps : nat) : nat * St :=
    match steps with
    | O => (O, s)
    | S k => let s1 := stepf c s in if valid s1 then pwv_loop c k 1 s1 else (O, s)
    end.
  (* the vector overload with alloc = true: the valid states reached, in order *)
  Fixpoint pwv_states (c : C) (fuel : nat) (cur : St) : list St :=
    match fuel with
    | O => []
    | S k => let nxt := stepf c cur in if valid nxt then nxt :: pwv_states c k nxt else []
    end.

  (* replaying a control path: every state visited, segment by segment (without the start) *)
  Fixpoint steps_of (c : C) (n : nat) (s : St) : list St := match n with O => [] | S k => stepf c s :: steps_of c k (stepf c s) end.
  Fixpoint replay (s : St) (segs : list (C * nat)) : list (list St) :=
    match segs with
    | [] => []
    | (c, n) :: t => steps_of c n s :: replay (iter c n s) t
    end.
  Fixpoint ends (s : St) (segs : list (C * nat)) : list St :=
    match segs with [] => [] | (c, n) :: t => iter c n s :: ends (iter c n s) t end.

  (* SimpleDirectedControlSampler::getBestControl: k candidate (control, sampled step count) pairs are propagated while valid
     from the same source; the first one whose end state is strictly closer to the target than everything before it is kept.
     Result: the control, the number of steps that were actually performed, and the state reached (written to dest). *)
  Variable dist : St -> Z.                 (* si_->distance(., dest) *)
  Definition cand_eval (s : St) (cn : C * nat) : C * nat * St := let r := pwv s (fst cn) (snd cn) in (fst cn, fst r, snd r).
  Fixpoint best_loop (s : St) (best : C * nat * St) (bd : Z) (l : list (C * nat)) : C * nat * St :=
    match l with
    | [] => best
    | cn :: t => let r := cand_eval s cn in let dd := dist (snd r) in
                 if (dd <? bd)%Z then best_loop s r dd t else best_loop s best bd t
    end.
  Definition best_control (s : St) (first : C * nat) (rest : list (C * nat)) : C * nat * St :=
    let r0 := cand_eval s first in best_loop s r0 (dist (snd r0)) rest.
End Control.

(* ---- the admission rule for control-planner reports: facts produced by the harness's own replay *)
Record cseg := mkCS { cs_steps : Z;           (* duration / stepSize rounded to the nearest integer *)
                      cs_whole : bool;        (* |duration - steps * stepSize| <= 1e-9 * stepSize *)
                      cs_minmax : bool;       (* min <= steps <= max control duration (recorded; the property does not demand it:
                                                 intermediate states split a control, an early stop shortens it) *)
                      cs_ctrl_inb : bool;     (* control within the control-space bounds *)
                      cs_reproduced : bool;   (* replaying the control for that many steps from the stored state gives the next stored state *)
                      cs_all_valid : bool }.  (* every propagation step of the replay lands on a valid state *)
Record crun := mkCR { cr_status : Z; cr_has_path : bool; cr_paths_before : Z; cr_paths_after : Z; cr_approx : bool; cr_diff : Z;
                      cr_start_ok : bool;     (* first state is a valid, in-bounds start of the problem *)
                      cr_nstates : Z; cr_segs : list cseg;
                      cr_last_goal : bool; cr_last_gdist : Z }.
Inductive cverdict := CVok | CVstatus_without_path | CVpath_without_status | CVstart | CVshape | CVduration | CVcontrol | CVreplay | CVinvalid | CVgoal.
Definition c_is_solution (s : Z) : bool := (s =? 5)%Z || (s =? 6)%Z.
Definition cadjudicate (r : crun) : cverdict :=
  if c_is_solution (cr_status r) then
    if negb (cr_has_path r) || (cr_nstates r <=? 0)%Z then CVstatus_without_path
    else if negb (cr_start_ok r) then CVstart
    else if negb (Z.of_nat (length (cr_segs r)) =? cr_nstates r - 1)%Z then CVshape
    else if negb (forallb (fun s => cs_whole s && (0 <? cs_steps s)%Z) (cr_segs r)) then CVduration
    else if negb (forallb cs_ctrl_inb (cr_segs r)) then CVcontrol
    else if negb (forallb cs_reproduced (cr_segs r)) then CVreplay
    else if negb (forallb cs_all_valid (cr_segs r)) then CVinvalid
    else if negb (if cr_approx r then (cr_status r =? 5)%Z && (Z.abs (cr_diff r - cr_last_gdist r) <=? 1)%Z
                  else (cr_status r =? 6)%Z && cr_last_goal r) then CVgoal
    else CVok
  else if negb (cr_paths_after r =? cr_paths_before r)%Z then CVpath_without_status
  else CVok.

(* the instance run against the implementation: states are integers, one step adds 1, validity is membership in a list *)
Definition zc_valid (bad : list Z) (x : Z) : bool := negb (existsb (Z.eqb x) bad).
Definition pwv_run (steps : nat) (start : Z) (bad : list Z) : Z * (nat * Z) * list Z :=
  (propagate Z unit (fun _ x => (x + 1)%Z) start tt steps,
   pwv Z unit (fun _ x => (x + 1)%Z) (zc_valid bad) start tt steps,
   pwv_states Z unit (fun _ x => (x + 1)%Z) (zc_valid bad) tt steps start).
(* the directed sampler on the same instance: a control is the integer added per step, distance = |x - target| *)
Definition dcs_run (start target : Z) (bad : list Z) (first : Z * nat) (rest : list (Z * nat)) : Z * nat * Z :=
  best_control Z Z (fun u x => (x + u)%Z) (zc_valid bad) (fun x => Z.abs (x - target)) start first rest.
