(* GnatFullModel.v — executable model of the whole NearestNeighborsGNAT structure (NearestNeighborsGNAT.h and its
   NoThreadSafety twin): Node::add with updateRange / updateRadius, needToSplit, Node::gf_split with GreedyKCenters::gf_kcenters,
   rebuildDataStructure, add(vector), remove with its removal cache, gf_clear.  Definitions only.
   Distances are integers; the first k-centre of every gf_split comes from a tape of variates u in [0,1) (RNG hook), given as
   fractions num/den: index = min(floor(n * u), n - 1).  The structure is compared node by node with the library's dump. *)
From Coq Require Import List ZArith Bool Arith.
Import ListNotations.
Local Open Scope Z_scope.

Section Full.
  Variable P : Type.
  Variable d : P -> P -> Z.
  Variable peqb : P -> P -> bool.

  Record params := mkPar { p_degree : nat; p_minDeg : nat; p_maxDeg : nat; p_leaf : nat; p_cache : nat; p_rebal : bool }.
  Inductive fnode := FNode (degree : nat) (pivot : P) (minR maxR : option Z) (ranges : list (option Z * option Z))
                           (data : list P) (children : list fnode).
  Definition f_degree n := match n with FNode g _ _ _ _ _ _ => g end.
  Definition f_pivot n := match n with FNode _ p _ _ _ _ _ => p end.
  Definition f_data n := match n with FNode _ _ _ _ _ dat _ => dat end.
  Definition f_children n := match n with FNode _ _ _ _ _ _ ch => ch end.
  Definition new_node (degree : nat) (pivot : P) : fnode :=
    FNode degree pivot None None (repeat (None, None) degree) [] [].

  (* updateRadius / updateRange: None stands for +inf in the min slot and -inf in the max slot *)
  Definition upd_min (lo : option Z) (x : Z) : option Z := match lo with Some l => if x <? l then Some x else lo | None => Some x end.
  Definition upd_max (hi : option Z) (x : Z) : option Z := match hi with Some h => if h <? x then Some x else hi | None => Some x end.
  Definition update_radius (x : Z) (n : fnode) : fnode :=
    match n with FNode g p lo hi r dat ch => FNode g p (upd_min lo x) (upd_max hi x) r dat ch end.
  Fixpoint upd_nth {A} (f : A -> A) (i : nat) (l : list A) : list A :=
    match l, i with
    | [], _ => []
    | a :: t, O => f a :: t
    | a :: t, S j => a :: upd_nth f j t
    end.
  Definition update_range (i : nat) (x : Z) (n : fnode) : fnode :=
    match n with FNode g p lo hi r dat ch => FNode g p lo hi (upd_nth (fun e => (upd_min (fst e) x, upd_max (snd e) x)) i r) dat ch end.

  (* ---- GreedyKCenters::gf_kcenters: indices of the centres (the first one given), farthest-point iteration ---- *)
  Definition min_opt (m : option Z) (x : Z) : Z := match m with Some v => Z.min v x | None => x end.
  (* one gf_sweep for the centre c: new minDist list, and (index, value) of the first maximum of minDist *)
  Fixpoint gf_sweep (c : P) (dat : list P) (mind : list (option Z)) (j : nat) (best : option (nat * Z)) : list (option Z) * option (nat * Z) :=
    match dat, mind with
    | x :: dt, m :: mt =>
      let v := min_opt m (d x c) in
      let best' := match best with Some (_, bv) => if bv <? v then Some (j, v) else best | None => Some (j, v) end in
      let '(r, b) := gf_sweep c dt mt (S j) best' in (Some v :: r, b)
    | _, _ => ([], best)
    end.
  Fixpoint gf_kc_loop (fuel : nat) (dat : list P) (centers : list nat) (last : nat) (mind : list (option Z)) : list nat :=
    match fuel with
    | O => centers
    | S f =>
      match nth_error dat last with
      | None => centers
      | Some c =>
        let '(mind', best) := gf_sweep c dat mind 0 None in
        match best with
        | Some (ind, v) => if v <=? 0 then centers else gf_kc_loop f dat (centers ++ [ind]) ind mind'
        | None => centers
        end
      end
    end.
  Definition gf_kcenters (dat : list P) (k first : nat) : list nat :=
    gf_kc_loop (k - 1) dat [first] first (repeat None (length dat)).
  (* RNG::uniformInt(0, n-1) on the variate num/den *)
  Definition first_index (n : nat) (u : Z * Z) : nat :=
    let r := Z.to_nat ((Z.of_nat n * fst u) / snd u) in if (n - 1 <? r)%nat then (n - 1)%nat else r.

  (* ---- Node::gf_split ---- *)
  Definition need_split (par : params) (n : fnode) : bool :=
    (p_leaf par <? length (f_data n))%nat && (f_degree n <? length (f_data n))%nat.
  (* index of the first minimum of a list *)
  Fixpoint gf_argmin_from (l : list Z) (j best : nat) (bv : Z) : nat :=
    match l with [] => best | x :: t => if x <? bv then gf_argmin_from t (S j) j x else gf_argmin_from t (S j) best bv end.
  Definition gf_argmin (l : list Z) : nat := match l with [] => O | x :: t => gf_argmin_from t 1 O x end.
  Definition add_data (x : P) (n : fnode) : fnode := match n with FNode g p lo hi r dat ch => FNode g p lo hi r (dat ++ [x]) ch end.
  (* gf_distribute data element number j *)
  Definition gf_distribute (pivots : list nat) (centers : list P) (chs : list fnode) (j : nat) (x : P) : list fnode :=
    let ds := map (fun c => d x c) centers in
    let k := gf_argmin ds in
    let chs1 := if Nat.eqb j (nth k pivots O) then chs
                else upd_nth (fun c => update_radius (nth k ds 0) (add_data x c)) k chs in
    map (fun ic => update_range k (nth (fst ic) ds 0) (snd ic)) (combine (seq 0 (length chs1)) chs1).
  Definition finish_child (par : params) (newdeg total : nat) (c : fnode) : fnode :=
    match c with FNode _ p lo hi r dat ch =>
      let g := Nat.min (Nat.max (Nat.div (newdeg * length dat) total) (p_minDeg par)) (p_maxDeg par) in
      match lo with None => FNode g p (Some 0) (Some 0) r dat ch | Some _ => FNode g p lo hi r dat ch end
    end.
  Fixpoint gf_split (fuel : nat) (par : params) (n : fnode) (tape : list (Z * Z)) : fnode * list (Z * Z) :=
    match fuel with
    | O => (n, tape)
    | S f =>
      match n with FNode g p lo hi r dat _ =>
        let '(u, tape1) := match tape with u :: t => (u, t) | [] => ((0, 1), []) end in
        let pivots := gf_kcenters dat g (first_index (length dat) u) in
        let centers := map (fun i => nth i dat p) pivots in
        let chs0 := map (new_node g) centers in
        let chs1 := fold_left (fun chs jx => gf_distribute pivots centers chs (fst jx) (snd jx)) (combine (seq 0 (length dat)) dat) chs0 in
        let chs2 := map (finish_child par (length pivots) (length dat)) chs1 in
        let '(chs3, tape2) := fold_left (fun acc c => let '(done, tp) := acc in
                                                       if need_split par c then let '(c', tp') := gf_split f par c tp in (done ++ [c'], tp')
                                                       else (done ++ [c], tp)) chs2 ([], tape1) in
        (FNode (length pivots) p lo hi r [] chs3, tape2)
      end
    end.

  (* ---- Node::add: what happens at the leaf decides what the caller (the GNAT) does next ---- *)
  Inductive ev := EvDone | EvRebuild | EvRebuildDouble.
  Record gnat := mkG { g_tree : option fnode; g_size : nat; g_removed : list P; g_rebuild : option nat (* None = never *) }.
  Definition nearest_child (x : P) (chs : list fnode) : nat * list Z :=
    let ds := map (fun c => d x (f_pivot c)) chs in (gf_argmin ds, ds).
  Fixpoint gf_node_add (fuel : nat) (par : params) (removed_empty : bool) (size rebuild_at : option nat) (n : fnode) (x : P) (tape : list (Z * Z))
    : fnode * ev * list (Z * Z) :=
    match fuel with
    | O => (n, EvDone, tape)
    | S f =>
      match n with FNode g p lo hi r dat ch =>
        match ch with
        | [] =>
          let n1 := FNode g p lo hi r (dat ++ [x]) [] in
          if need_split par n1 then
            if negb removed_empty then (n1, EvRebuild, tape)
            else match size, rebuild_at with
                 | Some sz, Some rb => if (rb <=? sz)%nat then (n1, EvRebuildDouble, tape)
                                       else let '(n2, tp) := gf_split (S (length dat)) par n1 tape in (n2, EvDone, tp)
                 | _, _ => let '(n2, tp) := gf_split (S (length dat)) par n1 tape in (n2, EvDone, tp)
                 end
          else (n1, EvDone, tape)
        | _ =>
          let '(mi, ds) := nearest_child x ch in
          let ch1 := map (fun ic => update_range mi (nth (fst ic) ds 0) (snd ic)) (combine (seq 0 (length ch)) ch) in
          let ch2 := upd_nth (update_radius (nth mi ds 0)) mi ch1 in
          match nth_error ch2 mi with
          | None => (n, EvDone, tape)
          | Some c =>
            let '(c', e, tp) := gf_node_add f par removed_empty size rebuild_at c x tape in
            (FNode g p lo hi r dat (upd_nth (fun _ => c') mi ch2), e, tp)
          end
        end
      end
    end.

  (* Node::list *)
  Fixpoint gf_list (removed : list P) (n : fnode) : list P :=
    match n with FNode _ p _ _ _ dat ch =>
      (if existsb (peqb p) removed then [] else [p]) ++ filter (fun x => negb (existsb (peqb x) removed)) dat ++ flat_map (gf_list removed) ch
    end.
  Fixpoint gf_depth (n : fnode) : nat := match n with FNode _ _ _ _ _ _ ch => S (fold_right (fun c a => Nat.max (gf_depth c) a) O ch) end.
  Fixpoint gf_pivots (n : fnode) : list P := match n with FNode _ p _ _ _ _ ch => p :: flat_map gf_pivots ch end.

  Definition initial_rebuild (par : params) : option nat := if p_rebal par then Some (p_leaf par * p_degree par)%nat else None.
  Definition gf_empty (par : params) : gnat := mkG None 0 [] (initial_rebuild par).
  (* add(vector) on an empty structure; otherwise one add per element *)
  Definition gf_bulk (par : params) (g : gnat) (l : list P) (tape : list (Z * Z)) : gnat * list (Z * Z) :=
    match l with
    | [] => (g, tape)
    | x0 :: rest =>
      let root := FNode (p_degree par) x0 None None (repeat (None, None) (p_degree par)) rest [] in
      let '(root', tp) := if need_split par root then gf_split (S (length rest)) par root tape else (root, tape) in
      (mkG (Some root') (g_size g + length l) (g_removed g) (g_rebuild g), tp)
    end.
  Definition gf_clear (par : params) (g : gnat) : gnat :=
    mkG None 0 [] (match g_rebuild g with None => None | Some _ => Some (p_leaf par * p_degree par)%nat end).
  Definition gf_rebuild (par : params) (g : gnat) (tape : list (Z * Z)) : gnat * list (Z * Z) :=
    match g_tree g with
    | None => (g, tape)
    | Some t => gf_bulk par (gf_clear par g) (gf_list (g_removed g) t) tape
    end.
  Definition gf_add (par : params) (g : gnat) (x : P) (tape : list (Z * Z)) : gnat * list (Z * Z) :=
    match g_tree g with
    | None => (mkG (Some (new_node (p_degree par) x)) 1 (g_removed g) (g_rebuild g), tape)
    | Some t =>
      let '(t', e, tp) := gf_node_add (S (gf_depth t)) par (match g_removed g with [] => true | _ => false end)
                                   (Some (S (g_size g))) (g_rebuild g) t x tape in
      let g1 := mkG (Some t') (S (g_size g)) (g_removed g) (g_rebuild g) in
      match e with
      | EvDone => (g1, tp)
      | EvRebuild => gf_rebuild par g1 tp
      | EvRebuildDouble =>
        let '(g2, tp') := gf_rebuild par g1 tp in
        (mkG (g_tree g2) (g_size g2) (g_removed g2) (match g_rebuild g1 with Some rb => Some (2 * rb)%nat | None => None end), tp')
      end
    end.
  Definition gf_add_list (par : params) (g : gnat) (l : list P) (tape : list (Z * Z)) : gnat * list (Z * Z) :=
    match g_tree g with
    | None => gf_bulk par g l tape
    | Some _ => fold_left (fun acc x => gf_add par (fst acc) x (snd acc)) l (g, tape)
    end.
  (* remove(data) for a structure without duplicate elements: the element itself is the unique nearest neighbour *)
  Definition gf_remove (par : params) (g : gnat) (x : P) (tape : list (Z * Z)) : bool * gnat * list (Z * Z) :=
    match g_tree g with
    | None => (false, g, tape)
    | Some t =>
      if (g_size g =? 0)%nat then (false, g, tape)
      else if existsb (peqb x) (gf_list (g_removed g) t) then
        let g1 := mkG (Some t) (g_size g - 1) (g_removed g ++ [x]) (g_rebuild g) in
        if existsb (peqb x) (gf_pivots t) || (p_cache par <=? length (g_removed g1))%nat
        then let '(g2, tp) := gf_rebuild par g1 tape in (true, g2, tp)
        else (true, g1, tape)
      else (false, g, tape)
    end.
End Full.
