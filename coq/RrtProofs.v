(* RrtProofs.v — what geometric::RRT reports, for every stream of samples and goal-bias draws and every collaborator:
   the tree only contains validated motions hanging off start states, the reported path is a chain of such motions from a
   start state, an exact report ends in a state the goal accepts, an approximate report ends in an added state no other
   added state beats, with the reported difference its goal distance; nothing is reported iff nothing was ever added. *)
From Coq Require Import List Bool Arith Lia.
From OmplV Require Import RrtModel LedgerProofs.
Import ListNotations.

Section RrtP.
  Variables St D : Type.
  Variable dist : St -> St -> D.
  Variable dlt : D -> D -> bool.
  Variable steer : St -> St -> St.
  Variable mv : St -> St -> bool.
  Variable sat : St -> bool.
  Variable gdist : St -> D.
  Variable goal_state : St.
  Variable dflt : St.
  Hypothesis dlt_trans : forall a b c, dlt a b = true -> dlt b c = true -> dlt a c = true.
  Hypothesis dlt_irrefl : forall a, dlt a a = false.
  Notation node := (node St).
  Notation nearest := (nearest St D dist dlt).
  Notation rrt_step := (rrt_step St D dist dlt steer mv sat gdist dflt).
  Notation rrt_loop := (rrt_loop St D dist dlt steer mv sat gdist goal_state dflt).
  Notation linked := (consecutive (fun a b : St => mv a b = true)).

  Lemma nearest_from_lt : forall t q j best bd, (best < j)%nat -> (nearest_from St D dist dlt t q j best bd < j + length t)%nat.
  Proof. induction t as [|[s p] t IH]; intros q j best bd H; cbn [nearest_from length]; [lia|]. destruct (dlt (dist s q) bd); [specialize (IH q (S j) j (dist s q) ltac:(lia))|specialize (IH q (S j) best bd ltac:(lia))]; lia. Qed.
  Lemma nearest_lt tree q : tree <> [] -> (nearest tree q < length tree)%nat.
  Proof. destruct tree as [|[s p] t]; [congruence|]. intros _. cbn [RrtModel.nearest length]. pose proof (nearest_from_lt t q 1 0 (dist s q) ltac:(lia)). lia. Qed.

  Variable nstarts : nat.
  Variable starts : list St.
  (* the tree: roots are the start states (the first nstarts nodes), every other node hangs off an earlier node by a validated motion *)
  Definition TInv (tree : list node) : Prop :=
    (nstarts <= length tree)%nat /\
    (forall i s, nth_error tree i = Some (s, None) -> (i < nstarts)%nat /\ In s starts) /\
    (forall i s p, nth_error tree i = Some (s, Some p) -> (nstarts <= i)%nat /\ (p < i)%nat /\ exists ps pp, nth_error tree p = Some (ps, pp) /\ mv ps s = true).
  Definition state_at (tree : list node) (i : nat) : St := fst (nth i tree (dflt, None)).
  Definition AInv (s : rst St D) : Prop :=
    let tree := r_tree St D s in
    match r_approx St D s with
    | None => length tree = nstarts /\ r_sol St D s = None
    | Some (i, dd) => (nstarts <= i < length tree)%nat /\ dd = gdist (state_at tree i) /\
        match r_sol St D s with
        | Some k => k = i /\ sat (state_at tree i) = true
        | None => sat (state_at tree i) = false /\ forall j, (nstarts <= j < length tree)%nat -> dlt (gdist (state_at tree j)) dd = false
        end
    end.

  Lemma nth_error_snoc {A} (l : list A) x i : nth_error (l ++ [x]) i = if (i <? length l)%nat then nth_error l i else if (i =? length l)%nat then Some x else None.
  Proof.
    destruct (Nat.ltb_spec i (length l)); [apply nth_error_app1; assumption|]. rewrite nth_error_app2 by lia.
    destruct (Nat.eqb_spec i (length l)) as [->|N]; [rewrite Nat.sub_diag; reflexivity|]. destruct (i - length l)%nat eqn:E; [lia|]. cbn. destruct n; reflexivity.
  Qed.
  Lemma state_at_snoc_old tree x j : (j < length tree)%nat -> state_at (tree ++ [x]) j = state_at tree j.
  Proof. intros H. unfold state_at. rewrite app_nth1 by exact H. reflexivity. Qed.
  Lemma state_at_snoc_new tree s p : state_at (tree ++ [(s, p)]) (length tree) = s.
  Proof. unfold state_at. rewrite app_nth2 by lia. rewrite Nat.sub_diag. reflexivity. Qed.

  Lemma step_inv s r : r_tree St D s <> [] -> r_sol St D s = None -> TInv (r_tree St D s) -> AInv s -> TInv (r_tree St D (rrt_step s r)) /\ AInv (rrt_step s r) /\ r_tree St D (rrt_step s r) <> [].
  Proof.
    intros Hne Hsol T A. unfold RrtModel.rrt_step. set (tree := r_tree St D s) in *. set (ni := nearest tree r). set (ns := fst (nth ni tree (dflt, None))). set (ds := steer ns r).
    destruct (mv ns ds) eqn:Em; [|auto].
    assert (Hni : (ni < length tree)%nat) by (apply nearest_lt; exact Hne).
    assert (T' : TInv (tree ++ [(ds, Some ni)])).
    { destruct T as (T0 & T1 & T2). split; [rewrite app_length; cbn; lia|]. split.
      - intros i x Hi. rewrite nth_error_snoc in Hi. destruct (i <? length tree)%nat; [apply (T1 i x Hi)|]. destruct (i =? length tree)%nat; discriminate.
      - intros i x p Hi. rewrite nth_error_snoc in Hi. destruct (Nat.ltb_spec i (length tree)) as [L|L].
        + destruct (T2 i x p Hi) as (A1 & A2 & ps & pp & A3 & A4). split; [exact A1|]. split; [exact A2|]. exists ps, pp. split; [rewrite nth_error_app1 by lia; exact A3|exact A4].
        + destruct (Nat.eqb_spec i (length tree)) as [->|N]; [|discriminate]. injection Hi as <- <-. split; [exact T0|]. split; [exact Hni|].
          destruct (nth_error tree ni) as [[ps pp]|] eqn:En; [|apply nth_error_None in En; lia]. exists ps, pp. split; [rewrite nth_error_app1 by lia; exact En|].
          unfold ns in Em. rewrite (nth_error_nth tree ni (dflt, None) En) in Em. exact Em. }
    assert (Hne' : tree ++ [(ds, Some ni)] <> []) by (destruct tree; discriminate).
    assert (T0 : (nstarts <= length tree)%nat) by apply T.
    unfold AInv in A. fold tree in A. rewrite Hsol in A.
    destruct (sat ds) eqn:Es.
    - split; [exact T'|]. split; [|exact Hne']. unfold AInv. cbn [r_tree r_approx r_sol]. rewrite app_length. cbn [length]. rewrite state_at_snoc_new. split; [lia|]. split; [reflexivity|]. split; [reflexivity|exact Es].
    - destruct (r_approx St D s) as [[bi bd]|] eqn:Ea.
      + destruct A as (A1 & A2 & A3 & A4). destruct (dlt (gdist ds) bd) eqn:El.
        * split; [exact T'|]. split; [|exact Hne']. unfold AInv. cbn [r_tree r_approx r_sol]. rewrite app_length. cbn [length]. rewrite state_at_snoc_new. split; [lia|]. split; [reflexivity|]. split; [exact Es|].
          intros j Hj. destruct (Nat.eq_dec j (length tree)) as [->|N]; [rewrite state_at_snoc_new; apply dlt_irrefl|]. rewrite state_at_snoc_old by lia.
          destruct (dlt (gdist (state_at tree j)) (gdist ds)) eqn:Ej; [|reflexivity]. pose proof (A4 j ltac:(lia)) as C. rewrite (dlt_trans _ _ _ Ej El) in C. discriminate.
        * split; [exact T'|]. split; [|exact Hne']. unfold AInv. cbn [r_tree r_approx r_sol]. rewrite app_length. cbn [length]. rewrite state_at_snoc_old by lia. split; [lia|]. split; [exact A2|]. split; [exact A3|].
          intros j Hj. destruct (Nat.eq_dec j (length tree)) as [->|N]; [rewrite state_at_snoc_new; exact El|]. rewrite state_at_snoc_old by lia. apply A4. lia.
      + destruct A as (A1 & _). split; [exact T'|]. split; [|exact Hne']. unfold AInv. cbn [r_tree r_approx r_sol]. rewrite app_length. cbn [length]. rewrite state_at_snoc_new. split; [lia|]. split; [reflexivity|]. split; [exact Es|].
        intros j Hj. assert (j = length tree) by lia. subst j. rewrite state_at_snoc_new. apply dlt_irrefl.
  Qed.

  Lemma step_extends s r : exists ext, r_tree St D (rrt_step s r) = r_tree St D s ++ ext.
  Proof.
    unfold RrtModel.rrt_step. destruct (mv _ _); [|exists []; rewrite app_nil_r; reflexivity].
    destruct (sat _); [eexists; reflexivity|]. destruct (r_approx St D s) as [[bi bd]|]; [destruct (dlt _ bd)|]; eexists; reflexivity.
  Qed.
  Lemma loop_inv : forall hits samples s, r_tree St D s <> [] -> TInv (r_tree St D s) -> AInv s ->
    TInv (r_tree St D (rrt_loop s hits samples)) /\ AInv (rrt_loop s hits samples) /\ exists ext, r_tree St D (rrt_loop s hits samples) = r_tree St D s ++ ext.
  Proof.
    induction hits as [|h hs IH]; intros samples s Hne T A; cbn [RrtModel.rrt_loop].
    - destruct (r_sol St D s); (split; [exact T|split; [exact A|exists []; rewrite app_nil_r; reflexivity]]).
    - destruct (r_sol St D s) eqn:Es; [split; [exact T|split; [exact A|exists []; rewrite app_nil_r; reflexivity]]|].
      destruct h.
      + destruct (step_inv s goal_state Hne Es T A) as (T' & A' & N'). destruct (IH samples _ N' T' A') as (X & Y & (e2 & Z)). destruct (step_extends s goal_state) as (e1 & E1).
        split; [exact X|]. split; [exact Y|]. exists (e1 ++ e2). rewrite Z, E1, app_assoc. reflexivity.
      + destruct (step_inv s (hd dflt samples) Hne Es T A) as (T' & A' & N'). destruct (IH (tl samples) _ N' T' A') as (X & Y & (e2 & Z)). destruct (step_extends s (hd dflt samples)) as (e1 & E1).
        split; [exact X|]. split; [exact Y|]. exists (e1 ++ e2). rewrite Z, E1, app_assoc. reflexivity.
  Qed.

  Lemma consecutive_snoc : forall (l : list St) s, l <> [] -> linked l -> mv (last l dflt) s = true -> linked (l ++ [s]).
  Proof.
    induction l as [|a t IH]; intros s Hn Hl Hm; [congruence|]. destruct t as [|b t'].
    - cbn in *. auto.
    - change (linked (a :: b :: (t' ++ [s]))). destruct Hl as (Hab & Hr). split; [exact Hab|]. apply (IH s); [discriminate|exact Hr|exact Hm].
  Qed.
  Lemma chain_spec tree : TInv tree -> forall fuel i s p, (i < fuel)%nat -> nth_error tree i = Some (s, p) ->
    chain St fuel tree i <> [] /\ last (chain St fuel tree i) dflt = s /\ In (hd dflt (chain St fuel tree i)) starts /\ linked (chain St fuel tree i).
  Proof.
    intros (T0 & T1 & T2). induction fuel as [|f IH]; intros i s p Hi En; [lia|]. cbn [chain]. rewrite En. destruct p as [pi|].
    - destruct (T2 i s pi En) as (_ & Hp & ps & pp & Ep & Em). destruct (IH pi ps pp ltac:(lia) Ep) as (C1 & C2 & C3 & C4).
      split; [destruct (chain St f tree pi); discriminate|]. split; [apply last_last|]. split; [destruct (chain St f tree pi); [congruence|exact C3]|].
      apply consecutive_snoc; [exact C1|exact C4|rewrite C2; exact Em].
    - destruct (T1 i s En) as (_ & Hin). cbn. split; [discriminate|]. split; [reflexivity|]. split; [exact Hin|exact I].
  Qed.
End RrtP.

(* what solve() reports *)
Theorem rrt_solve_spec : forall (St D : Type) dist (dlt : D -> D -> bool) steer mv sat gdist goal_state (dflt : St),
  (forall a b c, dlt a b = true -> dlt b c = true -> dlt a c = true) -> (forall a, dlt a a = false) ->
  forall starts hits samples, starts <> [] ->
  let tree := fst (rrt_solve St D dist dlt steer mv sat gdist goal_state dflt starts hits samples) in
  TInv St mv (length starts) starts tree /\
  match snd (rrt_solve St D dist dlt steer mv sat gdist goal_state dflt starts hits samples) with
  | Some (path, approx, dd) =>
      path <> [] /\ In (hd dflt path) starts /\ consecutive (fun a b => mv a b = true) path /\ dd = gdist (last path dflt) /\
      (exists i, (length starts <= i < length tree)%nat /\ last path dflt = state_at St dflt tree i) /\
      (if approx then sat (last path dflt) = false /\ forall j, (length starts <= j < length tree)%nat -> dlt (gdist (state_at St dflt tree j)) dd = false
       else sat (last path dflt) = true)
  | None => tree = map (fun x => (x, None)) starts
  end.
Proof.
  intros St D dist dlt steer mv sat gdist goal_state dflt Htr Hir starts hits samples Hs. unfold rrt_solve. destruct starts as [|s0 st]; [congruence|]. set (starts := s0 :: st) in *.
  set (init := mkR St D (map (fun x => (x, None)) starts) None None).
  assert (T0 : TInv St mv (length starts) starts (r_tree St D init)).
  { cbn [r_tree init]. split; [rewrite map_length; lia|]. split.
    - intros i s Hi. rewrite nth_error_map in Hi. destruct (nth_error starts i) eqn:E; [|discriminate]. cbn in Hi. injection Hi as <-. split; [apply nth_error_Some; congruence|eapply nth_error_In; exact E].
    - intros i s p Hi. rewrite nth_error_map in Hi. destruct (nth_error starts i); discriminate. }
  assert (A0 : AInv St D dlt sat gdist dflt (length starts) init) by (unfold AInv; cbn [r_tree r_approx r_sol init]; rewrite map_length; auto).
  assert (N0 : r_tree St D init <> []) by (cbn; discriminate).
  destruct (loop_inv St D dist dlt steer mv sat gdist goal_state dflt Htr Hir (length starts) starts hits samples init N0 T0 A0) as (T & A & (ext & E)).
  set (fin := RrtModel.rrt_loop St D dist dlt steer mv sat gdist goal_state dflt init hits samples) in *. cbn [fst snd]. split; [exact T|].
  unfold AInv in A. destruct (r_approx St D fin) as [[bi bd]|] eqn:Ea.
  - destruct A as (A1 & A2 & A3).
    assert (CH : forall i, (length starts <= i < length (r_tree St D fin))%nat -> let c := chain St (S (length (r_tree St D fin))) (r_tree St D fin) i in
              c <> [] /\ last c dflt = state_at St dflt (r_tree St D fin) i /\ In (hd dflt c) starts /\ consecutive (fun a b => mv a b = true) c).
    { intros i Hi. destruct (nth_error (r_tree St D fin) i) as [[s p]|] eqn:En; [|apply nth_error_None in En; lia].
      destruct (chain_spec St mv dflt (length starts) starts _ T (S (length (r_tree St D fin))) i s p ltac:(lia) En) as (C1 & C2 & C3 & C4).
      split; [exact C1|]. split; [rewrite C2; unfold state_at; erewrite nth_error_nth by exact En; reflexivity|]. split; assumption. }
    destruct (r_sol St D fin) as [k|] eqn:Ek.
    + destruct A3 as (-> & A4). destruct (CH bi A1) as (C1 & C2 & C3 & C4). split; [exact C1|]. split; [exact C3|]. split; [exact C4|]. split; [rewrite C2; exact A2|]. split; [exists bi; split; [exact A1|exact C2]|]. rewrite C2. exact A4.
    + destruct A3 as (A4 & A5). destruct (CH bi A1) as (C1 & C2 & C3 & C4). split; [exact C1|]. split; [exact C3|]. split; [exact C4|]. split; [rewrite C2; exact A2|]. split; [exists bi; split; [exact A1|exact C2]|]. rewrite C2. split; [exact A4|exact A5].
  - destruct A as (A1 & A2). rewrite A2. rewrite E in A1 |- *. cbn [r_tree init] in *. rewrite app_length, map_length in A1. assert (ext = []) by (destruct ext; [reflexivity|cbn in A1; lia]). subst ext. rewrite app_nil_r. reflexivity.
Qed.
