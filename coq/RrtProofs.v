(* RrtProofs.v — what the RRT family reports, for every stream of iteration inputs and every collaborator: the tree only
   contains motions the extension step vouches for, hanging off start states; the reported path is a chain of such motions
   from a start state; an exact report ends in a state the goal accepts, an approximate report in an added state no other
   added state beats, with the reported difference its goal distance; nothing is reported iff nothing was ever added.
   Geometric RRT: the motions are the ones checkMotion accepted.  Control RRT: every motion replays — the child state is
   what its control reaches from the parent in exactly the recorded number of steps, all of them valid. *)
From Coq Require Import List Bool Arith ZArith Lia.
From OmplV Require Import ControlModel ControlProofs RrtModel LedgerProofs.
Import ListNotations.

Section NearestP.
  Variables St D E : Type.
  Variable dist : St -> St -> D.
  Variable dlt : D -> D -> bool.
  Lemma nearest_from_lt : forall t q j best bd, (best < j)%nat -> (nearest_from St D E dist dlt t q j best bd < j + length t)%nat.
  Proof. induction t as [|[s p] t IH]; intros q j best bd H; cbn [nearest_from length]; [lia|]. destruct (dlt (dist s q) bd); [specialize (IH q (S j) j (dist s q) ltac:(lia))|specialize (IH q (S j) best bd ltac:(lia))]; lia. Qed.
  Lemma nearest_lt tree q : tree <> [] -> (nearest St D E dist dlt tree q < length tree)%nat.
  Proof. destruct tree as [|[s p] t]; [congruence|]. intros _. cbn [RrtModel.nearest length]. pose proof (nearest_from_lt t q 1 0 (dist s q) ltac:(lia)). lia. Qed.
End NearestP.

Section TreeP.
  Variables St D I E : Type.
  Variable dlt : D -> D -> bool.
  Variable select : list (St * option (nat * E)) -> I -> nat.
  Variable extend : St -> I -> list (St * E).
  Variable sat : St -> bool.
  Variable gdist : St -> D.
  Variable dflt : St.
  Hypothesis dlt_trans : forall a b c, dlt a b = true -> dlt b c = true -> dlt a c = true.
  Hypothesis dlt_irrefl : forall a, dlt a a = false.
  Variable EdgeOk : St -> E -> St -> Prop.
  Fixpoint echain_ok (n : St) (xs : list (St * E)) : Prop :=
    match xs with [] => True | x :: t => EdgeOk n (snd x) (fst x) /\ echain_ok (fst x) t end.
  Hypothesis extend_ok : forall n i, echain_ok n (extend n i).
  Hypothesis select_lt : forall tree i, tree <> [] -> (select tree i < length tree)%nat.
  Notation node := (node St E).
  Notation tree_step := (tree_step St D I E dlt select extend sat gdist dflt).
  Notation tree_loop := (tree_loop St D I E dlt select extend sat gdist dflt).
  Notation r_tree := (r_tree St D E). Notation r_approx := (r_approx St D E). Notation r_sol := (r_sol St D E).

  Variable nstarts : nat.                    (* the size of the tree when the current call of solve() entered its loop *)
  Variable starts : list St.
  (* roots are start states; every other node hangs off an earlier node by a vouched motion *)
  Definition TInv (tree : list node) : Prop :=
    (forall i s, nth_error tree i = Some (s, None) -> In s starts) /\
    (forall i s p e, nth_error tree i = Some (s, Some (p, e)) -> (p < i)%nat /\ exists ps pp, nth_error tree p = Some (ps, pp) /\ EdgeOk ps e s).
  Definition state_at (tree : list node) (i : nat) : St := fst (nth i tree (dflt, None)).
  Definition AInv (s : rst St D E) : Prop :=
    let tree := r_tree s in
    (nstarts <= length tree)%nat /\
    match r_approx s with
    | None => length tree = nstarts /\ r_sol s = None
    | Some (i, dd) => (nstarts <= i < length tree)%nat /\ dd = gdist (state_at tree i) /\
        match r_sol s with
        | Some k => k = i /\ sat (state_at tree i) = true
        | None => sat (state_at tree i) = false /\ forall j, (nstarts <= j < length tree)%nat -> dlt (gdist (state_at tree j)) dd = false
        end
    end.

  Lemma nth_error_snoc {A} (l : list A) x i : nth_error (l ++ [x]) i = if (i <? length l)%nat then nth_error l i else if (i =? length l)%nat then Some x else None.
  Proof.
    destruct (Nat.ltb_spec i (length l)); [apply nth_error_app1; assumption|]. rewrite nth_error_app2 by lia.
    destruct (Nat.eqb_spec i (length l)) as [->|N]; [rewrite Nat.sub_diag; reflexivity|]. destruct (i - length l)%nat eqn:E0; [lia|]. cbn. destruct n; reflexivity.
  Qed.
  Lemma state_at_snoc_old tree x j : (j < length tree)%nat -> state_at (tree ++ [x]) j = state_at tree j.
  Proof. intros H. unfold state_at. rewrite app_nth1 by exact H. reflexivity. Qed.
  Lemma state_at_snoc_new tree s p : state_at (tree ++ [(s, p)]) (length tree) = s.
  Proof. unfold state_at. rewrite app_nth2 by lia. rewrite Nat.sub_diag. reflexivity. Qed.

  Notation add_one := (add_one St D E dlt sat gdist).
  Notation add_chain := (add_chain St D E dlt sat gdist).
  Lemma add_one_inv s pi x : r_sol s = None -> (pi < length (r_tree s))%nat -> EdgeOk (state_at (r_tree s) pi) (snd x) (fst x) -> TInv (r_tree s) -> AInv s ->
    TInv (r_tree (add_one s pi x)) /\ AInv (add_one s pi x) /\ r_tree (add_one s pi x) = r_tree s ++ [(fst x, Some (pi, snd x))].
  Proof.
    intros Hsol Hni He T A. destruct x as [ds e]. cbn [fst snd] in *. unfold RrtModel.add_one. cbn [fst snd]. set (tree := r_tree s) in *.
    assert (T' : TInv (tree ++ [(ds, Some (pi, e))])).
    { destruct T as (T1 & T2). split.
      - intros k x Hk. rewrite nth_error_snoc in Hk. destruct (k <? length tree)%nat; [apply (T1 k x Hk)|]. destruct (k =? length tree)%nat; discriminate.
      - intros k x p e0 Hk. rewrite nth_error_snoc in Hk. destruct (Nat.ltb_spec k (length tree)) as [L|L].
        + destruct (T2 k x p e0 Hk) as (A2 & ps & pp & A3 & A4). split; [exact A2|]. exists ps, pp. split; [rewrite nth_error_app1 by lia; exact A3|exact A4].
        + destruct (Nat.eqb_spec k (length tree)) as [->|N]; [|discriminate]. injection Hk as <- <- <-. split; [exact Hni|].
          destruct (nth_error tree pi) as [[ps pp]|] eqn:En; [|apply nth_error_None in En; lia]. exists ps, pp. split; [rewrite nth_error_app1 by lia; exact En|].
          unfold state_at in He. erewrite nth_error_nth in He by exact En. exact He. }
    unfold AInv in A. fold tree in A. rewrite Hsol in A. destruct A as (T0 & A).
    destruct (sat ds) eqn:Es.
    - split; [exact T'|]. split; [|reflexivity]. unfold AInv. cbn [RrtModel.r_tree RrtModel.r_approx RrtModel.r_sol]. rewrite app_length. cbn [length]. split; [lia|]. rewrite state_at_snoc_new. split; [lia|]. split; [reflexivity|]. split; [reflexivity|exact Es].
    - destruct (r_approx s) as [[bi bd]|] eqn:Ea.
      + destruct A as (A1 & A2 & A3 & A4). destruct (dlt (gdist ds) bd) eqn:El.
        * split; [exact T'|]. split; [|reflexivity]. unfold AInv. cbn [RrtModel.r_tree RrtModel.r_approx RrtModel.r_sol]. rewrite app_length. cbn [length]. split; [lia|]. rewrite state_at_snoc_new. split; [lia|]. split; [reflexivity|]. split; [exact Es|].
          intros j Hj. destruct (Nat.eq_dec j (length tree)) as [->|N]; [rewrite state_at_snoc_new; apply dlt_irrefl|]. rewrite state_at_snoc_old by lia.
          destruct (dlt (gdist (state_at tree j)) (gdist ds)) eqn:Ej; [|reflexivity]. pose proof (A4 j ltac:(lia)) as C. rewrite (dlt_trans _ _ _ Ej El) in C. discriminate.
        * split; [exact T'|]. split; [|reflexivity]. unfold AInv. cbn [RrtModel.r_tree RrtModel.r_approx RrtModel.r_sol]. rewrite app_length. cbn [length]. split; [lia|]. rewrite state_at_snoc_old by lia. split; [lia|]. split; [exact A2|]. split; [exact A3|].
          intros j Hj. destruct (Nat.eq_dec j (length tree)) as [->|N]; [rewrite state_at_snoc_new; exact El|]. rewrite state_at_snoc_old by lia. apply A4. lia.
      + destruct A as (A1 & _). split; [exact T'|]. split; [|reflexivity]. unfold AInv. cbn [RrtModel.r_tree RrtModel.r_approx RrtModel.r_sol]. rewrite app_length. cbn [length]. split; [lia|]. rewrite state_at_snoc_new. split; [lia|]. split; [reflexivity|]. split; [exact Es|].
        intros j Hj. assert (j = length tree) by lia. subst j. rewrite state_at_snoc_new. apply dlt_irrefl.
  Qed.
  Lemma add_chain_inv : forall xs s pi, (pi < length (r_tree s))%nat -> echain_ok (state_at (r_tree s) pi) xs -> TInv (r_tree s) -> AInv s ->
    TInv (r_tree (add_chain s pi xs)) /\ AInv (add_chain s pi xs) /\ exists ext, r_tree (add_chain s pi xs) = r_tree s ++ ext.
  Proof.
    induction xs as [|x t IH]; intros s pi Hpi Hc T A; cbn [RrtModel.add_chain].
    - destruct (r_sol s); (split; [exact T|split; [exact A|exists []; rewrite app_nil_r; reflexivity]]).
    - destruct (r_sol s) eqn:Es; [split; [exact T|split; [exact A|exists []; rewrite app_nil_r; reflexivity]]|].
      destruct Hc as (He & Hc'). destruct (add_one_inv s pi x Es Hpi He T A) as (T' & A' & E').
      destruct (IH (add_one s pi x) (length (r_tree s))) as (X & Y & (e2 & Z0)); [rewrite E', app_length; cbn; lia| |exact T'|exact A'|].
      + rewrite E'. destruct x as [ds e]. cbn [fst snd] in *. rewrite state_at_snoc_new. exact Hc'.
      + split; [exact X|]. split; [exact Y|]. exists ((fst x, Some (pi, snd x)) :: e2). rewrite Z0, E', <- app_assoc. reflexivity.
  Qed.
  Lemma step_inv s i : r_tree s <> [] -> TInv (r_tree s) -> AInv s ->
    TInv (r_tree (tree_step s i)) /\ AInv (tree_step s i) /\ exists ext, r_tree (tree_step s i) = r_tree s ++ ext.
  Proof. intros Hne T A. unfold RrtModel.tree_step. apply add_chain_inv; [apply select_lt; exact Hne|apply extend_ok|exact T|exact A]. Qed.
  Lemma loop_inv : forall ins s, r_tree s <> [] -> TInv (r_tree s) -> AInv s ->
    TInv (r_tree (tree_loop s ins)) /\ AInv (tree_loop s ins) /\ exists ext, r_tree (tree_loop s ins) = r_tree s ++ ext.
  Proof.
    induction ins as [|i t IH]; intros s Hne T A; cbn [RrtModel.tree_loop].
    - destruct (r_sol s); (split; [exact T|split; [exact A|exists []; rewrite app_nil_r; reflexivity]]).
    - destruct (r_sol s) eqn:Es; [split; [exact T|split; [exact A|exists []; rewrite app_nil_r; reflexivity]]|].
      destruct (step_inv s i Hne T A) as (T' & A' & (e1 & E1)).
      destruct (IH (tree_step s i)) as (X & Y & (e2 & Z0)); [rewrite E1; destruct (r_tree s); [congruence|discriminate]|exact T'|exact A'|].
      split; [exact X|]. split; [exact Y|]. exists (e1 ++ e2). rewrite Z0, E1, app_assoc. reflexivity.
  Qed.

  (* a reported path: the first entry is a start state without a label, every later entry's label vouches for the motion from the previous state *)
  Fixpoint pathOk (l : list (option E * St)) : Prop :=
    match l with
    | [] => True
    | [_] => True
    | (_, a) :: (((oe, b) :: _) as t) => (match oe with Some e => EdgeOk a e b | None => False end) /\ pathOk t
    end.
  Lemma pathOk_snoc : forall (l : list (option E * St)) e s, l <> [] -> pathOk l -> EdgeOk (snd (last l (None, dflt))) e s -> pathOk (l ++ [(Some e, s)]).
  Proof.
    induction l as [|[oa a] t IH]; intros e s Hn Hl Hm; [congruence|]. destruct t as [|[ob b] t'].
    - cbn in *. auto.
    - change (pathOk ((oa, a) :: (ob, b) :: (t' ++ [(Some e, s)]))). destruct Hl as (Hab & Hr). split; [exact Hab|]. apply (IH e s); [discriminate|exact Hr|exact Hm].
  Qed.
  Lemma chain_spec tree : TInv tree -> forall fuel i s p, (i < fuel)%nat -> nth_error tree i = Some (s, p) ->
    let c := chain St E fuel tree i in
    c <> [] /\ snd (last c (None, dflt)) = s /\ (exists s0, hd (None, dflt) c = (None, s0) /\ In s0 starts) /\ pathOk c.
  Proof.
    intros (T1 & T2). induction fuel as [|f IH]; intros i s p Hi En; [lia|]. cbn [chain]. rewrite En. destruct p as [[pi e]|].
    - destruct (T2 i s pi e En) as (Hp & ps & pp & Ep & Em). destruct (IH pi ps pp ltac:(lia) Ep) as (C1 & C2 & C3 & C4). cbn zeta.
      split; [destruct (chain St E f tree pi); discriminate|]. split; [rewrite last_last; reflexivity|]. split; [destruct (chain St E f tree pi); [congruence|exact C3]|].
      apply pathOk_snoc; [exact C1|exact C4|rewrite C2; exact Em].
    - pose proof (T1 i s En) as Hin. cbn. split; [discriminate|]. split; [reflexivity|]. split; [exists s; auto|exact Logic.I].
  Qed.
End TreeP.

(* what one call of solve() reports, on a planner that already holds a tree satisfying the invariant (the shared loop) *)
Definition report_ok (St D E : Type) (sat : St -> bool) (gdist : St -> D) (dlt : D -> D -> bool) (dflt : St) (EdgeOk : St -> E -> St -> Prop)
    (starts : list St) (base : nat) (tree : list (node St E)) (rep : option (list (option E * St) * bool * D)) : Prop :=
  match rep with
  | Some (path, approx, dd) =>
      path <> [] /\ (exists s0, hd (None, dflt) path = (None, s0) /\ In s0 starts) /\ pathOk St E EdgeOk path /\ dd = gdist (snd (last path (None, dflt))) /\
      (exists i, (base <= i < length tree)%nat /\ snd (last path (None, dflt)) = state_at St E dflt tree i) /\
      (if approx then sat (snd (last path (None, dflt))) = false /\ forall j, (base <= j < length tree)%nat -> dlt (gdist (state_at St E dflt tree j)) dd = false
       else sat (snd (last path (None, dflt))) = true)
  | None => length tree = base
  end.
Theorem tree_call_spec : forall (St D I E : Type) (dlt : D -> D -> bool) (select : list (St * option (nat * E)) -> I -> nat) extend sat gdist (dflt : St) (EdgeOk : St -> E -> St -> Prop),
  (forall a b c, dlt a b = true -> dlt b c = true -> dlt a c = true) -> (forall a, dlt a a = false) ->
  (forall n i, echain_ok St E EdgeOk n (extend n i)) -> (forall tree i, tree <> [] -> (select tree i < length tree)%nat) ->
  forall starts tree0 new_starts ins, TInv St E EdgeOk starts tree0 -> (forall x, In x new_starts -> In x starts) ->
  let init := tree0 ++ map (fun x => (x, None)) new_starts in
  let tree := fst (tree_call St D I E dlt select extend sat gdist dflt tree0 new_starts ins) in
  TInv St E EdgeOk starts tree /\ (exists ext, tree = init ++ ext) /\
  (init <> [] -> report_ok St D E sat gdist dlt dflt EdgeOk starts (length init) tree (snd (tree_call St D I E dlt select extend sat gdist dflt tree0 new_starts ins))).
Proof.
  intros St D I E dlt select extend sat gdist dflt EdgeOk Htr Hir Hex Hsel starts tree0 new_starts ins HT Hn. cbn zeta. unfold tree_call.
  set (init := tree0 ++ map (fun x => (x, None)) new_starts).
  assert (T0 : TInv St E EdgeOk starts init).
  { destruct HT as (T1 & T2). split.
    - intros i s Hi. unfold init in Hi. destruct (Nat.ltb_spec i (length tree0)) as [L|L]; [rewrite nth_error_app1 in Hi by exact L; apply (T1 i s Hi)|].
      rewrite nth_error_app2, nth_error_map in Hi by exact L. destruct (nth_error new_starts (i - length tree0)) eqn:E0; [|discriminate]. cbn in Hi. injection Hi as <-. apply Hn. eapply nth_error_In; exact E0.
    - intros i s p e Hi. unfold init in Hi. destruct (Nat.ltb_spec i (length tree0)) as [L|L].
      + rewrite nth_error_app1 in Hi by exact L. destruct (T2 i s p e Hi) as (A2 & ps & pp & A3 & A4). split; [exact A2|]. exists ps, pp. split; [unfold init; rewrite nth_error_app1 by lia; exact A3|exact A4].
      + rewrite nth_error_app2, nth_error_map in Hi by exact L. destruct (nth_error new_starts (i - length tree0)); discriminate. }
  clearbody init. destruct init as [|n0 rest]; [cbn [fst snd]; split; [exact T0|split; [exists []; reflexivity|congruence]]|].
  set (init := n0 :: rest) in *.
  set (s0 := mkR St D E init None None).
  assert (A0 : AInv St D E dlt sat gdist dflt (length init) s0) by (unfold AInv; cbn [r_tree r_approx r_sol s0]; auto).
  destruct (loop_inv St D I E dlt select extend sat gdist dflt Htr Hir EdgeOk Hex Hsel (length init) starts ins s0) as (T & A & (ext & E0)); [cbn; discriminate|exact T0|exact A0|].
  set (fin := RrtModel.tree_loop St D I E dlt select extend sat gdist dflt s0 ins) in *. cbn [fst snd]. split; [exact T|]. split; [exists ext; exact E0|]. intros _.
  unfold AInv in A. destruct A as (AB & A). unfold report_ok. destruct (r_approx St D E fin) as [[bi bd]|] eqn:Ea.
  - destruct A as (A1 & A2 & A3).
    assert (CH : forall i, (i < length (r_tree St D E fin))%nat -> let c := chain St E (S (length (r_tree St D E fin))) (r_tree St D E fin) i in
              c <> [] /\ snd (last c (None, dflt)) = state_at St E dflt (r_tree St D E fin) i /\ (exists s1, hd (None, dflt) c = (None, s1) /\ In s1 starts) /\ pathOk St E EdgeOk c).
    { intros i Hi. destruct (nth_error (r_tree St D E fin) i) as [[s p]|] eqn:En; [|apply nth_error_None in En; lia].
      destruct (chain_spec St E dflt EdgeOk starts _ T (S (length (r_tree St D E fin))) i s p ltac:(lia) En) as (C1 & C2 & C3 & C4).
      split; [exact C1|]. split; [rewrite C2; unfold state_at; erewrite nth_error_nth by exact En; reflexivity|]. split; assumption. }
    destruct (r_sol St D E fin) as [k|] eqn:Ek.
    + destruct A3 as (-> & A4). destruct (CH bi ltac:(lia)) as (C1 & C2 & C3 & C4). split; [exact C1|]. split; [exact C3|]. split; [exact C4|]. split; [rewrite C2; exact A2|]. split; [exists bi; split; [exact A1|exact C2]|]. rewrite C2. exact A4.
    + destruct A3 as (A4 & A5). destruct (CH bi ltac:(lia)) as (C1 & C2 & C3 & C4). split; [exact C1|]. split; [exact C3|]. split; [exact C4|]. split; [rewrite C2; exact A2|]. split; [exists bi; split; [exact A1|exact C2]|]. rewrite C2. split; [exact A4|exact A5].
  - destruct A as (A1 & A2). rewrite A2. exact A1.
Qed.

Lemma TInv_nil (St E : Type) (EdgeOk : St -> E -> St -> Prop) starts : TInv St E EdgeOk starts [].
Proof. split; [intros i s H|intros i s p e H]; destruct i; discriminate. Qed.
(* the first call *)
Theorem tree_solve_spec : forall (St D I E : Type) (dlt : D -> D -> bool) (select : list (St * option (nat * E)) -> I -> nat) extend sat gdist (dflt : St) (EdgeOk : St -> E -> St -> Prop),
  (forall a b c, dlt a b = true -> dlt b c = true -> dlt a c = true) -> (forall a, dlt a a = false) ->
  (forall n i, echain_ok St E EdgeOk n (extend n i)) -> (forall tree i, tree <> [] -> (select tree i < length tree)%nat) ->
  forall starts ins, starts <> [] ->
  let tree := fst (tree_solve St D I E dlt select extend sat gdist dflt starts ins) in
  TInv St E EdgeOk starts tree /\ (exists ext, tree = map (fun x => (x, None)) starts ++ ext) /\
  report_ok St D E sat gdist dlt dflt EdgeOk starts (length starts) tree (snd (tree_solve St D I E dlt select extend sat gdist dflt starts ins)).
Proof.
  intros St D I E dlt select extend sat gdist dflt EdgeOk Htr Hir Hex Hsel starts ins Hs. unfold tree_solve.
  destruct (tree_call_spec St D I E dlt select extend sat gdist dflt EdgeOk Htr Hir Hex Hsel starts [] starts ins (TInv_nil St E EdgeOk starts) (fun x H => H)) as (A & B & C).
  cbn [app] in *. split; [exact A|]. split; [exact B|]. rewrite <- (map_length (fun x : St => (x, @None (nat * E))) starts). apply C. destruct starts; [congruence|discriminate].
Qed.
(* any number of solve() calls without clear(): the tree keeps its invariant and only grows, and every call's report is real *)
Theorem tree_calls_spec : forall (St D I E : Type) (dlt : D -> D -> bool) (select : list (St * option (nat * E)) -> I -> nat) extend sat gdist (dflt : St) (EdgeOk : St -> E -> St -> Prop),
  (forall a b c, dlt a b = true -> dlt b c = true -> dlt a c = true) -> (forall a, dlt a a = false) ->
  (forall n i, echain_ok St E EdgeOk n (extend n i)) -> (forall tree i, tree <> [] -> (select tree i < length tree)%nat) ->
  forall starts calls tree0 new_starts, TInv St E EdgeOk starts tree0 -> (forall x, In x new_starts -> In x starts) -> tree0 ++ map (fun x => (x, None)) new_starts <> [] ->
  let res := tree_calls St D I E dlt select extend sat gdist dflt tree0 new_starts calls in
  TInv St E EdgeOk starts (fst res) /\
  Forall (fun rep => exists base tree, report_ok St D E sat gdist dlt dflt EdgeOk starts base tree rep /\ TInv St E EdgeOk starts tree /\ exists ext, fst res = tree ++ ext) (snd res).
Proof.
  intros St D I E dlt select extend sat gdist dflt EdgeOk Htr Hir Hex Hsel starts calls.
  induction calls as [|ins rest IH]; intros tree0 new_starts HT Hn Hne; cbn [tree_calls].
  - cbn [fst snd]. split; [|constructor].
    destruct (tree_call_spec St D I E dlt select extend sat gdist dflt EdgeOk Htr Hir Hex Hsel starts tree0 new_starts [] HT Hn) as (A & _). cbn zeta in A.
    unfold tree_call in A. destruct (tree0 ++ map (fun x => (x, None)) new_starts) as [|n0 r0] eqn:Ei; [congruence|]. cbn [tree_loop r_sol fst] in A. exact A.
  - destruct (tree_call_spec St D I E dlt select extend sat gdist dflt EdgeOk Htr Hir Hex Hsel starts tree0 new_starts ins HT Hn) as (A & (ext & B) & C). cbn zeta in A, B, C.
    destruct (tree_call St D I E dlt select extend sat gdist dflt tree0 new_starts ins) as [t1 rep] eqn:E1. cbn [fst snd] in A, B, C.
    assert (N1 : t1 ++ map (fun x => (x, @None (nat * E))) [] <> []) by (rewrite B; cbn [map]; rewrite app_nil_r; destruct (tree0 ++ map (fun x => (x, None)) new_starts); [congruence|discriminate]).
    destruct (IH t1 [] A (fun x H => match H with end) N1) as (X & Y). cbn zeta in X, Y.
    destruct (tree_calls St D I E dlt select extend sat gdist dflt t1 [] rest) as [t2 reps] eqn:E2. cbn [fst snd] in *. split; [exact X|]. constructor; [|exact Y].
    exists (length (tree0 ++ map (fun x => (x, None)) new_starts)), t1. split; [apply C; exact Hne|]. split; [exact A|].
    (* the final tree extends t1 *)
    clear - E2 Htr Hir Hex Hsel A N1. revert t1 t2 reps E2 A N1. induction rest as [|i2 r2 IH2]; intros t1 t2 reps E2 A N1; cbn [tree_calls] in E2.
    + injection E2 as <- _. cbn [map]. exists []. reflexivity.
    + destruct (tree_call_spec St D I E dlt select extend sat gdist dflt EdgeOk Htr Hir Hex Hsel starts t1 [] i2 A (fun x H => match H with end)) as (A' & (e1 & B') & _). cbn zeta in A', B'.
      destruct (tree_call St D I E dlt select extend sat gdist dflt t1 [] i2) as [t1' rep'] eqn:E1'. cbn [fst] in A', B'.
      destruct (tree_calls St D I E dlt select extend sat gdist dflt t1' [] r2) as [t2' reps'] eqn:E2'. injection E2 as <- _.
      assert (N1' : t1' ++ map (fun x => (x, @None (nat * E))) [] <> []) by (rewrite B'; cbn [map] in *; rewrite !app_nil_r in *; destruct t1; [congruence|discriminate]).
      destruct (IH2 t1' t2' reps' E2' A' N1') as (e2 & F). exists (e1 ++ e2). rewrite F, B'. cbn [map]. rewrite app_nil_r, app_assoc. reflexivity.
Qed.

(* ---- geometric::RRT ---- *)
Section RrtG.
  Variables St D : Type.
  Variable dist : St -> St -> D.
  Variable dlt : D -> D -> bool.
  Variable steer : St -> St -> St.
  Variable mv : St -> St -> bool.
  Variable sat : St -> bool.
  Variable gdist : St -> D.
  Variable goal_state dflt : St.
  Hypothesis dlt_trans : forall a b c, dlt a b = true -> dlt b c = true -> dlt a c = true.
  Hypothesis dlt_irrefl : forall a, dlt a a = false.
  Definition gEdge (a : St) (_ : unit) (b : St) : Prop := mv a b = true.
  Lemma rrt_extend_ok n r s e : rrt_extend St steer mv n r = Some (s, e) -> gEdge n e s.
  Proof. unfold rrt_extend, gEdge. destruct (mv n (steer n r)) eqn:E; [|discriminate]. intros H. injection H as <- _. exact E. Qed.
  Lemma pathOk_consecutive : forall l : list (option unit * St), pathOk St unit gEdge l -> consecutive (fun a b => mv a b = true) (map snd l).
  Proof.
    induction l as [|[oa a] t IH]; intros H; [exact Logic.I|]. destruct t as [|[ob b] t']; [exact Logic.I|].
    change (consecutive (fun a b => mv a b = true) (a :: b :: map snd t')). destruct H as (H1 & H2). split; [destruct ob; [exact H1|destruct H1]|]. apply IH. exact H2.
  Qed.
  Lemma last_map_snd : forall (l : list (option unit * St)), l <> [] -> last (map snd l) dflt = snd (last l (None, dflt)).
  Proof. induction l as [|a t IH]; intros H; [congruence|]. destruct t as [|b t']; [reflexivity|]. change (last (map snd (b :: t')) dflt = snd (last (b :: t') (None, dflt))). apply IH. discriminate. Qed.

  Theorem geo_solve_spec : forall (I : Type) (select : list (St * option (nat * unit)) -> I -> nat) (tg : I -> St),
    (forall tree i, tree <> [] -> (select tree i < length tree)%nat) ->
    forall starts ins, starts <> [] ->
    let tree := fst (geo_solve St D dlt steer mv sat gdist dflt I select tg starts ins) in
    (forall i s, nth_error tree i = Some (s, None) -> In s starts) /\
    (forall i s p, nth_error tree i = Some (s, Some p) -> (p < i)%nat /\ exists ps pp, nth_error tree p = Some (ps, pp) /\ mv ps s = true) /\
    match snd (geo_solve St D dlt steer mv sat gdist dflt I select tg starts ins) with
    | Some (path, approx, dd) =>
        path <> [] /\ In (hd dflt path) starts /\ consecutive (fun a b => mv a b = true) path /\ dd = gdist (last path dflt) /\
        (exists i, (length starts <= i < length tree)%nat /\ last path dflt = fst (nth i tree (dflt, None))) /\
        (if approx then sat (last path dflt) = false /\ forall j, (length starts <= j < length tree)%nat -> dlt (gdist (fst (nth j tree (dflt, None)))) dd = false
         else sat (last path dflt) = true)
    | None => tree = map (fun x => (x, None)) starts
    end.
  Proof.
    intros I select tg Hsel starts ins Hs. unfold geo_solve.
    assert (EOK : forall n i, echain_ok St unit gEdge n (match rrt_extend St steer mv n (tg i) with Some x => [x] | None => [] end)).
    { intros n i. destruct (rrt_extend St steer mv n (tg i)) as [[d e]|] eqn:Ex; [|exact Logic.I]. split; [apply (rrt_extend_ok n (tg i) d e Ex)|exact Logic.I]. }
    pose proof (tree_solve_spec St D I unit dlt select (fun n i => match rrt_extend St steer mv n (tg i) with Some x => [x] | None => [] end) sat gdist dflt gEdge dlt_trans dlt_irrefl EOK Hsel starts ins Hs) as TS.
    cbn zeta in TS. destruct (tree_solve St D I unit dlt select (fun n i => match rrt_extend St steer mv n (tg i) with Some x => [x] | None => [] end) sat gdist dflt starts ins) as [tree rep]. cbn [fst snd] in *.
    destruct TS as ((T1 & T2) & (ext & EX) & R).
    assert (NM : forall i, nth_error (map (fun n : node St unit => (fst n, option_map fst (snd n))) tree) i = option_map (fun n => (fst n, option_map fst (snd n))) (nth_error tree i)) by (intros i; apply nth_error_map).
    assert (SA : forall j, fst (nth j (map (fun n : node St unit => (fst n, option_map fst (snd n))) tree) (dflt, None)) = state_at St unit dflt tree j).
    { intros j. unfold state_at. change (dflt, @None nat) with ((fun n : node St unit => (fst n, option_map fst (snd n))) (dflt, None)). rewrite map_nth. reflexivity. }
    split; [|split].
    - intros i s Hi. rewrite NM in Hi. destruct (nth_error tree i) as [[x [[p e]|]]|] eqn:En; cbn in Hi; try discriminate. injection Hi as <-. apply (T1 i x En).
    - intros i s p Hi. rewrite NM in Hi. destruct (nth_error tree i) as [[x [[p0 e]|]]|] eqn:En; cbn in Hi; try discriminate. injection Hi as <- <-.
      destruct (T2 i x p0 e En) as (A2 & ps & pp & A3 & A4). split; [exact A2|]. exists ps, (option_map fst pp). split; [rewrite NM, A3; reflexivity|exact A4].
    - unfold report_ok in R. destruct rep as [[[path approx] dd]|].
      + destruct R as (R1 & (s0 & R2 & R2') & R3 & R4 & (i & R5 & R5') & R6). rewrite map_length.
        split; [destruct path; [congruence|discriminate]|]. split; [destruct path as [|a t]; [congruence|]; cbn in R2 |- *; rewrite R2; exact R2'|].
        split; [apply pathOk_consecutive; exact R3|]. rewrite (last_map_snd path R1). split; [exact R4|]. split; [exists i; split; [exact R5|rewrite SA; exact R5']|].
        destruct approx; [destruct R6 as (R6 & R7); split; [exact R6|intros j Hj; rewrite SA; apply R7; exact Hj]|exact R6].
      + rewrite EX in R |- *. rewrite app_length, map_length in R. assert (ext = []) by (destruct ext; [reflexivity|cbn in R; lia]). subst ext. rewrite app_nil_r, map_map. reflexivity.
  Qed.
  Theorem rrt_solve_spec : forall starts hits samples, starts <> [] ->
    let tree := fst (rrt_solve St D dist dlt steer mv sat gdist goal_state dflt starts hits samples) in
    (forall i s, nth_error tree i = Some (s, None) -> In s starts) /\
    (forall i s p, nth_error tree i = Some (s, Some p) -> (p < i)%nat /\ exists ps pp, nth_error tree p = Some (ps, pp) /\ mv ps s = true) /\
    match snd (rrt_solve St D dist dlt steer mv sat gdist goal_state dflt starts hits samples) with
    | Some (path, approx, dd) =>
        path <> [] /\ In (hd dflt path) starts /\ consecutive (fun a b => mv a b = true) path /\ dd = gdist (last path dflt) /\
        (exists i, (length starts <= i < length tree)%nat /\ last path dflt = fst (nth i tree (dflt, None))) /\
        (if approx then sat (last path dflt) = false /\ forall j, (length starts <= j < length tree)%nat -> dlt (gdist (fst (nth j tree (dflt, None)))) dd = false
         else sat (last path dflt) = true)
    | None => tree = map (fun x => (x, None)) starts
    end.
  Proof.
    intros starts hits samples Hs. unfold rrt_solve.
    apply (geo_solve_spec St (fun tree r => nearest St D unit dist dlt tree r) (fun r => r) (fun tree r H => nearest_lt St D unit dist dlt tree r H) starts (targets St goal_state dflt hits samples) Hs).
  Qed.
  (* the range-limited random tree: the node to extend from is drawn uniformly *)
  Lemma rl_select_lt (tree : list (St * option (nat * unit))) (i : (Z * Z) * St) : tree <> [] -> (rl_select St tree i < length tree)%nat.
  Proof. intros H. unfold rl_select. assert (1 <= length tree)%nat by (destruct tree; [congruence|cbn; lia]). lia. Qed.
  Theorem rlrt_solve_spec : forall starts us hits samples, starts <> [] ->
    let tree := fst (rlrt_solve St D dlt steer mv sat gdist goal_state dflt starts us hits samples) in
    (forall i s, nth_error tree i = Some (s, None) -> In s starts) /\
    (forall i s p, nth_error tree i = Some (s, Some p) -> (p < i)%nat /\ exists ps pp, nth_error tree p = Some (ps, pp) /\ mv ps s = true) /\
    match snd (rlrt_solve St D dlt steer mv sat gdist goal_state dflt starts us hits samples) with
    | Some (path, approx, dd) =>
        path <> [] /\ In (hd dflt path) starts /\ consecutive (fun a b => mv a b = true) path /\ dd = gdist (last path dflt) /\
        (exists i, (length starts <= i < length tree)%nat /\ last path dflt = fst (nth i tree (dflt, None))) /\
        (if approx then sat (last path dflt) = false /\ forall j, (length starts <= j < length tree)%nat -> dlt (gdist (fst (nth j tree (dflt, None)))) dd = false
         else sat (last path dflt) = true)
    | None => tree = map (fun x => (x, None)) starts
    end.
  Proof.
    intros starts us hits samples Hs. unfold rlrt_solve.
    apply (geo_solve_spec ((Z * Z) * St) (rl_select St) snd rl_select_lt starts (combine us (targets St goal_state dflt hits samples)) Hs).
  Qed.
End RrtG.

(* ---- control::RRT: every reported segment replays ---- *)
Section RrtC.
  Variables St C : Type.
  Variable stepf : C -> St -> St.
  Variable valid : St -> bool.
  Variable dist : St -> St -> Z.
  Variable sat : St -> bool.
  Variable gdist : St -> Z.
  Variable dflt : St.
  Variable minDur : nat.
  (* the motion (control c for k steps) from a to b replays: at least the minimum duration, b is what c reaches from a in exactly k steps, all k steps valid *)
  Definition cEdge (a : St) (e : C * nat) (b : St) : Prop :=
    (minDur <= snd e)%nat /\ b = iter St C stepf (fst e) (snd e) a /\ forall j, (1 <= j <= snd e)%nat -> valid (iter St C stepf (fst e) j a) = true.
  Lemma crrt_extend_ok n i s e : crrt_extend St C stepf valid dist minDur n i = Some (s, e) -> cEdge n e s.
  Proof.
    unfold crrt_extend. pose proof (best_control_spec St C stepf valid (fun x => dist x (fst i)) n (fst (snd i)) (snd (snd i))) as BS.
    destruct (best_control St C stepf valid (fun x => dist x (fst i)) n (fst (snd i)) (snd (snd i))) as [[c k] st]. destruct BS as (_ & B2 & B3 & _).
    destruct (Nat.leb_spec minDur k) as [L|L]; [|discriminate]. intros H. injection H as <- <-. unfold cEdge. cbn [fst snd]. auto.
  Qed.
  Lemma zltb_trans : forall a b c : Z, (a <? b)%Z = true -> (b <? c)%Z = true -> (a <? c)%Z = true.
  Proof. intros a b c H1 H2. apply Z.ltb_lt in H1, H2. apply Z.ltb_lt. lia. Qed.
  Theorem crrt_solve_spec : forall starts ins, starts <> [] ->
    let tree := fst (crrt_solve St C stepf valid dist sat gdist dflt minDur starts ins) in
    TInv St (C * nat) cEdge starts tree /\ (exists ext, tree = map (fun x => (x, None)) starts ++ ext) /\
    report_ok St Z (C * nat) sat gdist Z.ltb dflt cEdge starts (length starts) tree (snd (crrt_solve St C stepf valid dist sat gdist dflt minDur starts ins)).
  Proof.
    intros starts ins Hs. unfold crrt_solve.
    assert (EOK : forall n i, echain_ok St (C * nat) cEdge n (match crrt_extend St C stepf valid dist minDur n i with Some x => [x] | None => [] end)).
    { intros n i. destruct (crrt_extend St C stepf valid dist minDur n i) as [[d e]|] eqn:Ex; [|exact Logic.I]. split; [apply (crrt_extend_ok n i d e Ex)|exact Logic.I]. }
    apply (tree_solve_spec St Z (citer St C) (C * nat) Z.ltb (fun tree i => nearest St Z (C * nat) dist Z.ltb tree (fst i)) (fun n i => match crrt_extend St C stepf valid dist minDur n i with Some x => [x] | None => [] end) sat gdist dflt cEdge zltb_trans Z.ltb_irrefl EOK
             (fun tree i H => nearest_lt St Z (C * nat) dist Z.ltb tree (fst i) H) starts ins Hs).
  Qed.

  (* with intermediate states: every motion is one propagation step onto a valid state *)
  Definition cEdge1 (a : St) (e : C * nat) (b : St) : Prop := snd e = 1%nat /\ b = stepf (fst e) a /\ valid b = true.
  Lemma pwv_states_chain c : forall fuel cur, echain_ok St (C * nat) cEdge1 cur (map (fun s => (s, (c, 1%nat))) (pwv_states St C stepf valid c fuel cur)).
  Proof.
    induction fuel as [|f IH]; intros cur; cbn [pwv_states map]; [exact Logic.I|]. destruct (valid (stepf c cur)) eqn:Ev; [|exact Logic.I].
    cbn [map echain_ok fst snd]. split; [unfold cEdge1; cbn [fst snd]; auto|apply IH].
  Qed.
  Theorem crrti_solve_spec : forall starts ins, starts <> [] ->
    let tree := fst (crrti_solve St C stepf valid dist sat gdist dflt minDur starts ins) in
    TInv St (C * nat) cEdge1 starts tree /\ (exists ext, tree = map (fun x => (x, None)) starts ++ ext) /\
    report_ok St Z (C * nat) sat gdist Z.ltb dflt cEdge1 starts (length starts) tree (snd (crrti_solve St C stepf valid dist sat gdist dflt minDur starts ins)).
  Proof.
    intros starts ins Hs. unfold crrti_solve.
    assert (EOK : forall n i, echain_ok St (C * nat) cEdge1 n (crrti_extend St C stepf valid dist minDur n i)).
    { intros n i. unfold crrti_extend. destruct (best_control St C stepf valid (fun x => dist x (fst i)) n (fst (snd i)) (snd (snd i))) as [[c k] st].
      destruct (minDur <=? length (pwv_states St C stepf valid c k n))%nat; [apply pwv_states_chain|exact Logic.I]. }
    apply (tree_solve_spec St Z (citer St C) (C * nat) Z.ltb (fun tree i => nearest St Z (C * nat) dist Z.ltb tree (fst i)) (crrti_extend St C stepf valid dist minDur) sat gdist dflt cEdge1 zltb_trans Z.ltb_irrefl EOK
             (fun tree i H => nearest_lt St Z (C * nat) dist Z.ltb tree (fst i) H) starts ins Hs).
  Qed.
End RrtC.
