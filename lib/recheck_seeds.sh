#!/bin/bash
# recheck_seeds.sh : apply every archived seeded change to /repo in turn, run the quick check of its property, expect a VIOLATION, undo.
# Usage: lib/recheck_seeds.sh [pattern]   (nothing else may be using /repo or build/ompl meanwhile)
cd /verif
out=/tmp/recheck_seeds.txt; : > $out
for d in seeded/${1:-*}/; do
  id=$(basename $d); prop=${id%%-*}
  [ -f $d/patch.diff ] || continue
  if ! git -C /repo apply --check $PWD/$d/patch.diff 2>/dev/null; then echo "$id SKIP (patch no longer applies)" >> $out; continue; fi
  git -C /repo apply $PWD/$d/patch.diff
  res=$(VERIF_SEED=1 timeout 1500 bin/check $prop 2>&1 | grep -E "^VIOLATION|done in" | tr '\n' ' ')
  git -C /repo checkout -- .
  case "$res" in *VIOLATION*) echo "$id DETECTED" >> $out;; *) echo "$id MISSED: $res" >> $out;; esac
done
ninja -C build/ompl ompl > /dev/null 2>&1
git -C /repo status --short | grep -v _build >> $out
cat $out
