"""Shared machinery for the /verif checks (python3, stdlib only).

prove -> build implementation from /repo's working tree -> correspond -> search -> verdict/evidence
"""
import json, os, random, re, subprocess, sys, time, hashlib, shutil, fcntl, contextlib

VERIF = os.path.dirname(os.path.dirname(os.path.abspath(__file__)))
REPO = os.environ.get("VERIF_REPO", "/repo")
BUILD = os.path.join(VERIF, "build")
COQ = os.path.join(VERIF, "coq")
OMPL_BUILD = os.path.join(BUILD, "ompl")
HARNESS_BIN = os.path.join(BUILD, "harness")
MODEL_BIN = os.path.join(BUILD, "model", "ompl_model")
EVIDENCE = os.path.join(VERIF, "evidence")
OUT = os.path.join(BUILD, "out")
GUARD = "OMPL_VERIF"
CXXFLAGS = ["-std=c++17", "-O1", "-ffp-contract=off", "-fno-fast-math", "-Wno-deprecated-declarations", "-D" + GUARD]
FORBIDDEN = re.compile(r"\b(Admitted|admit|Axiom|Axioms|Parameter|Parameters|Conjecture|Conjectures|Abort All)\b|Unset\s+Guard|bypass_check|Admit\s+Obligations|type-in-type|impredicative-set|Unset\s+Positivity|Unset\s+Universe")


_lock_depth = 0
_lock_fh = None


@contextlib.contextmanager
def build_lock():
    """Serialise everything that writes shared build products (coq/*.vo, build/ompl, build/harness, build/model) so
    that several checks can run at the same time; re-entrant within one process."""
    global _lock_depth, _lock_fh
    if _lock_depth == 0:
        os.makedirs(BUILD, exist_ok=True)
        _lock_fh = open(os.path.join(BUILD, ".lock"), "w")
        fcntl.flock(_lock_fh, fcntl.LOCK_EX)
    _lock_depth += 1
    try:
        yield
    finally:
        _lock_depth -= 1
        if _lock_depth == 0:
            fcntl.flock(_lock_fh, fcntl.LOCK_UN)
            _lock_fh.close()
            _lock_fh = None


def sh(cmd, timeout=None, cwd=None, env=None, input=None):
    t0 = time.time()
    try:
        p = subprocess.run(cmd, cwd=cwd, env=env, input=input, stdout=subprocess.PIPE, stderr=subprocess.PIPE,
                           timeout=timeout, text=True, shell=isinstance(cmd, str))
        return p.returncode, p.stdout, p.stderr, time.time() - t0
    except subprocess.TimeoutExpired as e:
        return 124, (e.stdout or b"").decode() if isinstance(e.stdout, bytes) else (e.stdout or ""), "TIMEOUT", time.time() - t0


class Check:
    """One run of one property's check."""

    def __init__(self, pid, level):
        self.pid = pid
        self.level = level
        self.tier = os.environ.get("VERIF_TIER", "quick")
        self.seed = int(os.environ.get("VERIF_SEED", "1"))
        self.replay = None
        args = sys.argv[1:]
        i = 0
        while i < len(args):
            if args[i] == "--tier":
                self.tier = args[i + 1]; i += 2
            elif args[i] == "--replay":
                self.replay = args[i + 1]; i += 2
            elif args[i] == "--seed":
                self.seed = int(args[i + 1]); i += 2
            else:
                i += 1
        if self.tier not in ("quick", "thorough"):
            self.tier = "quick"
        self.rng = random.Random(self.seed * 1000003 + int(hashlib.sha1(pid.encode()).hexdigest()[:6], 16))
        self.t0 = time.time()
        self.cov = {"samples": [], "trusted_base": [], "steps": []}
        self.assumptions = []
        self.violations = []      # (what, replay_path, no_input)
        self.known_hits = []
        self.broken = []          # names of theorems / correspondences that no longer check
        self.outdir = os.path.join(OUT, pid if self.tier == "quick" else pid + "." + self.tier)
        os.makedirs(self.outdir, exist_ok=True)
        os.makedirs(EVIDENCE, exist_ok=True)
        self.known = load_known_findings(pid)

    # ---------------------------------------------------------------- logging
    def log(self, *a):
        print("[%s %6.1fs]" % (self.pid, time.time() - self.t0), *a, flush=True)

    def step(self, name, cmd, secs, ok=True):
        self.cov["steps"].append({"step": name, "cmd": cmd if isinstance(cmd, str) else " ".join(cmd), "wall_s": round(secs, 2), "ok": ok})

    # ---------------------------------------------------------------- prove
    def prove(self, prop_file, deps_target=None):
        """Build the property's proof file (full .vo, never -vos), collect Print Assumptions.
        Returns True iff every obligation is discharged."""
        target = deps_target or (prop_file[:-2] + ".vo")
        with build_lock():
            if not os.path.exists(os.path.join(COQ, "Makefile")):
                rc, o, e, s = sh("coq_makefile -f _CoqProject -o Makefile", cwd=COQ, timeout=60)
            rc, o, e, s = sh("timeout 1500 make -k -j16 %s" % target, cwd=COQ, timeout=1600)
        self.step("prove:make", "make -C coq -k -j16 " + target, s, rc == 0)
        # statements and forbidden constructs
        src = open(os.path.join(COQ, prop_file)).read()
        theorems = re.findall(r"^\s*(?:Theorem|Corollary)\s+(\w+)", src, re.M)
        examples = re.findall(r"^\s*Example\s+(\w+)", src, re.M)
        bad = []
        for fn in sorted(os.listdir(COQ)):
            if fn.endswith(".v"):
                txt = strip_comments(open(os.path.join(COQ, fn)).read())
                for m in FORBIDDEN.finditer(txt):
                    bad.append("%s: %s" % (fn, m.group(0)))
        # re-run coqc on the property file itself for fresh Print Assumptions output
        with build_lock():
            rc2, o2, e2, s2 = sh("timeout 900 coqc -Q . OmplV %s" % prop_file, cwd=COQ, timeout=1000)
        self.step("prove:coqc", "coqc -Q . OmplV " + prop_file, s2, rc2 == 0)
        axioms = parse_assumptions(o2)
        ok = (rc == 0 and rc2 == 0 and not bad)
        self.cov["obligations"] = len(theorems) + len(examples)
        self.cov["discharged"] = (len(theorems) + len(examples)) if ok else 0
        self.cov["theorems"] = theorems
        self.cov["examples"] = examples
        self.cov["checker_cmd"] = "make -C /verif/coq -k -j16 %s && coqc -Q . OmplV %s  (thorough tier adds coqchk)" % (target, prop_file)
        self.cov["trusted_base"] += ["Coq 8.16.1 kernel + vm_compute", "axioms reported by Print Assumptions: " + (", ".join(sorted(axioms)) if axioms else "none (closed under the global context)")]
        self.cov["axioms"] = sorted(axioms)
        if bad:
            self.cov["forbidden_constructs"] = bad
        if not ok:
            err = (e + "\n" + e2 + "\n" + o2)
            failing = re.findall(r'File "\./(\w+\.v)", line (\d+)', err)
            what = "proof obligations of %s no longer check (%s)" % (prop_file, "; ".join(sorted(set("%s:%s" % f for f in failing))) or "; ".join(bad) or "make failed")
            self.broken.append(what)
            self.log("PROOF BROKEN:", what)
            open(os.path.join(self.outdir, "prove.err"), "w").write(err)
        else:
            self.log("proofs ok: %d theorems, %d examples; axioms: %s" % (len(theorems), len(examples), ", ".join(sorted(axioms)) or "none"))
        return ok

    def coqchk(self, module, admit=()):
        # the compiled files are copied under the lock (12 MB) and re-checked from the private copy, so that the
        # independent checker (20+ minutes for the developments over the reals) does not hold up other checks
        vo = os.path.join(self.outdir, "vo")
        with build_lock():
            shutil.rmtree(vo, ignore_errors=True); os.makedirs(vo)
            for f in os.listdir(COQ):
                if f.endswith(".vo"): shutil.copy2(os.path.join(COQ, f), vo)
        adm = "".join(" -admit " + a for a in admit)      # pre-installed third-party libraries that take an hour to re-check
        rc, o, e, s = sh("timeout 5400 coqchk -o -silent%s -Q . OmplV OmplV.%s" % (adm, module), cwd=vo, timeout=5500)
        shutil.rmtree(vo, ignore_errors=True)
        self.step("prove:coqchk", "coqchk -o -silent%s -Q . OmplV OmplV.%s" % (adm, module), s, rc == 0)
        if admit: self.assumptions.append("coqchk re-checks the OmplV development; %s and everything it depends on (Flocq, Coquelicot, MathComp, Bignums and the parts of the standard library they use, as installed by the distribution) are loaded without being re-checked: re-checking them takes more than an hour" % ", ".join(admit))
        self.cov["coqchk"] = {"rc": rc, "tail": (o + e)[-1500:]}
        if rc == 124:
            self.broken.append("coqchk did not finish re-checking OmplV.%s within 90 minutes" % module)
        elif rc != 0:
            self.broken.append("coqchk rejects OmplV." + module)
        return rc == 0

    # ---------------------------------------------------------------- implementation
    def build_ompl(self):
        """(Re)build libompl from /repo's working tree, hooks on."""
        with build_lock():
            self._build_ompl()

    def _build_ompl(self):
        os.makedirs(BUILD, exist_ok=True)
        if not os.path.exists(os.path.join(OMPL_BUILD, "build.ninja")):
            cmd = ("cmake -G Ninja -S %s -B %s -DCMAKE_BUILD_TYPE=Release "
                   "-DCMAKE_CXX_FLAGS=\"-O1 -ffp-contract=off -Wno-error -D%s\" -DOMPL_BUILD_TESTS=OFF -DOMPL_BUILD_DEMOS=OFF "
                   "-DOMPL_BUILD_PYBINDINGS=OFF -DOMPL_BUILD_PYTESTS=OFF -DOMPL_REGISTRATION=OFF -DOMPL_VERSIONED_INSTALL=OFF" % (REPO, OMPL_BUILD, GUARD))
            rc, o, e, s = sh(cmd, timeout=600)
            self.step("impl:cmake", cmd, s, rc == 0)
            if rc != 0:
                raise BuildError("cmake failed:\n" + o[-3000:] + e[-3000:])
        rc, o, e, s = sh("ninja -C %s ompl" % OMPL_BUILD, timeout=3000)
        self.step("impl:ninja", "ninja -C build/ompl ompl", s, rc == 0)
        if rc != 0:
            raise BuildError("libompl does not build:\n" + o[-4000:] + e[-3000:])

    def build_driver(self, name, link_ompl=False, extra=None, sanitize=False):
        os.makedirs(HARNESS_BIN, exist_ok=True)
        src = os.path.join(VERIF, "harness", name + ".cpp")
        out = os.path.join(HARNESS_BIN, name + ("_san" if sanitize else ""))
        cmd = ["g++"] + CXXFLAGS + ["-I" + os.path.join(REPO, "src"), "-I" + os.path.join(OMPL_BUILD, "src"), "-I/usr/include/eigen3", "-I" + os.path.join(VERIF, "harness")]
        if sanitize:
            cmd += ["-g", "-fsanitize=address,undefined", "-fno-sanitize-recover=all"]
        if not os.path.exists(os.path.join(OMPL_BUILD, "src", "ompl", "config.h")):
            self.build_ompl()
        tmp_out = "%s.tmp.%d" % (out, os.getpid())
        cmd += [src, "-o", tmp_out]
        if link_ompl:
            libdir = os.path.join(OMPL_BUILD, "src", "ompl")
            cmd += ["-L" + libdir, "-lompl", "-Wl,-rpath," + libdir, "-lpthread", "-lboost_serialization", "-lboost_filesystem", "-lboost_system"]
        cmd += (extra or [])
        rc, o, e, s = sh(cmd, timeout=900)
        self.step("impl:driver", " ".join(cmd).replace(tmp_out, out), s, rc == 0)
        if rc == 0:
            os.replace(tmp_out, out)      # atomic: another check may be running the previous binary
        elif os.path.exists(tmp_out):
            os.remove(tmp_out)
        if rc != 0:
            raise BuildError("driver %s does not compile against /repo:\n%s" % (name, e[-4000:]))
        return out

    def build_model(self):
        with build_lock():
            rc, o, e, s = sh("make -s -C %s model" % VERIF, timeout=1800)
        self.step("model:extract", "make -C /verif model", s, rc == 0)
        if rc != 0:
            raise BuildError("model extraction failed:\n" + o[-2000:] + e[-3000:])
        return MODEL_BIN

    # ---------------------------------------------------------------- verdict
    def violation(self, what, replay_text, name="replay", no_input=False):
        """Record a violation; a known finding (matched by its id slug) is reported separately."""
        path = os.path.join(self.outdir, "%s_%d.txt" % (name, len(self.violations)))
        open(path, "w").write(replay_text)
        self.violations.append((what, path, no_input))

    def known_finding(self, slug, what):
        """Returns True if the failure `slug` is a listed known finding (then only reported)."""
        if slug in self.known:
            if slug not in [k for k, _ in self.known_hits]:
                self.known_hits.append((slug, what))
            return True
        return False

    def finish(self, explanation=None):
        wall = time.time() - self.t0
        cov = self.cov
        if explanation:
            cov["explanation"] = explanation
        if not cov["samples"]:
            cov["samples"] = ["(no sample recorded)"]
        # broken proof/correspondence without a failing input
        if self.broken and not self.violations:
            txt = "The following no longer check; no concrete failing input was found by the search:\n" + "\n".join(self.broken) + "\n"
            path = os.path.join(self.outdir, "broken_0.txt")
            open(path, "w").write(txt)
            self.violations.append(("; ".join(self.broken), path, True))
        ev = {"property_id": self.pid, "tier": self.tier, "seed": self.seed, "level": self.level, "coverage": cov,
              "assumptions": self.assumptions, "wall_s": round(wall, 2), "violations": len(self.violations),
              "known_findings_reported": [k for k, _ in self.known_hits]}
        tmp = os.path.join(EVIDENCE, "%s.json.tmp.%d" % (self.pid, os.getpid()))
        json.dump(ev, open(tmp, "w"), indent=1, default=str)
        os.replace(tmp, os.path.join(EVIDENCE, self.pid + ".json"))
        for slug, what in self.known_hits:
            print("KNOWN-FINDING: property=%s %s [%s]" % (self.pid, what, slug), flush=True)
        for what, path, no_input in self.violations[:5]:
            self.log("violation:", what)
            print("VIOLATION property=%s replay=%s%s" % (self.pid, path, " no-failing-input-found" if no_input else ""), flush=True)
        self.log("done in %.1fs: %s" % (wall, "FAIL" if self.violations else "ok"))
        sys.exit(1 if self.violations else 0)


class BuildError(Exception):
    pass


def strip_comments(txt):
    out, depth, i = [], 0, 0
    while i < len(txt):
        if txt.startswith("(*", i):
            depth += 1; i += 2
        elif txt.startswith("*)", i) and depth > 0:
            depth -= 1; i += 2
        else:
            if depth == 0:
                out.append(txt[i])
            i += 1
    return "".join(out)


def parse_assumptions(out):
    """Names of axioms printed by Print Assumptions (anything after 'Axioms:' up to the next blank/Closed line)."""
    ax = set()
    cur = False
    for line in out.splitlines():
        if line.startswith("Axioms:"):
            cur = True
            continue
        if line.startswith("Closed under the global context") or not line.strip():
            cur = False
            continue
        if cur and not line.startswith(" "):
            ax.add(line.split()[0].rstrip(":"))
    return ax


def load_known_findings(pid):
    known = {}
    path = os.path.join(VERIF, "known_findings.txt")
    if os.path.exists(path):
        for line in open(path):
            line = line.strip()
            m = re.match(r"finding:\s+property=(\w+)\s+id=(\S+)\s+(.*)", line)
            if m and m.group(1) == pid:
                known[m.group(2)] = m.group(3)
    return known


def ddmin(items, fails, max_tests=400):
    """Delta-minimise a list under predicate fails(list)->bool (fails(items) must be True)."""
    n, tests = 2, 0
    while len(items) >= 2 and tests < max_tests:
        chunk = max(1, len(items) // n)
        reduced = False
        for i in range(0, len(items), chunk):
            cand = items[:i] + items[i + chunk:]
            tests += 1
            if cand and fails(cand):
                items, n, reduced = cand, max(n - 1, 2), True
                break
        if not reduced:
            if chunk == 1:
                break
            n = min(len(items), n * 2)
    return items


def run_lines(binary, text, timeout=600, env=None):
    rc, o, e, s = sh([binary], input=text, timeout=timeout, env=env)
    return rc, o, e, s


def main_guard(fn):
    try:
        fn()
    except BuildError as ex:
        # the implementation / harness cannot be built: nothing is shown any more
        pid = getattr(ex, "pid", None)
        print(str(ex)[-3000:], file=sys.stderr)
        raise
