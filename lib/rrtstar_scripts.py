"""rrtstar_scripts.py — scripted whole runs of geometric::RRTstar (harness/rrt_driver op RRTS) shared by the C01 check (reported paths are
real; exact correspondence with RrtStarModel) and the C04 check (cost bookkeeping: cost = parent cost + incCost, incCost = the objective's motion
cost parent -> child, stored cost never better than the cost of the reported path)."""
import math, struct


def fl(h): return struct.unpack("<d", struct.pack("<Q", int(h, 16)))[0]
def fb(x): return struct.unpack("<Q", struct.pack("<d", x))[0]
def edist(a, b):
    dx = a[0] - b[0]; dy = a[1] - b[1]; return math.sqrt(0.0 + dx * dx + dy * dy)
def q10(x): return round(x * 1024) / 1024.0
def cfl(x):
    return "(%s)%%float" % float(x).hex() if x >= 0 and not (x == 0 and math.copysign(1, x) < 0) else "(- (%s))%%float" % float(-x).hex()
def touches(k, a, b):
    w, lo, hi = k
    if (a[0] - w) * (b[0] - w) > 0.0: return False
    if a[0] == b[0]: return (a[1] <= hi and lo <= b[1]) if a[1] <= b[1] else (b[1] <= hi and lo <= a[1])
    t = (w - a[0]) / (b[0] - a[0]); y = a[1] + t * (b[1] - a[1]); return lo <= y <= hi
def touches_any(ws, a, b): return any(touches(kk, a, b) for kk in ws)


def gen(rng, n):
    slines = []; sterms = []
    for i in range(n):
        md = rng.choice([1.5, 3.0]); bias = rng.choice([0.0, 0.0625, 0.25]); thr = rng.choice([0.5, 1.0]); work = rng.choice([0, 0, 1]); rf = rng.choice([1.1, 1.1, 0.1])
        cthr = rng.choice([0.0, 0.0, 12.0, 30.0]) if not work else rng.choice([0.0, 0.0, 8.0, 40.0]); iters = rng.choice([1, 4, 10, 20, 35])
        walls = [(q10(rng.uniform(0, 10)), lo, lo + rng.choice([0.5, 2.0, 6.0])) for _ in range(rng.choice([0, 1, 1, 2])) for lo in [q10(rng.uniform(0, 8))]]
        starts = [(q10(rng.uniform(0, 10)), q10(rng.uniform(0, 10))) for _ in range(rng.choice([1, 1, 2]))]
        g = (q10(rng.uniform(0, 10)), q10(rng.uniform(0, 10)))
        tape = [rng.randrange(256) / 256.0 for _ in range(iters + 2)]
        pts = list(starts); samples = []
        for _ in range(iters):
            b0 = rng.choice(pts); p = (q10(b0[0] + rng.uniform(-md, md)), q10(b0[1] + rng.uniform(-md, md))) if rng.random() < 0.7 else (q10(rng.uniform(0, 10)), q10(rng.uniform(0, 10)))
            samples.append(p); pts.append(p)
        krrt = rf * (2.0 ** 3 * math.e * (1.0 + 1.0 / 2.0)); ks = [0] + [int(math.ceil(krrt * math.log(float(cd)))) for cd in range(1, iters + len(starts) + 3)]
        slines.append("RRTS %r %r %r %d %r %r %d W %d %s S %d %s G %r %r T %d %s P %d %s" % (md, bias, thr, work, cthr, rf, iters, len(walls), " ".join("%r %r %r" % w for w in walls), len(starts), " ".join("%r %r" % q for q in starts),
                      g[0], g[1], len(tape), " ".join("%r" % u for u in tape), len(samples), " ".join("%r %r" % q for q in samples)))
        sterms.append("star_float %s %s %s %s %s %d [%s]%%nat [%s] [%s] (%s, %s) [%s] [%s]" % (cfl(md), cfl(bias), cfl(thr), "true" if work else "false", cfl(cthr), iters, "; ".join(map(str, ks)),
                      "; ".join("(%s, %s, %s)" % tuple(map(cfl, w)) for w in walls), "; ".join("(%s, %s)" % tuple(map(cfl, q)) for q in starts), cfl(g[0]), cfl(g[1]), "; ".join(map(cfl, tape)), "; ".join("(%s, %s)" % tuple(map(cfl, q)) for q in samples)))
    return slines, sterms


def judge(sl, a):
    """a: the driver's output line for the script line sl.  Returns dict(itree, irep, nodes, rep, dup, path_bad, cost_bad)"""
    parts = [x.strip() for x in a.split("|")]
    nodes = [t.split() for t in parts[0].split(";")[1:] if t.strip()]
    itree = [v for t in nodes for v in (int(t[0], 16), int(t[1], 16), fb(float(int(t[2]))), int(t[3], 16), int(t[4], 16))]
    rep = parts[1].split()
    irep = [] if rep[0] != "1" else [fb(float(int(rep[1]))), int(rep[2], 16), int(rep[3], 16), fb(float(int(rep[4])))] + [int(x, 16) for t in parts[2].split(";") if t.strip() for x in t.split()]
    dup = len(set((t[0], t[1]) for t in nodes)) < len(nodes)
    w = sl.split(); nw = int(w[9]); walls = [(float(w[10 + 3 * j]), float(w[11 + 3 * j]), float(w[12 + 3 * j])) for j in range(nw)]
    o = 10 + 3 * nw; ns = int(w[o + 1]); starts = [(float(w[o + 2 + 2 * j]), float(w[o + 3 + 2 * j])) for j in range(ns)]
    o = o + 2 + 2 * ns; goal = (float(w[o + 1]), float(w[o + 2])); thr = float(w[3]); work = w[4] == "1"
    def mc(p_, q_): return (max((1.0 + 4.0 * q_[1]) - (1.0 + 4.0 * p_[1]), 0.0) + 0.05 * edist(p_, q_)) if work else edist(p_, q_)
    P_ = [(fl(t[0]), fl(t[1])) for t in nodes]; path_bad = cost_bad = None
    for j_, t in enumerate(nodes):
        pj = int(t[2])
        if pj < 0: continue
        if path_bad is None and touches_any(walls, P_[pj], P_[j_]): path_bad = "motion %d -> %d of the tree touches a wall" % (pj, j_)
        if cost_bad is None and abs(fl(t[3]) - mc(P_[pj], P_[j_])) > 1e-12: cost_bad = "incCost of motion %d is %r, the objective gives %r for the motion from its parent" % (j_, fl(t[3]), mc(P_[pj], P_[j_]))
        if cost_bad is None and abs(fl(t[4]) - (fl(nodes[pj][4]) + fl(t[3]))) > 1e-9: cost_bad = "cost of motion %d is %r, parent cost + incCost is %r" % (j_, fl(t[4]), fl(nodes[pj][4]) + fl(t[3]))
    if rep[0] == "1":
        path = [(fl(t.split()[0]), fl(t.split()[1])) for t in parts[2].split(";") if t.strip()]
        true_c = sum(mc(u, v) for u, v in zip(path, path[1:]))
        if path_bad is None:
            if not path or path[0] not in starts: path_bad = "the reported path does not begin at a start state"
            elif any(touches_any(walls, u, v) for u, v in zip(path, path[1:])): path_bad = "the reported path contains a motion that touches a wall"
            elif rep[1] == "0" and not (edist(path[-1], goal) < thr): path_bad = "the exact solution ends %r from the goal (threshold %r)" % (edist(path[-1], goal), thr)
            elif rep[1] == "1" and edist(path[-1], goal) < thr: path_bad = "a path that ends within the goal threshold is reported as approximate"
        if cost_bad is None and fl(rep[3]) < true_c - 1e-9: cost_bad = "stored cost %r is better than the cost %r of the reported path" % (fl(rep[3]), true_c)
        cthr = float(w[5])
        if cost_bad is None and rep[1] == "0" and (rep[4] == "1") != (fl(rep[3]) < cthr): cost_bad = "solution marked optimized=%s but its stored cost %r %s the threshold %r" % (rep[4], fl(rep[3]), "satisfies" if fl(rep[3]) < cthr else "does not satisfy", cthr)
    return dict(itree=itree, irep=irep, nodes=nodes, rep=rep, dup=dup, path_bad=path_bad, cost_bad=cost_bad)


def gen_calls(rng, n):
    """several solve() calls on one planner (harness/rrt_driver op RRTSN; model RrtStarFloat.star_float_calls)"""
    slines = []; sterms = []
    for i in range(n):
        md = rng.choice([1.5, 3.0]); bias = rng.choice([0.0, 0.0625, 0.25]); thr = rng.choice([0.5, 1.0]); work = rng.choice([0, 0, 1]); rf = rng.choice([1.1, 1.1, 0.1])
        cthr = rng.choice([0.0, 0.0, 12.0, 30.0]) if not work else rng.choice([0.0, 0.0, 8.0, 40.0])
        walls = [(q10(rng.uniform(0, 10)), lo, lo + rng.choice([0.5, 2.0, 6.0])) for _ in range(rng.choice([0, 1, 1, 2])) for lo in [q10(rng.uniform(0, 8))]]
        starts = [(q10(rng.uniform(0, 10)), q10(rng.uniform(0, 10))) for _ in range(rng.choice([1, 1, 2]))]
        g = (q10(rng.uniform(0, 10)), q10(rng.uniform(0, 10)))
        pts = list(starts); calls = []; total = 0
        for _c in range(rng.choice([2, 2, 3, 4])):
            iters = rng.choice([0, 1, 4, 10, 15]); total += iters
            tape = [rng.randrange(256) / 256.0 for _ in range(iters + 2)]; samples = []
            for _ in range(iters):
                b0 = rng.choice(pts); p = (q10(b0[0] + rng.uniform(-md, md)), q10(b0[1] + rng.uniform(-md, md))) if rng.random() < 0.7 else (q10(rng.uniform(0, 10)), q10(rng.uniform(0, 10)))
                samples.append(p); pts.append(p)
            calls.append((iters, tape, samples))
        krrt = rf * (2.0 ** 3 * math.e * (1.0 + 1.0 / 2.0)); ks = [0] + [int(math.ceil(krrt * math.log(float(cd)))) for cd in range(1, total + len(starts) + 3)]
        slines.append("RRTSN %r %r %r %d %r %r W %d %s S %d %s G %r %r C %d %s" % (md, bias, thr, work, cthr, rf, len(walls), " ".join("%r %r %r" % w for w in walls), len(starts), " ".join("%r %r" % q for q in starts), g[0], g[1], len(calls),
                      " ".join("%d T %d %s P %d %s" % (it, len(tp), " ".join("%r" % u for u in tp), len(sm), " ".join("%r %r" % q for q in sm)) for it, tp, sm in calls)))
        sterms.append("star_float_calls %s %s %s %s %s [%s]%%nat [%s] [%s] (%s, %s) [%s]" % (cfl(md), cfl(bias), cfl(thr), "true" if work else "false", cfl(cthr), "; ".join(map(str, ks)),
                      "; ".join("(%s, %s, %s)" % tuple(map(cfl, w)) for w in walls), "; ".join("(%s, %s)" % tuple(map(cfl, q)) for q in starts), cfl(g[0]), cfl(g[1]),
                      "; ".join("(%d%%nat, [%s], [%s])" % (it, "; ".join(map(cfl, tp)), "; ".join("(%s, %s)" % tuple(map(cfl, q)) for q in sm)) for it, tp, sm in calls)))
    return slines, sterms


def judge_calls(sl, a):
    """a: the driver's output for an RRTSN line.  Returns dict(itree, ireps, dup, path_bad, cost_bad, nreports)"""
    parts = [x.strip() for x in a.split("|")]
    nodes = [t.split() for t in parts[0].split(";")[1:] if t.strip()]
    itree = [v for t in nodes for v in (int(t[0], 16), int(t[1], 16), fb(float(int(t[2]))), int(t[3], 16), int(t[4], 16))]
    dup = len(set((t[0], t[1]) for t in nodes)) < len(nodes)
    w = sl.split(); nw = int(w[8]); walls = [(float(w[9 + 3 * j]), float(w[10 + 3 * j]), float(w[11 + 3 * j])) for j in range(nw)]
    o = 9 + 3 * nw; ns = int(w[o + 1]); starts = [(float(w[o + 2 + 2 * j]), float(w[o + 3 + 2 * j])) for j in range(ns)]
    o = o + 2 + 2 * ns; goal = (float(w[o + 1]), float(w[o + 2])); thr = float(w[3]); work = w[4] == "1"
    def mc(p_, q_): return (max((1.0 + 4.0 * q_[1]) - (1.0 + 4.0 * p_[1]), 0.0) + 0.05 * edist(p_, q_)) if work else edist(p_, q_)
    ireps = []; path_bad = cost_bad = None; q = 1
    while q < len(parts):
        rep = parts[q].split()
        if not rep: break
        if rep[0] != "1": ireps.append([]); q += 2 if q + 1 < len(parts) and not parts[q + 1].strip() else 1; continue
        pstates = [t for t in parts[q + 1].split(";") if t.strip()]
        ireps.append([fb(float(int(rep[1]))), int(rep[2], 16), int(rep[3], 16), fb(float(int(rep[4])))] + [int(x, 16) for t in pstates for x in t.split()])
        path = [(fl(t.split()[0]), fl(t.split()[1])) for t in pstates]; true_c = sum(mc(u, v) for u, v in zip(path, path[1:])); k = len(ireps)
        if path_bad is None:
            if not path or path[0] not in starts: path_bad = "the path reported by call %d does not begin at a start state" % k
            elif any(touches_any(walls, u, v) for u, v in zip(path, path[1:])): path_bad = "the path reported by call %d contains a motion that touches a wall" % k
            elif rep[1] == "0" and not (edist(path[-1], goal) < thr): path_bad = "the exact solution of call %d ends %r from the goal (threshold %r)" % (k, edist(path[-1], goal), thr)
        if cost_bad is None and fl(rep[3]) < true_c - 1e-9: cost_bad = "call %d: stored cost %r is better than the cost %r of the reported path" % (k, fl(rep[3]), true_c)
        q += 2
    return dict(itree=itree, ireps=ireps, nodes=nodes, dup=dup, path_bad=path_bad, cost_bad=cost_bad)
