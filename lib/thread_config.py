#!/usr/bin/env python3
"""thread_config.py — translator for C19: reads the synchronisation-relevant declarations of /repo's sources and writes
the Coq configuration record (ThreadConfig.v) that Properties_C19's obligations are stated about. Regenerated on every
run; a source change that drops an atomic or a lock turns a field to false and the obligation `current_ok` fails."""
import re, sys, os
REPO = os.environ.get("VERIF_REPO", "/repo")


def read(p): return open(os.path.join(REPO, p)).read()


def strip_comments(s):
    s = re.sub(r"/\*.*?\*/", "", s, flags=re.S)
    return re.sub(r"//[^\n]*", "", s)


def method_bodies(src, start_pat):
    """bodies (text between matching braces) of functions whose header matches start_pat"""
    out = []
    for m in re.finditer(start_pat, src):
        i = src.find("{", m.end() - 1)
        if i < 0: continue
        depth = 0; j = i
        while j < len(src):
            if src[j] == "{": depth += 1
            elif src[j] == "}":
                depth -= 1
                if depth == 0: break
            j += 1
        out.append((m.group(0), src[i:j + 1]))
    return out


def extract():
    cfg = {}; notes = {}
    mvh = strip_comments(read("src/ompl/base/MotionValidator.h"))
    cfg["mv_counters_atomic"] = bool(re.search(r"std::atomic<\s*unsigned\s+int\s*>\s+valid_\s*;", mvh)) and bool(re.search(r"std::atomic<\s*unsigned\s+int\s*>\s+invalid_\s*;", mvh))
    rmw = True; uses = 0
    for f in ("src/ompl/base/src/DiscreteMotionValidator.cpp", "src/ompl/base/spaces/src/DubinsStateSpace.cpp", "src/ompl/base/spaces/src/ReedsSheppStateSpace.cpp"):
        s = strip_comments(read(f))
        for m in re.finditer(r"[^\n;{}]*\b(?:valid_|invalid_)\b[^\n;]*;", s):
            st = m.group(0).strip(); uses += 1
            if not re.fullmatch(r"(?:\+\+\s*(?:valid_|invalid_)|(?:valid_|invalid_)\s*\+\+|(?:valid_|invalid_)\s*\+=\s*1)\s*;", st): rmw = False; notes.setdefault("mv_increments_rmw", []).append(f + ": " + st)
    cfg["mv_increments_rmw"] = rmw and uses > 0
    ptc = strip_comments(read("src/ompl/base/src/PlannerTerminationCondition.cpp"))
    cfg["ptc_flags_atomic"] = all(re.search(r"std::atomic<\s*bool\s*>\s+%s\s*;" % n, ptc) for n in ("terminate_", "evalValue_", "signalThreadStop_"))
    # eval() tests terminate_ before anything else; terminate() writes terminate_ and nothing else
    me = re.search(r"bool\s+eval\s*\(\s*\)\s*const\s*\{\s*if\s*\(\s*terminate_\s*\)\s*return\s+true\s*;", ptc)
    mt = re.search(r"void\s+terminate\s*\(\s*\)\s*const\s*\{\s*terminate_\s*=\s*true\s*;\s*\}", ptc)
    cfg["ptc_eval_terminate_first"] = bool(me) and bool(mt)
    if not cfg["ptc_eval_terminate_first"]: notes["ptc_eval_terminate_first"] = "eval() starts with the terminate_ test: %s; terminate() only sets terminate_: %s" % (bool(me), bool(mt))
    # pRRT: the three shared accesses of a worker are each one critical section (the atomic events of ParRrtModel.v), and the motion's
    # parent is the node read in the first one
    pr = strip_comments(read("src/ompl/geometric/planners/rrt/src/pRRT.cpp"))
    m = re.search(r"void\s+ompl::geometric::pRRT::threadSolve\s*\(", pr)
    body = pr[m.start():pr.find("ompl::base::PlannerStatus ompl::geometric::pRRT::solve", m.start())] if m else ""
    c1 = re.search(r"nnLock_\.lock\(\)\s*;\s*Motion\s*\*\s*nmotion\s*=\s*nn_->nearest\(rmotion\)\s*;\s*nnLock_\.unlock\(\)\s*;", body)
    c2 = re.search(r"motion->parent\s*=\s*nmotion\s*;\s*nnLock_\.lock\(\)\s*;\s*nn_->add\(motion\)\s*;\s*nnLock_\.unlock\(\)\s*;", body)
    c3 = re.search(r"sol->lock\.lock\(\)\s*;\s*sol->approxdif\s*=\s*dist\s*;\s*sol->solution\s*=\s*motion\s*;\s*sol->lock\.unlock\(\)\s*;", body)
    c4 = re.search(r"sol->lock\.lock\(\)\s*;\s*if\s*\(dist\s*<\s*sol->approxdif\)\s*\{\s*sol->approxdif\s*=\s*dist\s*;\s*sol->approxsol\s*=\s*motion\s*;\s*\}\s*sol->lock\.unlock\(\)\s*;", body)
    writes = len(re.findall(r"nn_->(?:add|remove|clear)\(", body)), len(re.findall(r"sol->(?:solution|approxsol|approxdif)\s*=[^=]", body))
    cfg["prrt_atomic_steps"] = bool(c1 and c2 and c3 and c4) and writes == (1, 4)
    if not cfg["prrt_atomic_steps"]: notes["prrt_atomic_steps"] = "nearest locked: %s; parent + add locked: %s; solution locked: %s; approximate locked: %s; writes to the tree / solution record in threadSolve: %s" % (bool(c1), bool(c2), bool(c3), bool(c4), writes)
    pd = strip_comments(read("src/ompl/base/src/ProblemDefinition.cpp"))
    m = re.search(r"class\s+ProblemDefinition::PlannerSolutionSet\s*\{", pd)
    ok = False
    if m:
        i = m.end() - 1; depth = 0; j = i
        while j < len(pd):
            if pd[j] == "{": depth += 1
            elif pd[j] == "}":
                depth -= 1
                if depth == 0: break
            j += 1
        body = pd[i:j]
        meths = method_bodies(body, r"\b(?:void|bool|double|std::size_t|PathPtr|std::vector<PlannerSolution>)\s+\w+\s*\([^)]*\)\s*\{")
        bad = [h for h, b in meths if "solutions_" in b and "std::lock_guard<std::mutex>" not in b.split(";")[0] + ";"]
        ok = len(meths) >= 6 and not bad
        if bad: notes["pdef_solutions_locked"] = bad
    cfg["pdef_solutions_locked"] = ok
    rn = strip_comments(read("src/ompl/util/src/RandomNumbers.cpp"))
    m = re.search(r"class\s+RNGSeedGenerator\s*\{", rn); ok = False
    if m:
        seg = rn[m.end():rn.find("};", m.end())]
        meths = method_bodies(seg, r"\b(?:void|std::uint_fast32_t)\s+\w+\s*\([^)]*\)\s*\{")
        bad = [h for h, b in meths if "std::lock_guard<std::mutex>" not in b]
        ok = len(meths) >= 3 and not bad and "std::call_once" in rn
        if bad: notes["rng_seeds_locked"] = bad
    cfg["rng_seeds_locked"] = ok
    ss = strip_comments(read("src/ompl/base/src/StateSpace.cpp"))
    touches = [b for h, b in method_bodies(ss, r"\bompl::base::StateSpace::\w+\s*\([^)]*\)\s*(?:const)?\s*\{|\bompl::base::StateSpace::~?StateSpace\s*\([^)]*\)[^{]*\{") if "getAllocatedSpaces()" in b]
    cfg["spaces_registry_locked"] = len(touches) >= 2 and all("std::lock_guard<std::mutex>" in b for b in touches) and "std::call_once" in ss
    co = strip_comments(read("src/ompl/util/src/Console.cpp"))
    # every ompl::msg function that touches the handler goes through the USE_DOH macro, which takes the lock
    macro = re.search(r"#define\s+USE_DOH(?:[^\n]*\\\n)*[^\n]*", read("src/ompl/util/src/Console.cpp"))
    fns = method_bodies(co, r"\b[\w:\*&<> ]+\s+ompl::msg::\w+\s*\([^)]*\)\s*\{")
    touching = [b for h, b in fns if "doh->" in b or "getDOH()" in b]
    cfg["console_locked"] = bool(macro) and "std::lock_guard<std::mutex>" in macro.group(0) and len(touching) >= 4 and all("USE_DOH" in b for b in touching)
    gn = strip_comments(read("src/ompl/datastructures/NearestNeighborsGNAT.h"))
    # mutable members of the thread-safe GNAT (written by const queries) must be atomic
    muts = re.findall(r"\bmutable\s+([^;]+);", gn)
    cfg["gnat_query_no_shared_scratch"] = all(m.strip().startswith("std::atomic<") for m in muts)
    if not cfg["gnat_query_no_shared_scratch"]: notes["gnat_query_no_shared_scratch"] = muts
    # PRM::solve resets bestCost_ before it starts the solution checking thread; constructRoadmap(ptc) only initialises a NaN
    prm = strip_comments(read("src/ompl/geometric/planners/prm/src/PRM.cpp"))
    sv = method_bodies(prm, r"ompl::base::PlannerStatus\s+ompl::geometric::PRM::solve\s*\([^)]*\)\s*\{")
    cr = method_bodies(prm, r"void\s+ompl::geometric::PRM::constructRoadmap\s*\(\s*const\s+base::PlannerTerminationCondition\s*&\s*ptc\s*\)\s*\{")
    ok = False
    if len(sv) == 1 and len(cr) == 1:
        sb, cb = sv[0][1], cr[0][1]
        i_reset = sb.find("bestCost_ = opt_->infiniteCost();"); i_thr = sb.find("std::thread slnThread")
        unguarded = [m.start() for m in re.finditer(r"bestCost_\s*=[^=]", cb) if not re.search(r"if\s*\(\s*std::isnan\(bestCost_\.value\(\)\)\s*\)\s*$", cb[:m.start()])]
        ok = 0 <= i_reset < i_thr and not unguarded
        if not ok: notes["prm_bestcost_before_thread"] = "reset before the thread in solve(): %s; unguarded writes in constructRoadmap(ptc): %d" % (0 <= i_reset < i_thr, len(unguarded))
    cfg["prm_bestcost_before_thread"] = ok
    return cfg, notes


def to_coq(cfg):
    b = lambda x: "true" if x else "false"
    order = ["mv_counters_atomic", "mv_increments_rmw", "ptc_flags_atomic", "ptc_eval_terminate_first", "prrt_atomic_steps", "pdef_solutions_locked", "rng_seeds_locked", "spaces_registry_locked", "console_locked", "gnat_query_no_shared_scratch", "prm_bestcost_before_thread"]
    return ("(* generated by lib/thread_config.py from %s — do not edit *)\nFrom Coq Require Import List Bool.\nFrom OmplV Require Import ThreadModel ThreadProofs.\n"
            "Definition current : config := mkCfg %s.\n"
            "Theorem current_ok : config_ok current = true.\nProof. reflexivity. Qed.\n"
            "Theorem current_motion_counters_exact : forall sched, counter_events_ok current sched = true -> shared (crun sched) = length sched.\n"
            "Proof. intros sched H. apply (config_ok_counts_exact current sched current_ok H). Qed.\n"
            "Print Assumptions current_ok.\nPrint Assumptions current_motion_counters_exact.\n") % (REPO, " ".join(b(cfg[k]) for k in order))


if __name__ == "__main__":
    cfg, notes = extract()
    if len(sys.argv) > 1: open(sys.argv[1], "w").write(to_coq(cfg))
    print(cfg); print(notes)
