HOOK_COMMITS = []
CHECKS = [
 {"property_id": "C11", "category": "proof",
  "technique": "Coq proof (induction over operation histories, hole-technique sift invariants) + exact differential correspondence of array layout with the extracted model",
  "text": "Machine-checked theorems over a statement-by-statement Gallina model of BinaryHeap.h: for every finite history of insert/insert(vector)/remove(handle)/key-update/pop/rebuild/buildFrom/clear and every strict-weak-order comparator the heap order, position fields and handle uniqueness hold, each call refines a multiset specification, top is a minimum, pop-all is a sorted permutation, sort() sorts. The model is tied to /repo by comparing the exact array layout after every operation on generated scripts; the property predicate is also evaluated directly on the implementation's output.",
  "note": "Trusted: Coq kernel (axiom-free theorems), ExtrOcamlBasic extraction + OCaml driver, C++ driver, generator. Not modelled: new/delete of elements, event callbacks; histories stay inside the documented interface (live handles, non-empty pop)."},
]
_todo = "machinery for this property is not built yet in this revision (planned, see DESIGN.md section 6); not claimed until its check exists"
NOT_APPLICABLE = [{"property_id": "C%02d" % i, "reason": _todo} for i in range(1, 21) if "C%02d" % i not in [c["property_id"] for c in CHECKS]]
