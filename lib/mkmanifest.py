#!/usr/bin/env python3
"""Regenerates MANIFEST.json from the table below (kept in one place so it is always valid)."""
import json, os, sys
here = os.path.dirname(os.path.dirname(os.path.abspath(__file__)))
sys.path.insert(0, os.path.join(here, "lib"))
from manifest_table import CHECKS, NOT_APPLICABLE, HOOK_COMMITS
m = {
 "version": 1,
 "setup_cmd": "make -C /verif setup",
 "hooks": {"guard": "OMPL_VERIF",
           "enable": "-DOMPL_VERIF in CMAKE_CXX_FLAGS of the out-of-tree build /verif/build/ompl and on every harness driver (lib/vf.py CXXFLAGS)",
           "baseline_off_cmd": "cmake --build /repo/_build -j16 && ctest --test-dir /repo/_build -j8 --timeout 900",
           "source_commits": HOOK_COMMITS, "add_only": True},
 "engines": [{"name": "coq-proof+correspondence", "path": "bin/check", "serves_properties": [c["property_id"] for c in CHECKS],
              "kind_free_text": "Coq 8.16.1 theorems over hand-written Gallina models (coq/), models extracted to OCaml or evaluated by vm_compute and compared with the implementation rebuilt from /repo on generated inputs (checks/, harness/, extract/)"}],
 "checks": [], "not_applicable": NOT_APPLICABLE,
 "notes": "See DESIGN.md. Every check proves its Properties_Cxx.v, rebuilds the implementation from /repo's working tree, runs model and implementation on the same inputs, evaluates the property predicate on the implementation, and writes evidence/Cxx.json.",
}
for c in CHECKS:
    pid = c["property_id"]
    m["checks"].append({
        "property_id": pid,
        "quick_cmd": "./bin/check %s --tier quick" % pid,
        "thorough_cmd": "./bin/check %s --tier thorough" % pid,
        "evidence_file": "/verif/evidence/%s.json" % pid,
        "replay_cmd_template": "./bin/check %s --replay {path}" % pid,
        "engine": "coq-proof+correspondence",
        "level_claimed": {"category": c["category"], "text": c["text"], "design_ref": c.get("design_ref", "DESIGN.md section 6, " + pid)},
        "level_note": c["note"],
        "technique": c["technique"],
    })
json.dump(m, open(os.path.join(here, "MANIFEST.json"), "w"), indent=1)
print("MANIFEST.json: %d checks, %d not_applicable" % (len(m["checks"]), len(NOT_APPLICABLE)))
