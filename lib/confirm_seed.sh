#!/bin/bash
# confirm_seed.sh <Cxx> [seed-suffix] : confirm a seeded change in its scratch worktree /tmp/wt_<id>:
#  the existing tests pass with the change, the demo fails with it and passes without it. Writes /tmp/seed_<id>/confirm.log
id=$1; wt=/tmp/wt_$id; sd=/tmp/seed_$id; log=$sd/confirm.log
exec > $log 2>&1
set -x
cd $wt || exit 1
git -C $wt diff --stat
test -d $wt/_b || cmake -G Ninja -S $wt -B $wt/_b -DCMAKE_BUILD_TYPE=Release -DOMPL_BUILD_DEMOS=OFF -DOMPL_BUILD_PYBINDINGS=OFF -DOMPL_BUILD_PYTESTS=OFF -DOMPL_REGISTRATION=OFF > /dev/null
ninja -C $wt/_b -j8 > $sd/build_changed.log 2>&1; echo "build(changed) rc=$?"
ctest --test-dir $wt/_b -j6 --timeout 900 > $sd/ctest_changed.log 2>&1; echo "ctest(changed) rc=$?"; tail -4 $sd/ctest_changed.log
build_demo() { g++ -std=c++17 -I$wt/src -I$wt/_b/src -I/usr/include/eigen3 $sd/demo.cpp -L$wt/_b/src/ompl -lompl -Wl,-rpath,$wt/_b/src/ompl -lpthread -lboost_serialization -lboost_system -o $sd/demo_bin; }
build_demo; $sd/demo_bin > $sd/demo_changed.out 2>&1; echo "demo(changed) rc=$?"; tail -3 $sd/demo_changed.out
git -C $wt diff > $sd/confirm_patch.diff; git -C $wt checkout -- .   # (not git stash: the stash is shared between worktrees)
ninja -C $wt/_b -j8 ompl > $sd/build_orig.log 2>&1; echo "build(orig) rc=$?"
build_demo; $sd/demo_bin > $sd/demo_orig.out 2>&1; echo "demo(orig) rc=$?"; tail -3 $sd/demo_orig.out
git -C $wt apply $sd/confirm_patch.diff
