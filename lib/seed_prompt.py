#!/usr/bin/env python3
"""seed_prompt.py Cxx [suffix] : print the prompt given to a fresh sub-agent asked to break property Cxx (property text only;
nothing of /verif).  With a suffix (second and later rounds) the scratch dirs are /tmp/wt_Cxx<suffix>, /tmp/seed_Cxx<suffix> and the
prompt names the places earlier seeds already changed, so that the new change exercises a different mechanism."""
import json, sys, glob, os
pid = sys.argv[1]
suf = sys.argv[2] if len(sys.argv) > 2 else ""
for l in open('/verif/properties.jsonl'):
    d = json.loads(l)
    if d['id'] == pid:
        t = open('/verif/seeded/seed_prompt.txt').read()
        for k, v in {"{WT}": "/tmp/wt_" + pid + suf, "{SD}": "/tmp/seed_" + pid + suf, "{ID}": pid, "{TITLE}": d['title'], "{STATEMENT}": d['statement'],
                     "{QUANT}": d['quantifier']['text'], "{WHY}": d['why_tests_cant']}.items():
            t = t.replace(k, v)
        if suf:
            used = []
            for m in sorted(glob.glob('/verif/seeded/%s-*/meta.json' % pid)):
                s = json.load(open(m)).get('summary', '')
                used.append("- " + s[:400])
            if used:
                t += "\nEarlier experiments already made the following changes; choose a DIFFERENT file/function and a different clause of the property:\n" + "\n".join(used) + "\n"
        print(t)
