#!/usr/bin/env python3
"""seed_prompt.py Cxx : print the prompt given to a fresh sub-agent asked to break property Cxx (property text only; nothing of /verif)."""
import json, sys
pid = sys.argv[1]
for l in open('/verif/properties.jsonl'):
    d = json.loads(l)
    if d['id'] == pid:
        t = open('/verif/seeded/seed_prompt.txt').read()
        for k, v in {"{WT}": "/tmp/wt_" + pid, "{SD}": "/tmp/seed_" + pid, "{ID}": pid, "{TITLE}": d['title'], "{STATEMENT}": d['statement'],
                     "{QUANT}": d['quantifier']['text'], "{WHY}": d['why_tests_cant']}.items():
            t = t.replace(k, v)
        print(t)
