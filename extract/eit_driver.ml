(* C01 (EIT* mechanism) model driver: EitModel on the same EDGE lines as harness/eit_driver.cpp.
   EDGE <F> <wall lo> <wall hi> <level>*  ->  "call <c> <result> | mid/seg ..." per level, then "final <result> <whitelisted> | mid/seg ..." *)
open Model
open Conv
let run () =
  iter_lines (fun line ->
    match words line with
    | "EDGE" :: f :: lo :: hi :: levels ->
        let full = int_of_string f and lo = float_of_string lo and hi = float_of_string hi in
        let performed = ref 0 and white = ref false and black = ref false in
        let call c =
          if !white then (true, [])
          else if !black then (false, [])
          else begin
            let tests = call_tests (nat_of_int c) (nat_of_int full) (nat_of_int !performed) in
            let tested = ref [] and ok = ref true in
            List.iter (fun (m, sg) -> if !ok then begin
                let x = float_of_int (int_of_nat m) /. float_of_int (int_of_nat sg) in
                tested := (int_of_nat m, int_of_nat sg) :: !tested;
                if lo < x && x < hi then ok := false end) tests;
            if !ok then begin performed := int_of_nat (call_performed (nat_of_int c)); if call_whitelists (nat_of_int c) (nat_of_int full) then white := true end
            else black := true;
            (!ok, List.rev !tested)
          end in
        let show l = String.concat " " (List.map (fun (m, sg) -> Printf.sprintf "%d/%d" m sg) l) in
        Printf.printf "full %d\n" full;
        List.iter (fun c -> let c = int_of_string c in let (r, t) = call c in Printf.printf "call %d %d | %s\n" c (if r then 1 else 0) (show t)) levels;
        let (r, t) = call (full - 1) in
        Printf.printf "final %d %d | %s\n" (if r then 1 else 0) (if !white then 1 else 0) (show t)
    | [] -> ()
    | _ -> print_endline ("? " ^ line))
