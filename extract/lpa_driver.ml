(* C03 (LPA* of LazyLBTRRT) model driver: LpaModel on the same LPA lines as harness/lpa_driver.cpp.
   LPA[O] <n> <src> <tgt> <h...> | I u v c | R u v | S   (LPAO = the pinned queue-removal rule, LPA = the repaired one) *)
open Model
open Conv
let cs = function Some z -> string_of_int (int_of_z z) | None -> "inf"
let run () =
  iter_lines (fun line ->
    match words line with
    | (("LPA" | "LPAO") as cmd) :: n :: src :: tgt :: rest ->
        let erase_all = (cmd = "LPAO") in
        let n = int_of_string n in
        let rec split acc = function "|" :: t -> (List.rev acc, t) | x :: t -> split (x :: acc) t | [] -> (List.rev acc, []) in
        let (hs, ops) = split [] rest in
        let harr = Array.of_list (List.map int_of_string hs) in
        let hfun i = let i = int_of_nat i in if i < Array.length harr then z_of_int harr.(i) else Z0 in
        let fuel = nat_of_int 2000 in
        let st = ref (lpa_init hfun (nat_of_int (int_of_string src)) (nat_of_int (int_of_string tgt))) in
        let dump op extra =
          let s = !st in
          Printf.printf "%s |" op;
          let qflag = ref false and lost = ref false in
          let q = List.map int_of_nat s.l_queue in
          for i = 0 to n - 1 do
            match List.find_opt (fun m -> int_of_nat m.n_id = i) s.l_nodes with
            | None -> Printf.printf " %d -;" i
            | Some m ->
                Printf.printf " %d %s %s %d %d;" i (cs m.n_g) (cs m.n_r) (match m.n_par with Some p -> int_of_nat p | None -> -1) (if m.n_inq then 1 else 0);
                let cnt = List.length (List.filter (fun j -> j = i) q) in
                if (cnt = 1) <> m.n_inq || cnt > 1 then qflag := true;
                if m.n_g <> m.n_r && cnt = 0 then lost := true
          done;
          Printf.printf " |"; List.iter (fun j -> Printf.printf " %d" j) q;
          Printf.printf " |%s%s%s\n" (if !qflag then " QFLAG" else "") (if !lost then " LOST" else "") extra in
        dump "init" "";
        let rec go = function
          | "|" :: t -> go t
          | "I" :: u :: v :: c :: t ->
              st := op_insert erase_all hfun !st (nat_of_int (int_of_string u)) (nat_of_int (int_of_string v)) (z_of_int (int_of_string c));
              dump (Printf.sprintf "I %s %s %s" u v c) ""; go t
          | "R" :: u :: v :: t ->
              let un = nat_of_int (int_of_string u) and vn = nat_of_int (int_of_string v) in
              if not (has_edge !st un vn) then (dump "R-skip" ""; go t)
              else (st := op_remove erase_all hfun !st un vn; dump (Printf.sprintf "R %s %s" u v) ""; go t)
          | "S" :: t ->
              let ((s1, c), p) = shortest_path erase_all hfun fuel !st in
              st := s1;
              (match p with
               | None -> dump "S" " HANG"
               | Some path -> dump "S" (Printf.sprintf " cost %s path%s" (cs c) (String.concat "" (List.map (fun j -> " " ^ string_of_int (int_of_nat j)) path))); go t)
          | _ -> () in
        go ops;
        print_endline "END"
    | _ -> ())
