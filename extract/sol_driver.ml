(* C04 model driver: N / ADD approx diff optimized objkind cost len  ->  count | ids in order *)
open Model
open Conv
let run () =
  let set = ref [] and n = ref 0 in
  iter_lines (fun line ->
    match words line with
    | ["N"] -> set := []; n := 0; print_endline "# new"
    | ["ADD"; a; d; o; k; c; l] ->
        let s = { sid = nat_of_int !n; approx = (a = "1"); diff = z_of_int (int_of_string d); optimized = (o = "1");
                  has_opt = (k <> "0"); maximize = (k = "2"); cost = z_of_int (int_of_string c); len = z_of_int (int_of_string l) } in
        incr n; set := sol_add s !set;
        Printf.printf "%d |%s\n" (List.length !set) (String.concat "" (List.map (fun x -> " " ^ string_of_int (int_of_nat x.sid)) !set))
    | [] -> ()
    | _ -> print_endline ("? " ^ line))
