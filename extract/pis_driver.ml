(* C03 model driver (query bookkeeping): same script as harness/pis_driver.cpp *)
open Model
open Conv
let ok v = (abs v <= 100) && (((v mod 4) + 4) mod 4 <> 0)
let run () =
  let w = ref { w_pdefs = []; w_planner = None; w_pis = None; w_added = O; w_sampled = O } in
  let pr = function OUnit -> print_endline "-" | OState None -> print_endline "state none" | OState (Some s) -> Printf.printf "state %d\n" (int_of_z s)
                  | OBool b -> Printf.printf "bool %d\n" (if b then 1 else 0) in
  let step o = let (w', r) = qstep !w o in w := w'; pr r in
  iter_lines (fun line ->
    match words line with
    | ["NEW"] -> w := { w_pdefs = []; w_planner = None; w_pis = None; w_added = O; w_sampled = O }; print_endline "-"
    | "PDEF" :: rest ->
        let rec split acc = function [] -> (List.rev acc, []) | "|" :: t -> (List.rev acc, t) | x :: t -> split (x :: acc) t in
        let (ss, gs) = split [] rest in
        let conv l = List.map (fun x -> let v = int_of_float (float_of_string x) in (z_of_int v, ok v)) l in
        w := { !w with w_pdefs = !w.w_pdefs @ [ { pd_starts = conv ss; pd_goals = conv gs; pd_gpos = O } ] }; print_endline "-"
    | ["USE"; i] -> step (QUse (nat_of_int (int_of_string i)))
    | ["CLEAR"] -> step QClear
    | ["RESTART"] -> step QRestart
    | ["NEXTSTART"] -> (match !w.w_pis with None -> print_endline "throw" | Some _ -> step QNextStart)
    | ["NEXTGOAL"] -> (match !w.w_pis with None -> print_endline "throw" | Some _ -> step QNextGoal)
    | ["ADDSTART"; i; v] -> let v = int_of_float (float_of_string v) in step (QAddStart (nat_of_int (int_of_string i), z_of_int v, ok v))
    | ["MORESTARTS"] -> step QMoreStarts
    | ["MOREGOALS"] -> step QMoreGoals
    | _ -> ())
