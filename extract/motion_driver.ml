(* C05 model driver.  M nd form vend mask  ->  verdict | visits | num/den-or-untouched dvalid dinvalid
                      L count form mask    ->  verdict | visits | firstInvalid-or--                     *)
open Model
open Conv
let maskf (m : string) (j : nat) : bool = let i = int_of_nat j in if i < String.length m then m.[i] = '1' else true
let show_pt = function Mid j -> string_of_int (int_of_nat j) | End -> "E"
let run () =
  iter_lines (fun line ->
    match words line with
    | ["M"; nd; form; vend; mask] ->
        let nd = nat_of_int (int_of_string nd) and vend = (vend = "1") in
        let r = if form = "0" then check_bis (maskf mask) vend nd else Some (check_lin (maskf mask) vend nd) in
        (match r with
         | None -> print_endline "OUT-OF-FUEL"
         | Some r ->
           Printf.printf "%d |%s | %s %d %d\n" (if r.verdict then 1 else 0)
             (String.concat "" (List.map (fun p -> " " ^ show_pt p) r.visits))
             (match r.frac with None -> "untouched" | Some (n, d) -> Printf.sprintf "%d/%d" (int_of_z n) (int_of_z d))
             (int_of_nat r.dvalid) (int_of_nat r.dinvalid))
    | ["L"; count; form; mask] ->
        let c = nat_of_int (int_of_string count) in
        if form = "0" then
          (match check_states (maskf mask) c with
           | None -> print_endline "OUT-OF-FUEL"
           | Some (r, vis) -> Printf.printf "%d |%s | -\n" (if r then 1 else 0) (String.concat "" (List.map (fun j -> " " ^ string_of_int (int_of_nat j)) vis)))
        else
          (match states_lin (maskf mask) c O c with
           | None -> Printf.printf "1 |%s | -\n" (String.concat "" (List.init (int_of_nat c) (fun j -> " " ^ string_of_int j)))
           | Some k -> Printf.printf "0 |%s | %d\n" (String.concat "" (List.init (int_of_nat k + 1) (fun j -> " " ^ string_of_int j))) (int_of_nat k))
    | [] -> ()
    | _ -> print_endline ("? " ^ line))
