(* C08 model driver (valid-state samplers): <kind> <attempts> <improve> <clearance> | tape...  ->  flag state used | none *)
open Model
open Conv
let run () =
  iter_lines (fun line ->
    match words line with
    | k :: a :: i :: c :: "|" :: tape ->
        let kind = (match k with "uniform" -> VUniform | "gaussian" -> VGauss | "obstacle" -> VObstacle | "bridge" -> VBridge
                                 | "maxclear" -> VMaxClear | _ -> VMinClear) in
        (match vss_run kind (nat_of_int (int_of_string a)) (nat_of_int (int_of_string i)) (z_of_int (int_of_string c))
                 (List.map (fun w -> z_of_int (int_of_string w)) tape) with
         | None -> print_endline "none"
         | Some ((b, s), u) -> Printf.printf "%d %d %d\n" (if b then 1 else 0) (int_of_z s) (int_of_nat u))
    | [] -> ()
    | _ -> print_endline ("? " ^ line))
