(* C13 model driver: same script and observation format as harness/grid_driver.cpp *)
open Model
open Conv
let lt_e a b = Z.ltb a b
let lt_i a b = Z.ltb b a
let cellstr (c : cell) =
  Printf.sprintf "%d:%s:%d:%d:%d" (int_of_nat c.cid) (String.concat "," (List.map (fun z -> string_of_int (int_of_z z)) c.ccoord))
    (int_of_z c.nbrs) (if c.border then 1 else 0) (int_of_z c.cdata)
let sorted_cells cells = List.sort (fun (a : cell) b -> compare (int_of_nat a.cid) (int_of_nat b.cid)) cells
let run () =
  let p = ref { dim = O; bounds = None; limit = Z0 } in
  let gn : cell list option ref = ref (Some []) and gb : gridb option ref = ref (Some gb_empty) in
  let dimi = ref 1 in
  let zs l = List.map (fun s -> z_of_int (int_of_string s)) l in
  let rec take n l = if n = 0 then [] else match l with x :: t -> x :: take (n - 1) t | [] -> [] in
  let rec drop n l = if n = 0 then l else match l with _ :: t -> drop (n - 1) t | [] -> [] in
  let state () =
    match !gn, !gb with
    | Some cn, Some g ->
      let b = Buffer.create 256 in
      Buffer.add_string b (Printf.sprintf "n:%d" (List.length cn));
      List.iter (fun c -> Buffer.add_string b (" " ^ cellstr c)) (sorted_cells cn);
      Buffer.add_string b (Printf.sprintf " | b:%d" (List.length g.gcells));
      List.iter (fun c -> Buffer.add_string b (" " ^ cellstr c)) (sorted_cells g.gcells);
      Buffer.add_string b (Printf.sprintf " %d %d" (List.length g.hint) (List.length g.hext));
      let data_of id = match List.filter (fun (c : cell) -> c.cid = id) g.gcells with c :: _ -> string_of_int (int_of_z c.cdata) | [] -> "?" in
      (match top_internal g, top_external g with
       | Some i, Some e -> Buffer.add_string b (Printf.sprintf " %s %s" (data_of i) (data_of e))
       | _ -> Buffer.add_string b " - -");
      (match components cn with
       | None -> Buffer.add_string b " | k:OUT-OF-FUEL"
       | Some comps ->
         let ck = List.map (fun comp -> List.sort compare (List.map (fun (c : cell) -> int_of_nat c.cid) comp)) comps in
         let ck = List.sort (fun a b -> if List.length a <> List.length b then compare (List.length b) (List.length a) else compare a b) ck in
         Buffer.add_string b (Printf.sprintf " | k:%d" (List.length cn));
         List.iter (fun v -> Buffer.add_string b (" [" ^ String.concat "," (List.map string_of_int v) ^ "]")) ck);
      print_endline (Buffer.contents b)
    | _ -> print_endline "UB" in
  iter_lines (fun line ->
    match words line with
    | "G" :: d :: lim :: hb :: rest ->
        dimi := int_of_string d;
        let l = int_of_string lim in
        let bnd = if hb = "1" then Some (zs (take !dimi rest), zs (take !dimi (drop !dimi rest))) else None in
        p := { dim = nat_of_int !dimi; bounds = bnd; limit = z_of_int (if l > 0 then l else 2 * !dimi) };
        gn := Some []; gb := Some gb_empty; print_endline "# grid"
    | "A" :: id :: d :: c ->
        let id = nat_of_int (int_of_string id) and d = z_of_int (int_of_string d) and c = zs c in
        gn := (match !gn with Some cs -> gridn_add !p id c d cs | None -> None);
        gb := (match !gb with Some g -> gridb_add lt_e lt_i !p id c d g | None -> None); state ()
    | "R" :: c -> let c = zs c in
        gn := (match !gn with Some cs -> gridn_remove !p c cs | None -> None);
        gb := (match !gb with Some g -> gridb_remove lt_e lt_i !p c g | None -> None); state ()
    | "U" :: d :: c -> let c = zs c and d = z_of_int (int_of_string d) in
        gn := (match !gn with Some cs -> (match find_cell c cs with Some _ -> Some (upd_cell (fun y -> { y with cdata = d }) c cs) | None -> None) | None -> None);
        gb := (match !gb with Some g -> gridb_update lt_e lt_i c d g | None -> None); state ()
    | ["C"] -> gn := Some []; gb := Some gb_empty; state ()
    | "Q" :: c -> let c = zs c in
        (match !gn with
         | Some cs -> let nb = neighbors c cs in
             let s = String.concat "" (List.map (fun (x : cell) -> " " ^ string_of_int (int_of_nat x.cid)) nb) in
             Printf.printf "q %d |%s |%s\n" (if has c cs then 1 else 0) s s
         | None -> print_endline "UB")
    | [] -> ()
    | _ -> print_endline ("? " ^ line))
