let () =
  match Sys.argv with
  | [| _; "heap" |] -> Heap_driver.run ()
  | [| _; "motion" |] -> Motion_driver.run ()
  | [| _; "ptc" |] -> Ptc_driver.run ()
  | [| _; "seed" |] -> Seed_driver.run ()
  | [| _; "sol" |] -> Sol_driver.run ()
  | [| _; "grid" |] -> Grid_driver.run ()
  | [| _; "nn" |] -> Nn_driver.run ()
  | [| _; "eit" |] -> Eit_driver.run ()
  | [| _; "gnatfull" |] -> Gnatfull_driver.run ()
  | [| _; "codec" |] -> Codec_driver.run ()
  | [| _; "vss" |] -> Vss_driver.run ()
  | [| _; "ledger" |] -> Ledger_driver.run ()
  | [| _; "pis" |] -> Pis_driver.run ()
  | [| _; "path" |] -> Path_driver.run ()
  | [| _; "control" |] -> Control_driver.run ()
  | [| _; "phs" |] -> Phs_driver.run ()
  | _ -> prerr_endline "usage: ompl_model <heap|...>"; exit 2
