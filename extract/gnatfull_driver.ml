(* C10 (GNAT structure) model driver: GnatFullModel on the operation lines of harness/nn_driver.cpp in tape mode (NEWT).
   After every operation prints "<result> | <canonical structure>": N deg px py minR maxR nr (lo hi)* nd (x y)* nc child* ... R removed* *)
open Model
open Conv
type pt = z * z
let l1 (a : pt) (b : pt) : z = Z.add (Z.abs (Z.sub (fst a) (fst b))) (Z.abs (Z.sub (snd a) (snd b)))
let peqb (a : pt) (b : pt) = Z.eqb (fst a) (fst b) && Z.eqb (snd a) (snd b)
let pstr (p : pt) = Printf.sprintf "%d %d" (int_of_z (fst p)) (int_of_z (snd p))
let rec pts = function x :: y :: t -> (z_of_int (int_of_string x), z_of_int (int_of_string y)) :: pts t | _ -> []
let oz = function Some v -> string_of_int (int_of_z v) | None -> "inf"
let rec show (FNode (g, p, lo, hi, r, dat, ch)) =
  String.concat " " (["N"; string_of_int (int_of_nat g); pstr p; oz lo; oz hi; string_of_int (List.length r)]
    @ List.concat (List.map (fun (a, b) -> [oz a; oz b]) r) @ [string_of_int (List.length dat)] @ List.map pstr dat
    @ [string_of_int (List.length ch)] @ List.map show ch)
let run () =
  let mk dg mn mx lf ca rb = { p_degree = nat_of_int dg; p_minDeg = nat_of_int mn; p_maxDeg = nat_of_int mx; p_leaf = nat_of_int lf; p_cache = nat_of_int ca; p_rebal = rb } in
  let par = ref (mk 8 4 12 50 500 false) in
  let g = ref (gf_empty !par) and seed = ref 0 and opno = ref 0 in
  let tape () = List.init 512 (fun k -> (z_of_int ((!seed + 7 * !opno + 13 * k) mod 64), z_of_int 64)) in
  let state () = (match !g.g_tree with Some t -> show t | None -> "empty") ^ " R " ^ String.concat " " (List.map pstr !g.g_removed) ^ " SZ " ^ string_of_int (int_of_nat !g.g_size) in
  iter_lines (fun line ->
    match words line with
    | ["NEWT"; dg; mn; mx; lf; ca; rb; sd] ->
        let dg = int_of_string dg and mn = int_of_string mn and mx = int_of_string mx in
        par := mk dg (min dg mn) (max mx dg) (int_of_string lf) (int_of_string ca) (rb <> "0");
        g := gf_empty !par; seed := int_of_string sd; opno := 0; print_endline "# new"
    | ["A"; x; y] -> let (g', _) = gf_add l1 peqb !par !g (List.hd (pts [x; y])) (tape ()) in g := g'; incr opno; print_endline ("ok | " ^ state ())
    | "AL" :: _ :: rest -> let (g', _) = gf_add_list l1 peqb !par !g (pts rest) (tape ()) in g := g'; incr opno; print_endline ("ok | " ^ state ())
    | ["R"; x; y] -> let ((b, g'), _) = gf_remove l1 peqb !par !g (List.hd (pts [x; y])) (tape ()) in g := g'; incr opno; print_endline ((if b then "1" else "0") ^ " | " ^ state ())
    | ["C"] -> g := gf_clear !par !g; incr opno; print_endline ("ok | " ^ state ())
    | [] -> ()
    | _ -> incr opno; print_endline ("- | " ^ state ()))
