(* C18 model driver: same script format as harness/ptc_driver.cpp (T/E/X/S lines) *)
open Model
open Conv
let n_of_int n = if n = 0 then N0 else Npos (pos_of_int n)
let rec build ws = match ws with
  | "F" :: k :: r -> (Fn (false, nat_of_int (int_of_string k)), r)
  | "I" :: n :: r -> (Iter (false, n_of_int (int_of_string n), N0), r)
  | "O" :: r -> let (a, r1) = build r in let (b, r2) = build r1 in (Or (false, a, b), r2)
  | "A" :: r -> let (a, r1) = build r in let (b, r2) = build r1 in (And (false, a, b), r2)
  | "Y" :: r -> (Always false, r)
  | _ :: r -> (Never false, r)
  | [] -> (Never false, [])
let run () =
  let c = ref (Never false) and env = ref (fun _ -> false) in
  iter_lines (fun line ->
    match words line with
    | "T" :: ws -> c := fst (build ws); env := (fun _ -> false); print_endline "# tree"
    | ["E"] -> let (r, c') = eval !env !c in c := c'; print_endline (if r then "1" else "0")
    | ["X"; p] ->
        let path = if p = "-" then [] else List.init (String.length p) (fun i -> if p.[i] = 'L' then L else R) in
        c := terminate path !c; print_endline "x"
    | ["S"; k; b] -> let k = nat_of_int (int_of_string k) in env := upd_env !env k (b = "1"); print_endline "s"
    | [] -> ()
    | _ -> print_endline ("? " ^ line))
