(* C10 model driver: exhaustive specification + SqrtApprox::nearest + GNAT tree invariant check on parsed dumps.
   ops as harness/nn_driver.cpp; answers: spec # sqrt-nearest(where it differs)                      *)
open Model
open Conv
type pt = z * z
let l1 (a : pt) (b : pt) : z = Z.add (Z.abs (Z.sub (fst a) (fst b))) (Z.abs (Z.sub (snd a) (snd b)))
let peqb (a : pt) (b : pt) = Z.eqb (fst a) (fst b) && Z.eqb (snd a) (snd b)
let pstr (p : pt) = Printf.sprintf "%d,%d" (int_of_z (fst p)) (int_of_z (snd p))
let dp q p = Printf.sprintf "%d:%s" (int_of_z (l1 p q)) (pstr p)
let rec pts = function x :: y :: t -> (z_of_int (int_of_string x), z_of_int (int_of_string y)) :: pts t | _ -> []
let isqrt n = let r = ref 0 in while (!r + 1) * (!r + 1) <= n do incr r done; !r
(* TREE tokens: N px py minR maxR nr (lo hi)* nd (x y)* nc child* *)
let optz s = if s = "inf" || s = "-inf" then None else Some (z_of_int (int_of_string s))
let rec parse_node toks = match toks with
  | "N" :: px :: py :: mn :: mx :: nr :: rest ->
      let p = (z_of_int (int_of_string px), z_of_int (int_of_string py)) in
      let nr = int_of_string nr in
      let rec take_r n l acc = if n = 0 then (List.rev acc, l) else (match l with lo :: hi :: t -> take_r (n - 1) t ((optz lo, optz hi) :: acc) | _ -> failwith "r") in
      let (rng, rest) = take_r nr rest [] in
      (match rest with nd :: rest ->
        let nd = int_of_string nd in
        let rec take_d n l acc = if n = 0 then (List.rev acc, l) else (match l with x :: y :: t -> take_d (n - 1) t ((z_of_int (int_of_string x), z_of_int (int_of_string y)) :: acc) | _ -> failwith "d") in
        let (dat, rest) = take_d nd rest [] in
        (match rest with nc :: rest ->
          let nc = int_of_string nc in
          let rec take_c n l acc = if n = 0 then (List.rev acc, l) else let (c, l') = parse_node l in take_c (n - 1) l' (c :: acc) in
          let (ch, rest) = take_c nc rest [] in
          (GNode (p, optz mn, optz mx, rng, dat, ch), rest)
        | _ -> failwith "c")
      | _ -> failwith "n")
  | _ -> failwith "node"
let run () =
  let data : pt list ref = ref [] and checks = ref 0 and offset = ref 0 in
  let upd () = checks := 1 + isqrt (List.length !data) in
  iter_lines (fun line ->
    match words line with
    | "NEW" :: _ -> data := []; checks := 0; offset := 0; print_endline "# new"
    | ["A"; x; y] -> data := !data @ pts [x; y]; upd (); print_endline "ok"
    | "AL" :: _ :: rest -> data := !data @ pts rest; upd (); print_endline "ok"
    | ["R"; x; y] -> let (b, d') = lin_remove peqb (List.hd (pts [x; y])) !data in data := d'; if b then upd (); print_endline (if b then "1" else "0")
    | ["C"] -> data := []; checks := 0; offset := 0; print_endline "ok"
    | ["N"; x; y] -> let q = List.hd (pts [x; y]) in
        let lin = (match lin_nearest l1 q !data with Some r -> dp q r | None -> "EXC") in
        let (i, off') = sqrt_nearest l1 q !data (nat_of_int !checks) (nat_of_int !offset) in
        offset := int_of_nat off';
        let sq = (match i with Some i -> dp q (List.nth !data (int_of_nat i)) | None -> "EXC") in
        print_endline (lin ^ " # " ^ sq)
    | ["K"; k; x; y] -> let q = List.hd (pts [x; y]) in
        let r = nearestK l1 q (nat_of_int (int_of_string k)) !data in
        print_endline (String.concat " " (string_of_int (List.length r) :: List.map (fun p -> string_of_int (int_of_z (l1 p q))) r))
    | ["RAD"; r; x; y] -> let q = List.hd (pts [x; y]) in
        let res = nearestR l1 q (z_of_int (int_of_string r)) !data in
        print_endline (String.concat " " (string_of_int (List.length res) :: List.map (fun p -> string_of_int (int_of_z (l1 p q))) res))
    | ["LST"] -> print_endline (String.concat " " (string_of_int (List.length !data) :: List.map pstr !data))
    | ["SZ"] -> print_endline (string_of_int (List.length !data))
    | "TREE" :: toks ->
        (try let (t, _) = parse_node toks in
           let ok = inv_ok_root l1 t in
           let es = List.sort compare (List.map pstr (elems t)) in
           print_endline ((if ok then "inv_ok" else "inv_BROKEN") ^ " " ^ String.concat " " es)
         with _ -> print_endline "tree-parse-error")
    | "GQ" :: kind :: arg :: qx :: qy :: seed :: nrem :: rest ->
        (* the GNAT search model (GnatModel.v) on a dumped tree: GQ K|R arg qx qy seed nrem (rx ry)* N ...tree tokens *)
        (try
           let nrem = int_of_string nrem and seed = int_of_string seed in
           let rec take n l acc = if n = 0 then (List.rev acc, l) else (match l with x :: y :: t -> take (n - 1) t ((x, y) :: acc) | _ -> failwith "rem") in
           let (rem, toks) = take nrem rest [] in
           let rem = List.map (fun (x, y) -> List.hd (pts [x; y])) rem in
           let (t, _) = parse_node toks in
           (* elements get identities (value, occurrence number); the removal cache, printed by value, is attached to
              data occurrences (a pivot is never in the cache) *)
           let cnt = Hashtbl.create 16 in
           let tag v = let c = (try Hashtbl.find cnt v with Not_found -> 0) in Hashtbl.replace cnt v (c + 1); (v, c) in
           let data_occ = ref [] in
           let rec tagn (GNode (p, mn, mx, rng, dat, ch)) =
             let p' = tag p in
             let dat' = List.map (fun v -> let tv = tag v in data_occ := tv :: !data_occ; tv) dat in
             GNode (p', mn, mx, rng, dat', List.map tagn ch) in
           let t' = tagn t in
           let occ = List.rev !data_occ in
           let removed_set = ref [] and bad = ref false in
           List.iter (fun v -> match List.find_opt (fun (w, c) -> peqb w v && not (List.mem (w, c) !removed_set)) occ with
                               | Some tv -> removed_set := tv :: !removed_set | None -> bad := true) rem;
           if !bad then print_endline "removed-element-not-in-data"
           else begin
             let removed tv = List.mem tv !removed_set in
             let dd a b = l1 (fst a) (fst b) in
             let peq a b = peqb (fst a) (fst b) in
             let offs n = nat_of_int ((seed * 7919 + (int_of_nat n) * 31) land 0xffff) in
             let pick queue = nat_of_int ((seed * 13 + 17 * List.length queue) land 0xffff) in
             let q = (List.hd (pts [qx; qy]), -1) in
             let res = (match kind with
               | "K" -> gnat_nearestK dd peq removed offs pick (nat_of_int (int_of_string arg)) q t'
               | _ -> gnat_nearestR dd removed offs pick (z_of_int (int_of_string arg)) q t') in
             (match res with
              | Some (nbh, piv) -> print_endline (String.concat " " (string_of_int (List.length nbh) :: List.map (fun (dz, _) -> string_of_int (int_of_z dz)) nbh) ^ (if piv then " piv" else " nopiv"))
              | None -> print_endline "out-of-fuel")
           end
         with _ -> print_endline "gq-parse-error")
    | [] -> ()
    | _ -> print_endline ("? " ^ line))
