(* C09 model driver: same script as harness/codec_driver.cpp.  Doubles are passed as two 32-bit halves "hi:lo". *)
open Model
open Conv
let two32 = Z.mul (z_of_int 65536) (z_of_int 65536)
let bits_of s = match String.split_on_char ':' s with
  | [hi; lo] -> Z.add (Z.mul (z_of_int (int_of_string hi)) two32) (z_of_int (int_of_string lo))
  | _ -> z_of_int (int_of_string s)
let hex_of_bits b = let hi = int_of_z (Z.div b two32) and lo = int_of_z (Z.modulo b two32) in Printf.sprintf "%08x%08x" hi lo
let rec build ws = match ws with
  | "R" :: n :: r -> (SReal (nat_of_int (int_of_string n)), r)
  | "O2" :: r -> (SSO2, r) | "O3" :: r -> (SSO3, r) | "T" :: r -> (STime, r)
  | "D" :: _ :: _ :: r -> (SDiscrete, r)
  | "C" :: k :: r -> let rec go n r acc = if n = 0 then (List.rev acc, r) else let (s, r') = build r in go (n - 1) r' (s :: acc) in
                     let (subs, r') = go (int_of_string k) r [] in (SComp subs, r')
  | _ -> failwith "spec"
let rec mkstate sp vals = match sp with
  | SComp subs -> let (vs, r) = List.fold_left (fun (acc, r) s -> let (v, r') = mkstate s r in (v :: acc, r')) ([], vals) subs in (VComp (List.rev vs), r)
  | leaf -> let ks = leaf_kinds leaf in
            let rec take ks vals acc = match ks, vals with
              | [], _ -> (List.rev acc, vals)
              | k :: kt, v :: vt -> take kt vt ((if k then CD (bits_of v) else CI (z_of_int (int_of_string v))) :: acc)
              | _ -> failwith "vals" in
            let (cs, r) = take ks vals [] in (VLeaf cs, r)
let cellstr = function CD b -> "D" ^ hex_of_bits b | CI v -> "I" ^ string_of_int (int_of_z v)
let rec firstn n l = if n = 0 then [] else match l with x :: t -> x :: firstn (n - 1) t | [] -> []
let rec lastn n l = let len = List.length l in if len <= n then l else lastn n (List.tl l)
let ints s = List.map int_of_string (words s)
let run () =
  let sp = ref (SReal O) and states = ref [] in
  iter_lines (fun line ->
    match words line with
    | "SPACE" :: spec -> let (s, _) = build spec in sp := s; states := [];
        Printf.printf "space%s | %d | %d\n" (String.concat "" (List.map (fun z -> " " ^ string_of_int (int_of_z z)) (signature s))) (int_of_nat (ser_len s)) (int_of_nat (sdim s))
    | "STATE" :: vals -> let (st, _) = mkstate !sp vals in states := !states @ [st];
        let ok = wf !sp st in
        let rt = (match deserialize !sp (serialize st) with Some (st', []) -> st' = st | _ -> false) in
        let (st2, _) = from_reals st (to_reals st) in
        Printf.printf "state %s | %s | %d %d %d\n" (String.concat " " (List.map cellstr (serialize st)))
          (String.concat " " (List.map hex_of_bits (to_reals st))) (if ok then 1 else 0) (if rt then 1 else 0) (if st2 = st then 1 else 0)
    | ["STORE"; n] -> let sts = lastn (int_of_string n) !states in
        let toks = store_states !sp sts in
        let full = (match load_states !sp toks with LOk r -> r = sts | LErr -> false) in
        let acc = ref 0 in
        for k = 0 to List.length toks - 1 do (match load_states !sp (firstn k toks) with LOk _ -> incr acc | LErr -> ()) done;
        let other = (match load_states (SReal (nat_of_int (int_of_nat (sdim !sp) + 1))) toks with LOk _ -> 1 | LErr -> 0) in
        Printf.printf "store full=%s prefixes_accepted=%d other_space_accepted=%d\n" (if full then "ok" else "bad") !acc other
    | "GRAPH" :: _ ->
        let rest = String.sub line 5 (String.length line - 5) in
        let parts = Array.of_list (String.split_on_char '|' rest) in
        let part i = if i < Array.length parts then parts.(i) else "" in
        let nv = min (int_of_string (String.trim (part 0))) (List.length !states) in
        let sts = lastn nv !states in
        let tags = ints (part 1) in
        let g = ref pd_empty in
        List.iteri (fun i st -> let t = (try List.nth tags i with _ -> 0) in g := add_vertex (z_of_int t) (serialize st) !g) sts;
        let rec edges = function u :: v :: w :: t -> (u, v, w) :: edges t | _ -> [] in
        let es = edges (words (part 2)) in
        let es = List.filter (fun (u, v, _) -> int_of_string u < nv && int_of_string v < nv) es in
        g := { !g with edges = List.map (fun (u, v, w) -> ((nat_of_int (int_of_string u), nat_of_int (int_of_string v)), z_of_int (int_of_float (float_of_string w *. 1000.)))) es };
        List.iter (fun i -> g := mark_start (nat_of_int i) !g) (ints (part 3));
        List.iter (fun i -> g := mark_goal (nat_of_int i) !g) (ints (part 4));
        let ty gg i = int_of_z (vtype gg (nat_of_int i)) in
        Printf.printf "graph pre |%s | ng=%d\n" (String.concat "" (List.init nv (fun i -> " " ^ string_of_int (ty !g i)))) (List.length !g.goals);
        let toks = store_pd !sp !g in
        (match load_pd !sp toks with
         | LOk g2 ->
           let acc = ref 0 in
           for k = 0 to List.length toks - 1 do (match load_pd !sp (firstn k toks) with LOk _ -> incr acc | LErr -> ()) done;
           let other = (match load_pd (SReal (nat_of_int (int_of_nat (sdim !sp) + 1))) toks with LOk _ -> 1 | LErr -> 0) in
           Printf.printf "graph load=1 %d %d |%s | prefixes_accepted=%d other=%d\n" (List.length g2.verts) (List.length g2.edges)
             (String.concat "" (List.mapi (fun i (tag, _) -> Printf.sprintf " %d:%d:%d" (int_of_z tag) (if binary_search g2.starts (nat_of_int i) then 1 else 0) (if binary_search g2.goals (nat_of_int i) then 1 else 0)) g2.verts))
             !acc other
         | LErr -> print_endline "graph load=0")
    | "COPY" :: rest ->
        (* COPY <dest tree> | <source tree> | <dest leaf values> | <source leaf values>: CopyModel.copy_state_data *)
        (try
           let toks = ref rest in
           let next () = match !toks with x :: t -> toks := t; x | [] -> failwith "eof" in
           let rec ptree () = match next () with
             | "L" -> NLeaf (nat_of_int (int_of_string (next ())))
             | _ -> let n = nat_of_int (int_of_string (next ())) in let k = int_of_string (next ()) in
                    let rec subs i = if i = 0 then [] else let s = ptree () in s :: subs (i - 1) in NComp (n, subs k) in
           let dS = ptree () in ignore (next ()); let sS = ptree () in ignore (next ());
           let rec fill sp = match sp with
             | NLeaf _ -> VLeafS (z_of_int (int_of_string (next ())))
             | NComp (_, subs) -> VCompS (List.map fill subs) in
           let d = fill dS in ignore (next ()); let s = fill sS in
           let (r, d') = copy_state_data dS d sS s in
           let rec vals st = match st with VLeafS v -> [string_of_int (int_of_z v)] | VCompS cs -> List.concat (List.map vals cs) in
           print_endline (Printf.sprintf "copy %d | %s" (match r with CNone -> 0 | CSome -> 1 | CAll -> 2) (String.concat " " (vals d')))
         with _ -> print_endline "copy-parse-error")
    | [] -> ()
    | _ -> print_endline ("? " ^ line))
