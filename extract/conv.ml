(* conversions between OCaml ints and the extracted nat / positive / Z *)
open Model
let rec nat_of_int n = if n <= 0 then O else S (nat_of_int (n - 1))
let rec int_of_nat = function O -> 0 | S n -> 1 + int_of_nat n
let rec pos_of_int n = if n <= 1 then XH else if n land 1 = 0 then XO (pos_of_int (n lsr 1)) else XI (pos_of_int (n lsr 1))
let rec int_of_pos = function XH -> 1 | XO p -> 2 * int_of_pos p | XI p -> 2 * int_of_pos p + 1
let z_of_int n = if n = 0 then Z0 else if n > 0 then Zpos (pos_of_int n) else Zneg (pos_of_int (-n))
let int_of_z = function Z0 -> 0 | Zpos p -> int_of_pos p | Zneg p -> - (int_of_pos p)
let words s = List.filter (fun w -> w <> "") (String.split_on_char ' ' (String.trim s))
let rec pairs = function a :: b :: t -> (a, b) :: pairs t | _ -> []
let read_lines () =
  let rec go acc = match input_line stdin with l -> go (l :: acc) | exception End_of_file -> List.rev acc in go []
let iter_lines f =
  let rec go () = match input_line stdin with l -> f l; flush stdout; go () | exception End_of_file -> () in go ()
