(* C02 model driver: PWV lines (same as harness/control_driver.cpp) and fact lines of control-planner runs
   (STATUS / NSTATES / START / CSEG / LAST / END) -> verdict of ControlModel.cadjudicate *)
open Model
open Conv
let z s = z_of_int (int_of_string s)
let b s = (s = "1")
let run () =
  let status = ref Z0 and has = ref false and before = ref Z0 and after = ref Z0 and approx = ref false and diff = ref Z0
  and start = ref false and nst = ref Z0 and segs = ref [] and lastg = ref false and lastd = ref Z0 and seen = ref false in
  let reset () = status := Z0; has := false; before := Z0; after := Z0; approx := false; diff := Z0; start := false; nst := Z0; segs := []; lastg := false; lastd := Z0; seen := false in
  iter_lines (fun line ->
    let line = (match String.index_opt line '#' with Some i -> String.sub line 0 i | None -> line) in
    match words line with
    | "PWV" :: steps :: st :: bad ->
        let ((p, (n1, r1)), l) = pwv_run (nat_of_int (int_of_string steps)) (z st) (List.map z bad) in
        Printf.printf "pwv %d | %d %d | %d%s\n" (int_of_z p) (int_of_nat n1) (int_of_z r1) (List.length l) (String.concat "" (List.map (fun x -> " " ^ string_of_int (int_of_z x)) l))
    | (("CRRT" | "CRRTI") as cmd) :: goal :: thr :: mind :: _maxd :: k :: iters :: tseed :: bias :: rest ->
        let rest = ref rest in
        let next () = match !rest with x :: t -> rest := t; x | [] -> "0" in
        let block () = let _ = next () in let n = int_of_string (next ()) in List.init n (fun _ -> next ()) in
        let bad = List.map z (block ()) in let starts = List.map z (block ()) in let samples = List.map z (block ()) in
        let _ = next () in let nu = int_of_string (next ()) in
        let us = List.init nu (fun _ -> let u = next () in let n = next () in (z u, nat_of_int (int_of_string n))) in
        let k = int_of_string k and iters = int_of_string iters and tseed = int_of_string tseed and bias = float_of_string bias in
        let hits = List.init iters (fun q -> float_of_int ((tseed + 7 * q + 3 * q * q) mod 64) /. 64.0 < bias) in
        let rec groups l = if l = [] then [] else
          (let rec take n l = if n = 0 then ([], l) else (match l with x :: t -> let (a, b) = take (n - 1) t in (x :: a, b) | [] -> ([], [])) in
           let (g, r) = take k l in match g with f :: more -> (f, more) :: groups r | [] -> []) in
        let (tree, rep) = (if cmd = "CRRTI" then crrti_run else crrt_run) bad (z goal) (z thr) (nat_of_int (int_of_string mind)) starts hits samples (groups us) in
        Printf.printf "%s %d;" (if cmd = "CRRTI" then "crrti" else "crrt") (List.length tree);
        List.iter (fun (x, p) -> match p with
          | Some (pi, (u, n)) -> Printf.printf " %d %d %d %d;" (int_of_z x) (int_of_nat pi) (int_of_z u) (int_of_nat n)
          | None -> Printf.printf " %d -1;" (int_of_z x)) tree;
        (match rep with
         | Some ((path, approx), dd) ->
             Printf.printf " | 1 %d %d |" (if approx then 1 else 0) (if approx then int_of_z dd else 0);
             List.iter (fun (e, x) -> match e with
               | Some (u, n) -> Printf.printf " %d %d %d;" (int_of_z x) (int_of_z u) (int_of_nat n)
               | None -> Printf.printf " %d;" (int_of_z x)) path
         | None -> Printf.printf " | 0 |");
        print_newline ()
    | "DCS" :: st :: tg :: rest ->
        let rec split acc = function "|" :: t -> (List.rev acc, t) | x :: t -> split (x :: acc) t | [] -> (List.rev acc, []) in
        let (bad, cands) = split [] rest in
        let rec pairs = function u :: n :: t -> (z u, nat_of_int (int_of_string n)) :: pairs t | _ -> [] in
        (match pairs cands with
         | first :: more ->
             let ((u, n), d) = dcs_run (z st) (z tg) (List.map z bad) first more in
             Printf.printf "dcs %d %d %d\n" (int_of_z u) (int_of_nat n) (int_of_z d)
         | [] -> print_endline "dcs ?")
    | ["STATUS"; c; h; bf; af; ap; d] -> status := z c; has := b h; before := z bf; after := z af; approx := b ap; diff := z d; seen := true
    | "NSTATES" :: n :: _ -> nst := z n
    | ["START"; s] -> start := b s
    | ["CSEG"; st; w; mm; ci; rp; av] -> segs := { cs_steps = z st; cs_whole = b w; cs_minmax = b mm; cs_ctrl_inb = b ci; cs_reproduced = b rp; cs_all_valid = b av } :: !segs
    | ["LAST"; g; d] -> lastg := b g; lastd := z d
    | "SKIP" :: _ -> seen := false
    | ["END"] ->
        if !seen then begin
          let r = { cr_status = !status; cr_has_path = !has; cr_paths_before = !before; cr_paths_after = !after; cr_approx = !approx; cr_diff = !diff;
                    cr_start_ok = !start; cr_nstates = !nst; cr_segs = List.rev !segs; cr_last_goal = !lastg; cr_last_gdist = !lastd } in
          print_endline (match cadjudicate r with
            | CVok -> "ok" | CVstatus_without_path -> "status_without_path" | CVpath_without_status -> "path_without_status" | CVstart -> "start" | CVshape -> "shape"
            | CVduration -> "duration" | CVcontrol -> "control" | CVreplay -> "replay" | CVinvalid -> "invalid" | CVgoal -> "goal")
        end else print_endline "skip";
        reset ()
    | _ -> ())
