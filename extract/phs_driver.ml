(* C15 model driver: REJ numit max min | a a a ...  (same script as harness/phs_driver.cpp): rejection sampler loops on
   candidates (a, 0) with start (0,0), goal (10,0): heuristic cost |a| + |a - 10| *)
open Model
open Conv
let run () =
  iter_lines (fun line ->
    match words line with
    | "REJ" :: numit :: maxc :: minc :: "|" :: tape ->
        let cd a = let a = int_of_float (float_of_string a) in { cd_id = z_of_int a; cd_cost = z_of_int (abs a + abs (a - 10)); cd_inb = true; cd_keep = true } in
        let cands = List.map cd tape in
        let n = nat_of_int (int_of_string numit) in
        let mx = z_of_int (int_of_float (float_of_string maxc)) and mn = int_of_float (float_of_string minc) in
        if mn < 0 then begin
          let (((found, last), it), rest) = rejection_sample mx n cands in
          (* the script ran out while the loop still wanted a draw: the implementation throws *)
          if (not found) && rest = [] && int_of_nat it < int_of_nat n && List.length cands = int_of_nat it then print_endline "rej none"
          else Printf.printf "rej %d %d %d\n" (if found then 1 else 0) (match last with Some x -> int_of_z x.cd_id | None -> -999) (int_of_nat it)
        end else begin
          let (found, last) = rejection_sample_minmax (z_of_int mn) mx n cands in
          Printf.printf "rejmm %d %d\n" (if found then 1 else 0) (match last with Some x -> int_of_z x.cd_id | None -> -999)
        end
    | _ -> ())
