(* C01 (RRT inside the model) model driver: RrtModel.rrt_solve on the same RRT lines as harness/rrt_driver.cpp, with the
   collaborators (Euclidean distance, interpolation at maxDistance, wall motion validator, goal test) computed here in
   binary64 by the same formulas as the C++ side *)
open Model
open Conv
let hx f = Printf.sprintf "%016Lx" (Int64.bits_of_float f)
let run () =
  iter_lines (fun line ->
    match words line with
    | "RRT" :: maxd :: bias :: thr :: iters :: tseed :: rest ->
        let maxd = float_of_string maxd and bias = float_of_string bias and thr = float_of_string thr
        and iters = int_of_string iters and tseed = int_of_string tseed in
        let rest = ref rest in
        let next () = match !rest with x :: t -> rest := t; x | [] -> "0" in
        let nf () = float_of_string (next ()) in
        let _ = next () in let nw = int_of_string (next ()) in
        let walls = List.init nw (fun _ -> let w = nf () in let lo = nf () in let hi = nf () in (w, lo, hi)) in
        let _ = next () in let ns = int_of_string (next ()) in
        let starts = List.init ns (fun _ -> let x = nf () in let y = nf () in (x, y)) in
        let _ = next () in let gx = nf () in let gy = nf () in
        let _ = next () in let np = int_of_string (next ()) in
        let samples = List.init np (fun _ -> let x = nf () in let y = nf () in (x, y)) in
        let dist (ax, ay) (bx, by) = let dx = ax -. bx and dy = ay -. by in sqrt (0.0 +. dx *. dx +. dy *. dy) in
        let steer (nx, ny) (rx, ry) =
          let d = dist (nx, ny) (rx, ry) in
          if d > maxd then (let t = maxd /. d in (nx +. (rx -. nx) *. t, ny +. (ry -. ny) *. t)) else (rx, ry) in
        let touches (w, lo, hi) (ax, ay) (bx, by) =
          if (ax -. w) *. (bx -. w) > 0.0 then false
          else if ax = bx then (if ay <= by then ay <= hi && lo <= by else by <= hi && lo <= ay)
          else (let t = (w -. ax) /. (bx -. ax) in let y = ay +. t *. (by -. ay) in lo <= y && y <= hi) in
        let mv a b = not (List.exists (fun k -> touches k a b) walls) in
        let gdist s = dist s (gx, gy) in
        let sat s = gdist s < thr in   (* GoalRegion::isSatisfied: strictly inside the threshold *)
        let hits = List.init iters (fun k -> float_of_int ((tseed + 7 * k + 3 * k * k) mod 64) /. 64.0 < bias) in
        let (tree, rep) = rrt_solve dist (fun a b -> a < b) steer mv sat gdist (gx, gy) (0.0, 0.0) starts hits samples in
        Printf.printf "rrt %d;" (List.length tree);
        List.iter (fun ((x, y), p) -> Printf.printf " %s %s %d;" (hx x) (hx y) (match p with Some i -> int_of_nat i | None -> -1)) tree;
        (match rep with
         | Some ((path, approx), dd) ->
             Printf.printf " | 1 %d %s |" (if approx then 1 else 0) (hx dd);
             List.iter (fun (x, y) -> Printf.printf " %s %s;" (hx x) (hx y)) path
         | None -> Printf.printf " | 0 |");
        print_newline ()
    | "RLRT" :: maxd :: bias :: thr :: iters :: tseed :: rest ->
        let maxd = float_of_string maxd and bias = float_of_string bias and thr = float_of_string thr
        and iters = int_of_string iters and tseed = int_of_string tseed in
        let rest = ref rest in
        let next () = match !rest with x :: t -> rest := t; x | [] -> "0" in
        let nf () = float_of_string (next ()) in
        let _ = next () in let nw = int_of_string (next ()) in
        let walls = List.init nw (fun _ -> let w = nf () in let lo = nf () in let hi = nf () in (w, lo, hi)) in
        let _ = next () in let ns = int_of_string (next ()) in
        let starts = List.init ns (fun _ -> let x = nf () in let y = nf () in (x, y)) in
        let _ = next () in let gx = nf () in let gy = nf () in
        let _ = next () in let np = int_of_string (next ()) in
        let samples = List.init np (fun _ -> let x = nf () in let y = nf () in (x, y)) in
        let dist (ax, ay) (bx, by) = let dx = ax -. bx and dy = ay -. by in sqrt (0.0 +. dx *. dx +. dy *. dy) in
        let steer (nx, ny) (rx, ry) =
          let d = dist (nx, ny) (rx, ry) in
          if d > maxd then (let t = maxd /. d in (nx +. (rx -. nx) *. t, ny +. (ry -. ny) *. t)) else (rx, ry) in
        let touches (w, lo, hi) (ax, ay) (bx, by) =
          if (ax -. w) *. (bx -. w) > 0.0 then false
          else if ax = bx then (if ay <= by then ay <= hi && lo <= by else by <= hi && lo <= ay)
          else (let t = (w -. ax) /. (bx -. ax) in let y = ay +. t *. (by -. ay) in lo <= y && y <= hi) in
        let mv a b = not (List.exists (fun k -> touches k a b) walls) in
        let gdist s = dist s (gx, gy) in
        let sat s = gdist s < thr in   (* GoalRegion::isSatisfied: strictly inside the threshold *)
        let tv q = (tseed + 7 * q + 3 * q * q) mod 64 in
        let us = List.init iters (fun k -> (z_of_int (tv (2 * k)), z_of_int 64)) in
        let hits = List.init iters (fun k -> float_of_int (tv (2 * k + 1)) /. 64.0 < bias) in
        let (tree, rep) = rlrt_solve (fun a b -> a < b) steer mv sat gdist (gx, gy) (0.0, 0.0) starts us hits samples in
        Printf.printf "rlrt %d;" (List.length tree);
        List.iter (fun ((x, y), p) -> Printf.printf " %s %s %d;" (hx x) (hx y) (match p with Some i -> int_of_nat i | None -> -1)) tree;
        (match rep with
         | Some ((path, approx), dd) ->
             Printf.printf " | 1 %d %s |" (if approx then 1 else 0) (hx dd);
             List.iter (fun (x, y) -> Printf.printf " %s %s;" (hx x) (hx y)) path
         | None -> Printf.printf " | 0 |");
        print_newline ()
    | "LRRT" :: maxd :: bias :: thr :: iters :: tseed :: rest ->
        let maxd = float_of_string maxd and bias = float_of_string bias and thr = float_of_string thr
        and iters = int_of_string iters and tseed = int_of_string tseed in
        let rest = ref rest in
        let next () = match !rest with x :: t -> rest := t; x | [] -> "0" in
        let nf () = float_of_string (next ()) in
        let _ = next () in let nw = int_of_string (next ()) in
        let walls = List.init nw (fun _ -> let w = nf () in let lo = nf () in let hi = nf () in (w, lo, hi)) in
        let _ = next () in let ns = int_of_string (next ()) in
        let starts = List.init ns (fun _ -> let x = nf () in let y = nf () in (x, y)) in
        let _ = next () in let gx = nf () in let gy = nf () in
        let _ = next () in let np = int_of_string (next ()) in
        let samples = List.init np (fun _ -> let x = nf () in let y = nf () in (x, y)) in
        let dist (ax, ay) (bx, by) = let dx = ax -. bx and dy = ay -. by in sqrt (0.0 +. dx *. dx +. dy *. dy) in
        let steer (nx, ny) (rx, ry) =
          let d = dist (nx, ny) (rx, ry) in
          if d > maxd then (let t = maxd /. d in (nx +. (rx -. nx) *. t, ny +. (ry -. ny) *. t)) else (rx, ry) in
        let touches (w, lo, hi) (ax, ay) (bx, by) =
          if (ax -. w) *. (bx -. w) > 0.0 then false
          else if ax = bx then (if ay <= by then ay <= hi && lo <= by else by <= hi && lo <= ay)
          else (let t = (w -. ax) /. (bx -. ax) in let y = ay +. t *. (by -. ay) in lo <= y && y <= hi) in
        let mv a b = not (List.exists (fun k -> touches k a b) walls) in
        let gdist s = dist s (gx, gy) in
        let sat s = gdist s < thr in
        let hits = List.init iters (fun k -> float_of_int ((tseed + 7 * k + 3 * k * k) mod 64) /. 64.0 < bias) in
        let st = lazy_solve dist (fun a b -> a < b) steer mv sat gdist (gx, gy) (0.0, 0.0) starts hits samples in
        let tree = st.ls_tree in
        let pos i = let rec go k = function [] -> -1 | n :: t -> if int_of_nat n.l_id = i then k else go (k + 1) t in go 0 tree in
        Printf.printf "lrrt %d;" (List.length tree);
        List.iter (fun n -> let (x, y) = n.l_state in Printf.printf " %s %s %d %d;" (hx x) (hx y) (match n.l_parent with Some p -> pos (int_of_nat p) | None -> -1) (if n.l_valid then 1 else 0)) tree;
        (match st.ls_sol with
         | Some (path, _) -> Printf.printf " | 1 0 |"; List.iter (fun (x, y) -> Printf.printf " %s %s;" (hx x) (hx y)) path
         | None -> Printf.printf " | 0 |");
        print_newline ()
    | "RRTC" :: maxd :: rest ->
        let maxd = float_of_string maxd in
        let rest = ref rest in
        let next () = match !rest with x :: t -> rest := t; x | [] -> "0" in
        let nf () = float_of_string (next ()) in
        let _ = next () in let nw = int_of_string (next ()) in
        let walls = List.init nw (fun _ -> let w = nf () in let lo = nf () in let hi = nf () in (w, lo, hi)) in
        let pts () = let _ = next () in let n = int_of_string (next ()) in List.init n (fun _ -> let x = nf () in let y = nf () in (x, y)) in
        let starts = pts () in let goals = pts () in let samples = pts () in
        let dist (ax, ay) (bx, by) = let dx = ax -. bx and dy = ay -. by in sqrt (0.0 +. dx *. dx +. dy *. dy) in
        let steer (nx, ny) (rx, ry) =
          let d = dist (nx, ny) (rx, ry) in
          if d > maxd then (let t = maxd /. d in let x = nx +. (rx -. nx) *. t and y = ny +. (ry -. ny) *. t in
                            if x = nx && y = ny then None else Some ((x, y), false))
          else Some ((rx, ry), true) in
        let touches (w, lo, hi) (ax, ay) (bx, by) =
          if (ax -. w) *. (bx -. w) > 0.0 then false
          else if ax = bx then (if ay <= by then ay <= hi && lo <= by else by <= hi && lo <= ay)
          else (let t = (w -. ax) /. (bx -. ax) in let y = ay +. t *. (by -. ay) in lo <= y && y <= hi) in
        let mv a b = not (List.exists (fun k -> touches k a b) walls) in
        let gdist s = List.fold_left (fun acc g -> let d = dist s g in if d < acc then d else acc) infinity goals in
        let (st, rep) = rc_solve dist (fun a b -> a < b) steer mv mv gdist goals (0.0, 0.0) (nat_of_int 100000) starts samples in
        let dump t = Printf.printf " %d;" (List.length t); List.iter (fun ((x, y), p) -> Printf.printf " %s %s %d;" (hx x) (hx y) (match p with Some i -> int_of_nat i | None -> -1)) t in
        Printf.printf "rrtc"; dump st.c_ts; Printf.printf " /"; dump st.c_tg;
        (match rep with
         | Some ((path, approx), dd) ->
             (if approx then Printf.printf " | 1 1 %s |" (match dd with Some d -> hx d | None -> "-") else Printf.printf " | 1 0 |");
             List.iter (fun (x, y) -> Printf.printf " %s %s;" (hx x) (hx y)) path
         | None -> Printf.printf " | 0 |");
        print_newline ()
    | "RRTCN" :: maxd :: rest ->
        let maxd = float_of_string maxd in
        let rest = ref rest in
        let next () = match !rest with x :: t -> rest := t; x | [] -> "0" in
        let nf () = float_of_string (next ()) in
        let _ = next () in let nw = int_of_string (next ()) in
        let walls = List.init nw (fun _ -> let w = nf () in let lo = nf () in let hi = nf () in (w, lo, hi)) in
        let pts () = let _ = next () in let n = int_of_string (next ()) in List.init n (fun _ -> let x = nf () in let y = nf () in (x, y)) in
        let starts = pts () in let goals = pts () in
        let _ = next () in let nc = int_of_string (next ()) in
        let calls = List.init nc (fun _ -> pts ()) in
        let dist (ax, ay) (bx, by) = let dx = ax -. bx and dy = ay -. by in sqrt (0.0 +. dx *. dx +. dy *. dy) in
        let steer (nx, ny) (rx, ry) =
          let d = dist (nx, ny) (rx, ry) in
          if d > maxd then (let t = maxd /. d in let x = nx +. (rx -. nx) *. t and y = ny +. (ry -. ny) *. t in
                            if x = nx && y = ny then None else Some ((x, y), false))
          else Some ((rx, ry), true) in
        let touches (w, lo, hi) (ax, ay) (bx, by) =
          if (ax -. w) *. (bx -. w) > 0.0 then false
          else if ax = bx then (if ay <= by then ay <= hi && lo <= by else by <= hi && lo <= ay)
          else (let t = (w -. ax) /. (bx -. ax) in let y = ay +. t *. (by -. ay) in lo <= y && y <= hi) in
        let mv a b = not (List.exists (fun k -> touches k a b) walls) in
        let gdist s = List.fold_left (fun acc g -> let d = dist s g in if d < acc then d else acc) infinity goals in
        let (st, reps) = rc_solves dist (fun a b -> a < b) steer mv mv gdist goals (0.0, 0.0) (nat_of_int 100000) starts calls in
        let dump t = Printf.printf " %d;" (List.length t); List.iter (fun ((x, y), p) -> Printf.printf " %s %s %d;" (hx x) (hx y) (match p with Some i -> int_of_nat i | None -> -1)) t in
        Printf.printf "rrtcn"; dump st.c_ts; Printf.printf " /"; dump st.c_tg;
        List.iter (fun rep -> match rep with
         | Some ((path, approx), dd) ->
             (if approx then Printf.printf " | 1 1 %s |" (match dd with Some d -> hx d | None -> "-") else Printf.printf " | 1 0 |");
             List.iter (fun (x, y) -> Printf.printf " %s %s;" (hx x) (hx y)) path
         | None -> Printf.printf " | 0 |") reps;
        print_newline ()
    | "RRTN" :: maxd :: bias :: thr :: rest ->
        let maxd = float_of_string maxd and bias = float_of_string bias and thr = float_of_string thr in
        let rest = ref rest in
        let next () = match !rest with x :: t -> rest := t; x | [] -> "0" in
        let nf () = float_of_string (next ()) in
        let _ = next () in let nw = int_of_string (next ()) in
        let walls = List.init nw (fun _ -> let w = nf () in let lo = nf () in let hi = nf () in (w, lo, hi)) in
        let _ = next () in let ns = int_of_string (next ()) in
        let starts = List.init ns (fun _ -> let x = nf () in let y = nf () in (x, y)) in
        let _ = next () in let gx = nf () in let gy = nf () in
        let _ = next () in let nc = int_of_string (next ()) in
        let calls = List.init nc (fun _ ->
          let iters = int_of_string (next ()) in let tseed = int_of_string (next ()) in let _ = next () in let np = int_of_string (next ()) in
          let pts = List.init np (fun _ -> let x = nf () in let y = nf () in (x, y)) in
          (List.init iters (fun k -> float_of_int ((tseed + 7 * k + 3 * k * k) mod 64) /. 64.0 < bias), pts)) in
        let dist (ax, ay) (bx, by) = let dx = ax -. bx and dy = ay -. by in sqrt (0.0 +. dx *. dx +. dy *. dy) in
        let steer (nx, ny) (rx, ry) =
          let d = dist (nx, ny) (rx, ry) in
          if d > maxd then (let t = maxd /. d in (nx +. (rx -. nx) *. t, ny +. (ry -. ny) *. t)) else (rx, ry) in
        let touches (w, lo, hi) (ax, ay) (bx, by) =
          if (ax -. w) *. (bx -. w) > 0.0 then false
          else if ax = bx then (if ay <= by then ay <= hi && lo <= by else by <= hi && lo <= ay)
          else (let t = (w -. ax) /. (bx -. ax) in let y = ay +. t *. (by -. ay) in lo <= y && y <= hi) in
        let mv a b = not (List.exists (fun k -> touches k a b) walls) in
        let gdist s = dist s (gx, gy) in
        let sat s = gdist s < thr in
        let (tree, reps) = rrt_calls dist (fun a b -> a < b) steer mv sat gdist (gx, gy) (0.0, 0.0) starts calls in
        Printf.printf "rrtn %d;" (List.length tree);
        List.iter (fun ((x, y), p) -> Printf.printf " %s %s %d;" (hx x) (hx y) (match p with Some i -> int_of_nat i | None -> -1)) tree;
        List.iter (fun rep -> match rep with
         | Some ((path, approx), dd) ->
             Printf.printf " | 1 %d %s |" (if approx then 1 else 0) (hx dd);
             List.iter (fun (x, y) -> Printf.printf " %s %s;" (hx x) (hx y)) path
         | None -> Printf.printf " | 0 |") reps;
        print_newline ()
    | _ -> ())
