(* C11 model driver: reads the op script format of harness/heap_driver.cpp and prints the same observations *)
open Model
open Conv
let lt_of = function
  | 0 -> (fun a b -> Z.ltb a b)
  | 1 -> (fun a b -> Z.ltb b a)
  | _ -> (fun a b -> Z.ltb (Z.modulo a (z_of_int 3)) (Z.modulo b (z_of_int 3)))
let show v =
  let b = Buffer.create 64 in
  Buffer.add_string b (string_of_int (List.length v));
  (match v with [] -> Buffer.add_string b " -" | e :: _ -> Buffer.add_string b (" " ^ string_of_int (int_of_nat e.eid)));
  Buffer.add_string b " |";
  List.iter (fun e -> Buffer.add_string b (Printf.sprintf " %d:%d" (int_of_nat e.eid) (int_of_z e.ekey))) v;
  Buffer.contents b
let run () =
  let lt = ref (lt_of 0) and v = ref [] and dead = ref false in
  let idk l = List.map (fun (a, b) -> (nat_of_int (int_of_string a), z_of_int (int_of_string b))) (pairs l) in
  let apply o = if !dead then print_endline "UB" else
      match step !lt Z0 !v o with
      | Some v' -> v := v'; print_endline (show v')
      | None -> dead := true; print_endline "UB" in
  Conv.iter_lines (fun line ->
    match words line with
    | ["N"; c] -> lt := lt_of (int_of_string c); v := []; dead := false; print_endline ("# new " ^ c)
    | ["I"; id; k] -> apply (OInsert (nat_of_int (int_of_string id), z_of_int (int_of_string k)))
    | "L" :: _ :: rest -> apply (OInsertL (idk rest))
    | ["R"; id] -> apply (ORemove (nat_of_int (int_of_string id)))
    | ["U"; id; k] -> apply (OUpdateKey (nat_of_int (int_of_string id), z_of_int (int_of_string k)))
    | ["P"] -> apply OPop
    | ["B"] -> apply ORebuild
    | "F" :: _ :: rest -> apply (OBuildFrom (idk rest))
    | ["C"] -> apply OClear
    | "S" :: _ :: rest ->
        let ks = sort_keys !lt Z0 (List.map (fun s -> z_of_int (int_of_string s)) rest) in
        print_endline ("sorted" ^ String.concat "" (List.map (fun k -> " " ^ string_of_int (int_of_z k)) ks))
    | ["E"] ->
        if !dead then print_endline "UB" else begin
          let p = pop_all_e !lt Z0 (nat_of_int (List.length !v)) !v in
          print_endline ("popall" ^ String.concat "" (List.map (fun e -> Printf.sprintf " %d:%d" (int_of_nat e.eid) (int_of_z e.ekey)) p)) end
    | [] -> ()
    | _ -> print_endline ("? " ^ line))
