(* C20 model driver: SET s | NEW | GET, one script per process like the C++ side; RESET starts a new script *)
open Model
open Conv
let rec n_of_int n = if n = 0 then N0 else Npos (pos_of_int n)
let int_of_n = function N0 -> 0 | Npos p -> int_of_pos p
let run () =
  let g = ref sg_init in
  iter_lines (fun line ->
    match words line with
    | ["RESET"] -> g := sg_init; print_endline "# reset"
    | ["SET"; s] -> g := set_seed (n_of_int (int_of_string s)) !g; print_endline "set"
    | ["NEW"] -> let (r, g') = next_seed !g in g := g';
        print_endline (match r with Seed v -> string_of_int (int_of_n v) | Unknown -> "?" | OutOfFuel -> "OUT-OF-FUEL")
    | ["GET"] -> print_endline (match !g.first_seed with Some v -> string_of_int (int_of_n v) | None -> "?")
    | [] -> ()
    | _ -> print_endline ("? " ^ line))
