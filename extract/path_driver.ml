(* C17 model driver: INTERP <request> <hex segment lengths...>  ->  counts of new states per segment and the total
   (the estimate floor(0.5 + count * segmentLength / remainingLength) + 1 is computed here in binary64, exactly as
   PathGeometric::interpolate does, and handed to the extracted counting function as its oracle) *)
open Model
open Conv
let run () =
  iter_lines (fun line ->
    match words line with
    | "INTERP" :: req :: lens ->
        let seg = Array.of_list (List.map float_of_string lens) in
        let total = Array.fold_left (fun acc x -> acc +. x) 0.0 seg in
        let remaining = ref total in
        let est i count =
          let i = int_of_nat i in
          let c = float_of_int (int_of_z count) in
          let v = int_of_float (Float.floor (0.5 +. c *. seg.(i) /. !remaining)) + 1 in
          z_of_int v in
        (* remainingLength -= segmentLength happens in every iteration that has spare capacity; replicate it by walking
           the segments in order: the extracted loop calls est for segment i exactly when it has spare capacity and i is not last *)
        let size = Array.length seg + 1 in
        let est' i count = let r = est i count in remaining := !remaining -. seg.(int_of_nat i); r in
        let counts = interp_counts est' (nat_of_int size) (z_of_int (int_of_string req)) in
        Printf.printf "counts%s | %d\n" (String.concat "" (List.map (fun c -> " " ^ string_of_int (int_of_z c)) counts))
          (int_of_z (total_states (nat_of_int size) counts))
    | "RV" :: n :: ms :: me :: rn :: rd :: tseed :: "|" :: pairs ->
        let ni s = nat_of_int (int_of_string s) in
        let ok = List.map (fun t -> let k = String.index t '-' in (ni (String.sub t 0 k), ni (String.sub t (k + 1) (String.length t - k - 1)))) pairs in
        let ts = int_of_string tseed in
        let tape = List.init 600 (fun k -> (z_of_int ((ts + 7 * k + 3 * k * k) mod 64), z_of_int 64)) in
        let (q, ret) = rv_run (ni n) (ni ms) (ni me) (z_of_int (int_of_string rn)) (z_of_int (int_of_string rd)) ok tape in
        Printf.printf "rv %d |%s\n" (if ret then 1 else 0) (String.concat "" (List.map (fun v -> " " ^ string_of_int (int_of_nat v)) q))
    | "CC" :: ms :: me :: rest ->
        let ni s = nat_of_int (int_of_string s) in
        let rec split acc = function "|" :: t -> (List.rev acc, t) | x :: t -> split (x :: acc) t | [] -> (List.rev acc, []) in
        let (xs, pairs) = split [] rest in
        let ok = List.map (fun t -> let k = String.index t '-' in (ni (String.sub t 0 k), ni (String.sub t (k + 1) (String.length t - k - 1)))) pairs in
        let (q, ret) = cc_run (List.map (fun x -> z_of_int (int_of_string x)) xs) (ni ms) (ni me) ok in
        Printf.printf "cc %d |%s\n" (if ret then 1 else 0) (String.concat "" (List.map (fun v -> " " ^ string_of_int (int_of_nat v)) q))
    | ["SUBDIV"; n] -> let n = int_of_string n in Printf.printf "total %d\n" (int_of_z (total_states (nat_of_int n) (subdivide_counts (nat_of_int n))))
    | _ -> ())
