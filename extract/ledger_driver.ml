(* C01 model driver: reads the fact lines of planner runs (harness/planner_driver.cpp output + a CLASS line per run)
   and prints the admission verdict of LedgerModel.adjudicate for each run:
     CLASS <A|B> <sym 0|1> <difference tolerance>   START id valid inb   STATUS code has before after approx diff   P id inb valid goal gdist
     ACC a b   SEG recheck maxinv   END  ->  "<verdict>" *)
open Model
open Conv
let z s = z_of_int (int_of_string s)
let b s = (s = "1")
let run () =
  let starts = ref [] and status = ref Z0 and has = ref false and before = ref Z0 and after = ref Z0 and approx = ref false
  and diff = ref Z0 and path = ref [] and acc = ref [] and segs = ref [] and classa = ref false and sym = ref true and tol = ref (z_of_int 1) and seen = ref false in
  let reset () = starts := []; status := Z0; has := false; before := Z0; after := Z0; approx := false; diff := Z0; path := []; acc := []; segs := [];
                 classa := false; sym := true; tol := z_of_int 1; seen := false in
  iter_lines (fun line ->
    let line = (match String.index_opt line '#' with Some i -> String.sub line 0 i | None -> line) in
    match words line with
    | ["CLASS"; c; s; t] -> classa := (c = "A"); sym := b s; tol := z t
    | ["START"; i; v; inb] -> starts := ((z i, b v), b inb) :: !starts
    | ["STATUS"; c; h; bf; af; ap; d] -> status := z c; has := b h; before := z bf; after := z af; approx := b ap; diff := z d; seen := true
    | ["P"; i; inb; v; g; d] -> path := { p_id = z i; p_inb = b inb; p_valid = b v; p_goal = b g; p_gdist = z d } :: !path
    | ["ACC"; a; c] -> acc := (z a, z c) :: !acc
    | ["SEG"; r; m] -> segs := { s_recheck = b r; s_maxinv = z m } :: !segs
    | "SKIP" :: _ -> seen := false
    | ["END"] ->
        if !seen then begin
          let r = { r_starts = List.rev !starts; r_status = !status; r_has_path = !has; r_paths_before = !before; r_paths_after = !after;
                    r_approx = !approx; r_diff = !diff; r_tol = !tol; r_path = List.rev !path; r_acc = !acc; r_segs = List.rev !segs; r_classA = !classa; r_sym = !sym } in
          print_endline (match adjudicate r with
            | Vok -> "ok" | Vstatus_without_path -> "status_without_path" | Vpath_without_status -> "path_without_status" | Vstart -> "start"
            | Vbounds -> "bounds" | Vinvalid_state -> "invalid_state" | Vgoal -> "goal" | Vstretch_or_recheck -> "stretch_or_recheck" | Vuncovered -> "uncovered")
        end else print_endline "skip";
        reset ()
    | _ -> ())
