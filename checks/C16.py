"""C16 — constrained spaces keep sampled, interpolated and path states on the manifold.
prove:      coq/Properties_C16.v (ProjectedStateSpace::discreteGeodesic for every ambient interpolation / distance /
            projection / validity / delta / lambda, over R: appended states are successful projections, steps are at most
            lambda*delta, success ends within delta, validity when not interpolating)
correspond: discreteGeodesic of /repo on R^3 with the plane constraint (Newton projection exact) and a box-shaped
            invalid region vs the SAME Gallina code on binary64 (vm_compute), bit for bit: verdict and every geodesic state
search:     the C16 statement on the implementation for the projected, atlas and tangent-bundle spaces on sphere, torus,
            plane and a co-dimension-2 circle: samplers (uniform / near / Gaussian), interpolate, discreteGeodesic
            (constraint value, step bound, end distance) and the vertices of planned paths
"""
import os, sys, math, struct, collections
import vf
sys.path.insert(0, os.path.dirname(__file__))
from spaces_common import cq, fhex, parse_nested, bits


def main():
    c = vf.Check("C16", "proof")
    quick = c.tier == "quick"
    c.prove("Properties_C16.v")
    if not quick: c.coqchk("Properties_C16")
    try:
        c.build_ompl(); drv = c.build_driver("constraint_driver", link_ompl=True)
    except vf.BuildError as ex:
        c.broken.append("correspondence C16: implementation driver does not build: " + str(ex)[-400:]); c.finish()
    rng = c.rng
    ndiff = npred = 0; first_diff = None; first_pred = None; stats = collections.Counter()
    def pred(l, msg):
        nonlocal npred, first_pred
        npred += 1
        if first_pred is None: first_pred = (l, msg)
    # (a) exact: geodesics on the plane
    cases = []
    for i in range(150 if quick else 3000):
        tol = rng.choice([1e-4, 1e-4, 1e-2, 1e-8]); delta = rng.choice([0.05, 0.05, 0.02, 0.2, 0.5]); lam = rng.choice([2.0, 2.0, 1.5, 5.0, 1.0009765625])
        ipol = rng.choice([1, 0, 0])
        def pt(): return [rng.uniform(-1, 1), rng.uniform(-1, 1), rng.choice([0.0, 0.0, tol / 2, -tol / 3, 0.3, -0.5])]
        f = pt(); t = pt()
        m = i % 6
        if m == 0: t = [f[0] + delta * rng.choice([0.5, 0.99, 1.0, 1.01]), f[1], 0.0]          # at the tolerance boundary
        elif m == 1: f = [0.2, 0.2, 0.0]; t = [0.7, 0.25, 0.0]                                      # crosses the invalid slab
        elif m == 2: t = list(f)                                                                     # coincident
        cases.append((tol, delta, lam, ipol, f, t))
    lines = ["GEO %s %s %s %d %s | %s" % (fhex(tol), fhex(delta), fhex(lam), ipol, " ".join(fhex(x) for x in f), " ".join(fhex(x) for x in t)) for tol, delta, lam, ipol, f, t in cases]
    rc, o, e, s = vf.sh([drv], input="\n".join(lines) + "\n", timeout=600); c.step("correspond:impl", drv + " GEO ...", s, rc == 0)
    impl = o.split("\n")
    model = []
    shard = 150; tm = 0.0
    for a in range(0, len(cases), shard):
        src = "From Coq Require Import List Floats Bool. From OmplV Require Import ConstraintRun. Import ListNotations.\nLocal Open Scope float_scope.\nDefinition b2l (r : bool * list (list float)) : list (list float) := [if fst r then 1 else 0] :: snd r.\nDefinition TS : list float := [0; 0.1; 0x1.5555555555555p-2; 0.5; 0.9; 1].\nEval vm_compute in [\n"
        src += ";\n".join("b2l (geo_run %s %s %s %s [%s] [%s]) ++ [[9]] ++ map (interp_run %s %s %s [%s] [%s]) TS" % (cq(tol), cq(delta), cq(lam), "true" if ipol else "false", "; ".join(cq(x) for x in f), "; ".join(cq(x) for x in t), cq(tol), cq(delta), cq(lam), "; ".join(cq(x) for x in f), "; ".join(cq(x) for x in t)) for tol, delta, lam, ipol, f, t in cases[a:a + shard]) + "].\n"
        path = os.path.join(c.outdir, "cases_c16_%d.v" % a); open(path, "w").write(src)
        rc2, o2, e2, s2 = vf.sh("timeout 1500 coqc -Q %s OmplV %s" % (vf.COQ, path), timeout=1600); tm += s2
        if rc2 != 0: c.broken.append("model evaluation (coqc %s) failed: %s" % (os.path.basename(path), (e2 or o2)[-300:])); break
        model += parse_nested(o2)
    c.step("correspond:model", "coqc cases_c16_*.v (Eval vm_compute, binary64 instance)", tm, not c.broken)
    for k, (l, case) in enumerate(zip(lines, cases)):
        a = impl[k] if k < len(impl) else ""
        w = a.split("|")
        if len(w) != 3 or not w[0].startswith("geo"): pred(l, "no observation: " + a[:80]); continue
        ok = w[0].split()[1] == "1"; states = [[int(x, 16) for x in blk.split()] for blk in w[1].split(";") if blk.strip()]
        ints = [[int(x, 16) for x in blk.split()] for blk in w[2].replace("INT", "").split(";") if blk.strip()]
        stats["geodesics"] += 1; stats["success" if ok else "failure"] += 1; stats["states"] += len(states)
        if k < len(model):
            m = model[k]; mok = m[0][0] == 1.0
            sep = m.index([9.0]) if [9.0] in m else len(m)
            mstates = [[bits(x) for x in st] for st in m[1:sep]]; mints = [[bits(x) for x in st] for st in m[sep + 1:]]
            if mints != ints:
                ndiff += 1
                if first_diff is None or len(l) < len(first_diff[0]): first_diff = (l, "interpolate at 0, .1, 1/3, .5, .9, 1: %s" % ints, "model: %s" % mints)
            if mok != ok or mstates != states:
                ndiff += 1
                if first_diff is None or len(l) < len(first_diff[0]): first_diff = (l, "%d states, ok=%s" % (len(states), ok), "%d states, ok=%s" % (len(mstates), mok))
        # the statement on the implementation's own output
        tol, delta, lam, ipol, f, t = case
        fl = lambda h: struct.unpack("<d", struct.pack("<Q", h))[0]
        pts = [[fl(h) for h in st] for st in states]
        for q in ints:
            if abs(fl(q[2])) > tol and abs(f[2]) <= tol: pred(l, "an interpolated state violates the constraint: |x2| = %g > tolerance %g" % (abs(fl(q[2])), tol)); break
        for i, p in enumerate(pts[1:], 1):
            if abs(p[2]) > tol: pred(l, "geodesic state %d violates the constraint: |x2| = %g > tolerance %g" % (i, abs(p[2]), tol)); break
            d = math.dist(pts[i - 1], p)
            if d > lam * delta * (1 + 1e-12): pred(l, "consecutive geodesic states %g apart, bound lambda*delta = %g" % (d, lam * delta)); break
            if not ipol and (0.4 < p[0] < 0.45 and p[1] < 0.5): pred(l, "geodesic state %d is invalid although interpolate = false" % i); break
        if ok and pts and math.dist(pts[-1], t) > delta * (1 + 1e-12): pred(l, "geodesic reports success but ends %g from the target (delta %g)" % (math.dist(pts[-1], t), delta))
    # (b) the statement on every constrained space
    laws = []
    n = 150 if quick else 2000
    for kind in ("PJ", "AT", "TB"):
        for man in ("sphere", "torus", "plane", "circle", "smallsphere"):
            for (delta, lam, tol) in ([(0.05, 2.0, 1e-4)] if quick else [(0.05, 2.0, 1e-4), (0.2, 1.5, 1e-3), (0.02, 3.0, 1e-6)]):
                # the atlas of the one-dimensional manifold keeps every chart it ever made (memory grows faster than quadratically
                # in the number of samples at small delta: 5.7 GB for 400), so that one combination is searched with fewer samples
                nn = min(n, 150) if (man == "circle" and kind != "PJ" and delta < 0.05) else n
                laws.append("LAWS %s %s %d %d %g %g %g" % (kind, man, nn, rng.randint(1, 10 ** 6), delta, lam, tol))
    # arcs of every length with step budgets lambda close to 1 (the budget runs out near the end of the traversal)
    for kind in ("PJ", "AT"):
        for lam in ([1.05, 1.2, 1.5] if quick else [1.02, 1.05, 1.1, 1.2, 1.35, 1.5]):
            for delta in (0.02, 0.05): laws.append("LAWS %s sphere 0 %d %g %g %g" % (kind, rng.randint(1, 10 ** 6), delta, lam, 1e-4))
    for kind in ("PJ", "AT", "TB"):
        for man in ("sphere", "torus"):
            for r in range(3 if quick else 12): laws.append("PLAN %s %s %d %g" % (kind, man, rng.randint(1, 10 ** 6), 1.0))
    rc, o, e, s = vf.sh([drv], input="\n".join(laws) + "\n", timeout=3000); c.step("impl:laws", drv + " LAWS / PLAN ...", s, rc == 0)
    outs = [x for x in o.split("\n") if x]
    for l, out in zip(laws, outs):
        w = out.split()
        if w[0] == "laws":
            d = {}
            for key in ("samples-off", "near-off", "interp-off", "geo-off", "step-too-long", "end-too-far"): d[key] = int(w[w.index(key) + 1])
            stats["law_runs"] += 1; g = w[w.index("geodesics") + 1]; stats["law_geodesics_ok"] += int(g.split("/")[0])
            for key, msg in (("samples-off", "uniformly sampled states violate the constraint"), ("near-off", "near / Gaussian samples violate the constraint"), ("interp-off", "interpolated states violate the constraint"),
                             ("geo-off", "states of successful geodesics violate the constraint"), ("step-too-long", "consecutive geodesic states farther apart than lambda*delta"), ("end-too-far", "successful geodesics end farther than delta from the target")):
                if d[key]: pred(l, "%s: %d cases (%s)" % (msg, d[key], out[out.index("worst-violation"):]))
        elif w[0] == "plan":
            stats["plans"] += 1
            if int(w[w.index("off-manifold") + 1]): pred(l, "vertices of a planned path violate the constraint: " + out)
        else: pred(l, "no observation: " + out[:100])
    if len(outs) < len(laws): pred(laws[len(outs)], "driver crashed or hung (exit %s)" % rc)
    c.cov.update({"evaluations": len(cases) + len(laws) * n, "traces_validated_against_impl": len(cases), "distinct_nontrivial": stats["states"],
                  "rule": "(a) %d geodesics on the plane x2 = 0 in R^3: tolerance 1e-8..1e-2, delta .02-.5, lambda 1-5, interpolate on/off, end points on / slightly off the manifold, at the delta boundary, across the invalid slab, coincident; verdict and every state compared bit for bit; (b) projected / atlas / tangent-bundle spaces x {sphere, sphere of radius 0.1 (sampling distances larger than the curvature radius), torus (numerical Jacobian), plane, circle of co-dimension 2} x %d random pairs per setting: uniform, near and Gaussian samples, interpolate at t = 0, .1, ..., 1, discreteGeodesic, plus RRTConnect / PRM / RRT paths" % (len(cases), n),
                  "disagreements": ndiff, "predicate_failures": npred, "histogram": dict(stats)})
    c.cov["samples"] = [lines[0][:200], laws[0]]
    c.cov["trusted_base"] += ["vm_compute on primitive binary64 floats, float printing / parsing, harness/constraint_driver.cpp (its own evaluation of the constraint functions), g++ -ffp-contract=off",
                             "stdlib real-number axioms for the theorem over R (sig_forall_dec, sig_not_dec, functional_extensionality_dep)"]
    c.assumptions += ["the atlas and tangent-bundle geodesics and the Newton projection on curved manifolds (Eigen SVD) are not in the Coq model: searched on the implementation only",
                      "for the tangent-bundle space intermediate geodesic states may be off the manifold by design; only its samplers, interpolation and path vertices are held to the constraint"]
    if first_pred:
        l, msg = first_pred
        c.violation("implementation violates C16: %s on '%s'" % (msg[:500], l[:300]), "# C16 replay: feed to build/harness/constraint_driver\n%s\n" % l)
    elif first_diff:
        c.broken.append("correspondence C16 (discreteGeodesic vs ConstraintModel on binary64): on '%s' implementation %s, model %s" % first_diff)
    c.finish()


main()
