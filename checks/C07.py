"""C07 — interpolation traces one consistent, bounded curve between its endpoints.
prove:      coq/Properties_C07.v (endpoints, in-bounds, geodesic scaling for the smooth spaces, re-parameterisation for
            R^n / time and compounds of them; two refutation examples: the pre-fix SO(2) code returns +pi, discrete
            interpolation is not consistent under re-parameterisation)
correspond: StateSpace::interpolate (+ the composite re-parameterisation and geodesic observations) of generated spaces
            of /repo vs the SAME Gallina definitions on binary64 (vm_compute), bit for bit, on adversarial pairs
search:     the C07 statement on the implementation: t=0 / t=1, satisfiesBounds of every interpolant, aliasing,
            re-parameterisation, geodesic scaling — on generated spaces and on every shipped space (LAWS)
"""
import os, math
import vf
from spaces_common import *

KNOWN = {("DUBINS", "interp-in-bounds"): "C07-dubins-family-leaves-bounds", ("DUBINSSYM", "interp-in-bounds"): "C07-dubins-family-leaves-bounds",
         ("RS", "interp-in-bounds"): "C07-dubins-family-leaves-bounds",
         ("DUBINS", "interp-reparam"): "C07-dubins-near-coincident-reparam",
         ("DUBINSSYM", "interp-reparam"): "C07-dubins-family-reparam", ("RS", "interp-reparam"): "C07-dubins-family-reparam",
         ("SO3", "interp-geodesic"): "C07-so3-near-coincident", ("SE3", "interp-geodesic"): "C07-so3-near-coincident",
         ("DISC", "interp-reparam"): "C07-discrete-reparam", ("MIX", "interp-reparam"): "C07-discrete-reparam"}
C07_LAWS = ["interp-0", "interp-1", "interp-in-bounds", "interp-alias", "interp-reparam", "interp-geodesic", "interp-geodesic-gross"]
TS = [0.0, 1.0, 0.5, 0.25, 0.75, 1e-17, 1 - 2 ** -53, 1.0 / 3]


def fval(h): return struct.unpack("<d", struct.pack("<Q", h))[0]


def close(x, y, kind):
    if kind == "SO2":
        d = abs(x - y); d = min(d, abs(2 * PI - d))
        return d <= 1e-9
    return abs(x - y) <= 1e-9 * (1 + abs(y))


def main():
    c = vf.Check("C07", "proof")
    quick = c.tier == "quick"
    c.prove("Properties_C07.v")
    if not quick: c.coqchk("Properties_C07")
    try:
        c.build_ompl(); drv = c.build_driver("space_driver", link_ompl=True)
    except vf.BuildError as ex:
        c.broken.append("correspondence C07: implementation driver does not build: " + str(ex)[-400:]); c.finish()
    rng = c.rng
    R = Runner(c, drv)
    meta = []
    for i in range(100 if quick else 2500):
        sp = gen_space(rng, rng.randint(0, 3))
        ops = []; mm = []
        for j in range(12):
            a = gen_vals(rng, sp, ["in", "seam"][j % 2])
            r = j % 6
            if r == 0: b = list(a)
            elif r == 1: b = perturb(rng, sp, a)
            else: b = gen_vals(rng, sp, rng.choice(["in", "seam"]))
            t = rng.choice(TS + [rng.random(), rng.random()])
            sa, sb = sp.state_coq(a), sp.state_coq(b)
            ops.append(("INTERP %s %s | %s" % (fhex(t), vals_hex(a), vals_hex(b)), "OInterp %s %s %s" % (cq(t), sa, sb))); mm.append(("I", t, a, b))
            if j % 3 == 0:
                s, u = rng.choice(TS + [rng.random()]), rng.choice(TS + [rng.random()])
                ops.append(("REPARAM %s %s %s | %s" % (fhex(s), fhex(u), vals_hex(a), vals_hex(b)), "OReparam %s %s %s %s" % (cq(s), cq(u), sa, sb))); mm.append(("R", (s, u), a, b))
            if j % 3 == 1:
                ops.append(("GEO %s %s | %s" % (fhex(t), vals_hex(a), vals_hex(b)), "OGeo %s %s %s" % (cq(t), sa, sb))); mm.append(("G", t, a, b))
        R.add(sp, ops); meta.append(mm)
    impl, model = R.run("c07")
    ndiff = npred = nev = 0; first_diff = None; first_pred = None
    distinct = set(); kinds_seen = {}
    def pred(sp, il, msg, slug=None):
        nonlocal npred, first_pred
        if slug and c.known_finding(slug, "%s on 'SPACE %s' / '%s'" % (msg, sp.spec()[:120], il[:200])): return
        npred += 1
        if first_pred is None or len(sp.spec()) + len(il) < len(first_pred[0]) + len(first_pred[1]): first_pred = (sp.spec(), il, msg)
    for (sp, ops), io, mo, mm in zip(R.groups, impl, model, meta):
        if sp.kind == "CO": distinct.add(sp.spec())
        lk = sp.leaf_kinds()
        for (il, ct), a, m, (kind, t, va, vb) in zip(ops, io, mo, mm):
            nev += 1
            ib, fl = impl_bits(a) if a else ([], [])
            if not same_bits(ib, m):
                ndiff += 1
                if first_diff is None or len(il) + len(sp.spec()) < len(first_diff[1]) + len(first_diff[0]): first_diff = (sp.spec(), il, a, m)
            if not ib: pred(sp, il, "no observation (crash?)"); continue
            vals = [fval(h) for h in ib]
            if kind == "I":
                kinds_seen[t if t in TS else "random"] = kinds_seen.get(t if t in TS else "random", 0) + 1
                if fl[:2] != ["1", "1"]: pred(sp, il, "interpolate gives a different result when the output aliases an input (flags %s)" % " ".join(fl))
                if fl[2:3] != ["1"]: pred(sp, il, "interpolant of two in-bounds states does not satisfy the bounds")
                if t == 0.0 and any(not (x == y) for x, y in zip(vals, va)): pred(sp, il, "interpolate(a,b,0) is not a")
                if t == 1.0 and any(not close(x, y, k) for x, y, k in zip(vals, vb, lk)): pred(sp, il, "interpolate(a,b,1) is not b")
            elif kind == "R":
                d = vals[-1]
                if not d <= 1e-6:
                    pred(sp, il, "re-parameterisation: interpolate(interpolate(a,b,s),b,u) is %g away from interpolate(a,b,s+(1-s)u)" % d, "C07-discrete-reparam" if sp.has("DI") else None)
            elif kind == "G":
                if not sp.has("DI") and abs(vals[0] - vals[1]) > 1e-7 * (1 + vals[1]): pred(sp, il, "distance(a, interpolate(a,b,t)) = %r but t*distance(a,b) = %r" % (vals[0], vals[1]))
    # ---- the laws on the implementation (all shipped spaces)
    names = ["RV3", "SO2", "SO3", "SE2", "SE3", "TIME", "DISC", "TORUS", "SPHERE", "SPHERE1", "MOBIUS", "KLEIN", "DUBINS", "DUBINSSYM", "RS", "MIX"]
    n = 20000 if quick else 400000
    rc, o, e, s = vf.sh([drv], input="\n".join("LAWS %s %d %d" % (nm, n, c.seed) for nm in names) + "\n", timeout=3000)
    c.step("impl:laws", drv + " LAWS <space> %d" % n, s, rc == 0)
    lawsum = {}; law_pred = None
    for line in o.split("\n"):
        if not line.startswith("laws "): continue
        parts = line.split(" ; ")
        nm = parts[0].split()[1]
        for p in parts[1:]:
            w = p.split(None, 2)
            law, cnt = w[0], int(w[1]); wit = w[2] if len(w) > 2 else "-"
            if law not in C07_LAWS: continue
            lawsum["%s:%s" % (nm, law)] = cnt
            if cnt:
                what = "%s: law '%s' fails (%d of %d random cases), e.g. %s" % (nm, law, cnt, n, wit)
                slug = KNOWN.get((nm, law))
                if slug and c.known_finding(slug, what): continue
                npred += 1
                if law_pred is None: law_pred = ("LAWS %s %d %d" % (nm, n, c.seed), what)
    if len(lawsum) < len(names) * len(C07_LAWS): c.broken.append("law search produced %d of %d results (driver crashed?)" % (len(lawsum), len(names) * len(C07_LAWS)))
    c.cov.update({"evaluations": nev + n * len(names), "traces_validated_against_impl": len(R.groups), "distinct_nontrivial": len(distinct),
                  "rule": "generated spaces (nesting depth <= 3 over R^n with degenerate/huge/tiny bounds, SO2, bounded/unbounded time, discrete; weights incl. 0) x 12 adversarial pairs each (in bounds, +-pi seam and 1 ulp inside, edges, coincident, 1-ulp apart) with t in {0, 1, 1/2, 1/4, 3/4, 1e-17, 1-2^-53, 1/3, random}: interpolate, aliasing flags, satisfiesBounds, the re-parameterisation composite and the geodesic observation compared bit for bit; plus %d random cases of every interpolation law on each of 16 shipped spaces; non-trivial = distinct compound space" % n,
                  "disagreements": ndiff, "predicate_failures": npred, "law_failures": {k: v for k, v in lawsum.items() if v}, "t_distribution": {str(k): v for k, v in kinds_seen.items()}})
    c.cov["samples"] = [R.groups[0][0].spec(), R.groups[0][1][0][0][:160]]
    c.cov["trusted_base"] += ["vm_compute on primitive binary64 floats (+ exact fmod/floor through SpecFloat), float printing/parsing, harness/space_driver.cpp + space_laws.h, g++ -ffp-contract=off",
                             "stdlib real-number axioms (theorems over R): sig_forall_dec, sig_not_dec, functional_extensionality_dep"]
    c.assumptions += ["the R-vs-binary64 gap is rounding (not bounded); SO(3), SE(3), sphere, torus, Moebius, Klein, Dubins, Reeds-Shepp are NOT in the Coq model: their laws are searched on the implementation only"]
    if first_diff: c.log('first disagreement:', first_diff)
    if first_pred:
        sp, il, msg = first_pred
        c.violation("implementation violates C07: %s on 'SPACE %s' / '%s'" % (msg, sp[:200], il[:200]), "# C07 replay: feed to build/harness/space_driver\nSPACE %s\n%s\n" % (sp, il))
    elif law_pred:
        c.violation("implementation violates C07: " + law_pred[1], "# C07 replay: feed to build/harness/space_driver\n" + law_pred[0] + "\n")
    elif first_diff:
        sp, il, a, m = first_diff
        c.broken.append("correspondence C07 (interpolate vs SpacesModel on binary64) differs on 'SPACE %s' / '%s': implementation '%s' model %s" % (sp[:200], il[:200], a, m))
    c.finish()


main()
