"""C18 — termination conditions mean exactly what they say.
prove:      coq/Properties_C18.v
correspond: real PlannerTerminationCondition / IterationTerminationCondition / CostConvergenceTerminationCondition
            objects of /repo vs the extracted model (condition trees under eval / terminate / predicate-change
            event traces: exact), cost-convergence on binary64 via vm_compute (exact), timed / periodic /
            exact-solution conditions in the safe direction with real sleeps
search:     the C18 statement evaluated on the implementation's answers with an independent Python oracle
"""
import os, collections
import vf


def gen_tree(rng, depth, iters):
    r = rng.random()
    if depth == 0 or r < 0.3:
        r2 = rng.random()
        if r2 < 0.45: return ["F", str(rng.randint(0, 3))]
        if r2 < 0.85:
            n = rng.choice([0, 1, 2, 3, 5]); iters.append(n); return ["I", str(n)]
        return ["Y"] if r2 < 0.92 else ["Z"]
    return [rng.choice(["O", "A"])] + gen_tree(rng, depth - 1, iters) + gen_tree(rng, depth - 1, iters)


def paths(tree):
    """all node paths of a prefix tree"""
    res = []
    def go(i, p):
        res.append(p or "-")
        t = tree[i]
        if t in ("F", "I"): return i + 2
        if t in ("Y", "Z"): return i + 1
        j = go(i + 1, p + "L")
        return go(j, p + "R")
    go(0, "")
    return res


class Oracle:
    """independent reading of the property (python): tree evaluation with flags, short circuit, counters"""
    def __init__(self, tree):
        self.pos = 0; self.tree = tree; self.root = self.parse()
        self.env = collections.defaultdict(bool)
    def parse(self):
        t = self.tree[self.pos]; self.pos += 1
        if t == "F": k = int(self.tree[self.pos]); self.pos += 1; return {"t": "F", "k": k, "term": False}
        if t == "I": n = int(self.tree[self.pos]); self.pos += 1; return {"t": "I", "n": n, "calls": 0, "term": False}
        if t in "OA": a = self.parse(); b = self.parse(); return {"t": t, "a": a, "b": b, "term": False}
        return {"t": t, "term": False}
    def ev(self, n):
        if n["term"]: return True
        if n["t"] == "F": return self.env[n["k"]]
        if n["t"] == "I": n["calls"] += 1; return n["calls"] > n["n"]
        if n["t"] == "O": return self.ev(n["a"]) or self.ev(n["b"])
        if n["t"] == "A": return self.ev(n["a"]) and self.ev(n["b"])
        return n["t"] == "Y"
    def node(self, path):
        n = self.root
        if path != "-":
            for d in path: n = n["a"] if d == "L" else n["b"]
        return n


def main():
    c = vf.Check("C18", "proof")
    quick = c.tier == "quick"
    c.prove("Properties_C18.v")
    if not quick:
        c.coqchk("Properties_C18")
    try:
        c.build_ompl()
        drv = c.build_driver("ptc_driver", link_ompl=True)
        model = c.build_model()
    except vf.BuildError as ex:
        c.broken.append("correspondence C18: implementation/driver/model does not build: " + str(ex)[-400:])
        c.finish()
    rng = c.rng
    scripts = []
    hist = collections.Counter()
    if c.replay:
        cur = []
        for l in open(c.replay):
            l = l.strip()
            if not l or l.startswith("#"): continue
            if l.startswith("T ") and cur: scripts.append(cur); cur = []
            cur.append(l)
        if cur: scripts.append(cur)
    else:
        for i in range(1500 if quick else 60000):
            iters = []
            tree = gen_tree(rng, rng.randint(0, 4), iters)
            ps = paths(tree)
            lines = ["T " + " ".join(tree)]
            for _ in range(rng.randint(1, 40)):
                r = rng.random()
                if r < 0.6: lines.append("E")
                elif r < 0.85: lines.append("S %d %d" % (rng.randint(0, 3), rng.randint(0, 1)))
                else: lines.append("X " + rng.choice(ps))
                hist[lines[-1][0]] += 1
            scripts.append(lines)
    flat = [l for s in scripts for l in s if l[0] in "TESX"]
    rc, o, e, s = vf.sh([drv], input="\n".join(flat) + "\n", timeout=900)
    c.step("correspond:impl", drv, s, rc == 0)
    impl = o.split("\n")[:len(flat)]
    rc2, o2, e2, s2 = vf.sh([model, "ptc"], input="\n".join(flat) + "\n", timeout=900)
    c.step("correspond:model", model + " ptc", s2, rc2 == 0)
    mod = o2.split("\n")[:len(flat)]
    impl += [""] * (len(flat) - len(impl)); mod += [""] * (len(flat) - len(mod))
    ndiff = npred = 0; first_diff = first_pred = None
    k = 0
    distinct = set()
    for sc in scripts:
        io = impl[k:k + len(sc)]; mo = mod[k:k + len(sc)]; k += len(sc)
        if len(sc) > 5 and any(l.startswith("X") for l in sc): distinct.add("\n".join(sc))
        orc = Oracle(sc[0].split()[1:])
        bad = None
        for l, out in zip(sc[1:], io[1:]):
            w = l.split()
            if w[0] == "E":
                exp = "1" if orc.ev(orc.root) else "0"
                if out != exp: bad = "evaluation answered %r where the conditions mean %s (script: %s)" % (out, exp, " ; ".join(sc)); break
            elif w[0] == "S": orc.env[int(w[1])] = (w[2] == "1")
            elif w[0] == "X": orc.node(w[1])["term"] = True
        if bad:
            npred += 1
            if first_pred is None or len(sc) < len(first_pred[0]): first_pred = (sc, bad)
        if io != mo:
            ndiff += 1
            if first_diff is None or len(sc) < len(first_diff[0]): first_diff = (sc, io, mo)
    # ---- cost convergence: binary64, model evaluated by vm_compute
    ccases = []
    if not c.replay:
        for i in range(300 if quick else 6000):
            w = rng.randint(1, 8); eps = rng.choice([0.1, 0.01, 0.5, 1e-3, 0.0])
            n = rng.randint(1, 30); base = rng.choice([1.0, 10.0, 123.456, 1e6])
            kind = rng.randint(0, 3)
            costs = []
            cur = base
            for j in range(n):
                if kind == 0: cur = base
                elif kind == 1: cur = cur * rng.uniform(0.9, 1.0)
                elif kind == 2: cur = base * rng.uniform(0.5, 1.5)
                else: cur = cur * (0.5 if rng.random() < 0.2 else 1.0)
                costs.append(cur)
            ccases.append((w, eps, costs))
        ccases.append((3, 0.1, [10.0, 10.0, 10.0, 10.0, 5.0, 5.0]))
    cl = ["C %d %s %d %s" % (w, float(eps).hex(), len(cs), " ".join(float(x).hex() for x in cs)) for w, eps, cs in ccases]
    rc3, o3, e3, s3 = vf.sh([drv], input="\n".join(cl) + "\n", timeout=900)
    cimpl = [l.split()[1:] for l in o3.split("\n") if l.startswith("c")]
    cmod = []
    if ccases:
        src = "From Coq Require Import List NArith Floats. From OmplV Require Import PtcModel PtcFloat. Import ListNotations.\nLocal Open Scope float_scope.\nEval vm_compute in [\n"
        src += ";\n".join("cc_run0 %d%%N (%s) [%s]" % (w, float(eps).hex(), "; ".join("(%s)" % float(x).hex() for x in cs)) for w, eps, cs in ccases) + "].\n"
        path = os.path.join(c.outdir, "cc_cases.v"); open(path, "w").write(src)
        rc4, o4, e4, s4 = vf.sh("timeout 900 coqc -Q %s OmplV %s" % (vf.COQ, path), timeout=1000)
        c.step("correspond:model-cc", "coqc cc_cases.v", s4, rc4 == 0)
        if rc4 != 0:
            c.broken.append("model evaluation (cost convergence) failed: " + (e4 or o4)[-300:])
        txt = o4[o4.find("["):]
        txt = txt[:txt.rfind(":")]
        import re
        for grp in re.findall(r"\[([^\[\]]*)\]", txt):
            cmod.append(["1" if t.strip() == "true" else "0" for t in grp.split(";") if t.strip()])
    ccdiff = 0
    for (w, eps, cs), a, b in zip(ccases, cimpl, cmod):
        # property predicate on the implementation: fires exactly at the first solution k >= window whose running
        # average moved by less than eps (python doubles = binary64), never earlier, sticky
        avg = 0.0; fired = False; exp = []
        for j, x in enumerate(cs, 1):
            m = min(j, w); new = ((m - 1) * avg + x) / m
            lo, hi = (1. - eps) * avg, (1. + eps) * avg
            avg = new
            if m == w and new > lo and new < hi: fired = True
            exp.append("1" if fired else "0")
        if a != exp:
            npred += 1
            if first_pred is None: first_pred = (["C %d %r %r" % (w, eps, cs)], "cost-convergence fired pattern %s, the property says %s" % ("".join(a), "".join(exp)))
        if a != b:
            ccdiff += 1
            if first_diff is None: first_diff = ([cl[ccases.index((w, eps, cs))]], a, b)
    # ---- timed / periodic / exact-solution conditions (real time, safe direction only)
    # every check interval: a period of exactly 0 (no evaluation thread: the predicate is evaluated directly), a very short one, an interval
    # longer than the duration (clamped), a zero duration
    extra = ["PERIODIC 0", "PERIODIC 0.0005", "TIMED2 0.05 0", "TIMED2 0 0.01", "TIMED2 0.02 0.1", "TIMED2 0.05 0.0005"]
    rc6, o6, e6, s6 = vf.sh([drv], input="\n".join(extra) + "\n", timeout=120); c.step("impl:timed-periodic-intervals", drv, s6, rc6 == 0)
    for l6, out6 in zip(extra, [x for x in o6.split("\n") if x.strip()] + ["<no output>"] * len(extra)):
        want6 = ["periodic", "0", "1", "0", "1", "1"] if l6.startswith("PERIODIC") else ["timed2", "0", "1", "1"]
        if out6.split() != want6:
            npred += 1
            if first_pred is None: first_pred = ([l6], "%s: expected %s, observed '%s' (%s)" % (l6, " ".join(want6[1:]), out6, "follows its predicate in both directions, true after terminate()" if l6.startswith("PERIODIC") else "false before the duration, true after duration + interval, never reverting"))
    rc5, o5, e5, s5 = vf.sh([drv], input="TIMED 0.1\nPERIODIC 0.02\nEXACT\n" + ("" if quick else "W 5\n"), timeout=120)
    c.step("impl:timed-periodic-exact", drv, s5, rc5 == 0)
    got = {l.split()[0]: l.split()[1:] for l in o5.split("\n") if l.strip()}
    expect = {"timed": ["0", "1", "1", "0", "1"], "periodic": ["0", "1", "0", "1", "1"], "exact": ["0", "0", "1", "0", "|", "0", "0"]}
    if not quick: expect["w"] = ["4294967290", "1", "1", "1"]
    for key, val in expect.items():
        if got.get(key) != val:
            npred += 1
            msg = {"timed": "timed condition: expected false before the duration, true after it and still true later (plain and periodic form)",
                   "periodic": "periodically evaluated condition must follow its predicate within 3 periods in both directions (false, true, false again, true again) and be true after terminate()",
                   "exact": "exact-solution condition must mirror hasExactSolution(): none / approximate only / exact added / cleared",
                   "w": "iteration condition n=5 evaluated 2^32+1 times: must be true from the 6th evaluation on"}[key]
            if first_pred is None: first_pred = ([key.upper()], "%s; observed %s" % (msg, got.get(key)))
    c.cov.update({"evaluations": len(flat) + sum(len(x[2]) for x in ccases) + 3, "traces_validated_against_impl": len(scripts) + len(ccases),
                  "distinct_nontrivial": len(distinct),
                  "rule": "random condition trees (or/and nesting to depth 4 over predicates, iteration counters 0..5, always/never) with traces of evaluate / predicate change / terminate(any sub-condition); cost sequences (constant, decaying, noisy, stepwise) x window 1..8 x eps; timed/periodic/exact-solution with real sleeps; non-trivial = distinct trace with a terminate and > 5 events",
                  "event_histogram": dict(hist), "disagreements": ndiff + ccdiff, "predicate_failures": npred, "cost_sequences": len(ccases)})
    c.cov["samples"] = [" ; ".join(scripts[i]) for i in range(min(2, len(scripts)))] + (cl[:1])
    c.cov["trusted_base"] += ["extraction (ExtrOcamlBasic) + extract/ptc_driver.ml; vm_compute on binary64 for the cost average; harness/ptc_driver.cpp"]
    c.assumptions += ["the wall clock does not go backwards (ompl::time uses system_clock)", "the polling thread of a periodic condition gets scheduled within 3 periods + 50 ms (real-time bound: assumed, not proved)",
                      "'moving average' is the library's running average ((min(k,n)-1)*avg + cost)/min(k,n)"]
    if first_pred:
        sc, bad = first_pred
        c.violation("implementation violates C18: " + bad, "# C18 replay: bin/check C18 --replay <this file>\n" + "\n".join(sc) + "\n")
    elif first_diff:
        sc, io, mo = first_diff
        c.broken.append("correspondence C18 (termination conditions vs PtcModel) differs on '%s': implementation %s model %s" % (" ; ".join(sc)[:300], io, mo))
    c.finish()


main()
