"""C01 — geometric planners only report solution paths that are real.
prove:      coq/Properties_C01.v (meaning of the admission rule, PlannerStatus constructor, PathGeometric::check,
            accepted motion => every subdivision point valid (C05), tree-planner skeleton => admissible reports)
correspond: every shipped geometric / multilevel planner that can be instantiated here is run on a table
            (planner x space x environment x query x range x resolution x threshold x seed) with logging collaborators;
            the extracted admission rule (LedgerModel.adjudicate) decides each run from the logged facts
search:     the C01 statement evaluated directly on the facts by an independent predicate (start, bounds, validity,
            goal / approximate agreement, invalid stretch < 2 resolution lengths, class-A recheck), replay = the RUN line
"""
import os, sys, collections, subprocess, concurrent.futures as cf
import vf

PLANNERS = ("RRT RRTi RRTConnect RRTConnecti pRRT LazyRRT TRRT BiTRRT RRTstar InformedRRTstar SORRTstar RRTsharp RRTXstatic LBTRRT LazyLBTRRT "
            "EST BiEST ProjEST KPIECE1 BKPIECE1 LBKPIECE1 SBL pSBL PDST STRIDE FMT BFMT PRM PRMstar LazyPRM LazyPRMstar SPARS SPARStwo "
            "BITstar ABITstar AITstar EITstar EIRMstar SST RLRT BiRLRT CForest AnytimePathShortening QRRT QRRTStar QMP QMPStar").split()
EXCLUDED = {"XXL": "needs a workspace decomposition", "LightningRetrieveRepair/ThunderRetrieveRepair": "need an experience database",
            "TSRRT": "needs a task space", "VFRRT": "needs a vector field", "STRRTstar": "needs a space-time state space"}
# planners that keep running until the termination condition fires even after a solution (bounded by evaluations / seconds)
ANYTIME = set("RRTstar InformedRRTstar SORRTstar RRTsharp RRTXstatic LBTRRT LazyLBTRRT PRMstar LazyPRMstar SPARS SPARStwo BITstar ABITstar AITstar EITstar EIRMstar SST CForest AnytimePathShortening QRRTStar QMPStar QMP".split())
CLASS_FILE = os.path.join(vf.VERIF, "checks", "c01_classA.txt")
SPACES = ["R2", "SE2", "R3", "CMP", "SE3", "R6"]
ENVS = ["gap", "thin", "thin2", "boxes3", "circles5", "empty", "blocked", "boxes8"]
NONSYM = {"DUBINS"}
# planners that only ever traverse a motion in the direction in which it was validated (forward trees, RRTConnect's explicit handling
# of the goal tree, RRT*'s symmetric-interpolation test): the quantifier asks for Dubins / Reeds-Shepp spaces with these
DIRECTION_AWARE = "RRT RRTi RRTConnect pRRT LazyRRT TRRT RRTstar EST ProjEST KPIECE1 PDST STRIDE SST RLRT".split()


def class_a():
    return set(l.strip() for l in open(CLASS_FILE) if l.strip() and not l.startswith("#"))


def gen_jobs(rng, quick):
    jobs = []
    per = 4 if quick else 40
    for p in PLANNERS:
        for k in range(per):
            sp = SPACES[k % len(SPACES)] if k < len(SPACES) else rng.choice(SPACES)
            env = ENVS[k % len(ENVS)] if k < len(ENVS) else rng.choice(ENVS)
            if quick: sp, env = [("R2", "gap"), ("SE2", "thin"), ("R3", "boxes3"), ("R2", "blocked")][k]
            q = rng.randint(0, 3)
            rngv = rng.choice([0, 0, 0.05, 0.3, 1.5])
            res = rng.choice([0.01, 0.01, 0.02, 0.005])
            thr = rng.choice([0.05, 0.0, 0.01, 0.2]) if not quick else 0.05
            seed = rng.randint(1, 10 ** 6)
            secs = (0.4 if quick else 1.0) if p in ANYTIME else (0.5 if (quick and env == "blocked") else 2.0)
            iters = 20000 if p in ANYTIME else 200000
            jobs.append("RUN %s %s %s %d %g %g %g %d %d %g" % (p, sp, env, q, rngv, res, thr, seed, iters, secs))
        if p in DIRECTION_AWARE:
            for k in range(2 if quick else 16):
                sp = ["DUBINS", "RS"][k % 2]; env = ["gap", "thin", "boxes3", "circles5"][k % 4] if not quick else ["gap", "thin"][k]
                jobs.append("RUN %s %s %s %d %g %g %g %d %d %g" % (p, sp, env, rng.randint(0, 3), rng.choice([0, 0.3]), 0.01, 0.05, rng.randint(1, 10 ** 6),
                            20000 if p in ANYTIME else 200000, (0.4 if quick else 1.0) if p in ANYTIME else 2.0))
        # planners that create states by stepping away from a tree node (SST's Monte-Carlo propagation): runs whose outcome does not depend on
        # the generator's other choices, near the boundary of a small space
        if p == "SST":
            for sd in ((966870, 1), (7, 0), (11, 2), (23, 3), (5, 1), (42, 0)) if quick else [(1000 + z, z % 4) for z in range(40)]:
                jobs.append("RUN SST R2 %s %d 0 0.01 0.05 %d 20000 %g" % ("gap" if sd[0] % 2 == 0 else "empty", sd[1], sd[0], 0.4 if quick else 1.0))
        # EIT* with non-default sparse collision checks on thin walls (documented, user-settable)
    for k in ([4] if quick else [2, 3, 4, 5]):
        for j in range(1 if quick else 10):
            jobs.append("RUN EITstar%d R2 %s 0 0 0.01 0.05 %d 20000 %g" % (k, "thin" if j % 2 else "blocked", rng.randint(1, 10 ** 6), 0.4 if quick else 1.0))
    return jobs


def run_job(drv, j):
    try:
        r = subprocess.run([drv] + j.split(), capture_output=True, text=True, timeout=40)
        return j, r.returncode, r.stdout, r.stderr[-300:]
    except subprocess.TimeoutExpired:
        return j, -999, "", "timeout"


def parse(out):
    d = {"starts": [], "P": [], "ACC": set(), "SEG": [], "status": None, "skip": None, "end": False, "goalmismatch": None}
    for l in out.split("\n"):
        w = l.split("#")[0].split()
        if not w: continue
        if w[0] == "START": d["starts"].append((int(w[1]), w[2] == "1", w[3] == "1"))
        elif w[0] == "STATUS": d["status"] = dict(code=int(w[1]), has=w[2] == "1", before=int(w[3]), after=int(w[4]), approx=w[5] == "1", diff=int(w[6]))
        elif w[0] == "P": d["P"].append(dict(id=int(w[1]), inb=w[2] == "1", valid=w[3] == "1", goal=w[4] == "1", gdist=int(w[5])))
        elif w[0] == "ACC": d["ACC"].add((int(w[1]), int(w[2])))
        elif w[0] == "SEG": d["SEG"].append((w[1] == "1", int(w[2])))
        elif w[0] == "GOALMISMATCH": d["goalmismatch"] = d["goalmismatch"] or " ".join(w[1:])
        elif w[0] == "SKIP": d["skip"] = l[5:]
        elif w[0] == "END": d["end"] = True
    return d


REGION_SAMPLED_GOALS = {"AITstar", "EITstar", "EIRMstar"}   # measure an approximate solution's difference to a sampled state of the goal region


def tolerance(pl, thr):
    base = pl.rstrip("0123456789") if pl.startswith("EITstar") else pl
    return int(round(thr * 1e9)) + 1 if base in REGION_SAMPLED_GOALS else 1


def predicate(d, classA, sym, tol=1):
    """the C01 statement on the facts; returns None or a description"""
    s = d["status"]
    if s["code"] not in (5, 6):
        return None if s["after"] == s["before"] else "status %d is not a solution status but the problem definition gained %d solution path(s)" % (s["code"], s["after"] - s["before"])
    P = d["P"]
    if not s["has"] or not P: return "solution status %d without a solution path" % s["code"]
    if d.get("goalmismatch"): return "the goal's isSatisfied() / distance disagrees with distance(state, goal state) < threshold: state " + d["goalmismatch"]
    if not any(i == P[0]["id"] and v and b for i, v, b in d["starts"]): return "path does not start at a valid start state"
    for k, p in enumerate(P):
        if not p["inb"]: return "path state %d is outside the space bounds" % k
        if classA and not p["valid"]: return "path state %d is invalid" % k
    last = P[-1]
    if s["approx"]:
        if s["code"] != 5: return "approximate flag set but status is %d" % s["code"]
        if abs(s["diff"] - last["gdist"]) > tol: return "reported goal difference %g differs from the last state's goal distance %g" % (s["diff"] / 1e9, last["gdist"] / 1e9)
    else:
        if s["code"] != 6: return "exact solution held but status is %d" % s["code"]
        if not last["goal"]: return "solution not flagged approximate but its last state is %g away from the goal (outside the threshold)" % (last["gdist"] / 1e9)
    if len(d["SEG"]) != len(P) - 1: return "missing segment facts"
    for k, (re, mi) in enumerate(d["SEG"]):
        if mi >= 16: return "segment %d stays inside invalid space for %.2f resolution lengths" % (k, mi / 8.0)
        if classA and not re: return "segment %d of a planner that builds paths from validated motions fails the motion validity check" % k
    return None


def main():
    c = vf.Check("C01", "proof")
    quick = c.tier == "quick"
    c.prove("Properties_C01.v")
    if not quick: c.coqchk("Properties_C01")
    try:
        c.build_ompl(); drv = c.build_driver("planner_driver", link_ompl=True); model = c.build_model()
    except vf.BuildError as ex:
        c.broken.append("correspondence C01: implementation driver / model does not build: " + str(ex)[-400:]); c.finish()
    A = class_a()
    if c.replay:
        jobs = [l.strip() for l in open(c.replay) if l.startswith("RUN ")]
    else:
        jobs = gen_jobs(c.rng, quick)
    import time
    t0 = time.time()
    with cf.ThreadPoolExecutor(14) as ex:
        results = list(ex.map(lambda j: run_job(drv, j), jobs))
    c.step("correspond:impl", "%s RUN ... (%d planner runs, 14 at a time)" % (drv, len(jobs)), time.time() - t0, True)
    feed = []; recs = []
    for j, rc, out, err in results:
        pl = j.split()[1]; sp = j.split()[2]
        base = pl.rstrip("0123456789") if pl.startswith("EITstar") else pl
        isA = base in A; sym = sp not in NONSYM
        d = parse(out)
        recs.append((j, rc, d, isA, sym, err))
        feed.append("CLASS %s %d %d" % ("A" if isA else "B", 1 if sym else 0, tolerance(pl, float(j.split()[7]))))
        feed += [l for l in out.split("\n") if l and not l.startswith("RUNINFO")]
        if not d["end"]: feed.append("SKIP crashed"); feed.append("END")
    rc2, o2, e2, s2 = vf.sh([model, "ledger"], input="\n".join(feed) + "\n", timeout=3000)
    c.step("correspond:model", model + " ledger", s2, rc2 == 0)
    verdicts = o2.split("\n")
    stats = collections.Counter(); per_planner = collections.defaultdict(collections.Counter)
    first_pred = None; first_diff = None; npred = ndiff = 0; skipped = {}; crashed = []; uncovered_A = collections.Counter(); failures = collections.Counter(); covered_all = collections.Counter(); solved = collections.Counter()
    for k, (j, rc, d, isA, sym, err) in enumerate(recs):
        pl = j.split()[1]
        v = verdicts[k] if k < len(verdicts) else "?"
        if d["skip"] is not None: skipped[pl + " " + j.split()[2]] = d["skip"][:100]; stats["skipped"] += 1; continue
        if not d["end"] or d["status"] is None:
            crashed.append((j, rc, err)); stats["crashed"] += 1; continue
        if rc != 0: stats["nonzero_exit_after_report"] += 1; per_planner[pl]["nonzero_exit"] += 1
        msg = predicate(d, isA, sym, tolerance(pl, float(j.split()[7])))
        st = d["status"]["code"]; stats["status_%d" % st] += 1; per_planner[pl]["status_%d" % st] += 1
        if st in (5, 6) and d["P"]:
            solved[pl] += 1
            ids = [p["id"] for p in d["P"]]
            cov = all(a == b or (a, b) in d["ACC"] or (sym and (b, a) in d["ACC"]) for a, b in zip(ids, ids[1:]))
            if cov: covered_all[pl] += 1
            elif isA: uncovered_A[pl] += 1
        if msg:
            thr = float(j.split()[7])
            if thr == 0.0 and "outside the threshold" in msg and d["P"][-1]["gdist"] == 0 and \
               c.known_finding("C01-zero-threshold-goal-region", "%s: threshold 0 makes the goal region empty (GoalRegion::isSatisfied is d < threshold), yet the planner reports EXACT_SOLUTION with a path ending on the goal state itself ('%s')" % (pl, j)):
                stats["known_zero_threshold"] += 1; msg = None; v = "ok"
        if msg and j.split()[2] in ("DUBINS", "RS") and "outside the space bounds" in msg and \
           c.known_finding("C01-dubins-family-path-leaves-bounds", "%s on the %s space: %s — states produced by DubinsStateSpace / ReedsSheppStateSpace::interpolate (steering towards a sample, intermediate states) leave the bounds although both end states are inside; the planners add them without a bounds test ('%s')" % (pl, j.split()[2], msg, j)):
            stats["known_dubins_bounds"] += 1; msg = None; v = "ok"
        if msg:
            npred += 1; failures[pl + ": " + msg.split(" (")[0][:70]] += 1
            if first_pred is None: first_pred = (j, msg)
        # the model's verdict must agree with the predicate (ok <-> no message), except 'uncovered' which is the class-A ledger clause
        mv_ok = (v == "ok")
        if v == "uncovered":
            ndiff += 1
            if first_diff is None: first_diff = (j, "class-A planner %s reported a path with a consecutive pair that is not an accepted motion of the validator (the committed class table checks/c01_classA.txt no longer matches the code)" % pl)
        elif mv_ok != (msg is None):
            ndiff += 1
            if first_diff is None: first_diff = (j, "admission rule says '%s' but the independent predicate says '%s'" % (v, msg))
        stats["verdict_" + v] += 1
    nsolved = sum(solved.values())
    c.cov.update({"evaluations": len(jobs), "traces_validated_against_impl": len(jobs) - stats["skipped"] - stats["crashed"], "distinct_nontrivial": nsolved,
                  "rule": "planner table: %d planners x spaces {R2,SE2,R3,CMP,SE3,R6; Dubins and Reeds-Shepp for the 14 direction-aware planners} x environments {narrow gap, thin walls of 1.1-1.3 resolution lengths, blocked (no solution), random boxes / circles, empty} x 4 queries (1-2 starts) x range {default,.05,.3,1.5} x resolution {.5,1,2 %%} x goal threshold {0,.01,.05,.2} x random seeds; EIT* additionally with 2..5 initial sparse collision checks on thin / blocking walls; non-trivial = run that reported a solution path (every clause of the statement is evaluated on it)" % len(PLANNERS),
                  "disagreements": ndiff, "predicate_failures": npred, "predicate_failures_by_kind": dict(failures), "status_histogram": dict(stats), "solved_by_planner": dict(solved),
                  "fully_covered_by_accepted_motions": dict(covered_all), "class_A": sorted(A), "skipped": skipped, "excluded_planners": EXCLUDED,
                  "crashed_before_report": [(j, rc) for j, rc, e in crashed][:20]})
    # ---- EIT*'s multi-resolution edge validation, called directly on the start -> goal edge of a 1-D problem through
    #      generated histories of sparse levels: the tested positions equal those of EitModel (whose whitelisting theorem
    #      is proved), and an edge that the planner's isValid() accepts does not pass through an obstacle wider than two
    #      resolution lengths
    import struct
    try:
        edrv = c.build_driver("eit_driver", link_ompl=True)
    except vf.BuildError as ex:
        c.broken.append("correspondence C01: eit_driver does not build against /repo (EITstar internals renamed?): " + str(ex)[-300:]); c.finish()
    rng = c.rng; elines = ["EDGE 30 0.01 0.19 4 9 19", "EDGE 8 2 3 1 3"]
    for i in range(300 if quick else 6000):
        F = rng.choice([2, 3, 5, 8, 10, 16, 21, 30, 33, 47, 64, 100]) if i % 3 else rng.randint(2, 70)
        c0 = rng.choice([1, 1, 1, 2, 3, 4, 5, 7]); lv = []; cur = c0
        for _ in range(rng.randint(0, 5)): lv.append(cur); cur = 2 * cur + 1
        if rng.random() < 0.3: lo, hi = 2.0, 3.0
        else:
            w = rng.choice([0.5, 1.1, 2.2, 3.0, 6.0]) / F; lo = rng.choice([0.0005, rng.uniform(0.0005, max(0.001, 1 - w))]); hi = min(lo + w, 0.9995)     # never covers the start (0) or the goal (1)
        elines.append("EDGE %d %r %r %s" % (F, lo, hi, " ".join(map(str, lv))))
    rce, oe, ee, se = vf.sh([edrv], input="\n".join(elines) + "\n", timeout=600); c.step("correspond:impl-eitstar-edge", edrv, se, rce == 0)
    rcm, om, em, sm = vf.sh([model, "eit"], input="\n".join(elines) + "\n", timeout=600); c.step("correspond:model-eitstar-edge", model + " eit", sm, rcm == 0)
    def blocks(txt):
        out = []; cur = None
        for l in txt.split("\n"):
            if l.startswith("full") or l.startswith("skip"): cur = [l]; out.append(cur)
            elif cur is not None and l.strip(): cur.append(l)
        return out
    ib, mb = blocks(oe), blocks(om)
    neit = neit_bad = 0
    for k, el in enumerate(elines):
        a = ib[k] if k < len(ib) else ["<no output>"]; b = mb[k] if k < len(mb) else ["<no output>"]
        neit += 1
        def canon_impl(l):
            head, _, xs = l.partition("|")
            return head.split(), [struct.unpack("<d", struct.pack("<Q", int(h, 16)))[0] for h in xs.split()]
        def canon_model(l):
            head, _, xs = l.partition("|")
            return head.split(), [int(t.split("/")[0]) / int(t.split("/")[1]) for t in xs.split()]
        same = len(a) == len(b) and a[0] == b[0] and all(canon_impl(x) == canon_model(y) for x, y in zip(a[1:], b[1:]))
        if not same:
            neit_bad += 1; ndiff += 1
            if first_diff is None: first_diff = (el, "EIT* edge validation tested %s, EitModel %s" % (" ; ".join(a)[:300], " ; ".join(b)[:300]))
        fin = [x for x in a if x.startswith("final")]
        if fin:
            w = elines[k].split(); F = int(w[1]); lo, hi = float(w[2]), float(w[3])
            acc = fin[0].split()[1] == "1"
            if acc and 0 < lo and hi < 1 and (hi - lo) * F > 2.0:
                npred += 1; failures["eitstar-edge"] += 1
                if first_pred is None: first_pred = (el, "EIT*'s isValid() accepts (and whitelists) an edge of %d resolution segments that passes through an obstacle %.2f resolution lengths wide" % (F, (hi - lo) * F))
    c.cov.update({"eitstar_edge_histories": neit, "eitstar_edge_disagreements": neit_bad})
    # (c) geometric::RRT and RLRT (every third line; the node to extend from drawn from the tape) as wholes against RrtModel.rrt_solve / rlrt_solve: scripted sampler, goal-bias draws from the RNG tape, linear nearest
    #     neighbours, wall motion validator; the tree (states bit for bit, parents), the reported path, flag and difference must agree
    try:
        rdrv = c.build_driver("rrt_driver", link_ompl=True)
    except vf.BuildError as ex:
        c.broken.append("correspondence C01: rrt_driver does not build against /repo (RRT internals renamed?): " + str(ex)[-300:]); c.finish()
    import math
    def edist(a, b):     # RealVectorStateSpace::distance: sqrt of the sum of squared differences, in the library's order of operations
        dx = a[0] - b[0]; dy = a[1] - b[1]; return math.sqrt(0.0 + dx * dx + dy * dy)
    def coord(grid): return rng.choice([-1.0, -0.5, -0.25, 0.0, 0.25, 0.5, 0.75, 1.0, 1.25]) if grid else round(rng.uniform(-1.5, 1.5), 3)
    rlines = []
    for i in range(400 if quick else 12000):
        grid = rng.random() < 0.35
        walls = [(coord(grid), ) for _ in range(rng.choice([0, 1, 1, 2, 3]))]
        walls = [(w[0], lo, lo + rng.choice([0.25, 0.5, 1.0, 3.0])) for w in walls for lo in [coord(grid)]]
        starts = [(coord(grid), coord(grid)) for _ in range(rng.choice([1, 1, 1, 2, 3]))]
        g = (coord(grid), coord(grid)); npts = rng.choice([0, 1, 3, 8, 20, 60])
        pts = [(coord(grid), coord(grid)) for _ in range(npts)]
        if pts and rng.random() < 0.3: pts[rng.randrange(len(pts))] = g
        rlines.append("%s %g %g %g %d %d W %d %s S %d %s G %r %r P %d %s" % ("RRT" if i % 3 else "RLRT", rng.choice([0.1, 0.3, 0.5, 1.0, 10.0]), rng.choice([0.0, 0.05, 0.25, 0.5, 1.0]), rng.choice([0.0, 0.05, 0.2, 0.5]),
                      rng.choice([0, 1, 5, 20, 80]), rng.randint(0, 10 ** 6), len(walls), " ".join("%r %r %r" % w for w in walls), len(starts), " ".join("%r %r" % q for q in starts), g[0], g[1], len(pts), " ".join("%r %r" % q for q in pts)))
    rcr, orr, err_, srr = vf.sh([rdrv], input="\n".join(rlines) + "\n", timeout=900); c.step("correspond:impl-rrt", rdrv, srr, rcr == 0)
    rcq, oq, eq, sq = vf.sh([model, "rrt"], input="\n".join(rlines) + "\n", timeout=900); c.step("correspond:model-rrt", model + " rrt", sq, rcq == 0)
    il, ml = [l for l in orr.split("\n") if l.startswith(("rrt ", "rlrt "))], [l for l in oq.split("\n") if l.startswith(("rrt ", "rlrt "))]
    nrrt_bad = 0; rrt_stats = collections.Counter()
    def fl(h): return struct.unpack("<d", struct.pack("<Q", int(h, 16)))[0]
    def canon_rrt(l):
        parts = [x.strip() for x in l.split("|")]
        if len(parts) >= 2 and parts[1].startswith("1 0"): parts[1] = "1 0 -"      # the difference of an exact solution is not recorded by the problem definition
        return parts
    def touches(k, a, b):
        w, lo, hi = k
        if (a[0] - w) * (b[0] - w) > 0.0: return False
        if a[0] == b[0]: return (a[1] <= hi and lo <= b[1]) if a[1] <= b[1] else (b[1] <= hi and lo <= a[1])
        t = (w - a[0]) / (b[0] - a[0]); y = a[1] + t * (b[1] - a[1]); return lo <= y <= hi
    for k, rl in enumerate(rlines):
        a = il[k] if k < len(il) else "<no output>"; b = ml[k] if k < len(ml) else "<no output>"
        if canon_rrt(a) != canon_rrt(b):
            nrrt_bad += 1; ndiff += 1
            if first_diff is None or len(rl) < len(first_diff[0]): first_diff = (rl, "geometric::RRT / RLRT: implementation '%s' RrtModel '%s'" % (a[:300], b[:300]))
        # the statement on the implementation's own tree and report
        try:
            w = rl.split(); nw = int(w[7]); walls = [(float(w[8 + 3 * j]), float(w[9 + 3 * j]), float(w[10 + 3 * j])) for j in range(nw)]
            o = 8 + 3 * nw; ns = int(w[o + 1]); starts = [(float(w[o + 2 + 2 * j]), float(w[o + 3 + 2 * j])) for j in range(ns)]
            o = o + 2 + 2 * ns; goal = (float(w[o + 1]), float(w[o + 2])); thr = float(w[3])
            parts = [x.strip() for x in a.split("|")]
            nodes = [(fl(t.split()[0]), fl(t.split()[1]), int(t.split()[2])) for t in parts[0].split(";")[1:] if t.strip()]
            bad = None
            for j, (x, y, p) in enumerate(nodes):
                if p < 0:
                    if (x, y) not in starts: bad = "root %d is not a start state" % j
                elif not (p < j) or any(touches(kk, nodes[p][:2], (x, y)) for kk in walls): bad = "tree motion %d -> %d crosses a wall (or parent index not earlier)" % (p, j)
            rep = parts[1].split()
            if rep[0] == "1":
                path = [(fl(t.split()[0]), fl(t.split()[1])) for t in parts[2].split(";") if t.strip()]
                edges = set((nodes[p][:2], (x, y)) for (x, y, p) in nodes if p >= 0)
                if not path or path[0] not in starts: bad = "the reported path does not begin at a start state"
                elif any((u, v) not in edges for u, v in zip(path, path[1:])): bad = "the reported path contains a motion that is not a tree motion"
                elif rep[1] == "0" and not (edist(path[-1], goal) < thr): bad = "exact solution ends %r from the goal (threshold %r)" % (edist(path[-1], goal), thr)
                elif rep[1] == "1" and abs(fl(rep[2]) - edist(path[-1], goal)) > 1e-12: bad = "approximate solution reports difference %r, its last state is %r from the goal" % (fl(rep[2]), edist(path[-1], goal))
                rrt_stats["exact" if rep[1] == "0" else "approximate"] += 1
            else: rrt_stats["none"] += 1
            rrt_stats["nodes"] += len(nodes)
            if bad:
                npred += 1; failures["rrt-script"] += 1
                if first_pred is None: first_pred = (rl, "geometric::%s (scripted): " % rl.split()[0] + bad)
        except Exception as ex:
            npred += 1; failures["rrt-script"] += 1
            if first_pred is None: first_pred = (rl, "geometric::RRT (scripted): no observation (%s) %s" % (ex, a[:80]))
    c.cov.update({"rrt_scripts": len(rlines), "rrt_disagreements": nrrt_bad, "rrt_reports": dict(rrt_stats)})
    # (d) geometric::RRTConnect as a whole against RrtConnectModel.rc_solve: both trees (bit for bit, parents), the reported path and flag
    clines = []
    for i in range(400 if quick else 12000):
        grid = rng.random() < 0.35
        walls = [(coord(grid), lo, lo + rng.choice([0.25, 0.5, 1.0, 3.0])) for _ in range(rng.choice([0, 1, 1, 2, 3])) for lo in [coord(grid)]]
        starts = [(coord(grid), coord(grid)) for _ in range(rng.choice([1, 1, 2, 3]))]
        goals = [(coord(grid), coord(grid)) for _ in range(rng.choice([1, 1, 2, 4]))]
        pts = [(coord(grid), coord(grid)) for _ in range(rng.choice([0, 1, 3, 8, 20, 50]))]
        clines.append("RRTC %g W %d %s S %d %s G %d %s P %d %s" % (rng.choice([0.1, 0.3, 0.5, 1.0, 10.0]), len(walls), " ".join("%r %r %r" % w for w in walls), len(starts), " ".join("%r %r" % q for q in starts),
                      len(goals), " ".join("%r %r" % q for q in goals), len(pts), " ".join("%r %r" % q for q in pts)))
    rcc, occ, ecc, scc = vf.sh([rdrv], input="\n".join(clines) + "\n", timeout=900); c.step("correspond:impl-rrtconnect", rdrv, scc, rcc == 0)
    rcd, ocd, ecd, scd = vf.sh([model, "rrt"], input="\n".join(clines) + "\n", timeout=900); c.step("correspond:model-rrtconnect", model + " rrt", scd, rcd == 0)
    icl, mcl = [l for l in occ.split("\n") if l.startswith("rrtc")], [l for l in ocd.split("\n") if l.startswith("rrtc")]
    nrc_bad = 0; rc_stats = collections.Counter()
    for k, cl in enumerate(clines):
        a = icl[k].strip() if k < len(icl) else "<no output>"; b = mcl[k].strip() if k < len(mcl) else "<no output>"
        if a != b:
            nrc_bad += 1; ndiff += 1
            if first_diff is None or len(cl) < len(first_diff[0]): first_diff = (cl, "geometric::RRTConnect: implementation '%s' RrtConnectModel '%s'" % (a[:300], b[:300]))
        # the statement on the implementation's own trees and report: the path runs from a start state to a goal state (exact) along
        # motions that do not touch a wall in the direction they are traversed; an approximate path lies in the start tree
        try:
            w = cl.split(); nw = int(w[3]); walls = [(float(w[4 + 3 * j]), float(w[5 + 3 * j]), float(w[6 + 3 * j])) for j in range(nw)]
            o = 4 + 3 * nw; ns = int(w[o + 1]); starts = [(float(w[o + 2 + 2 * j]), float(w[o + 3 + 2 * j])) for j in range(ns)]
            o = o + 2 + 2 * ns; ng = int(w[o + 1]); goals = [(float(w[o + 2 + 2 * j]), float(w[o + 3 + 2 * j])) for j in range(ng)]
            parts = [x.strip() for x in a.split("|")]; rep = parts[1].split()
            rc_stats["none" if rep[0] != "1" else ("exact" if rep[1] == "0" else "approximate")] += 1
            if rep[0] == "1":
                path = [(fl(t.split()[0]), fl(t.split()[1])) for t in parts[2].split(";") if t.strip()]
                bad = None
                if not path or path[0] not in starts: bad = "the reported path does not begin at a start state"
                elif any(touches(kk, u, v) for u, v in zip(path, path[1:]) for kk in walls): bad = "the reported path contains a motion that touches a wall"
                elif rep[1] == "0" and path[-1] not in goals: bad = "the exact solution does not end at a goal state"
                elif rep[1] == "1" and abs(fl(rep[2]) - min(edist(path[-1], g) for g in goals)) > 1e-12: bad = "approximate solution reports difference %r, its last state is %r from the goal" % (fl(rep[2]), min(edist(path[-1], g) for g in goals))
                if bad:
                    npred += 1; failures["rrtconnect-script"] += 1
                    if first_pred is None: first_pred = (cl, "geometric::RRTConnect (scripted): " + bad)
        except Exception as ex:
            npred += 1; failures["rrtconnect-script"] += 1
            if first_pred is None: first_pred = (cl, "geometric::RRTConnect (scripted): no observation (%s) %s" % (ex, a[:80]))
    # (e) geometric::LazyRRT as a whole against LazyRrtModel.lazy_solve: the tree after lazy validation and subtree removal (states,
    #     parents, validated flags), the reported path
    llines = []
    for i in range(400 if quick else 12000):
        grid = rng.random() < 0.35
        walls = [(coord(grid), lo, lo + rng.choice([0.25, 0.5, 1.0, 3.0])) for _ in range(rng.choice([0, 1, 1, 2, 3])) for lo in [coord(grid)]]
        starts = [(coord(grid), coord(grid)) for _ in range(rng.choice([1, 1, 2, 3]))]
        g = (coord(grid), coord(grid)); pts = [(coord(grid), coord(grid)) for _ in range(rng.choice([0, 1, 3, 8, 20, 60]))]
        if pts and rng.random() < 0.3: pts[rng.randrange(len(pts))] = g
        llines.append("LRRT %g %g %g %d %d W %d %s S %d %s G %r %r P %d %s" % (rng.choice([0.1, 0.3, 0.5, 1.0, 10.0]), rng.choice([0.0, 0.05, 0.25, 0.5, 1.0]), rng.choice([0.05, 0.2, 0.5]),
                      rng.choice([0, 1, 5, 20, 80]), rng.randint(0, 10 ** 6), len(walls), " ".join("%r %r %r" % w for w in walls), len(starts), " ".join("%r %r" % q for q in starts), g[0], g[1], len(pts), " ".join("%r %r" % q for q in pts)))
    rcl, ocl, ecl, scl = vf.sh([rdrv], input="\n".join(llines) + "\n", timeout=900); c.step("correspond:impl-lazyrrt", rdrv, scl, rcl == 0)
    rcn, ocn, ecn, scn = vf.sh([model, "rrt"], input="\n".join(llines) + "\n", timeout=900); c.step("correspond:model-lazyrrt", model + " rrt", scn, rcn == 0)
    ill, mll = [l for l in ocl.split("\n") if l.startswith("lrrt")], [l for l in ocn.split("\n") if l.startswith("lrrt")]
    nlz_bad = 0; lz_stats = collections.Counter()
    for k, ll in enumerate(llines):
        a = ill[k].strip() if k < len(ill) else "<no output>"; b = mll[k].strip() if k < len(mll) else "<no output>"
        if a != b:
            nlz_bad += 1; ndiff += 1
            if first_diff is None or len(ll) < len(first_diff[0]): first_diff = (ll, "geometric::LazyRRT: implementation '%s' LazyRrtModel '%s'" % (a[:300], b[:300]))
        try:    # the reported path: from a start state, no motion touches a wall, ends strictly inside the goal threshold
            w = ll.split(); nw = int(w[7]); walls = [(float(w[8 + 3 * j]), float(w[9 + 3 * j]), float(w[10 + 3 * j])) for j in range(nw)]
            o = 8 + 3 * nw; ns = int(w[o + 1]); starts = [(float(w[o + 2 + 2 * j]), float(w[o + 3 + 2 * j])) for j in range(ns)]
            o = o + 2 + 2 * ns; goal = (float(w[o + 1]), float(w[o + 2])); thr = float(w[3])
            parts = [x.strip() for x in a.split("|")]; rep = parts[1].split()
            lz_stats["solved" if rep[0] == "1" else "none"] += 1
            if rep[0] == "1":
                path = [(fl(t.split()[0]), fl(t.split()[1])) for t in parts[2].split(";") if t.strip()]
                bad = None
                if not path or path[0] not in starts: bad = "the reported path does not begin at a start state"
                elif any(touches(kk, u, v) for u, v in zip(path, path[1:]) for kk in walls): bad = "the reported path contains a motion that touches a wall (lazy validation skipped it)"
                elif not (edist(path[-1], goal) < thr): bad = "the solution ends %r from the goal (threshold %r)" % (edist(path[-1], goal), thr)
                if bad:
                    npred += 1; failures["lazyrrt-script"] += 1
                    if first_pred is None: first_pred = (ll, "geometric::LazyRRT (scripted): " + bad)
        except Exception as ex:
            npred += 1; failures["lazyrrt-script"] += 1
            if first_pred is None: first_pred = (ll, "geometric::LazyRRT (scripted): no observation (%s) %s" % (ex, a[:80]))
    # (f) geometric::EST as a whole against EstModel.est_solve on Coq's primitive binary64 floats (vm_compute; no OCaml copy of the
    #     formulas): node selection by the PDF (PdfModel inside), neighbourhood counts, density rejection, weights; tree, report, weights
    def cfl(x):
        h = float(x).hex()
        return "(%s)%%float" % h if x >= 0 and not (x == 0 and math.copysign(1, x) < 0) else "(- (%s))%%float" % float(-x).hex()
    def q10(x): return round(x * 1024) / 1024.0
    elines = []; eterms = []
    for i in range(150 if quick else 3000):
        md = rng.choice([1.5, 3.0, 6.0]); bias = rng.choice([0.0, 0.0625, 0.125, 0.25]); thr = rng.choice([0.25, 0.5, 1.0]); iters = rng.choice([0, 1, 5, 15, 40, 40])
        walls = [(q10(rng.uniform(0, 10)), lo, lo + rng.choice([0.5, 2.0, 6.0])) for _ in range(rng.choice([0, 1, 1, 2])) for lo in [q10(rng.uniform(0, 8))]]
        starts = [(q10(rng.uniform(0, 10)), q10(rng.uniform(0, 10)))]
        for _ in range(rng.choice([0, 0, 1, 2])):
            b0 = rng.choice(starts); starts.append((q10(b0[0] + rng.uniform(-md / 2, md / 2)), q10(b0[1] + rng.uniform(-md / 2, md / 2))) if rng.random() < 0.6 else (q10(rng.uniform(0, 10)), q10(rng.uniform(0, 10))))
        g = (q10(rng.uniform(0, 10)), q10(rng.uniform(0, 10)))
        tape = [rng.randrange(256) / 256.0 for _ in range(3 * iters + 4)]
        pts = list(starts); samples = []
        for _ in range(iters):
            r = rng.random()
            if r < 0.08: samples.append(None); continue
            if r < 0.75: b0 = rng.choice(pts); p = (q10(b0[0] + rng.uniform(-md / 2, md / 2)), q10(b0[1] + rng.uniform(-md / 2, md / 2)))
            elif r < 0.8: p = rng.choice(pts)                        # a repeated state: distance 0, equal keys in the neighbour sort
            else: p = (q10(rng.uniform(0, 10)), q10(rng.uniform(0, 10)))
            samples.append(p); pts.append(p)
        real_rng = i % 4 == 3        # every fourth run draws from the library's own generator (mt19937 behind a local seed): RngModel supplies the model's tape
        lseed = rng.randint(1, 10 ** 9)
        elines.append("EST %r %r %r %d W %d %s S %d %s G %r %r T %s P %d %s" % (md, bias, thr, iters, len(walls), " ".join("%r %r %r" % w for w in walls), len(starts), " ".join("%r %r" % q for q in starts),
                      g[0], g[1], ("-1 %d" % lseed) if real_rng else ("%d %s" % (len(tape), " ".join("%r" % u for u in tape))), len(samples), " ".join("- -" if q is None else "%r %r" % q for q in samples)))
        eterms.append("est_float %s %s %s %d [%s] [%s] (%s, %s) [%s] [%s]" % (cfl(md), cfl(bias), cfl(thr), iters, "; ".join("(%s, %s, %s)" % tuple(map(cfl, w)) for w in walls), "; ".join("(%s, %s)" % tuple(map(cfl, q)) for q in starts),
                      cfl(g[0]), cfl(g[1]), ("XRNG%dXEND" % lseed) if real_rng else "; ".join(map(cfl, tape)), "; ".join("None" if q is None else "Some (%s, %s)" % tuple(map(cfl, q)) for q in samples)))
    import re as _re2
    eterms = [_re2.sub(r"\[XRNG(\d+)XEND\]", lambda m_: "(rng_uniform01_stream %s%%N 130)" % m_.group(1), t_) for t_ in eterms]
    rce, oce, ece, sce = vf.sh([rdrv], input="\n".join(elines) + "\n", timeout=900); c.step("correspond:impl-est", rdrv, sce, rce == 0)
    iel = [l for l in oce.split("\n") if l.startswith("est")]
    mel = []; tm = 0.0
    for a0 in range(0, len(eterms), 150):
        src = "From Coq Require Import Floats List NArith. From OmplV Require Import EstFloat RngModel. Import ListNotations.\nLocal Open Scope float_scope.\nEval vm_compute in [\n" + ";\n".join(eterms[a0:a0 + 150]) + "].\n"
        pth = os.path.join(c.outdir, "est_cases_%d.v" % a0); open(pth, "w").write(src)
        rcm, ocm, ecm, scm = vf.sh("timeout 900 coqc -Q %s OmplV %s" % (vf.COQ, pth), timeout=1000); tm += scm
        if rcm != 0: c.broken.append("model evaluation (coqc est_cases) failed: " + (ecm or ocm)[-300:]); break
        txt = ocm[ocm.index("["):ocm.rindex("]") + 1].replace("%float", "").replace(";", ",")
        mel += eval(txt, {"__builtins__": {}, "infinity": float("inf"), "neg_infinity": float("-inf"), "nan": float("nan")})
    c.step("correspond:model-est", "coqc est_cases_*.v (Eval vm_compute, EstFloat on PrimFloat)", tm, not c.broken)
    def fb(x): return struct.unpack("<Q", struct.pack("<d", x))[0]
    nest_bad = 0; est_stats = collections.Counter()
    for k, el in enumerate(elines):
        a = iel[k].strip() if k < len(iel) else "<no output>"
        try:
            parts = [x.strip() for x in a.split("|")]
            nodes = [t.split() for t in parts[0].split(";")[1:] if t.strip()]
            itree = [v for t in nodes for v in (int(t[0], 16), int(t[1], 16), fb(float(int(t[2]))))]
            rep = parts[1].split(); irep = [] if rep[0] != "1" else [fb(float(int(rep[1]))), int(rep[2], 16)] + [int(x, 16) for t in parts[2].split(";") if t.strip() for x in t.split()]
            iw = [int(x, 16) for x in parts[3].split()]
            est_stats["none" if rep[0] != "1" else ("exact" if rep[1] == "0" else "approximate")] += 1; est_stats["nodes"] += len(nodes)
            est_stats["weights_below_one"] += sum(1 for x in iw if x != fb(1.0))
            if k < len(mel):
                m = mel[k]; mrep = [fb(float(x)) for x in m[1]]
                if len(mrep) > 1 and len(irep) > 1 and mrep[0] == fb(0.0) and irep[0] == fb(0.0): mrep[1] = irep[1] = 0      # the difference of an exact solution is not recorded by the problem definition
                same = [fb(float(x)) for x in m[0]] == itree and mrep == irep and [fb(float(x)) for x in m[2]] == iw
                if not same:
                    nest_bad += 1; ndiff += 1
                    if first_diff is None or len(el) < len(first_diff[0]): first_diff = (el, "geometric::EST: implementation '%s' EstModel (tree, report, weights) %r" % (a[:300], m))
            # EstWeights.est_weights (over R): the weight of motion j is 1 / (1 + other motions within the radius maxDistance / 3)
            pts_ = [(fl(t[0]), fl(t[1])) for t in nodes]; rad_ = float(el.split()[1]) / 3.0
            for j_, wj in enumerate(iw):
                cnt_ = sum(1 for k_ in range(len(pts_)) if k_ != j_ and edist(pts_[k_], pts_[j_]) <= rad_)
                if abs(fl("%016x" % wj) - 1.0 / (1 + cnt_)) > 1e-12:
                    nest_bad += 1; ndiff += 1
                    if first_diff is None or len(el) < len(first_diff[0]): first_diff = (el, "geometric::EST: the PDF weight of motion %d is %r, the theorem EstWeights.est_weights gives 1 / (1 + %d neighbours)" % (j_, fl("%016x" % wj), cnt_))
                    break
            w = el.split(); nw = int(w[6]); walls = [(float(w[7 + 3 * j]), float(w[8 + 3 * j]), float(w[9 + 3 * j])) for j in range(nw)]
            o = 7 + 3 * nw; ns = int(w[o + 1]); starts = [(float(w[o + 2 + 2 * j]), float(w[o + 3 + 2 * j])) for j in range(ns)]
            o = o + 2 + 2 * ns; goal = (float(w[o + 1]), float(w[o + 2])); thr = float(w[3])
            if rep[0] == "1":
                path = [(fl(t.split()[0]), fl(t.split()[1])) for t in parts[2].split(";") if t.strip()]
                bad = None
                if not path or path[0] not in starts: bad = "the reported path does not begin at a start state"
                elif any(touches(kk, u, v) for u, v in zip(path, path[1:]) for kk in walls): bad = "the reported path contains a motion that touches a wall"
                elif rep[1] == "0" and not (edist(path[-1], goal) < thr): bad = "the exact solution ends %r from the goal (threshold %r)" % (edist(path[-1], goal), thr)
                elif rep[1] == "1" and edist(path[-1], goal) < thr: bad = "a path that ends within the goal threshold is reported as approximate"
                if bad:
                    npred += 1; failures["est-script"] += 1
                    if first_pred is None: first_pred = (el, "geometric::EST (scripted): " + bad)
        except Exception as ex:
            npred += 1; failures["est-script"] += 1
            if first_pred is None: first_pred = (el, "geometric::EST (scripted): no observation (%s) %s" % (ex, a[:80]))
    # (g) geometric::RRTstar as a whole (k-nearest, delayed collision checking; path length and the direction-dependent mechanical work)
    #     against RrtStarModel.star_solve on primitive floats: every motion with parent, incCost and cost, the report with stored cost / optimized
    #     (lib/rrtstar_scripts.py, shared with the C04 check, which judges the cost bookkeeping of the same kind of runs)
    import rrtstar_scripts as rss
    slines, sterms = rss.gen(rng, 120 if quick else 2500)
    rcs, ocs, ecs, scs = vf.sh([rdrv], input="\n".join(slines) + "\n", timeout=900); c.step("correspond:impl-rrtstar", rdrv, scs, rcs == 0)
    isl = [l for l in ocs.split("\n") if l.startswith("rrts")]
    msl = []; tms2 = 0.0
    for a0 in range(0, len(sterms), 120):
        src = "From Coq Require Import Floats List. From OmplV Require Import EstFloat RrtStarFloat. Import ListNotations.\nLocal Open Scope float_scope.\nEval vm_compute in [\n" + ";\n".join(sterms[a0:a0 + 120]) + "].\n"
        pth = os.path.join(c.outdir, "star_cases_%d.v" % a0); open(pth, "w").write(src)
        rcm, ocm, ecm, scm = vf.sh("timeout 1500 coqc -Q %s OmplV %s" % (vf.COQ, pth), timeout=1600); tms2 += scm
        if rcm != 0: c.broken.append("model evaluation (coqc star_cases) failed: " + (ecm or ocm)[-300:]); break
        txt = ocm[ocm.index("["):ocm.rindex("]") + 1].replace("%float", "").replace(";", ",")
        msl += eval(txt, {"__builtins__": {}, "infinity": float("inf"), "neg_infinity": float("-inf"), "nan": float("nan")})
    c.step("correspond:model-rrtstar", "coqc star_cases_*.v (Eval vm_compute, RrtStarFloat on PrimFloat)", tms2, not c.broken)
    nstar_bad = 0; star_stats = collections.Counter()
    for k, sl in enumerate(slines):
        a = isl[k].strip() if k < len(isl) else "<no output>"
        try:
            jd = rss.judge(sl, a); rep = jd["rep"]
            star_stats["none" if rep[0] != "1" else ("exact" if rep[1] == "0" else "approximate")] += 1; star_stats["nodes"] += len(jd["nodes"])
            star_stats["rewired"] += sum(1 for j_, t in enumerate(jd["nodes"]) if int(t[2]) > j_)
            if k < len(msl):
                m = msl[k]; same = [fb(float(x)) for x in m[0]] == jd["itree"] and [fb(float(x)) for x in m[1]] == jd["irep"]
                if not same and jd["dup"]: star_stats["ties_no_verdict"] += 1          # equal keys in std::sort (duplicate states): the order is the library's choice
                elif not same:
                    nstar_bad += 1; ndiff += 1
                    if first_diff is None or len(sl) < len(first_diff[0]): first_diff = (sl, "geometric::RRTstar: implementation '%s' RrtStarModel (motions, report) %r" % (a[:400], m))
            if jd["path_bad"]:
                npred += 1; failures["rrtstar-script"] += 1
                if first_pred is None: first_pred = (sl, "geometric::RRTstar (scripted): " + jd["path_bad"])
            if jd["cost_bad"]: star_stats["cost_bookkeeping_failures(C04)"] += 1
        except Exception as ex:
            npred += 1; failures["rrtstar-script"] += 1
            if first_pred is None: first_pred = (sl, "geometric::RRTstar (scripted): no observation (%s) %s" % (ex, a[:80]))
    c.cov.update({"rrtstar_scripts": len(slines), "rrtstar_disagreements": nstar_bad, "rrtstar_reports": dict(star_stats)})
    c.cov.update({"est_scripts": len(elines), "est_disagreements": nest_bad, "est_reports": dict(est_stats)})
    c.cov.update({"lazyrrt_scripts": len(llines), "lazyrrt_disagreements": nlz_bad, "lazyrrt_reports": dict(lz_stats)})
    c.cov.update({"rrtconnect_scripts": len(clines), "rrtconnect_disagreements": nrc_bad, "rrtconnect_reports": dict(rc_stats)})
    c.cov["samples"] = jobs[:3]
    c.cov["trusted_base"] += ["harness/rrt_driver.cpp (scripted sampler, wall motion validator, reaches RRT::nn_ by re-declaring protected as public for that header) + extract/rrt_driver.ml (the same binary64 formulas for distance, steering, wall test, goal)",
                             "harness/eit_driver.cpp reaches EITstar::couldBeValid / isValid by re-declaring private as public for that header; extract/eit_driver.ml",
                             "extraction (ExtrOcamlBasic) + extract/ledger_driver.ml; harness/planner_driver.cpp + planning_common.h (logging validity checker and motion validator, state numbering by exact coordinates, dense re-sampling of every path segment at 1/8 resolution length)"]
    c.assumptions += ["partial: soundness of the admission rule and of the library's path check is proved; that each planner's code only produces admissible reports is checked per run, not proved",
                      "validity depends on the first two coordinates only; wall-clock bounded runs are not bit-reproducible for anytime planners (the RUN line + seed is the replay)"]
    # a run that never returned (hang, crash) is outside C01's statement ("whenever a planner returns a solution status");
    # it is counted here and is the subject of C03
    if crashed: c.log("runs that did not return (counted, subject of C03):", [(j, rc) for j, rc, e in crashed][:5])
    if first_pred:
        j, msg = first_pred
        c.violation("implementation violates C01: %s on '%s'" % (msg, j), "# C01 replay: bin/check C01 --replay <this file>  (or: build/harness/planner_driver <the line>)\n%s\n" % j)
    elif first_diff:
        j, msg = first_diff
        c.broken.append("correspondence C01 (planner reports vs LedgerModel.adjudicate; EIT* edge validation vs EitModel; geometric::RRT / RRTConnect / LazyRRT vs RrtModel / RrtConnectModel / LazyRrtModel): %s on '%s'" % (msg, j))
    c.finish()


main()
