"""C08 — bound enforcement and every sampler keep states inside the space.
prove:      coq/Properties_C08.v (enforceBounds: no-op inside, lands inside, idempotent, SO(2) keeps the rotation; uniform /
            near / Gaussian samplers of R^n and SO(2) land inside for every variate; valid-state sampler loops return
            success only with a valid, in-bounds state)
correspond: enforceBounds / satisfiesBounds and the default samplers (uniform, near, Gaussian; compound weighting) of
            generated spaces of /repo, driven by a tape of variates through the RNG hook, vs the SAME Gallina definitions
            on binary64 (vm_compute), bit for bit; the six valid-state samplers on scripted draws vs the extracted model
search:     the C08 statement on the implementation: flags of every observation above, plus random law search on every
            shipped space (LAWS) and the valid-state samplers on real spaces with a geometric validity predicate
"""
import os, math
import vf
from spaces_common import *

KNOWN = {}
C08_LAWS = ["enforce-noop", "enforce-satisfies", "enforce-idempotent", "sampler-in-bounds"]
US = [0.0, 1 - 2 ** -53, 0.5, 2 ** -53, 0.25]
GS = [0.0, 0.5, -0.5, 1.0, -1.0, 3.0, -3.0, 40.0, -40.0]
DS = [0.0, 1e-12, 0.3, 1.0, 10.0, 1e3, 1e6]


def fval(h): return struct.unpack("<d", struct.pack("<Q", h))[0]


def main():
    c = vf.Check("C08", "proof")
    quick = c.tier == "quick"
    c.prove("Properties_C08.v")
    if not quick: c.coqchk("Properties_C08")
    try:
        c.build_ompl(); drv = c.build_driver("space_driver", link_ompl=True)
    except vf.BuildError as ex:
        c.broken.append("correspondence C08: implementation driver does not build: " + str(ex)[-400:]); c.finish()
    rng = c.rng
    R = Runner(c, drv)
    meta = []
    for i in range(100 if quick else 2500):
        sp = gen_space(rng, rng.randint(0, 3))
        ops = []; mm = []
        nv = sp.nvals()
        big = DS + ([] if sp.has("DI") else [1e12, 1e300])
        for j in range(6):
            mode = ["in", "seam", "out", "out", "in", "out"][j]
            a = gen_vals(rng, sp, mode)
            sa = sp.state_coq(a)
            ops.append(("ENF " + vals_hex(a), "OEnf " + sa)); mm.append(("E", mode, a))
            ops.append(("SAT " + vals_hex(a), "OSat " + sa)); mm.append(("S", mode, a))
        for j in range(6):
            tape = [rng.choice(US + [rng.random(), rng.random()]) for _ in range(nv + 2)]
            ops.append(("SU " + vals_hex(tape), "OSampleU [%s]" % "; ".join(cq(x) for x in tape))); mm.append(("U", None, tape))
            near = gen_vals(rng, sp, ["in", "seam"][j % 2]); sn = sp.state_coq(near)
            d = rng.choice(big + [rng.uniform(0, 5)])
            ops.append(("SN %s %s | %s" % (fhex(d), vals_hex(tape), vals_hex(near)), "ONear %s [%s] %s" % (cq(d), "; ".join(cq(x) for x in tape), sn))); mm.append(("N", d, near))
            gt = [rng.choice(GS + [rng.gauss(0, 1), rng.gauss(0, 1)]) for _ in range(nv + 2)]
            sd = rng.choice(big + [rng.uniform(0, 5)])
            ops.append(("SG %s %s | %s" % (fhex(sd), vals_hex(gt), vals_hex(near)), "OGauss %s [%s] %s" % (cq(sd), "; ".join(cq(x) for x in gt), sn))); mm.append(("G", sd, near))
        # the RNG's range functions on chosen variates: uniformReal, uniformInt, halfNormalReal, halfNormalInt, gaussian
        for j in range(5):
            k = rng.randint(0, 4)
            if k in (1, 3): lo = float(rng.randint(-50, 50)); hi = lo + rng.choice([0, 0, 1, 2, 7, 100])
            else: lo = rng.choice([-2.5, 0.0, 1e-9, -1e6, 3.0]); hi = lo + rng.choice([0.0, 1e-12, 1.0, 2.5, 1e9])
            cpar = rng.choice([0.5, 1.0, 3.0, 1e-3, 1e6])
            v = rng.choice(US + [rng.random()]) if k in (0, 1) else rng.choice(GS + [rng.gauss(0, 1), rng.gauss(0, 3)])
            if k == 4: hi = rng.choice([0.0, 1.0, 2.5, 1e6])     # (mean, stddev)
            ops.append(("RNG %d %s %s %s %s" % (k, fhex(lo), fhex(hi), fhex(cpar), fhex(v)), "ORng %d %s %s %s %s" % (k, cq(lo), cq(hi), cq(cpar), cq(v)))); mm.append(("R", k, (lo, hi)))
        R.add(sp, ops); meta.append(mm)
    impl, model = R.run("c08")
    ndiff = npred = nev = 0; first_diff = None; first_pred = None
    distinct = set(); opk = {}
    def pred(sp, il, msg):
        nonlocal npred, first_pred
        npred += 1
        if first_pred is None or len(sp.spec()) + len(il) < len(first_pred[0]) + len(first_pred[1]): first_pred = (sp.spec(), il, msg)
    for (sp, ops), io, mo, mm in zip(R.groups, impl, model, meta):
        if sp.kind == "CO": distinct.add(sp.spec())
        for (il, ct), a, m, (kind, par, va) in zip(ops, io, mo, mm):
            nev += 1; opk[kind] = opk.get(kind, 0) + 1
            w = a.split()
            if kind == "S":
                ok = len(w) == 2 and float(w[1]) == m[0]
                ib, fl = [1], []
            else:
                ib, fl = impl_bits(a) if a else ([], [])
                ok = same_bits(ib, m)
            if not ok:
                ndiff += 1
                if first_diff is None or len(il) + len(sp.spec()) < len(first_diff[1]) + len(first_diff[0]): first_diff = (sp.spec(), il, a, m)
            if not ib: pred(sp, il, "no observation (crash?)"); continue
            if kind == "E":
                vals = [fval(h) for h in ib]
                if fl[:1] != ["1"]: pred(sp, il, "enforceBounds leaves a finite state outside the bounds")
                if fl[1:2] != ["1"]: pred(sp, il, "enforceBounds is not idempotent")
                if par in ("in", "seam") and any(not (x == y) for x, y in zip(vals, va)): pred(sp, il, "enforceBounds changes an in-bounds state")
            elif kind == "R":
                out = fval(ib[0]); lo, hi = va
                if par != 4 and not (lo <= out <= hi): pred(sp, il, "RNG::%s(%r, %r) returned %r, outside the requested range" % (["uniformReal", "uniformInt", "halfNormalReal", "halfNormalInt"][par], lo, hi, out))
                if par in (1, 3) and out != math.floor(out): pred(sp, il, "RNG integer function returned a non-integer")
            elif kind == "S":
                if par in ("in", "seam") and w[1:] != ["1"]: pred(sp, il, "generated in-bounds state does not satisfy the bounds (generator or satisfiesBounds)")
            else:
                if fl[:1] != ["1"]: pred(sp, il, {"U": "sampleUniform", "N": "sampleUniformNear", "G": "sampleGaussian"}[kind] + " returned a state outside the bounds")
    # ---- valid-state samplers: scripted draws vs the extracted model, then real spaces with a geometric predicate
    try:
        vdrv = c.build_driver("vss_driver", link_ompl=True); mbin = c.build_model()
    except vf.BuildError as ex:
        c.broken.append("correspondence C08: valid-state sampler driver / model does not build: " + str(ex)[-400:]); c.finish()
    vlines = []
    KINDS = ["uniform", "gaussian", "obstacle", "bridge", "maxclear", "minclear"]
    for i in range(600 if quick else 20000):
        k = KINDS[i % 6]
        att = rng.choice([0, 1, 1, 2, 3, 5, 8]); imp = rng.choice([0, 1, 3]); clr = rng.choice([0, 1, 3, 6, 7])
        p_inv = rng.choice([0.2, 0.5, 0.8, 1.0])
        tape = []
        for _ in range(rng.randint(0, 2 * att + imp + 6)):
            r = rng.random()
            if r < p_inv * 0.8: x = 4 * rng.randint(-25, 25)                      # invalid by the checker (multiple of 4)
            elif r < p_inv: x = rng.choice([102, 104, -106, 200, -300, 100, -100])   # outside (or on) the bounds
            else: x = 4 * rng.randint(-25, 24) + 2
            tape.append(x)
        vlines.append("%s %d %d %d | %s" % (k, att, imp, clr, " ".join(map(str, tape))))
    rc, o, e, s = vf.sh([vdrv], input="\n".join(vlines) + "\n", timeout=3000); c.step("correspond:impl-vss", vdrv, s, rc == 0)
    rc2, o2, e2, s2 = vf.sh([mbin, "vss"], input="\n".join(vlines) + "\n", timeout=3000); c.step("correspond:model-vss", mbin + " vss", s2, rc2 == 0)
    io, mo = o.split("\n"), o2.split("\n")
    vsucc = 0; vdiff = 0; vkinds = {}
    for i, l in enumerate(vlines):
        a = io[i] if i < len(io) else ""; m = mo[i].split() if i < len(mo) else []
        k = l.split()[0]
        halves = a.split(" | near: ")
        if len(halves) != 2:
            npred += 1
            if first_pred is None: first_pred = ("VSS", l, "valid-state sampler: no observation (crash?)")
            continue
        for h, which in zip(halves, ["sample", "sampleNear"]):
            nev += 1
            if h.strip() == "none": obs = ["none"]; flags = None
            else:
                w = h.split("|"); obs = w[0].split(); flags = w[1].split()
            if obs[0] == "none": same = (m == ["none"])
            elif k == "obstacle": same = (len(m) == 3 and obs[0] == m[0] and obs[2] == m[2] and (obs[0] == "1" or float(obs[1]) == float(m[1])))
            else: same = (len(m) == 3 and obs[0] == m[0] and float(obs[1]) == float(m[1]) and obs[2] == m[2])
            if not same:
                vdiff += 1; ndiff += 1
                if first_diff is None or first_diff[0] != "VSS" or len(l) < len(first_diff[1]): first_diff = ("VSS", l, which + ": " + h, m)
            if flags and obs[0] == "1":
                vsucc += 1; vkinds[k] = vkinds.get(k, 0) + 1
                tape_inb = all(abs(int(x)) <= 100 for x in l.split("|")[1].split())
                # SpaceInformation::isValid is the checker alone: the in-bounds half is owed only when the underlying (scripted) sampler keeps its own contract
                if flags[1] != "1" or (tape_inb and flags[0] != "1"):
                    npred += 1
                    if first_pred is None or len(l) < len(first_pred[1]): first_pred = ("VSS", l, "%s valid-state sampler %s() reports success with a state that is %s" % (k, which, "out of bounds" if flags[0] != "1" else "invalid"))
    ngeo = 4000 if quick else 100000
    rc, o, e, s = vf.sh([vdrv], input="\n".join("GEO %s %d %d" % (k, ngeo, c.seed + j) for j, k in enumerate(KINDS)) + "\n", timeout=3000)
    c.step("impl:vss-geo", vdrv + " GEO <kind> %d" % ngeo, s, rc == 0)
    geo = {}
    for line in o.split("\n"):
        w = line.split()
        if w[:1] == ["geo"]:
            geo[w[1]] = (int(w[3]), int(w[5]))
            if int(w[5]):
                npred += 1
                if first_pred is None: first_pred = ("VSS", "GEO %s %d %d" % (w[1], ngeo, c.seed), "%s valid-state sampler reports success with an out-of-bounds or invalid state, e.g. %s" % (w[1], w[6]))
    if len(geo) < 6: c.broken.append("valid-state sampler GEO search produced %d of 6 results (driver crashed?)" % len(geo))
    # ---- the laws on the implementation (all shipped spaces)
    names = ["RV3", "SO2", "SO3", "SE2", "SE3", "TIME", "DISC", "TORUS", "SPHERE", "SPHERE1", "MOBIUS", "KLEIN", "DUBINS", "DUBINSSYM", "RS", "MIX"]
    n = 20000 if quick else 400000
    rc, o, e, s = vf.sh([drv], input="\n".join("LAWS %s %d %d" % (nm, n, c.seed) for nm in names) + "\n", timeout=3000)
    c.step("impl:laws", drv + " LAWS <space> %d" % n, s, rc == 0)
    lawsum = {}; law_pred = None
    for line in o.split("\n"):
        if not line.startswith("laws "): continue
        parts = line.split(" ; ")
        nm = parts[0].split()[1]
        for p in parts[1:]:
            w = p.split(None, 2)
            law, cnt = w[0], int(w[1]); wit = w[2] if len(w) > 2 else "-"
            if law not in C08_LAWS: continue
            lawsum["%s:%s" % (nm, law)] = cnt
            if cnt:
                what = "%s: law '%s' fails (%d of %d random cases), e.g. %s" % (nm, law, cnt, n, wit)
                slug = KNOWN.get((nm, law))
                if slug and c.known_finding(slug, what): continue
                npred += 1
                if law_pred is None: law_pred = ("LAWS %s %d %d" % (nm, n, c.seed), what)
    if len(lawsum) < len(names) * len(C08_LAWS): c.broken.append("law search produced %d of %d results (driver crashed?)" % (len(lawsum), len(names) * len(C08_LAWS)))
    c.cov.update({"evaluations": nev + n * len(names), "traces_validated_against_impl": len(R.groups), "distinct_nontrivial": len(distinct),
                  "rule": "generated spaces (nesting depth <= 3 over R^n with degenerate zero-width / huge / tiny / negative bounds, SO2, bounded/unbounded time, discrete; weights incl. 0 and 1e-3): enforceBounds + satisfiesBounds on in-bounds, seam and far-outside states (angles many periods away, +-pi, 1e6), uniform / near / Gaussian default samplers with taped variates (u in {0, 1-2^-53, 1/2, 2^-53, random}; g in {0, +-1/2, +-1, +-3, +-40, random}; distance / deviation in {0, 1e-12, .3, 1, 10, 1e3, 1e6, 1e12, 1e300, random}), compared bit for bit; plus %d random cases of the enforce / sampler laws on each of 16 shipped spaces; non-trivial = distinct compound space" % n,
                  "disagreements": ndiff, "predicate_failures": npred, "law_failures": {k: v for k, v in lawsum.items() if v}, "op_distribution": opk,
                  "valid_sampler_histories": len(vlines), "valid_sampler_successes_checked": vsucc, "valid_sampler_successes_by_kind": vkinds, "valid_sampler_disagreements": vdiff,
                  "valid_sampler_geo": {k: {"successes": v[0], "bad": v[1]} for k, v in geo.items()}})
    c.cov["samples"] = [R.groups[0][0].spec(), R.groups[0][1][0][0][:160]]
    c.cov["trusted_base"] += ["vm_compute on primitive binary64 floats (+ exact fmod/floor through SpecFloat), float printing/parsing, harness/space_driver.cpp + space_laws.h, g++ -ffp-contract=off",
                             "the RNG tape hook (guard OMPL_VERIF): uniform01/uniformReal/gaussian read their variate from the tape",
                             "stdlib real-number axioms (theorems over R): sig_forall_dec, sig_not_dec, functional_extensionality_dep"]
    c.assumptions += ["the variates of the real generator lie in [0,1) (std::uniform_real_distribution) and are finite (normal_distribution)",
                      "SO(3)/SE(3)/sphere/torus/Moebius/Klein/Dubins/Reeds-Shepp samplers are searched on the implementation only (not in the Coq model)"]
    if first_diff: c.log('first disagreement:', first_diff)
    if first_pred:
        sp, il, msg = first_pred
        if sp == "VSS": c.violation("implementation violates C08: %s on '%s'" % (msg, il[:200]), "# C08 replay: feed to build/harness/vss_driver\n%s\n" % il)
        else: c.violation("implementation violates C08: %s on 'SPACE %s' / '%s'" % (msg, sp[:200], il[:200]), "# C08 replay: feed to build/harness/space_driver\nSPACE %s\n%s\n" % (sp, il))
    elif law_pred:
        c.violation("implementation violates C08: " + law_pred[1], "# C08 replay: feed to build/harness/space_driver\n" + law_pred[0] + "\n")
    elif first_diff:
        sp, il, a, m = first_diff
        if sp == "VSS": c.broken.append("correspondence C08 (valid-state sampler loops vs VssModel) differs on '%s': implementation '%s' model %s" % (il[:200], a, m))
        else: c.broken.append("correspondence C08 (enforce / samplers vs SpacesModel on binary64) differs on 'SPACE %s' / '%s': implementation '%s' model %s" % (sp[:200], il[:200], a, m))
    c.finish()


main()
