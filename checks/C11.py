"""C11 — updatable binary heap.
prove:      coq/Properties_C11.v (invariant reachable for every history and comparator, multiset
            refinement, top minimal, pop-all sorted, handles, sort)
correspond: ompl::BinaryHeap built from /repo vs the extracted Coq model, exact array layout after
            every operation of generated scripts
search:     the property predicate itself (independent Python multiset oracle) on the implementation's output
"""
import os, sys, collections, subprocess, itertools
import vf

CMP = {0: lambda a, b: a < b, 1: lambda a, b: b < a, 2: lambda a, b: (a % 3) < (b % 3)}


class ModelPipe:
    """The extracted model as a line-by-line co-process (used to know which handles are live)."""
    def __init__(self, binary):
        self.p = subprocess.Popen([binary, "heap"], stdin=subprocess.PIPE, stdout=subprocess.PIPE, text=True, bufsize=1)
    def ask(self, line):
        self.p.stdin.write(line + "\n"); self.p.stdin.flush()
        return self.p.stdout.readline().rstrip("\n")
    def close(self):
        self.p.stdin.close(); self.p.wait()


def parse_obs(line):
    """'size top | id:key ...' -> (size, top, [(id,key)])"""
    head, _, rest = line.partition("|")
    h = head.split()
    items = [tuple(map(int, w.split(":"))) for w in rest.split()]
    return int(h[0]), (None if h[1] == "-" else int(h[1])), items


def gen_script(rng, model, maxops, keyrange, cmpmode, hist):
    lines = ["N %d" % cmpmode]
    outs = [model.ask(lines[0])]
    live, handles_ok, nextid = [], True, 0
    k = lambda: rng.randint(0, keyrange)
    for _ in range(rng.randint(1, maxops)):
        r = rng.random()
        if r < 0.30 or not live:
            if rng.random() < 0.8:
                ln = "I %d %d" % (nextid, k()); nextid += 1
            else:
                n = rng.randint(0, 6); items = []
                for _ in range(n):
                    items += [nextid, k()]; nextid += 1
                ln = "L %d %s" % (n, " ".join(map(str, items)))
        elif r < 0.52 and handles_ok:
            ln = "R %d" % rng.choice(live)
        elif r < 0.72 and handles_ok:
            i = rng.choice(live)
            ln = "U %d %d" % (i, k())
        elif r < 0.84:
            ln = "P"
        elif r < 0.88:
            ln = "B"
        elif r < 0.91:
            n = rng.randint(0, 9); items = []
            for _ in range(n):
                items += [nextid, k()]; nextid += 1
            ln = "F %d %s" % (n, " ".join(map(str, items)))
        elif r < 0.94:
            ln = "C"
        else:
            n = rng.randint(0, 8)
            ln = "S %d %s" % (n, " ".join(str(k()) for _ in range(n)))
        hist[ln[0]] += 1
        out = model.ask(ln)
        lines.append(ln); outs.append(out)
        if ln[0] == "F":
            handles_ok = False          # buildFrom hands out no handles
        if ln[0] == "C":
            handles_ok = True
        if ln[0] != "S":
            live = [i for i, _ in parse_obs(out)[2]]
            if not handles_ok and ln[0] in "IL":
                pass
    lines.append("E"); outs.append(model.ask("E"))
    return lines, outs


def predicate(lines, outs):
    """The C11 statement evaluated on an output trace (of the implementation), against an independent
    multiset oracle.  Returns None or a description of the first failure."""
    cmpf, content = CMP[0], {}
    for ln, out in zip(lines, outs):
        w = ln.split()
        if w[0] == "N":
            cmpf, content = CMP[int(w[1])], {}
            continue
        if out.startswith("UB") or out.startswith("?") or out == "":
            return "no observation for '%s' (crash or undefined behaviour)" % ln
        if w[0] == "S":
            ks = list(map(int, w[2:])); got = list(map(int, out.split()[1:]))
            if sorted(ks) != sorted(got):
                return "sort() output is not a permutation of its input at '%s'" % ln
            if any(cmpf(got[i + 1], got[i]) for i in range(len(got) - 1)):
                return "sort() output is not in order at '%s'" % ln
            continue
        if w[0] == "E":
            items = [tuple(map(int, x.split(":"))) for x in out.split()[1:]]
            if sorted(items) != sorted(content.items()):
                return "pop-all does not return exactly the remaining elements"
            ks = [k for _, k in items]
            if any(cmpf(ks[i + 1], ks[i]) for i in range(len(ks) - 1)):
                return "pop-all is not in non-decreasing order: " + " ".join(map(str, ks))
            continue
        size, top, items = parse_obs(out)
        if w[0] == "I": content[int(w[1])] = int(w[2])
        elif w[0] == "L":
            for a, b in zip(w[2::2], w[3::2]): content[int(a)] = int(b)
        elif w[0] == "R": content.pop(int(w[1]), None)
        elif w[0] == "U": content[int(w[1])] = int(w[2])
        elif w[0] == "F":
            content = {int(a): int(b) for a, b in zip(w[2::2], w[3::2])}
        elif w[0] == "C": content = {}
        elif w[0] == "P":
            if top_before is None or top_before not in content:
                return "pop on a heap whose top is not a live element"
            kk = content.pop(top_before)
            if any(cmpf(v, kk) for v in content.values()):
                return "pop removed %d:%d although a smaller element was present" % (top_before, kk)
        if size != len(content):
            return "size() = %d but %d elements are live after '%s'" % (size, len(content), ln)
        if sorted(items) != sorted(content.items()):
            return "contents differ from the live elements after '%s' (a handle identified the wrong element?)" % ln
        if content:
            tk = content.get(top)
            if tk is None or any(cmpf(v, tk) for v in content.values()):
                return "top() is not a minimum after '%s'" % ln
        elif top is not None:
            return "top() of an empty heap is not null"
        top_before = top
    return None


# predicate needs the top before a pop: wrap to initialise
def check_trace(lines, outs):
    global top_before
    top_before = None
    try:
        return predicate(lines, outs)
    except Exception as ex:   # malformed line = no observation
        return "unparsable observation (%s)" % ex


def run_impl(drv, lines_all):
    rc, o, e, s = vf.sh([drv], input="\n".join(lines_all) + "\n", timeout=900)
    return rc, o.split("\n"), e


def split_scripts(lines, outs):
    res, cur_l, cur_o = [], [], []
    for l, o in zip(lines, outs):
        if l.startswith("N ") and cur_l:
            res.append((cur_l, cur_o)); cur_l, cur_o = [], []
        cur_l.append(l); cur_o.append(o)
    if cur_l: res.append((cur_l, cur_o))
    return res


def impl_outs_for(drv, lines):
    rc, o, e = run_impl(drv, lines)
    o = o[:len(lines)] + [""] * (len(lines) - len(o))
    if rc != 0:
        # crashed: observations after the crash are missing
        pass
    return o[:len(lines)], rc, e


def main():
    c = vf.Check("C11", "proof")
    quick = c.tier == "quick"
    proved = c.prove("Properties_C11.v")
    if not quick:
        c.coqchk("Properties_C11")
    try:
        drv = c.build_driver("heap_driver")
        model = c.build_model()
    except vf.BuildError as ex:
        c.broken.append("correspondence C11: implementation driver/model does not build: " + str(ex)[-400:])
        c.finish()
    hist = collections.Counter()
    scripts = []
    mp = ModelPipe(model)
    # corpus first
    corpus_dir = os.path.join(vf.VERIF, "corpus", "C11")
    replay_files = [c.replay] if c.replay else (sorted(os.path.join(corpus_dir, f) for f in os.listdir(corpus_dir)) if os.path.isdir(corpus_dir) else [])
    for f in replay_files:
        lines = [l.strip() for l in open(f) if l.strip() and not l.startswith("#")]
        outs = [mp.ask(l) for l in lines]
        scripts.append((lines, outs))
    ncorpus = len(scripts)
    if not c.replay:
        n = 2000 if quick else 60000
        for i in range(n):
            cmpmode = i % 3
            maxops = 60 if i % 5 else 12
            keyrange = [15, 2, 1000][(i // 3) % 3]
            scripts.append(gen_script(c.rng, mp, maxops, keyrange, cmpmode, hist))
        if not quick:
            # exhaustive small scope: every script of <= 6 ops over keys {0,1,2} from a small alphabet
            alphabet = ["I0", "I1", "I2", "R", "U0", "U2", "P"]
            for L in range(1, 7):
                for combo in itertools.product(alphabet, repeat=L):
                    lines, outs, live, nid, ok = ["N 0"], [mp.ask("N 0")], [], 0, True
                    for a in combo:
                        if a[0] == "I": ln = "I %d %s" % (nid, a[1]); nid += 1
                        elif a == "P":
                            if not live: ok = False; break
                            ln = "P"
                        else:
                            if not live: ok = False; break
                            tgt = live[len(lines) % len(live)]
                            ln = ("R %d" % tgt) if a == "R" else ("U %d %s" % (tgt, a[1]))
                        out = mp.ask(ln); lines.append(ln); outs.append(out)
                        live = [i for i, _ in parse_obs(out)[2]]
                    if ok:
                        lines.append("E"); outs.append(mp.ask("E")); scripts.append((lines, outs))
    mp.close()
    all_lines = [l for ls, _ in scripts for l in ls]
    model_outs = [o for _, os_ in scripts for o in os_]
    c.log("generated %d scripts, %d operations" % (len(scripts), len(all_lines)))
    impl_outs, rc, err = impl_outs_for(drv, all_lines)
    c.step("correspond:run", drv, 0, rc == 0)
    # per-script comparison
    ndiff, npred, nontrivial = 0, 0, set()
    first_diff, first_pred = None, None
    off = 0
    for ls, mo in scripts:
        io = impl_outs[off:off + len(ls)]; off += len(ls)
        if any(l[0] in "RUP" for l in ls) and len(ls) > 4:
            nontrivial.add("\n".join(ls))
        bad = check_trace(ls, io)
        if bad:
            npred += 1
            if first_pred is None: first_pred = (ls, bad)
        if io != mo:
            ndiff += 1
            if first_diff is None: first_diff = (ls, mo, io)
        mbad = check_trace(ls, mo)
        if mbad and not bad:
            c.broken.append("model trace violates the C11 predicate although the implementation does not: " + mbad)
    c.cov.update({"evaluations": len(all_lines), "traces_validated_against_impl": len(scripts), "scripts": len(scripts),
                  "distinct_nontrivial": len(nontrivial),
                  "rule": "model-driven random op scripts (3 comparators x key ranges {0..2, 0..15, 0..1000}, <=60 ops) plus corpus; thorough adds every script of <=6 ops over a 7-letter alphabet; non-trivial = distinct script with a remove/update/pop and >4 ops",
                  "op_histogram": dict(hist), "corpus_scripts": ncorpus, "disagreements": ndiff, "predicate_failures": npred})
    c.cov["samples"] = [" ; ".join(scripts[i][0]) for i in range(min(3, len(scripts)))]
    c.cov["trusted_base"] += ["extraction: ExtrOcamlBasic (bool, option, list, prod, unit, sumbool -> OCaml), nat/Z kept inductive; extract/heap_driver.ml, extract/conv.ml",
                             "harness/heap_driver.cpp, g++ 12; generator checks/C11.py"]
    c.assumptions += ["LessThan is a strict weak order (hypotheses le_total/le_trans, instantiated for <, >, mod-3)",
                      "new/delete of Element objects and the event callbacks are not modelled",
                      "histories are within the documented interface (live handles, pop on non-empty); buildFrom/insert(vector) return no handles"]

    def minimise(ls, fails):
        body = ls[1:-1]
        red = vf.ddmin(body, lambda b: fails([ls[0]] + b + [ls[-1]]))
        return [ls[0]] + red + [ls[-1]]

    if first_pred is not None:
        ls, bad = first_pred
        mp3 = ModelPipe(model)
        def fails(cand):
            if "UB" in [mp3.ask(l) for l in cand]:
                return False          # candidate left the documented interface
            o, _, _ = impl_outs_for(drv, cand)
            return check_trace(cand, o) is not None
        small = minimise(ls, fails) if fails(ls) else ls
        mp3.close()
        o, _, _ = impl_outs_for(drv, small)
        c.violation("implementation violates C11: " + (check_trace(small, o) or bad),
                    "# C11 replay: bin/check C11 --replay <this file>\n" + "\n".join(small) + "\n")
    elif first_diff is not None:
        # search: the layout diverged from the model; look for an input on which the property itself fails.
        # insert(vector) of n keys (many duplicates), remove / update one handle, drain: every position of many heaps.
        found = None
        for rnd in range(40):
            lines_s = []
            for n in range(3, 17):
                for rep in range(12):
                    keys = [c.rng.randint(0, c.rng.choice([3, 8, 30])) for _ in range(n)]
                    for victim in range(n):
                        for cm in (0, 2):
                            lines_s += ["N %d" % cm, "L %d %s" % (n, " ".join("%d %d" % (i, k) for i, k in enumerate(keys))),
                                        ("R %d" % victim) if rep % 3 else ("U %d %d" % (victim, c.rng.randint(0, 30))), "E"]
            outs_s, _, _ = impl_outs_for(drv, lines_s)
            for sl, so in split_scripts(lines_s, outs_s):
                bad = check_trace(sl, so)
                if bad:
                    found = (sl, bad); break
            if found: break
        if found:
            c.violation("implementation violates C11: " + found[1], "# C11 replay: bin/check C11 --replay <this file>\n" + "\n".join(found[0]) + "\n")
            c.finish()
        ls, mo, io = first_diff
        mp2 = ModelPipe(model)
        def fails(cand):
            o, _, _ = impl_outs_for(drv, cand)
            m = [mp2.ask(l) for l in cand]
            return o != m and "UB" not in m
        small = minimise(ls, fails) if fails(ls) else ls
        mp2.close()
        c.broken.append("correspondence C11 (array layout of BinaryHeap vs HeapModel.step) differs on: " + " ; ".join(small))
    if rc != 0 and first_pred is None and first_diff is None:
        c.broken.append("implementation driver exited with %d: %s" % (rc, err[-300:]))
    c.finish()


main()
