"""C17 — path post-processing preserves endpoints, validity and never worsens cost.
prove:      coq/Properties_C17.v (interpolate(count) exact count / vertices kept for every estimate, subdivide,
            vertex shortcuts keep ends / introduce only validated motions / never lengthen in a metric space)
correspond: (a) PathGeometric::interpolate(count) state distribution per segment vs the extracted counting function fed
            with the binary64 estimate; (b) every routine of PathSimplifier, densification and hybridization run on
            planned paths (plain / densified / with repeated states) with logging collaborators; the extracted
            admission rule decides that the result only uses motions of the input or motions validated during the routine
search:     the C17 statement on each run: first state kept, last kept or replaced by a goal state, length / cost not
            worse for the shortcutting and cost-aware routines, check() after a successful simplify, densification keeps
            vertices, count and length, hybrid path not worse than the best recorded
"""
import os, sys, collections, subprocess, concurrent.futures as cf, time
import vf

ROUTINES = ["reduce", "partial", "rope", "collapse", "bspline", "perturb", "bettergoal", "simplifymax", "simplify", "interpolate", "interpolate0", "subdivide", "hybridize"]
COST_AWARE = {"partial", "rope", "perturb", "bettergoal"}    # routines that compare costs under the simplifier's objective
NEVER_LONGER = {"reduce", "partial", "rope", "collapse", "simplifymax", "simplify", "perturb", "bettergoal"}   # shortcutting / cost-aware routines (metric space, path-length objective)
COVERED = {"reduce", "collapse"}    # results consist of input vertices joined by validated motions only (class A of the ledger)
LEN_EPS = 2000        # 2e-6 in 1e-9 units: summation rounding over hundreds of segments


def gen(rng, quick):
    jobs = []
    n = 6 if quick else 120
    for r in ROUTINES:
        for k in range(n * (8 if r == "interpolate" else 5 if r in COST_AWARE else 1)):
            sp = rng.choice(["R2", "SE2", "R3"]) if k else "R2"
            env = rng.choice(["gap", "boxes3", "thin", "circles5", "empty", "boxes8"])
            mode = ["plain", "dense", "dup"][k % 3] + (":int" if (r in COST_AWARE and k % 2 == 1) else "")
            if r in COST_AWARE and k % 2 == 1: mode = "ushape:int"; env = "empty"     # adversarial input for the cost comparison
            seed = rng.randint(1, 10 ** 6)
            if r == "reduce": par = "%d %d %g" % (rng.choice([0, 5, 100]), rng.choice([0, 3]), rng.choice([0.33, 0.1, 1.0]))
            elif r == "partial": par = "%d %d %g %g" % (rng.choice([0, 5, 100]), rng.choice([0, 3]), rng.choice([0.33, 0.1, 1.0]), rng.choice([0.005, 0.0, 0.2]))
            elif r == "rope": par = "%g %g" % (rng.choice([1.0, 0.1, 5.0]), rng.choice([0.1, 0.0, 0.5]))
            elif r == "collapse": par = "%d %d" % (rng.choice([0, 5, 100]), rng.choice([0, 3]))
            elif r == "bspline": par = "%d" % rng.choice([1, 3, 5])
            elif r == "perturb": par = "%g %d %d %g" % (rng.choice([0.05, 0.01, 0.3]), rng.choice([0, 20]), rng.choice([0, 5]), rng.choice([0.005, 0.0]))
            elif r == "bettergoal": par = "%g %d %g %g" % (0.1, rng.choice([1, 10]), rng.choice([0.33, 1.0]), 0.005)
            elif r == "simplify": par = "%g" % rng.choice([0.05, 0.3])
            elif r == "interpolate": par = "%d" % rng.choice([0, 2, 17, 40, 100, 1000, -1, -1, -2, -2, -3, -5, -8])
            elif r == "hybridize": par = "%d" % rng.choice([2, 3, 5])
            else: par = ""
            if mode.startswith("ushape"):    # default parameters on the adversarial input
                sp = "R2"; par = {"partial": "0 0 0.33 0.005", "rope": "0.1 0.1", "perturb": "0.05 0 0 0.005", "bettergoal": "0.1 10 0.33 0.005"}[r]
            jobs.append(("SIMP %s %s %d 0.01 %s %s %s" % (sp, env, seed, mode, r, par)).strip())
    # paths of total length 0 (start = goal, every state the same): densification must still deliver the requested count
    for k in range(6 if quick else 60):
        jobs.append("SIMP %s empty %d 0.01 point interpolate %d" % (rng.choice(["R2", "SE2", "R3"]), rng.randint(1, 10 ** 6), rng.choice([2, 6, 17, 250, -1, -3])))
        if k % 3 == 0: jobs.append("SIMP R2 empty %d 0.01 point subdivide" % rng.randint(1, 10 ** 6))
    return jobs


def run_job(drv, j):
    try:
        r = subprocess.run([drv] + j.split(), capture_output=True, text=True, timeout=120)
        return j, r.returncode, r.stdout
    except subprocess.TimeoutExpired:
        return j, -999, ""


def main():
    c = vf.Check("C17", "proof")
    quick = c.tier == "quick"
    c.prove("Properties_C17.v")
    if not quick: c.coqchk("Properties_C17")
    try:
        c.build_ompl(); drv = c.build_driver("simplify_driver", link_ompl=True); model = c.build_model()
    except vf.BuildError as ex:
        c.broken.append("correspondence C17: implementation driver / model does not build: " + str(ex)[-400:]); c.finish()
    jobs = [l.strip() for l in open(c.replay) if l.startswith("SIMP ")] if c.replay else gen(c.rng, quick)
    open(os.path.join(c.outdir, "jobs.txt"), "w").write("\n".join(jobs) + "\n")
    t0 = time.time()
    with cf.ThreadPoolExecutor(14) as ex:
        results = list(ex.map(lambda j: run_job(drv, j), jobs))
    c.step("correspond:impl", "%s SIMP ... (%d runs)" % (drv, len(jobs)), time.time() - t0, True)
    npred = ndiff = 0; first_pred = None; first_diff = None; stats = collections.Counter(); failures = collections.Counter(); failing = []
    def pred(j, msg, slug=None):
        nonlocal npred, first_pred
        if slug and c.known_finding(slug, msg + " ('%s')" % j): stats["known:" + slug] += 1; return
        npred += 1; failures[j.split()[6] + ": " + msg[:70]] += 1; failing.append((j, msg[:200]))
        if first_pred is None: first_pred = (j, msg)
    interp_feed = []; interp_jobs = []; ledger_feed = []; ledger_jobs = []
    for j, rc, out in results:
        w = j.split(); routine = w[6]; mode = w[5]
        L = {}
        P = []; SEG = []; oacc = set()
        for l in out.split("\n"):
            t = l.split("#")[0].split()
            if not t: continue
            if t[0] in ("IN", "RESULT", "KEPT", "SEGLENS", "COUNTS", "IIDS", "OIDS", "SKIP", "REQUEST"): L[t[0]] = t[1:]
            elif t[0] == "OP": P.append(dict(id=int(t[1]), inb=t[2] == "1", valid=t[3] == "1", goal=t[4] == "1", gdist=int(t[5])))
            elif t[0] == "OSEG": SEG.append((t[1] == "1", int(t[2])))
            elif t[0] == "OACC": oacc.add((int(t[1]), int(t[2])))
            elif t[0] == "END": L["END"] = True
        if "SKIP" in L: stats["skipped"] += 1; continue
        if "END" not in L or "RESULT" not in L:
            pred(j, "routine crashed or hung (exit %s)" % rc, "C17-rope-shortcut-zero-tolerance-loops" if (routine == "rope" and rc == -999 and float(w[8]) == 0.0) else None); continue
        stats["runs"] += 1; stats["routine_" + routine] += 1
        n_in, len_in, cost_in, chk_in = int(L["IN"][0]), int(L["IN"][1]), int(L["IN"][2]), L["IN"][3] == "1"
        ret, n_out, len_out, cost_out, chk_out = L["RESULT"][0] == "1", int(L["RESULT"][1]), int(L["RESULT"][2]), int(L["RESULT"][3]), L["RESULT"][4] == "1"
        iids = [int(x) for x in L.get("IIDS", [])]; oids = [int(x) for x in L.get("OIDS", [])]
        if not chk_in: stats["invalid_input"] += 1; continue
        if not oids: pred(j, "empty path returned"); continue
        if oids[0] != iids[0]: pred(j, "the first state of the path changed")
        if oids[-1] != iids[-1] and routine != "hybridize":
            if routine in ("bettergoal", "simplify", "simplifymax") and P and P[-1]["goal"]: stats["goal_replaced"] += 1     # simplify() includes findBetterGoal
            else: pred(j, "the last state of the path changed" + ("" if not P or P[-1]["goal"] else " to a state outside the goal region"))
        if routine == "hybridize" and P and not P[-1]["goal"]: pred(j, "hybridized path does not end in the goal region")
        if any(not p["inb"] for p in P): pred(j, "result leaves the space bounds")
        if any(mi >= 16 for _, mi in SEG): pred(j, "result stays inside invalid space for more than two resolution lengths")
        integral = mode.endswith(":int")
        if routine in NEVER_LONGER and not integral and len_out > len_in + LEN_EPS: pred(j, "%s returned a longer path: %.9f > %.9f" % (routine, len_out / 1e9, len_in / 1e9))
        if routine in COST_AWARE and integral and cost_out > cost_in + max(LEN_EPS, cost_in // 10 ** 9): pred(j, "%s returned a path that is worse under its own objective (integral of 1 + 200 y): %.9f > %.9f" % (routine, cost_out / 1e9, cost_in / 1e9))
        if routine in ("simplify", "simplifymax") and ret and not chk_out: pred(j, "%s reports success but the path fails PathGeometric::check()" % routine)
        # vertex-only routines join input vertices by validated motions, so the result must pass check(); routines that place new states
        # ON validated motions (partial / rope shortcut, perturb, better goal) are held to the two-resolution-lengths clause above
        if routine in ("reduce", "collapse") and not chk_out: pred(j, "result of %s fails PathGeometric::check() although the input passed" % routine)
        if routine in ("interpolate", "interpolate0", "subdivide"):
            if abs(len_out - len_in) > LEN_EPS: pred(j, "densification changed the path length: %.9f -> %.9f" % (len_in / 1e9, len_out / 1e9))
            cnt = L.get("COUNTS", [])
            if routine == "subdivide":
                if oids[0::2] != iids: pred(j, "subdivide does not keep the original vertices (at the even positions)")
            elif j.split()[5] == "point": pass       # every state equal: "the original vertices in order" holds trivially (states are identified by value)
            elif not cnt or cnt[-1] != "1": pred(j, "densification does not keep the original vertices in order")
            if routine == "subdivide" and n_out != 2 * n_in - 1: pred(j, "subdivide produced %d states from %d" % (n_out, n_in))
            if routine == "interpolate":
                req = int(L["REQUEST"][0]) if "REQUEST" in L else 10
                exp = req if (req >= n_in and n_in >= 2) else n_in
                if n_out != exp: pred(j, "interpolate(%d) on %d states produced %d states, expected %d" % (req, n_in, n_out, exp))
                if j.split()[5] != "point": interp_feed.append("INTERP %d %s" % (req, " ".join(L.get("SEGLENS", [])))); interp_jobs.append((j, cnt[:-2], n_out))
        if routine == "hybridize":
            br = int(L["RESULT"][L["RESULT"].index("best_recorded") + 1]) if "best_recorded" in L["RESULT"] else None
            if br is not None and len_out > br + LEN_EPS: pred(j, "hybridized path (%.9f) is worse than the best recorded input path (%.9f)" % (len_out / 1e9, br / 1e9))
            if not chk_out: pred(j, "hybridized path fails PathGeometric::check()")
        # ledger: result pairs must be input pairs or motions accepted during the routine (for the vertex-only routines)
        if routine in COVERED and P:
            ledger_feed.append("CLASS A 1 1"); ledger_feed.append("START %d 1 1" % oids[0])
            ledger_feed.append("STATUS 6 1 0 1 0 0")
            for p in P: ledger_feed.append("P %d %d %d 1 0" % (p["id"], 1 if p["inb"] else 0, 1 if p["valid"] else 0))
            for a, b in zip(iids, iids[1:]): ledger_feed.append("ACC %d %d" % (a, b))
            for a, b in oacc: ledger_feed.append("ACC %d %d" % (a, b))
            for re, mi in SEG: ledger_feed.append("SEG %d %d" % (1 if re else 0, mi))
            ledger_feed.append("END"); ledger_jobs.append(j)
    if interp_feed:
        rc2, o2, e2, s2 = vf.sh([model, "path"], input="\n".join(interp_feed) + "\n", timeout=600); c.step("correspond:model-interpolate", model + " path", s2, rc2 == 0)
        for (j, cnt, n_out), ml in zip(interp_jobs, o2.split("\n")):
            mw = ml.split()
            mc = mw[1:mw.index("|")] if "|" in mw else []
            if mc != cnt:
                ndiff += 1
                if first_diff is None: first_diff = (j, "states per segment: implementation %s model %s" % (" ".join(cnt)[:120], " ".join(mc)[:120]))
    # ---- reduceVertices as a whole against PathModel.reduce_vertices: table-driven motion validator, the simplifier's random
    # numbers from a tape (RNG tape hook); the resulting vertex list and return value must be identical
    rv_feed = []; rng = c.rng
    for i in range(400 if quick else 20000):
        n = rng.choice([2, 3, 3, 4, 5, 6, 8, 10, 12, 16, 24]); dens = rng.choice([0.0, 0.05, 0.15, 0.3, 0.6])
        pairs = ["%d-%d" % (a, b) for a in range(n) for b in range(a + 1, n) if rng.random() < dens]
        if rng.random() < 0.1 and n >= 3: pairs.append("0-%d" % (n - 1))
        rn, rd = rng.choice([(1, 4), (1, 2), (1, 8), (1, 1), (0, 1), (33, 100), (3, 4), (2, 1)])
        if (rn, rd) == (33, 100) and n >= 40: rn, rd = 1, 4
        rv_feed.append("RV %d %d %d %d %d %d | %s" % (n, rng.choice([0, 0, 1, 3, 10, 50]), rng.choice([0, 0, 1, 2, 5]), rn, rd, rng.randint(0, 10 ** 6), " ".join(pairs)))
    rcv, ov, ev, sv = vf.sh([drv], input="\n".join(rv_feed) + "\n", timeout=900); c.step("correspond:impl-reduce", drv + " RV ...", sv, rcv == 0)
    rcm, om, em, sm = vf.sh([model, "path"], input="\n".join(rv_feed) + "\n", timeout=900); c.step("correspond:model-reduce", model + " path", sm, rcm == 0)
    iv, mvl = [l for l in ov.split("\n") if l.startswith("rv ")], [l for l in om.split("\n") if l.startswith("rv ")]
    stats["reduce_scripts"] = len(rv_feed)
    for k, l in enumerate(rv_feed):
        a = iv[k].split(" | used")[0].strip() if k < len(iv) else "?"; b = mvl[k].strip() if k < len(mvl) else "?"
        if a.startswith("rv 1"): stats["reduce_changed"] += 1
        if a != b:
            ndiff += 1
            if first_diff is None or len(l) < len(first_diff[0]): first_diff = (l, "reduceVertices: implementation '%s' model '%s'" % (a[:160], b[:160]))
        # the statement on the implementation's own answer: ends kept, vertices in order, every new adjacent pair accepted by the table
        try:
            ids = [int(x) for x in a.split("|")[1].split()]; n = int(l.split()[1]); okp = set(l.split("|")[1].split())
            if ids[0] != 0 or ids[-1] != n - 1 or ids != sorted(set(ids)) or any(y != x + 1 and ("%d-%d" % (x, y)) not in okp for x, y in zip(ids, ids[1:])) or (a.startswith("rv 0") and ids != list(range(n))):
                pred(l, "reduceVertices returned %s: ends / order / an adjacent pair the validator never accepted / unchanged flag" % a)
        except Exception:
            pred(l, "no observation: " + a[:80])
    # ---- collapseCloseVertices as a whole against PathModel.collapse_close (distinct integer coordinates: exact distances, ties)
    cc_feed = []
    for i in range(300 if quick else 12000):
        n = rng.choice([2, 3, 4, 5, 6, 8, 10, 14]); xs = rng.sample(range(-3 * n, 3 * n), n) if rng.random() < 0.5 else rng.sample(range(0, n + 3), n)
        dens = rng.choice([0.0, 0.1, 0.3, 0.6, 1.0])
        pairs = ["%d-%d" % (a, b) for a in range(n) for b in range(a + 1, n) if rng.random() < dens]
        cc_feed.append("CC %d %d %s | %s" % (rng.choice([0, 0, 1, 3, 10, 50]), rng.choice([0, 0, 1, 2, 5]), " ".join(map(str, xs)), " ".join(pairs)))
    rcc, oc, ec, sc = vf.sh([drv], input="\n".join(cc_feed) + "\n", timeout=900); c.step("correspond:impl-collapse", drv + " CC ...", sc, rcc == 0)
    rcd, od, ed, sd = vf.sh([model, "path"], input="\n".join(cc_feed) + "\n", timeout=900); c.step("correspond:model-collapse", model + " path", sd, rcd == 0)
    ic, mc2 = [l for l in oc.split("\n") if l.startswith("cc ")], [l for l in od.split("\n") if l.startswith("cc ")]
    stats["collapse_scripts"] = len(cc_feed)
    for k, l in enumerate(cc_feed):
        a = ic[k].strip() if k < len(ic) else "?"; b = mc2[k].strip() if k < len(mc2) else "?"
        if a.startswith("cc 1"): stats["collapse_changed"] += 1
        if a != b:
            ndiff += 1
            if first_diff is None or len(l) < len(first_diff[0]): first_diff = (l, "collapseCloseVertices: implementation '%s' model '%s'" % (a[:160], b[:160]))
        try:
            ids = [int(x) for x in a.split("|")[1].split()]; n = len(l.split("|")[0].split()) - 3; okp = set(l.split("|")[1].split())
            if ids[0] != 0 or ids[-1] != n - 1 or ids != sorted(set(ids)) or any(y != x + 1 and ("%d-%d" % (x, y)) not in okp for x, y in zip(ids, ids[1:])) or (a.startswith("cc 0") and ids != list(range(n))):
                pred(l, "collapseCloseVertices returned %s: ends / order / an adjacent pair the validator never accepted / unchanged flag" % a)
        except Exception:
            pred(l, "no observation: " + a[:80])
    # thin obstacles in front of the last state: the last motion of a valid input steps over a wall thinner than the validity-checking
    # step; shortcutting / smoothing split or move that motion, checkAndRepair has to re-validate the motion INTO the (fixed) last state
    thin_feed = [l.strip() for l in open(c.replay) if l.startswith("THIN ")] if c.replay else ["THIN %d %d %s %s %s simplify" % (rng.randint(1, 10 ** 6), 40 if quick else 150, th, lo, hi) for th, lo, hi in ([(0.9, 0.05, 0.95), (0.5, 0.05, 1.5), (0.9, 0.05, 0.95)] if quick else [(0.9, 0.05, 0.95), (0.5, 0.05, 1.5), (0.95, 0.02, 0.5), (0.7, 0.5, 3.0)] * 4)]
    with cf.ThreadPoolExecutor(12) as ex:
        thin_out = list(ex.map(lambda l: vf.sh([drv], input=l + "\n", timeout=1200), thin_feed))
    c.step("impl:thin-wall-simplify", drv + " THIN ... (%d lines)" % len(thin_feed), sum(x[3] for x in thin_out), all(x[0] == 0 for x in thin_out))
    for l, (rct, ot, et, st) in zip(thin_feed, thin_out):
        w = [x for x in ot.split("\n") if x.startswith("thin ")]
        if not w: pred(l, "no observation (simplify crashed or hung on a thin-wall path, exit %s)" % rct); continue
        t = w[0].split("|")[0].split(); stats["thin_wall_inputs"] += int(t[2]); stats["thin_wall_success"] += int(t[3])
        if int(t[4]) > 0: pred(l, "simplify reports success but the path fails PathGeometric::check() / an end state changed in %s of %s valid thin-wall inputs (%s)" % (t[4], t[2], w[0].split("|")[1].strip()))
    if ledger_feed:
        rc3, o3, e3, s3 = vf.sh([model, "ledger"], input="\n".join(ledger_feed) + "\n", timeout=600); c.step("correspond:model-ledger", model + " ledger", s3, rc3 == 0)
        for j, v in zip(ledger_jobs, o3.split("\n")):
            stats["ledger_" + v] += 1
            if v != "ok": pred(j, "the result contains a motion that is neither a motion of the input nor one the routine validated (admission rule: %s)" % v)
    c.cov.update({"evaluations": len(jobs), "traces_validated_against_impl": stats["runs"], "distinct_nontrivial": stats["runs"] - stats["invalid_input"],
                  "rule": "13 routines (reduceVertices, partialShortcutPath, ropeShortcutPath, collapseCloseVertices, smoothBSpline, perturbPath, findBetterGoal, simplifyMax, simplify, interpolate(count), interpolate(), subdivide, PathHybridization) x planned input paths (RRT / RRTConnect with varying range; plain, densified x3, with repeated states and zero-length segments) x spaces {R2, SE2, R3} x environments x parameter settings (step counts 0/5/100, range ratio .1/.33/1, snap 0/.005/.2, delta, requested counts 0..1000) x seeds; non-trivial = run whose input path passed check()",
                  "disagreements": ndiff, "predicate_failures": npred, "predicate_failures_by_kind": dict(failures), "failing_runs": failing[:40], "histogram": dict(stats)})
    c.cov["samples"] = jobs[:3]
    c.cov["trusted_base"] += ["extraction (ExtrOcamlBasic) + extract/path_driver.ml (computes the binary64 estimate), ledger_driver.ml; harness/simplify_driver.cpp + planning_common.h"]
    c.assumptions += ["partial: counting and shortcut skeleton are proved; each routine's behaviour is checked per run",
                      "lengths are compared with a slack of 2e-6 (summation rounding); cost = path length objective"]
    if first_pred:
        j, msg = first_pred
        c.violation("implementation violates C17: %s on '%s'" % (msg, j), "# C17 replay: bin/check C17 --replay <this file>  (or: build/harness/simplify_driver <the line>)\n%s\n" % j)
    elif first_diff:
        c.broken.append("correspondence C17 (PathGeometric::interpolate vs PathModel.interp_counts, reduceVertices / collapseCloseVertices vs PathModel.reduce_vertices / collapse_close): %s on '%s'" % (first_diff[1], first_diff[0]))
    c.finish()


main()
