"""C02 — control planners' solutions replay through the propagator to the goal.
prove:      coq/Properties_C02.v (propagateWhileValid, both overloads, for every propagator / validity / step count;
            paths assembled from its results replay exactly with every step valid; meaning of the admission rule)
correspond: (a) control::SpaceInformation::propagate / propagateWhileValid of /repo vs the extracted model on scripted
            validity patterns; (b) every control planner run on two systems with the reported PathControl replayed by
            the harness's own copy of the propagator, the facts adjudicated by ControlModel.cadjudicate
search:     the C02 statement on the facts (independent predicate): whole-step durations within min/max, controls in
            bounds, every state reproduced, every propagation step valid, goal / approximate agreement
"""
import os, sys, collections, subprocess, concurrent.futures as cf, time
import vf

PLANNERS = ["RRT", "RRTi", "SST", "EST", "KPIECE1", "PDST", "SyclopRRT", "SyclopEST"]


def gen(rng, quick):
    jobs = []
    per = 4 if quick else 60
    for p in PLANNERS:
        for k in range(per):
            sysn = ["point", "car"][k % 2]
            env = rng.choice(["gap", "thin", "boxes3", "circles5", "empty", "blocked", "thin2"]) if k >= 2 else ["gap", "thin"][k]
            q = rng.randint(0, 3)
            step = rng.choice([0.02, 0.05, 0.01, 0.03, 0.1])
            mins = rng.choice([1, 1, 2, 5]); maxs = mins + rng.choice([0, 3, 10, 30])
            thr = rng.choice([0.05, 0.02, 0.1])
            jobs.append("CRUN %s %s %s %d %g %d %d %g %d %d %g" % (p, sysn, env, q, step, mins, maxs, thr, rng.randint(1, 10 ** 6), 200000, 1.0 if quick else 2.0))
        # an unreachable goal: every planner has to report an approximate solution (assembled from its record of the closest state)
        for k in range(2 if quick else 12):
            jobs.append("CRUN %s %s blocked %d %g %d %d %g %d %d %g" % (p, ["car", "point"][k % 2], k % 4, [0.05, 0.02][k % 2], 1, [8, 30][k % 2], 0.05, 7919 * (k + 1) + len(p), 200000, 1.0 if quick else 2.0))
        # a goal whose distance does not decide satisfaction (dock: position within the threshold AND heading within 0.35 rad; the distance is
        # planar only): a state close in distance but not satisfying must never be reported as an exact solution (generator-independent runs)
        for k in range(3 if quick else 16):
            jobs.append("CRUN %s car %s %d %g %d %d %g %d %d %g" % (p, ["empty", "boxes3", "gap"][k % 3], 4 + k % 4, [0.05, 0.03][k % 2], 1, [10, 30][k % 2], [0.2, 0.12][k % 2], 4001 * (k + 1) + 3 * len(p), 200000, 1.0 if quick else 2.0))
        # the same with a directed control sampler that tries k controls per extension and keeps the one ending closest
        for k in range(2 if quick else 24):
            sysn = ["point", "car"][k % 2] + ":k%d" % rng.choice([2, 4, 8])
            env = rng.choice(["gap", "thin", "boxes3", "circles5", "thin2"])
            step = rng.choice([0.02, 0.05, 0.03]); mins = rng.choice([1, 1, 2]); maxs = mins + rng.choice([10, 30])
            jobs.append("CRUN %s %s %s %d %g %d %d %g %d %d %g" % (p, sysn, env, rng.randint(0, 3), step, mins, maxs, rng.choice([0.05, 0.1]), rng.randint(1, 10 ** 6), 200000, 1.0 if quick else 2.0))
    return jobs


def run_job(drv, j):
    try:
        r = subprocess.run([drv] + j.split(), capture_output=True, text=True, timeout=90)
        return j, r.returncode, r.stdout
    except subprocess.TimeoutExpired:
        return j, -999, ""


def main():
    c = vf.Check("C02", "proof")
    quick = c.tier == "quick"
    c.prove("Properties_C02.v")
    if not quick: c.coqchk("Properties_C02")
    try:
        c.build_ompl(); drv = c.build_driver("control_driver", link_ompl=True); model = c.build_model()
    except vf.BuildError as ex:
        c.broken.append("correspondence C02: implementation driver / model does not build: " + str(ex)[-400:]); c.finish()
    rng = c.rng
    # (a) propagateWhileValid, exact
    script = []
    for i in range(400 if quick else 20000):
        steps = rng.choice([0, 1, 2, 3, 5, 8, 13, 40]); start = rng.randint(-5, 5)
        bad = sorted(set(start + rng.randint(1, steps + 2) for _ in range(rng.choice([0, 0, 1, 1, 2, 3]))))
        script.append("PWV %d %d %s" % (steps, start, " ".join(map(str, bad))))
    # (a') the directed control sampler with k scripted candidates (control = increment per step, sampled step count)
    for i in range(300 if quick else 15000):
        start = rng.randint(-5, 5); target = start + rng.randint(-30, 30); k = rng.choice([1, 2, 2, 3, 4, 6])
        cands = [(rng.choice([-3, -2, -1, 1, 2, 3, 5]), rng.choice([1, 2, 3, 5, 8, 12])) for _ in range(k)]
        reach = sorted(set(start + u * j for u, n in cands for j in range(1, n + 1)))
        bad = sorted(set(rng.choice(reach) for _ in range(rng.choice([0, 1, 2, 3, 5]))))
        script.append("DCS %d %d %s | %s" % (start, target, " ".join(map(str, bad)), " ".join("%d %d" % cn for cn in cands)))
    # (a'') control::RRT as a whole against RrtModel.crrt_run: integer line, scripted state sampler and candidate controls, goal-bias
    #       draws from the RNG tape, linear nearest neighbours; tree (states, parents, controls, steps), reported path, flag, difference
    for i in range(300 if quick else 12000):
        k = rng.choice([1, 1, 2, 3]); iters = rng.choice([0, 1, 4, 12, 40]); goal = rng.randint(-25, 25); thr = rng.choice([1, 1, 2, 4])
        mind = rng.choice([1, 1, 2, 3]); maxd = mind + rng.choice([0, 3, 8])
        starts = [rng.randint(-5, 5) for _ in range(rng.choice([1, 1, 2]))]
        bad = sorted(set(rng.randint(-30, 30) for _ in range(rng.choice([0, 1, 3, 6, 12]))) - set(starts))
        samples = [rng.randint(-30, 30) for _ in range(rng.choice([0, 2, iters, iters + 3]))]
        us = [(rng.choice([-4, -3, -2, -1, 1, 2, 3, 4]), rng.randint(max(0, mind - 1), maxd)) for _ in range(k * iters + rng.choice([0, 0, 3]))]
        script.append("%s %d %d %d %d %d %d %d %g B %d %s S %d %s P %d %s U %d %s" % ("CRRT" if i % 3 else "CRRTI", goal, thr, mind, maxd, k, iters, rng.randint(0, 10 ** 6), rng.choice([0.0, 0.05, 0.25, 0.5]),
                      len(bad), " ".join(map(str, bad)), len(starts), " ".join(map(str, starts)), len(samples), " ".join(map(str, samples)), len(us), " ".join("%d %d" % q for q in us)))
    rc, o, e, s = vf.sh([drv], input="\n".join(script) + "\n", timeout=600); c.step("correspond:impl-pwv", drv, s, rc == 0)
    rc2, o2, e2, s2 = vf.sh([model, "control"], input="\n".join(script) + "\n", timeout=600); c.step("correspond:model-pwv", model + " control", s2, rc2 == 0)
    ndiff = 0; first_diff = None; npred = 0; first_pred = None; crrt_stats = collections.Counter()
    io, mo = o.split("\n"), o2.split("\n")
    for k, l in enumerate(script):
        a = io[k] if k < len(io) else "?"; b = mo[k] if k < len(mo) else "?"
        if a != b:
            ndiff += 1
            if first_diff is None or len(l) < len(first_diff[0]): first_diff = (l, a, b)
        # the statement on the implementation's own answer: counts and states consistent with the script
        w = a.replace("|", " ").split()
        if l.startswith(("CRRT ", "CRRTI ")):
            # the statement on the implementation's own tree and report: every tree motion replays on valid states with at least the
            # minimum duration; the path is a chain of tree motions from a start; exact => inside the goal threshold
            try:
                lw = l.split(); goal, thr, mind = int(lw[1]), int(lw[2]), int(lw[3]); nb = int(lw[10]); bad = set(map(int, lw[11:11 + nb])); o0 = 11 + nb
                ns = int(lw[o0 + 1]); starts = list(map(int, lw[o0 + 2:o0 + 2 + ns]))
                parts = [x.strip() for x in a.split("|")]
                nodes = [tuple(map(int, t.split())) for t in parts[0].split(";")[1:] if t.strip()]
                why = None
                for j, nd in enumerate(nodes):
                    if nd[1] < 0:
                        if nd[0] not in starts: why = "root %d is not a start state" % j
                    else:
                        x, pi, u, st = nd; px = nodes[pi][0]
                        if not (pi < j) or (st < mind and not l.startswith("CRRTI ")) or (st != 1 and l.startswith("CRRTI ")) or px + u * st != x or any((px + u * q) in bad for q in range(1, st + 1)): why = "tree motion %d -> %d (control %d x %d steps) does not replay on valid states / is shorter than the minimum duration" % (pi, j, u, st)
                rep = parts[1].split()
                crrt_stats["runs"] += 1; crrt_stats["nodes"] += len(nodes); crrt_stats["none" if rep[0] != "1" else ("exact" if rep[1] == "0" else "approximate")] += 1
                if rep[0] == "1":
                    path = [tuple(map(int, t.split())) for t in parts[2].split(";") if t.strip()]
                    edges = set((nodes[nd[1]][0], nd[0], nd[2], nd[3]) for nd in nodes if nd[1] >= 0)
                    if not path or path[0][0] not in starts: why = "the reported path does not begin at a start state"
                    elif any((p0[0], p1[0], p1[1], p1[2]) not in edges for p0, p1 in zip(path, path[1:])): why = "the reported path contains a segment that is not a tree motion"
                    elif rep[1] == "0" and not (abs(path[-1][0] - goal) < thr): why = "exact solution ends %d from the goal (threshold %d)" % (abs(path[-1][0] - goal), thr)
                    elif rep[1] == "1" and int(rep[2]) != abs(path[-1][0] - goal): why = "approximate solution reports difference %s, its last state is %d from the goal" % (rep[2], abs(path[-1][0] - goal))
                if why:
                    npred += 1
                    if first_pred is None: first_pred = (l, "control::RRT (scripted): " + why)
            except Exception as ex:
                npred += 1
                if first_pred is None: first_pred = (l, "control::RRT (scripted): no observation (%s) %s" % (ex, a[:80]))
            continue
        if l.startswith("DCS "):
            # the statement on the implementation's own answer: the returned control run for the returned number of steps from
            # the source stays valid and ends at the returned state; the control is one of the candidates, with at most its count
            try:
                hd, tl = l[4:].split("|"); hv = list(map(int, hd.split())); start, target, bad = hv[0], hv[1], set(hv[2:])
                tv = list(map(int, tl.split())); cands = list(zip(tv[0::2], tv[1::2]))
                u, n, dst = int(w[1]), int(w[2]), int(w[3])
                okc = any(cu == u and n <= cn for cu, cn in cands)
                okv = all((start + u * j) not in bad for j in range(1, n + 1))
                if not okc or not okv or dst != start + u * n:
                    npred += 1
                    if first_pred is None: first_pred = (l, "getBestControl returned control %d for %d steps and state %d: %s" % (u, n, dst,
                        "not a candidate with that many steps" if not okc else ("a step of the replay is invalid" if not okv else "the replay ends at %d" % (start + u * n))))
            except Exception:
                npred += 1
                if first_pred is None: first_pred = (l, "no observation: " + a[:80])
            continue
        try:
            steps, start = int(l.split()[1]), int(l.split()[2]); bad = set(map(int, l.split()[3:]))
            n1, r1 = int(w[2]), int(w[3]); exp = 0
            while exp < steps and (start + exp + 1) not in bad: exp += 1
            if n1 != exp or r1 != start + exp or int(w[1]) != start + steps or [int(x) for x in w[5:]] != list(range(start + 1, start + exp + 1)):
                npred += 1
                if first_pred is None: first_pred = (l, "propagate / propagateWhileValid returned '%s'; performing steps until the first invalid state gives %d steps ending at %d" % (a, exp, start + exp))
        except Exception:
            npred += 1
            if first_pred is None: first_pred = (l, "no observation: '%s'" % a)
    # (b) planners
    jobs = [l.strip() for l in open(c.replay) if l.startswith("CRUN ")] if c.replay else gen(rng, quick)
    t0 = time.time()
    with cf.ThreadPoolExecutor(14) as ex:
        results = list(ex.map(lambda j: run_job(drv, j), jobs))
    c.step("correspond:impl", "%s CRUN ... (%d planner runs)" % (drv, len(jobs)), time.time() - t0, True)
    feed = []; recs = []; stats = collections.Counter(); failures = collections.Counter(); failing = []
    def pred(j, msg, slug=None):
        nonlocal npred, first_pred
        if slug and c.known_finding(slug, msg + " ('%s')" % j): stats["known:" + slug] += 1; return
        npred += 1; failures[j.split()[1] + ": " + msg[:70]] += 1; failing.append((j, msg[:240]))
        if first_pred is None or not first_pred[0].startswith("CRUN"): first_pred = (j, msg)
    for j, rc, out in results:
        lines = [l for l in out.split("\n") if l and not l.startswith("CRUNINFO")]
        if any(l.startswith("SKIP") for l in lines): stats["skipped"] += 1; feed += ["SKIP x", "END"]; recs.append((j, None)); continue
        if "END" not in lines:
            pred(j, "planner crashed or did not return (exit %s)" % rc); feed += ["SKIP x", "END"]; recs.append((j, None)); continue
        feed += lines; d = {"segs": []}
        for l in lines:
            w = l.split("#")[0].split(); det = l.split("#")[1].strip() if "#" in l else ""
            if w[0] == "STATUS": d["st"] = dict(code=int(w[1]), has=w[2] == "1", before=int(w[3]), after=int(w[4]), approx=w[5] == "1", diff=int(w[6]))
            elif w[0] == "NSTATES": d["n"] = (int(w[1]), int(w[2]), int(w[3]))
            elif w[0] == "START": d["start"] = w[1] == "1"
            elif w[0] == "CSEG": d["segs"].append((int(w[1]), [x == "1" for x in w[2:7]], det))
            elif w[0] == "LAST": d["last"] = (w[1] == "1", int(w[2]))
            elif w[0] == "NOPATHCONTROL": d["nopc"] = True
        recs.append((j, d))
    rc3, o3, e3, s3 = vf.sh([model, "control"], input="\n".join(feed) + "\n", timeout=600); c.step("correspond:model", model + " control", s3, rc3 == 0)
    verdicts = [v for v in o3.split("\n") if v]
    for (j, d), v in zip(recs, verdicts):
        if d is None: continue
        st = d["st"]; stats["runs"] += 1; stats["status_%d" % st["code"]] += 1; stats["verdict_" + v] += 1
        msg = None
        if st["code"] in (5, 6):
            if not st["has"] or "n" not in d or d["n"][0] == 0: msg = "solution status %d without a control path" % st["code"]
            elif not d.get("start"): msg = "path does not start at a valid start state"
            elif d["n"][1] != d["n"][0] - 1 or d["n"][2] != d["n"][0] - 1: msg = "path has %d states, %d controls, %d durations" % d["n"]
            else:
                for k, (steps, fl, det) in enumerate(d["segs"]):
                    whole, minmax, cinb, rep, allv = fl
                    if not whole: msg = "segment %d: duration is not a whole number of propagation steps (%s)" % (k, det); break
                    if steps <= 0: msg = "segment %d: non-positive duration (%s)" % (k, det); break
                    if not cinb: msg = "segment %d: control outside the control-space bounds" % k; break
                    if not rep: msg = "segment %d: replaying the control for %d steps does not reproduce the next path state (%s)" % (k, steps, det); break
                    if not allv: msg = "segment %d: a propagation step of the replay lands on an invalid state (%s)" % (k, det); break
                if msg is None:
                    g, gd = d["last"]
                    if st["approx"]:
                        if st["code"] != 5: msg = "approximate solution held but status is %d" % st["code"]
                        elif abs(st["diff"] - gd) > 1: msg = "reported goal difference %g differs from the last state's goal distance %g" % (st["diff"] / 1e9, gd / 1e9)
                    else:
                        if st["code"] != 6: msg = "exact solution held but status is %d" % st["code"]
                        elif not g: msg = "solution not flagged approximate but the last state is %g away from the goal" % (gd / 1e9)
        elif st["after"] != st["before"]: msg = "status %d is not a solution status but %d path(s) were added" % (st["code"], st["after"] - st["before"])
        if msg: pred(j, msg)
        if (v == "ok") != (msg is None):
            ndiff += 1
            if first_diff is None: first_diff = (j, "admission rule '%s'" % v, "predicate '%s'" % msg)
    c.cov.update({"evaluations": len(script) + len(jobs), "traces_validated_against_impl": len(script) + stats["runs"], "distinct_nontrivial": stats["status_5"] + stats["status_6"],
                  "rule": "(a) %d scripted propagateWhileValid / propagate / SimpleDirectedControlSampler::getBestControl (1-6 scripted candidates) calls and scripted control::RRT runs with and without intermediate states (whole tree and report compared) (0..40 steps, 0..3 invalid states placed on or just after the trajectory), all three entry points compared exactly; (b) %d runs: 8 control planners (RRT with / without intermediate states, SST, EST, KPIECE1, PDST, SyclopRRT, SyclopEST) x systems {first-order point, car with heading wrap; directed control sampler with k = 1 (default), 2, 4, 8 candidates} x environments x queries x step size {.01-.1} x min/max duration {1-5, +0..30} x threshold x seeds; non-trivial = run reporting a solution (replayed step by step)" % (len(script), len(jobs)),
                  "disagreements": ndiff, "predicate_failures": npred, "control_rrt_scripts": dict(crrt_stats), "predicate_failures_by_kind": dict(failures), "failing_runs": failing[:40], "histogram": dict(stats)})
    c.cov["samples"] = jobs[:3]
    c.cov["trusted_base"] += ["extraction (ExtrOcamlBasic) + extract/control_driver.ml; harness/control_driver.cpp (its own copy of both propagators, replay tolerance 1e-9 in the state-space metric)"]
    c.assumptions += ["partial: propagateWhileValid and the replay of chains of its results are proved; that each planner assembles its path only from such results is checked per run",
                      "validity = inside the bounds and collision free (as in the library's control demos)"]
    if first_pred:
        j, msg = first_pred
        c.violation("implementation violates C02: %s on '%s'" % (msg, j), "# C02 replay: bin/check C02 --replay <this file>  (or: build/harness/control_driver <the line>)\n%s\n" % j)
    elif first_diff:
        c.broken.append("correspondence C02: on '%s': implementation / rule '%s' vs model / predicate '%s'" % first_diff)
    c.finish()


main()
