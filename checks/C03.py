"""C03 — interrupting, resuming or clearing a planner never corrupts its result.
prove:      coq/Properties_C03.v (query bookkeeping of Planner / PlannerInputStates for every history: each valid start
            once, clear() / a new problem definition forget the old query, the same one keeps progress; admission rule)
correspond: (a) Planner::setProblemDefinition / clear / PlannerInputStates of /repo vs the extracted PisModel on random op
            scripts; (b) histories of solve / clear / clearQuery / setProblemDefinition / getPlannerData on every planner
            under call-counting termination conditions, each report adjudicated by LedgerModel.adjudicate
search:     the C03 statement on the observed histories: no crash / hang, bounded evaluations after the condition fires,
            status vs held solutions, no empty path, monotone results across resumed solves, no state of the previous
            query after clear / new problem definition, allocation counter back to zero
"""
import os, sys, collections, subprocess, concurrent.futures as cf, time
import vf
sys.path.insert(0, os.path.dirname(__file__))

PLANNERS = ("RRT RRTi RRTConnect pRRT LazyRRT TRRT BiTRRT RRTstar InformedRRTstar SORRTstar RRTsharp RRTXstatic LBTRRT LazyLBTRRT "
            "EST BiEST ProjEST KPIECE1 BKPIECE1 LBKPIECE1 SBL pSBL PDST STRIDE FMT BFMT PRM PRMstar LazyPRM LazyPRMstar SPARS SPARStwo "
            "BITstar ABITstar AITstar EITstar EIRMstar SST RLRT BiRLRT CForest AnytimePathShortening QRRT QRRTStar QMP QMPStar").split()
KNOWN_NEWPDEF = "C03-new-problem-definition-keeps-old-tree"
KNOWN_ML_NEWPDEF = "C03-multilevel-second-problem-definition-crashes"
KNOWN_ML_LEAK = "C03-multilevel-goal-configuration-leak"
MULTILEVEL = {"QRRT", "QRRTStar", "QMP", "QMPStar"}
# multi-query planners override setProblemDefinition to clear the query themselves: a new problem definition without clear() must work there
CLEARS_QUERY_ITSELF = {"PRM", "PRMstar", "LazyPRM", "LazyPRMstar", "SPARS", "SPARStwo"}


def switches_without_clear(opnames):
    """a new problem definition installed after setup() / solve() with no clear()/clearQuery() in between
    (the driver sets the first problem definition and calls setup() before the first op)"""
    solved = True
    for o in opnames:
        if o[0] in "ST": solved = True
        elif o in ("C", "Q"): solved = False
        elif o[0] == "N" and solved: return True
    return False
MAX_FURTHER = 2000      # evaluations tolerated after the condition first reports true
MAX_SECS = 30.0


def gen_hists(rng, quick):
    H = []
    for p in PLANNERS:
        sp = rng.choice(["R2", "SE2", "R3"]) if not quick else "R2"
        env = rng.choice(["gap", "boxes3", "thin", "circles5", "empty"]) if not quick else "gap"
        ks = [0, 1, 2, rng.randint(3, 30), rng.randint(31, 400)]
        hs = ["S0 S%d S%d T300 D" % (ks[3], ks[4]),
              "S%d T200 T200 D C T300" % ks[1],
              "T300 C N2 T300 D",
              "T300 N2 T300",
              "S%d Q N1 T300 D C D" % ks[2]]
        if not quick:
            for _ in range(6):
                ops = []
                for _ in range(rng.randint(2, 7)):
                    ops.append(rng.choice(["S%d" % rng.choice([0, 1, 2, 5, rng.randint(3, 2000)]), "T%d" % rng.choice([50, 200, 400]), "C", "Q", "N%d" % rng.randint(0, 3), "D", "T200"]))
                hs.append(" ".join(ops))
        for h in hs:
            H.append("HIST %s %s %s %d 0.01 %s" % (p, sp, env, rng.randint(1, 10 ** 6), h))
        # an unreachable goal: every report is approximate; a ladder of short resumed solves must never make it worse
        for _ in range(2 if quick else 6):
            H.append("HIST %s %s blocked %d 0.01 %s D" % (p, sp, rng.randint(1, 10 ** 6), " ".join("S%d" % rng.choice([1, 2, 3, 4, 5, 8, 13, rng.randint(6, 40)]) for _ in range(rng.randint(4, 8)))))
    return H


def run_job(drv, j):
    try:
        r = subprocess.run([drv] + j.split(), capture_output=True, text=True, timeout=90)
        return j, r.returncode, r.stdout, r.stderr[-300:]
    except subprocess.TimeoutExpired as ex:
        return j, -999, (ex.stdout or b"").decode() if isinstance(ex.stdout, bytes) else (ex.stdout or ""), "timeout"


def parse_hist(out):
    """-> list of op records"""
    ops = []; cur = None; live = None; skip = None; end = False; queries = []
    for l in out.split("\n"):
        w = l.split("#")[0].split()
        if not w: continue
        if w[0] == "QUERY": queries.append((int(w[3]), int(w[5]))); 
        if w[0] == "OP": cur = {"op": w[1], "P": [], "ACC": set(), "SEG": [], "starts": [], "status": None, "lines": [], "query": queries[-1] if queries else None, "done": False}; ops.append(cur)
        elif cur is not None and w[0] == "QUERY": cur["newquery"] = queries[-1]
        elif cur is not None and w[0] == "STATUS":
            cur["status"] = dict(code=int(w[1]), has=w[2] == "1", before=int(w[3]), after=int(w[4]), approx=w[5] == "1", diff=int(w[6]), evals=int(w[8]), first=int(w[9]), further=int(w[10]), secs=float(w[11]))
            cur["lines"].append(" ".join(w[:7]))
        elif cur is not None and w[0] == "GOALMISMATCH": cur["goalmismatch"] = " ".join(w[1:])
        elif cur is not None and w[0] == "START": cur["starts"].append((int(w[1]), w[2] == "1", w[3] == "1")); cur["lines"].append(" ".join(w))
        elif cur is not None and w[0] == "P": cur["P"].append(dict(id=int(w[1]), inb=w[2] == "1", valid=w[3] == "1", goal=w[4] == "1", gdist=int(w[5]))); cur["lines"].append(" ".join(w))
        elif cur is not None and w[0] == "ACC": cur["ACC"].add((int(w[1]), int(w[2]))); cur["lines"].append(" ".join(w))
        elif cur is not None and w[0] == "SEG": cur["SEG"].append((w[1] == "1", int(w[2]))); cur["lines"].append(" ".join(w))
        elif cur is not None and w[0] == "LEN": cur["len"] = int(w[1]); cur["n"] = int(w[2])
        elif cur is not None and w[0] == "PDATA": cur["pdata"] = (int(w[1]), int(w[2]))
        elif w[0] == "ENDOP" and cur is not None: cur["done"] = True
        elif w[0] == "LIVE": live = (int(w[1]), int(w[2]), w[3] == "1")
        elif w[0] == "SKIP": skip = l[5:]
        elif w[0] == "ENDHIST": end = True
    return ops, live, skip, end, queries


def main():
    c = vf.Check("C03", "proof")
    quick = c.tier == "quick"
    c.prove("Properties_C03.v")
    if not quick: c.coqchk("Properties_C03")
    try:
        c.build_ompl(); drv = c.build_driver("interrupt_driver", link_ompl=True); pdrv = c.build_driver("pis_driver", link_ompl=True); model = c.build_model()
    except vf.BuildError as ex:
        c.broken.append("correspondence C03: implementation driver / model does not build: " + str(ex)[-400:]); c.finish()
    rng = c.rng
    # ---- (a) query bookkeeping, exact
    script = []
    nscripts = 200 if quick else 5000
    for i in range(nscripts):
        script.append("NEW")
        npd = rng.randint(1, 3)
        for _ in range(npd):
            def vals(n): return [str(rng.choice([4 * rng.randint(-20, 20), 4 * rng.randint(-20, 20) + rng.randint(1, 3), rng.choice([104, -200, 100])])) for _ in range(n)]
            script.append("PDEF %s | %s" % (" ".join(vals(rng.randint(0, 4))), " ".join(vals(rng.randint(0, 3)))))
        for _ in range(rng.randint(3, 25)):
            r = rng.random()
            if r < 0.3: script.append("NEXTSTART")
            elif r < 0.45: script.append("NEXTGOAL")
            elif r < 0.6: script.append("USE %d" % rng.randrange(npd))
            elif r < 0.7: script.append("CLEAR")
            elif r < 0.75: script.append("RESTART")
            elif r < 0.85: script.append("ADDSTART %d %d" % (rng.randrange(npd), rng.choice([4 * rng.randint(-9, 9), 4 * rng.randint(-9, 9) + 1, 300])))
            elif r < 0.93: script.append("MORESTARTS")
            else: script.append("MOREGOALS")
    rc, o, e, s = vf.sh([pdrv], input="\n".join(script) + "\n", timeout=600); c.step("correspond:impl-pis", pdrv, s, rc == 0)
    rc2, o2, e2, s2 = vf.sh([model, "pis"], input="\n".join(script) + "\n", timeout=600); c.step("correspond:model-pis", model + " pis", s2, rc2 == 0)
    io, mo = o.split("\n"), o2.split("\n")
    ndiff = 0; first_diff = None; npred = 0; first_pred = None
    start_of = 0
    for k, l in enumerate(script):
        if l == "NEW": start_of = k
        a = io[k] if k < len(io) else "?"; b = mo[k] if k < len(mo) else "?"
        if a != b:
            ndiff += 1
            if first_diff is None: first_diff = ("PIS", "\n".join(script[start_of:k + 1]), a, b)
    # ---- (b) histories
    hists = [l.strip() for l in open(c.replay) if l.startswith("HIST ")] if c.replay else gen_hists(rng, quick)
    t0 = time.time()
    with cf.ThreadPoolExecutor(14) as ex:
        results = list(ex.map(lambda j: run_job(drv, j), hists))
    c.step("correspond:impl", "%s HIST ... (%d histories, 14 at a time)" % (drv, len(hists)), time.time() - t0, True)
    import importlib.util
    spec = importlib.util.spec_from_file_location("c01lib", os.path.join(os.path.dirname(__file__), "C01.py"))
    A = set(l.strip() for l in open(os.path.join(vf.VERIF, "checks", "c01_classA.txt")) if l.strip() and not l.startswith("#"))
    feed = []; fed = []
    stats = collections.Counter(); further_max = collections.Counter(); failures = collections.Counter(); skipped = {}
    failing = []
    def pred(j, msg, slug=None):
        nonlocal npred, first_pred
        if slug and c.known_finding(slug, msg + " ('%s')" % j): stats["known:" + slug] += 1; return
        npred += 1; failures[j.split()[1] + ": " + msg[:60]] += 1; failing.append((j, msg[:200]))
        if first_pred is None or len(j) < len(first_pred[0]): first_pred = (j, msg)
    for j, rc, out, err in results:
        pl = j.split()[1]
        ops, live, skip, end, queries = parse_hist(out)
        if skip is not None: skipped[pl + " " + j.split()[2]] = skip[:100]; stats["skipped"] += 1; continue
        opnames = j.split()[6:]
        tainted = switches_without_clear(opnames) and pl not in CLEARS_QUERY_ITSELF
        ml_newpdef = pl in MULTILEVEL and any(o[0] == "N" for o in opnames)
        hist_slug = KNOWN_ML_NEWPDEF if ml_newpdef else (KNOWN_NEWPDEF if tainted else None)
        if not end:
            last = ops[-1]["op"] if ops else "setup"
            if rc == -999:
                pred(j, "planner does not return: history still running after 90 s (during op %d '%s'; every condition fires within 0.4 s or 20000 evaluations)" % (len(ops), last),
                     None)
            else: pred(j, "crash (exit %s) during op %d '%s' %s" % (rc, len(ops), last, err[-120:].replace("\n", " ")), hist_slug)
            stats["no_return"] += 1; continue
        stats["histories"] += 1
        if live is None or live[0] != 0:
            nsolve = sum(1 for o in opnames if o[0] in "ST")
            slug = hist_slug or ("C03-informedtrees-plannerdata-pins-states" if (pl in ("BITstar", "ABITstar", "AITstar") and "D" in opnames) else None) or (KNOWN_ML_LEAK if (pl in ("QRRT", "QRRTStar") and live and 0 < live[0] <= nsolve) else None)
            pred(j, "state allocation counter is %s after the planner and problem definitions were destroyed (leak)" % (live[0] if live else "?"), slug)
        if live and live[2]: pred(j, "more states freed than allocated at some point (double free)")
        prev = None; oldq = set(); fresh = False; switched_without_clear = False; accepted_query = None   # fresh: clear()/clearQuery() was the last lifecycle op
        for k, op in enumerate(ops):
            o = op["op"]
            if o in ("C", "Q"): fresh = True; switched_without_clear = False; prev = None if o == "C" else prev
            if o[0] == "N":
                if op.get("query"): pass
                switched_without_clear = (not fresh) and pl not in CLEARS_QUERY_ITSELF; prev = None
            if o[0] not in "ST": continue
            st = op["status"]
            if st is None: pred(j, "no status observed for op %d '%s'" % (k, o)); continue
            stats["solves"] += 1; stats["status_%d" % st["code"]] += 1
            if st["first"] >= 0:
                further_max[pl] = max(further_max[pl], st["further"])
                if st["further"] > MAX_FURTHER: pred(j, "solve() evaluated the termination condition %d more times after it first reported true (op %d '%s')" % (st["further"], k, o))
            if st["secs"] > MAX_SECS: pred(j, "solve() took %.1f s although the condition fired (op %d '%s')" % (st["secs"], k, o))
            # a resumed solve on an unchanged query must not reject the start / goal it accepted before
            if st["code"] in (1, 2) and not fresh and accepted_query == op["query"] and not switched_without_clear:
                pred(j, "a resumed solve() on the same query returned status %d (invalid start / goal) although the previous solve() accepted it (op %d '%s')" % (st["code"], k, o), "C03-bfmt-cannot-resume" if pl == "BFMT" else None)
            if st["code"] not in (1, 2, 3): accepted_query = op["query"]
            sol = st["code"] in (5, 6)
            if sol and (not st["has"] or not op["P"]): pred(j, "status %d reported but the problem definition holds no (or an empty) solution path (op %d '%s')" % (st["code"], k, o), KNOWN_NEWPDEF if switched_without_clear else None)
            if not sol and st["after"] != st["before"]: pred(j, "status %d is not a solution status but %d path(s) were added (op %d '%s')" % (st["code"], st["after"] - st["before"], k, o))
            if st["code"] == 6 and st["has"] and st["approx"]: pred(j, "EXACT_SOLUTION returned but the held top solution is approximate (op %d '%s')" % (k, o))
            if st["after"] < st["before"]: pred(j, "solve() removed solutions from the problem definition (op %d '%s')" % (k, o))
            cur_q = op["query"]
            if op.get("goalmismatch"): pred(j, "the goal's isSatisfied() / distance disagrees with distance(state, goal state) < threshold: state %s (op %d '%s')" % (op["goalmismatch"], k, o))
            if st["has"] and op["P"]:
                ids = [p["id"] for p in op["P"]]
                cur_starts = [i for i, v, b in op["starts"]]
                newly = st["after"] > st["before"]
                if ids[0] not in cur_starts:
                    pred(j, "reported path starts at state %d which is not a start of the current problem definition %s (op %d '%s')" % (ids[0], cur_starts, k, o), KNOWN_NEWPDEF if switched_without_clear else None)
                elif any((not p["inb"]) for p in op["P"]): pred(j, "reported path leaves the bounds (op %d '%s')" % (k, o))
                elif any(mi >= 16 for _, mi in op["SEG"]): pred(j, "reported path stays in invalid space for more than two resolution lengths (op %d '%s')" % (k, o))
                elif not st["approx"] and not op["P"][-1]["goal"]: pred(j, "exact solution does not end in the goal region of the current problem definition (op %d '%s')" % (k, o), KNOWN_NEWPDEF if switched_without_clear else None)
                # the ledger rule on first solves of a query (status and held solution come from this call alone)
                if st["before"] == 0 and not switched_without_clear:
                    base = pl
                    feed.append("CLASS %s 1 %d" % ("A" if base in A else "B", int(0.05e9) + 1 if base in ("AITstar", "EITstar", "EIRMstar") else 1))
                    feed += op["lines"]; feed.append("END"); fed.append((j, k, o))
                # resumed solve on the same query: can only keep or improve
                if prev is not None and prev["query"] == cur_q and not fresh:
                    if prev["exact"] and st["approx"]: pred(j, "a resumed solve() lost the exact solution held before (op %d '%s')" % (k, o))
                    if prev["exact"] and not st["approx"] and op.get("len", 0) > prev["len"] + 10: pred(j, "after a resumed solve() the best solution is longer than before: %g > %g (op %d '%s')" % (op.get("len", 0) / 1e9, prev["len"] / 1e9, k, o))
                    # both approximate: the reported path must not end farther from the goal than the one reported before
                    # (distance of the path's last state to the goal, measured by the harness, and the recorded difference)
                    if (not prev["exact"]) and st["approx"]:
                        if op["P"][-1]["gdist"] > prev["gdist"] + 1000:
                            pred(j, "a resumed solve() made the reported approximate solution worse: its end is %.9f from the goal, the one reported before was %.9f (op %d '%s')" % (op["P"][-1]["gdist"] / 1e9, prev["gdist"] / 1e9, k, o))
                        elif st["diff"] > prev["diff"] + 1000 and prev["diff"] >= 0:
                            pred(j, "a resumed solve() increased the reported solution difference: %.9f -> %.9f (op %d '%s')" % (prev["diff"] / 1e9, st["diff"] / 1e9, k, o))
                prev = {"query": cur_q, "exact": not st["approx"], "len": op.get("len", 0), "gdist": op["P"][-1]["gdist"], "diff": st["diff"]}
            fresh = False
    rc3, o3, e3, s3 = vf.sh([model, "ledger"], input="\n".join(feed) + "\n", timeout=3000)
    c.step("correspond:model", model + " ledger", s3, rc3 == 0)
    verdicts = o3.split("\n")
    for (j, k, o), v in zip(fed, verdicts):
        stats["ledger_" + v] += 1
        if v not in ("ok",):
            if v == "uncovered":
                ndiff += 1
                if first_diff is None: first_diff = ("LEDGER", j, "op %d '%s'" % (k, o), "class-A planner reported a pair that is not an accepted motion")
            else: pred(j, "admission rule rejects the report of op %d '%s': %s" % (k, o, v))
    # ---- (c) resumed solves of geometric::RRT against RrtModel.rrt_calls: 2-4 solve() calls on one planner without clear(), each with
    #      its own scripted samples and goal-bias tape; the final tree (bit for bit) and the report of every call must agree
    import struct, math
    try:
        rdrv = c.build_driver("rrt_driver", link_ompl=True)
    except vf.BuildError as ex:
        c.broken.append("correspondence C03: rrt_driver does not build against /repo: " + str(ex)[-300:]); c.finish()
    rng2 = c.rng
    def coord(grid): return rng2.choice([-1.0, -0.5, -0.25, 0.0, 0.25, 0.5, 0.75, 1.0, 1.25]) if grid else round(rng2.uniform(-1.5, 1.5), 3)
    rlines = []
    for i in range(250 if quick else 8000):
        grid = rng2.random() < 0.35
        walls = [(coord(grid), lo, lo + rng2.choice([0.25, 0.5, 1.0, 3.0])) for _ in range(rng2.choice([0, 1, 1, 2])) for lo in [coord(grid)]]
        starts = [(coord(grid), coord(grid)) for _ in range(rng2.choice([1, 1, 2]))]; g = (coord(grid), coord(grid))
        calls = []
        for _ in range(rng2.choice([2, 2, 3, 4])):
            pts = [(coord(grid), coord(grid)) for _ in range(rng2.choice([0, 2, 6, 15]))]
            if pts and rng2.random() < 0.3: pts[rng2.randrange(len(pts))] = g
            calls.append("%d %d P %d %s" % (rng2.choice([0, 1, 4, 10, 25]), rng2.randint(0, 10 ** 6), len(pts), " ".join("%r %r" % q for q in pts)))
        rlines.append("RRTN %g %g %g W %d %s S %d %s G %r %r C %d %s" % (rng2.choice([0.1, 0.3, 0.5, 1.0, 10.0]), rng2.choice([0.0, 0.05, 0.25, 0.5]), rng2.choice([0.05, 0.2, 0.5]),
                      len(walls), " ".join("%r %r %r" % w for w in walls), len(starts), " ".join("%r %r" % q for q in starts), g[0], g[1], len(calls), " ".join(calls)))
    rcr, orr, err_, srr = vf.sh([rdrv], input="\n".join(rlines) + "\n", timeout=900); c.step("correspond:impl-rrt-resume", rdrv, srr, rcr == 0)
    rcq, oq, eq, sq = vf.sh([model, "rrt"], input="\n".join(rlines) + "\n", timeout=900); c.step("correspond:model-rrt-resume", model + " rrt", sq, rcq == 0)
    il, ml = [l for l in orr.split("\n") if l.startswith("rrtn ")], [l for l in oq.split("\n") if l.startswith("rrtn ")]
    def flb(h): return struct.unpack("<d", struct.pack("<Q", int(h, 16)))[0]
    def canon_rrtn(l):
        parts = [x.strip() for x in l.split("|")]
        return [("1 0 -" if x.startswith("1 0 ") else x) for x in parts]       # the difference of an exact solution is not recorded by the problem definition
    rrtn_stats = collections.Counter()
    for k, rl in enumerate(rlines):
        a = il[k] if k < len(il) else "<no output>"; b = ml[k] if k < len(ml) else "<no output>"
        if canon_rrtn(a) != canon_rrtn(b):
            ndiff += 1
            if first_diff is None: first_diff = ("RRT resumed", rl, a[:300], b[:300])
        try:    # every call's path: from a start, along tree motions of the final tree
            parts = [x.strip() for x in a.split("|")]
            nodes = [(flb(t.split()[0]), flb(t.split()[1]), int(t.split()[2])) for t in parts[0].split(";")[1:] if t.strip()]
            edges = set((nodes[p][:2], (x, y)) for (x, y, p) in nodes if p >= 0); roots = set((x, y) for (x, y, p) in nodes if p < 0)
            for q in range(1, len(parts), 2):
                rep = parts[q].split()
                rrtn_stats["none" if rep[0] != "1" else ("exact" if rep[1] == "0" else "approximate")] += 1
                if rep[0] == "1":
                    path = [(flb(t.split()[0]), flb(t.split()[1])) for t in parts[q + 1].split(";") if t.strip()]
                    if not path or path[0] not in roots or any((u, v) not in edges for u, v in zip(path, path[1:])):
                        pred(rl, "resumed geometric::RRT: the path reported by call %d is not a chain of tree motions from a start state" % ((q + 1) // 2))
        except Exception as ex:
            pred(rl, "resumed geometric::RRT: no observation (%s) %s" % (ex, a[:80]))
    c.cov.update({"rrt_resumed_scripts": len(rlines), "rrt_resumed_reports": dict(rrtn_stats)})
    # ---- (d) resumed solves of geometric::RRTConnect against RrtConnectModel.rc_solves: 1-4 solve() calls, both final trees and every report
    clines = []
    for i in range(250 if quick else 8000):
        grid = rng2.random() < 0.35
        walls = [(coord(grid), lo, lo + rng2.choice([0.25, 0.5, 1.0, 3.0])) for _ in range(rng2.choice([0, 1, 1, 2, 3])) for lo in [coord(grid)]]
        starts = [(coord(grid), coord(grid)) for _ in range(rng2.choice([1, 1, 2, 3]))]
        goals = [(coord(grid), coord(grid)) for _ in range(rng2.choice([1, 1, 2, 4]))]
        calls = []
        for _ in range(rng2.choice([1, 2, 3, 4])):
            pts = [(coord(grid), coord(grid)) for _ in range(rng2.choice([0, 1, 3, 8, 20]))]
            calls.append("P %d %s" % (len(pts), " ".join("%r %r" % q for q in pts)))
        clines.append("RRTCN %g W %d %s S %d %s G %d %s C %d %s" % (rng2.choice([0.1, 0.3, 0.5, 1.0, 10.0]), len(walls), " ".join("%r %r %r" % w for w in walls), len(starts), " ".join("%r %r" % q for q in starts),
                      len(goals), " ".join("%r %r" % q for q in goals), len(calls), " ".join(calls)))
    rcc, occ, ecc, scc = vf.sh([rdrv], input="\n".join(clines) + "\n", timeout=900); c.step("correspond:impl-rrtconnect-resume", rdrv, scc, rcc == 0)
    rcd, ocd, ecd, scd = vf.sh([model, "rrt"], input="\n".join(clines) + "\n", timeout=900); c.step("correspond:model-rrtconnect-resume", model + " rrt", scd, rcd == 0)
    icl, mcl = [l for l in occ.split("\n") if l.startswith("rrtcn")], [l for l in ocd.split("\n") if l.startswith("rrtcn")]
    rcn_stats = collections.Counter()
    def wtouches(k, a, b):
        w, lo, hi = k
        if (a[0] - w) * (b[0] - w) > 0.0: return False
        if a[0] == b[0]: return (a[1] <= hi and lo <= b[1]) if a[1] <= b[1] else (b[1] <= hi and lo <= a[1])
        t = (w - a[0]) / (b[0] - a[0]); y = a[1] + t * (b[1] - a[1]); return lo <= y <= hi
    for k, cl in enumerate(clines):
        a = icl[k].strip() if k < len(icl) else "<no output>"; b = mcl[k].strip() if k < len(mcl) else "<no output>"
        if a != b:
            ndiff += 1
            if first_diff is None: first_diff = ("RRTConnect resumed", cl, a[:300], b[:300])
        try:
            w = cl.split(); nw = int(w[3]); walls = [(float(w[4 + 3 * j]), float(w[5 + 3 * j]), float(w[6 + 3 * j])) for j in range(nw)]
            o = 4 + 3 * nw; ns = int(w[o + 1]); starts = [(float(w[o + 2 + 2 * j]), float(w[o + 3 + 2 * j])) for j in range(ns)]
            o = o + 2 + 2 * ns; ng = int(w[o + 1]); goals = [(float(w[o + 2 + 2 * j]), float(w[o + 3 + 2 * j])) for j in range(ng)]
            parts = [x.strip() for x in a.split("|")]
            for q in range(1, len(parts), 2):
                rep = parts[q].split()
                rcn_stats["none" if rep[0] != "1" else ("exact" if rep[1] == "0" else "approximate")] += 1
                if rep[0] == "1":
                    path = [(flb(t.split()[0]), flb(t.split()[1])) for t in parts[q + 1].split(";") if t.strip()]
                    if not path or path[0] not in starts or any(wtouches(kk, u, v) for u, v in zip(path, path[1:]) for kk in walls) or (rep[1] == "0" and path[-1] not in goals):
                        pred(cl, "resumed geometric::RRTConnect: the path reported by call %d does not run from a start state (to a goal state) along wall-free motions" % ((q + 1) // 2))
        except Exception as ex:
            pred(cl, "resumed geometric::RRTConnect: no observation (%s) %s" % (ex, a[:80]))
    c.cov.update({"rrtconnect_resumed_scripts": len(clines), "rrtconnect_resumed_reports": dict(rcn_stats)})
    # ---- (d2) geometric::RRTstar resumed: several solve() calls on one planner (tree, goal motions and best cost persist, the approximate
    #      bookkeeping restarts) against RrtStarCalls.star_solves on primitive floats: the final tree with every cost and every call's report
    import rrtstar_scripts as rss
    sl3, st3 = rss.gen_calls(rng2, 80 if quick else 1500)
    rcs3, ocs3, ecs3, scs3 = vf.sh([rdrv], input="\n".join(sl3) + "\n", timeout=900); c.step("correspond:impl-rrtstar-resume", rdrv, scs3, rcs3 == 0)
    il3 = [l for l in ocs3.split("\n") if l.startswith("rrtsn")]; ml3 = []; tm3 = 0.0
    for a0 in range(0, len(st3), 100):
        src = "From Coq Require Import Floats List. From OmplV Require Import EstFloat RrtStarFloat. Import ListNotations.\nLocal Open Scope float_scope.\nEval vm_compute in [\n" + ";\n".join(st3[a0:a0 + 100]) + "].\n"
        pth = os.path.join(c.outdir, "star_calls_%d.v" % a0); open(pth, "w").write(src)
        rcm, ocm, ecm, scm = vf.sh("timeout 1500 coqc -Q %s OmplV %s" % (vf.COQ, pth), timeout=1600); tm3 += scm
        if rcm != 0: c.broken.append("model evaluation (coqc star_calls) failed: " + (ecm or ocm)[-300:]); break
        txt = ocm[ocm.index("["):ocm.rindex("]") + 1].replace("%float", "").replace(";", ",")
        ml3 += eval(txt, {"__builtins__": {}, "infinity": float("inf"), "neg_infinity": float("-inf"), "nan": float("nan")})
    c.step("correspond:model-rrtstar-resume", "coqc star_calls_*.v (Eval vm_compute, RrtStarFloat.star_float_calls)", tm3, not c.broken)
    rs_stats = collections.Counter()
    for k, sl in enumerate(sl3):
        a = il3[k].strip() if k < len(il3) else "<no output>"
        try:
            jd = rss.judge_calls(sl, a); rs_stats["calls"] += len(jd["ireps"]); rs_stats["reports"] += sum(1 for r in jd["ireps"] if r); rs_stats["nodes"] += len(jd["nodes"])
            if k < len(ml3):
                m = ml3[k]; same = [rss.fb(float(x)) for x in m[0]] == jd["itree"] and [[rss.fb(float(x)) for x in r] for r in m[1:]] == jd["ireps"]
                if not same and jd["dup"]: rs_stats["ties_no_verdict"] += 1
                elif not same:
                    ndiff += 1
                    if first_diff is None: first_diff = ("RRTstar resumed", sl, a[:300], repr(m)[:300])
            if jd["path_bad"]: pred(sl, "resumed geometric::RRTstar: " + jd["path_bad"])
        except Exception as ex:
            pred(sl, "resumed geometric::RRTstar: no observation (%s) %s" % (ex, a[:80]))
    c.cov.update({"rrtstar_resumed_scripts": len(sl3), "rrtstar_resumed": dict(rs_stats)})
    # ---- (e) LazyLBTRRT's LPAstarOnGraph against LpaModel (repaired queue-removal rule): scripted edge insertions / removals / shortest-path
    #      computations on LazyLBTRRT's graph type; after every operation the whole state (g, rhs, parent, flag of every node, queue order) and
    #      every answer must agree; on the implementation no flag may disagree with the queue, no inconsistent node may be unqueued, no call hang
    try:
        ldrv = c.build_driver("lpa_driver", link_ompl=False)
    except vf.BuildError as ex:
        c.broken.append("correspondence C03: lpa_driver does not build against /repo (LPAstarOnGraph internals renamed?): " + str(ex)[-300:]); c.finish()
    llines = ["LPA 4 0 3 0 0 0 0 | I 0 3 9 | S | I 0 1 1 | I 0 2 1 | R 0 1 | S",
              "LPA 7 0 6 0 0 0 0 0 0 0 | I 5 6 3 | I 4 1 1 | R 5 6 | S | I 0 4 1 | S | R 0 4 | I 2 0 1 | R 0 2 | I 4 6 1 | S"]
    for i in range(400 if quick else 12000):
        n = rng2.choice([4, 5, 6, 7, 9]); ops = []; edges = set()
        hs = [0] * n if rng2.random() < 0.6 else [rng2.choice([0, 0, 1, 2]) for _ in range(n)]; hs[n - 1] = 0
        for k in range(rng2.choice([6, 10, 16, 24, 40])):
            r = rng2.random()
            if r < 0.55 or not edges:
                u, v = rng2.sample(range(n), 2)
                if (min(u, v), max(u, v)) in edges: continue
                edges.add((min(u, v), max(u, v))); ops.append("I %d %d %d" % (u, v, rng2.choice([1, 1, 2, 3])))
            elif r < 0.8:
                e = rng2.choice(sorted(edges)); edges.discard(e); ops.append("R %d %d" % e)
            else: ops.append("S")
        ops.append("S")
        llines.append("LPA %d 0 %d %s | %s" % (n, n - 1, " ".join(map(str, hs)), " | ".join(ops)))
    rcl, ol, el, sl = vf.sh([ldrv], input="\n".join(llines) + "\n", timeout=1800); c.step("correspond:impl-lpastar", ldrv, sl, rcl == 0)
    rcm, om, em, sm = vf.sh([model, "lpa"], input="\n".join(llines) + "\n", timeout=1800); c.step("correspond:model-lpastar", model + " lpa", sm, rcm == 0)
    ib, mb = ol.split("END\n"), om.split("END\n")
    lpa_stats = collections.Counter()
    def canon_lpa(block):
        outl = []
        for ln in block.strip().split("\n"):
            if ln.endswith("HANG"): outl.append("HANG"); break
            outl.append(ln)
        return outl
    for k, ll in enumerate(llines):
        a = ib[k] if k < len(ib) else "<no output>"; b = mb[k] if k < len(mb) else "<no output>"
        lpa_stats["scripts"] += 1; lpa_stats["ops"] += ll.count("|")
        if canon_lpa(a) != canon_lpa(b):
            ndiff += 1
            if first_diff is None: first_diff = ("LPAstarOnGraph", ll, " / ".join(canon_lpa(a))[-300:], " / ".join(canon_lpa(b))[-300:])
        for fl, what in (("HANG", "computeShortestPath does not return (its search or its walk over the parent pointers does not end)"),
                         ("QFLAG", "a node's isInQueue flag disagrees with the queue"), ("LOST", "an inconsistent node is not in the queue")):
            if fl in a:
                lpa_stats[fl] += 1
                pred(ll, "LazyLBTRRT's LPAstarOnGraph: " + what); break
    c.cov.update({"lpastar_scripts": dict(lpa_stats)})
    c.cov.update({"evaluations": len(script) + stats["solves"], "traces_validated_against_impl": nscripts + stats["histories"], "distinct_nontrivial": stats["histories"],
                  "rule": "(a) %d random scripts over 1-3 problem definitions (0-4 starts, 0-3 goal states, invalid / out-of-bounds ones included) with USE / CLEAR / RESTART / NEXTSTART / NEXTGOAL / ADDSTART / MORE* operations, compared exactly; (b) %d histories over %d planners: interrupt ladder S0 S<k> (condition true at evaluation k) then resume, clear + same query, clear + new query, new query without clear, clearQuery, getPlannerData, plus random histories (thorough), on allocation-counting R2 / SE2 / R3 spaces with gap / thin-wall / box / circle maps; non-trivial = history that ran to completion" % (nscripts, len(hists), len(PLANNERS)),
                  "disagreements": ndiff, "predicate_failures": npred, "predicate_failures_by_kind": dict(failures), "failing_histories": failing[:40], "status_histogram": dict(stats), "max_further_evaluations_by_planner": dict(further_max), "skipped": skipped})
    c.cov["samples"] = hists[:3]
    c.cov["trusted_base"] += ["harness/lpa_driver.cpp (LazyLBTRRT's graph type and call pattern replicated; private members of LPAstarOnGraph reached by re-declaring private as public; each computeShortestPath first tried in a forked child under an alarm) + extract/lpa_driver.ml", "extraction (ExtrOcamlBasic) + extract/pis_driver.ml, ledger_driver.ml; harness/interrupt_driver.cpp, pis_driver.cpp, planning_common.h (call-counting termination conditions, allocation-counting state spaces)"]
    c.assumptions += ["partial: the bookkeeping model is proved and compared exactly; what each planner's solve() does under interruption is checked per history, not proved",
                      "'bounded number of further evaluations' is checked as <= %d evaluations and <= %.0f s" % (MAX_FURTHER, MAX_SECS),
                      "leaks are observed through allocState/freeState counts of the state space only (motions and other heap objects are not counted)"]
    if first_diff: c.log("first disagreement:", first_diff)
    if first_pred:
        j, msg = first_pred
        c.violation("implementation violates C03: %s on '%s'" % (msg, j), "# C03 replay: bin/check C03 --replay <this file>  (or: build/harness/interrupt_driver <the line>)\n%s\n" % j)
    elif first_diff:
        c.broken.append("correspondence C03 (%s): implementation '%s' model '%s' on:\n%s" % (first_diff[0], first_diff[2], first_diff[3], first_diff[1][:600]))
    c.finish()


main()
