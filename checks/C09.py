"""C09 — copies and persisted data reproduce states and planner graphs exactly.
prove:      coq/Properties_C09.v
correspond: StateSpace serialize / copyToReals / computeSignature / getSerializationLength for generated nested
            spaces, StateStorage and PlannerDataStorage store/load incl. every byte prefix and a substituted space,
            PlannerData start/goal marks — vs the extracted model (byte images, signatures, verdicts, marks)
search:     the C09 statement on the implementation: copy/clone/deserialize/reals/ScopedState reproduce the image,
            stored sets and graphs load back equal, every corruption is rejected, partial copies move exactly
            the common components
"""
import os, struct, collections
import vf


def gen_space(rng, depth):
    r = rng.random()
    if depth == 0 or r < 0.45:
        k = rng.choice(["R", "R", "O2", "O3", "T", "D"])
        if k == "R": return ["R", str(rng.randint(1, 4))], [("d",)] * 0 or None
        return [k] if k != "D" else ["D", "0", "9"], None
    n = rng.randint(1, 4)
    toks = ["C", str(n)]
    for _ in range(n):
        toks += gen_space(rng, depth - 1)[0]
    return toks, None


def kinds(spec):
    """scalar kinds in storage order from a prefix spec"""
    out = []; pos = 0
    def go():
        nonlocal pos
        t = spec[pos]; pos += 1
        if t == "R": n = int(spec[pos]); pos += 1; out.extend(["d"] * n)
        elif t == "T": out.append("d")
        elif t == "O2": out.append("a")
        elif t == "O3": out.extend(["q0", "q", "q", "q"])
        elif t == "D": pos += 2; out.append("i")
        else:
            n = int(spec[pos]); pos += 1
            for _ in range(n): go()
    go()
    return out


def dbits(x): return struct.unpack("<Q", struct.pack("<d", x))[0]


def gen_copy_case(rng, counter):
    """two related space trees (a name identifies a space: shared names carry identical subtrees; names unique within a tree)
    -> (COPY line, dest leaf names, source leaf names, dest values, source values)"""
    def fresh():
        counter[0] += 1; return counter[0]
    def rand_tree(depth):
        if depth == 0 or rng.random() < 0.45: return ("L", fresh())
        return ("C", fresh(), [rand_tree(depth - 1) for _ in range(rng.randint(1, 3))])
    def nodes(t):
        out = [t]
        if t[0] == "C":
            for c in t[2]: out += nodes(c)
        return out
    def names(t): return set(n[1] for n in nodes(t))
    dest = rand_tree(rng.randint(0, 3))
    r = rng.random()
    if r < 0.08: src = dest                                            # the same space
    elif r < 0.16: src = rng.choice(nodes(dest))                         # a subspace of the destination
    else:
        picked = []; used = set()
        cands = nodes(dest); rng.shuffle(cands)
        for n in cands[:rng.randint(0, 4)]:
            if not (names(n) & used): picked.append(n); used |= names(n)
        import copy as _copy
        def build(depth):
            nonlocal picked
            if picked and rng.random() < 0.5: return _copy.deepcopy(picked.pop())
            if depth == 0 or rng.random() < 0.35: return ("L", fresh())
            return ("C", fresh(), [build(depth - 1) for _ in range(rng.randint(1, 3))])
        src = build(rng.randint(0, 3))
        if picked: src = ("C", fresh(), [src] + [_copy.deepcopy(x) for x in picked]); picked = []
        if r > 0.9 and dest[0] == "C": dest, src = src, dest               # the destination inside the source
    def spec(t): return "L %d" % t[1] if t[0] == "L" else "C %d %d %s" % (t[1], len(t[2]), " ".join(spec(c) for c in t[2]))
    def leaves(t): return [t[1]] if t[0] == "L" else [x for c in t[2] for x in leaves(c)]
    dl, sl = leaves(dest), leaves(src)
    dv = [rng.randint(-999, 999) for _ in dl]; sv = [rng.randint(1000, 9999) for _ in sl]
    line = ("COPY %s | %s | %s | %s" % (spec(dest), spec(src), " ".join(map(str, dv)), " ".join(map(str, sv)))).replace("  ", " ")
    return line, dl, sl, dv, sv


def main():
    c = vf.Check("C09", "proof")
    quick = c.tier == "quick"
    c.prove("Properties_C09.v")
    if not quick:
        c.coqchk("Properties_C09")
    try:
        c.build_ompl()
        drv = c.build_driver("codec_driver", link_ompl=True)
        model = c.build_model()
    except vf.BuildError as ex:
        c.broken.append("correspondence C09: implementation/driver/model does not build: " + str(ex)[-400:])
        c.finish()
    rng = c.rng
    il, ml = [], []     # implementation / model script lines (parallel)
    name_counter = [0]; copy_meta = {}
    nspaces = 0
    if c.replay:
        for l in open(c.replay):
            l = l.strip()
            if l and not l.startswith("#"): il.append(l); ml.append(l)
    else:
        for i in range(120 if quick else 3000):
            spec = gen_space(rng, rng.randint(0, 3))[0]
            ks = kinds(spec)
            if not ks: continue
            nspaces += 1
            il.append("SPACE " + " ".join(spec)); ml.append(il[-1])
            nst = rng.randint(1, 12)
            for _ in range(nst):
                vi, vm = [], []
                quat = []
                for k in ks:
                    if k == "i":
                        v = rng.randint(0, 9); vi.append(str(v)); vm.append(str(v)); continue
                    if k == "a": x = rng.choice([rng.uniform(-3.14, 3.14), 0.0, 3.0, -3.0])
                    elif k == "q0":
                        import math
                        q = [rng.gauss(0, 1) for _ in range(4)]; nq = math.sqrt(sum(t * t for t in q)) or 1.0
                        quat = [t / nq for t in q] if rng.random() < 0.8 else [0.0, 0.0, 0.0, 1.0]
                        x = quat.pop(0)
                    elif k == "q": x = quat.pop(0)
                    else: x = rng.choice([rng.uniform(-10, 10), 0.0, -0.0, 1e300, 5e-324, float(rng.randint(-3, 3)), rng.random()])
                    b = dbits(x); vi.append(x.hex()); vm.append("%d:%d" % (b >> 32, b & 0xffffffff))
                il.append("STATE " + " ".join(vi)); ml.append("STATE " + " ".join(vm))
            if i % 3 == 0:
                n = rng.randint(1, min(nst, 5)); il.append("STORE %d" % n); ml.append(il[-1])
            if i % 4 == 0:
                nv = rng.randint(1, min(nst, 8))
                tags = [rng.randint(0, 9) for _ in range(nv)]
                edges = []
                for _ in range(rng.randint(0, 2 * nv)):
                    u, v = rng.randrange(nv), rng.randrange(nv)
                    if u != v and (u, v) not in [(a, b) for a, b, _ in edges]: edges.append((u, v, rng.choice([0.5, 1.0, 2.25, 7.0])))
                st = rng.sample(range(nv), rng.randint(0, min(2, nv)))
                # goals in arbitrary (often descending) order; disjoint from the starts here (the overlap is a known finding, exercised separately)
                gl = [x for x in rng.sample(range(nv), rng.randint(0, min(3, nv))) if x not in st]
                if rng.random() < 0.5: gl.sort(reverse=True)
                g = "GRAPH %d | %s | %s | %s | %s" % (nv, " ".join(map(str, tags)), " ".join("%d %d %g" % e for e in edges), " ".join(map(str, st)), " ".join(map(str, gl)))
                il.append(g); ml.append(g)
            if i % 10 == 0:
                il.append("PARTIAL %d" % rng.randint(1, 10 ** 6)); ml.append("")
            for _ in range(3):
                cl, dl_, sl_, dv_, sv_ = gen_copy_case(rng, name_counter)
                il.append(cl); ml.append(cl); copy_meta[cl] = (dl_, sl_, dv_, sv_)
    rc, o, e, s = vf.sh([drv], input="\n".join(il) + "\n", timeout=3000)
    c.step("correspond:impl", drv, s, rc == 0)
    rc2, o2, e2, s2 = vf.sh([model, "codec"], input="\n".join(x for x in ml) + "\n", timeout=3000)
    c.step("correspond:model", model + " codec", s2, rc2 == 0)
    io = [x for x in o.split("\n")]
    mo = [x for x in o2.split("\n")]
    # align: impl prints one line per op except GRAPH (2 lines); model prints nothing for "" lines, GRAPH 2 lines
    ii = mi = 0
    ncopy = [0]
    ndiff = npred = 0; first_diff = first_pred = None
    cur_space = None
    distinct = set()
    def diff(l, a, b):
        nonlocal ndiff, first_diff
        ndiff += 1
        if first_diff is None: first_diff = (cur_space, l, a, b)
    def pred(l, msg):
        nonlocal npred, first_pred
        npred += 1
        if first_pred is None: first_pred = (cur_space, l, msg)
    for l, m in zip(il, ml):
        w = l.split()
        a = io[ii] if ii < len(io) else ""; ii += 1
        if w[0] == "PARTIAL":
            if a.split() != ["partial", "1", "1", "1", "1"] and a.split()[:1] == ["partial"]:
                # return codes: SOME_DATA_COPIED = 1 ; both directions must move exactly the common components
                pred(l, "copyStateData between related spaces: " + a)
            elif a.split()[:1] != ["partial"]: pred(l, "no observation (crash?)")
            continue
        b = mo[mi] if mi < len(mo) else ""; mi += 1
        if w[0] == "COPY":
            ncopy[0] += 1
            first, _, second = a.partition(" # ")
            if first.strip() != b.strip(): diff(l, a, b)
            dl_, sl_, dv_, sv_ = copy_meta[l]
            srcv = dict(zip(sl_, sv_))
            exp = [srcv.get(n, v) for n, v in zip(dl_, dv_)]
            try:
                fw = first.split(); flag = int(fw[1]); got = list(map(int, fw[3:]))
                sw = second.split(); ncommon = int(sw[1]); flag2 = int(sw[3]); got2 = list(map(int, sw[5:]))
            except Exception:
                pred(l, "no observation for copyStateData (crash?): " + a[:80]); continue
            if got != exp: pred(l, "copyStateData did not transfer exactly the common components: destination leaves %s, expected %s" % (got, exp))
            if got2 != exp: pred(l, "getCommonSubspaces + copyStateData(subspaces) did not transfer exactly the common components: destination leaves %s, expected %s" % (got2, exp))
            common = set(dl_) & set(sl_)
            if (flag == 0) != (not common) and dl_ and sl_: pred(l, "copyStateData reports %s although %d leaf spaces are common" % (["NO_DATA_COPIED", "SOME_DATA_COPIED", "ALL_DATA_COPIED"][flag], len(common)))
            if flag == 2 and not set(sl_) <= set(dl_): pred(l, "copyStateData reports ALL_DATA_COPIED although the source has leaves the destination lacks")
            continue
        if w[0] == "SPACE":
            cur_space = l
            if a != b: diff(l, a, b)
            if len(w) > 3: distinct.add(l)
        elif w[0] == "STATE":
            try:
                ih, ir, fl = [x.strip() for x in a.split("|")]
                mh, mr, mf = [x.strip() for x in b.split("|")]
            except Exception:
                pred(l, "no observation (crash?)"); continue
            img = ih.split()[1] if len(ih.split()) > 1 else ""
            exp = b""
            for cst in mh.split()[1:]:
                exp += struct.pack("<Q", int(cst[1:], 16)) if cst[0] == "D" else struct.pack("<i", int(cst[1:]))
            if img != exp.hex() or ir != mr: diff(l, a[:160], b[:160])
            if fl.split() != ["1"] * 5: pred(l, "copy / clone / deserialize / reals / ScopedState do not reproduce the state: flags " + fl)
            if mf.split() != ["1", "1", "1"]: c.broken.append("model state not well-formed for " + l[:80])
        elif w[0] == "STORE":
            aw = a.split(); bw = b.split()
            if len(aw) < 5: pred(l, "no observation (crash?)"); continue
            if aw[2:] != bw[1:]: diff(l, a, b)
            if aw[2] != "full=ok": pred(l, "a stored state set does not load back equal")
            if aw[3] != "prefixes_accepted=0": pred(l, "StateStorage::load keeps states from a truncated stream: " + aw[3])
            if aw[4] != "other_space_accepted=0": pred(l, "StateStorage::load accepted an archive written for a different space")
        elif w[0] == "GRAPH":
            a2 = io[ii] if ii < len(io) else ""; ii += 1
            b2 = mo[mi] if mi < len(mo) else ""; mi += 1
            if a != b: diff(l, a, b)
            try:
                p0, p1, p2, p3 = [x.strip() for x in a2.split("|")]
                q0, q1, q2 = [x.strip() for x in b2.split("|")]
            except Exception:
                pred(l, "no observation (crash?)"); continue
            if p0.split()[2:] != q0.split()[1:] or p1 != q1 or p3 != q2: diff(l, a2[:200], b2[:200])
            parts = [x.strip() for x in l[5:].split("|")]
            nv = int(parts[0]); tags = parts[1].split(); st = set(map(int, parts[3].split())); gl = set(map(int, parts[4].split()))
            exp = " ".join("%s:%d:%d" % (tags[i], 1 if i in st else 0, 1 if i in gl else 0) for i in range(nv))
            if "!state" in p1: pred(l, "a vertex state changed across store/load")
            if p1 != exp: pred(l, "start/goal marks or tags after load '%s', stored graph had '%s'" % (p1, exp))
            edges = parts[2].split(); exp_e = sorted("%s-%s:%g" % (edges[k], edges[k + 1], float(edges[k + 2])) for k in range(0, len(edges), 3))
            if sorted(p2.split()) != exp_e: pred(l, "edges after load %s, stored %s" % (sorted(p2.split()), exp_e))
            if "prefixes_accepted=0" not in p3: pred(l, "PlannerDataStorage::load accepted a truncated stream: " + p3)
            if "other=0" not in p3: pred(l, "PlannerDataStorage::load accepted an archive written for a different space")
    # planner-data graphs with controls (control::PlannerData through control::PlannerDataStorage): states, tags, marks, controls, durations and
    # weights of every edge compared after store / load; strict prefixes refused (the driver compares; the model does not cover controls)
    cg = ["CGRAPH %d %d %d" % (rng.randint(1, 10 ** 6), nv, ne) for nv, ne in ([(1, 0), (2, 1), (5, 8), (12, 40), (30, 120)] if quick else [(1, 0), (2, 1), (5, 8), (12, 40), (30, 120)] * 20)]
    rcg, ocg, ecg, scg = vf.sh([drv], input="\n".join(cg) + "\n", timeout=600); c.step("impl:control-planner-data", drv + " CGRAPH ...", scg, rcg == 0)
    cgo = [x for x in ocg.split("\n") if x.startswith("cgraph ")]
    for l, out in zip(cg, cgo + ["cgraph ? ? no observation"] * len(cg)):
        if not out.endswith(" ok"): pred(l, "planner data with controls does not survive store / load: " + out)
    c.cov["control_graphs_round_tripped"] = len(cgo)
    # the vertex that is both start and goal (known finding)
    kf = "SPACE R 1\nSTATE 0x1p+0\nGRAPH 1 | 5 | | 0 | 0\n"
    r3 = vf.sh([drv], input=kf, timeout=60)
    last = [x for x in r3[1].split("\n") if x.startswith("graph ") and "load=" in x]
    if last and " 5:1:0 " in last[0] + " ":
        what = "a vertex that is both start and goal is written as START only (PlannerDataStorage::storeVertices): its goal mark is lost by store/load"
        if not c.known_finding("C09-start-and-goal-vertex", what):
            c.violation("implementation violates C09: " + what, "# C09 replay\n" + kf)
    c.cov["partial_copies_compared"] = ncopy[0]
    c.cov.update({"evaluations": len(il), "traces_validated_against_impl": nspaces, "distinct_nontrivial": len(distinct),
                  "rule": "random nested compound spaces (depth <= 3 over R^n, SO2, SO3, time, discrete) with up to 12 states each (values incl. +-0, 1e300, denormals), state-set archives and planner-data graphs (tags, weighted edges, several starts, goals marked in descending order) with every byte prefix and a substituted space, related-space partial copies; non-trivial = distinct compound space",
                  "disagreements": ndiff, "predicate_failures": npred})
    c.cov["samples"] = il[:3]
    c.cov["trusted_base"] += ["extraction (ExtrOcamlBasic) + extract/codec_driver.ml; harness/codec_driver.cpp; boost.serialization's byte format is not modelled (the model frames archives as tokens; the implementation is truncated at every byte)"]
    c.assumptions += ["wrapper state spaces are not covered by this check; planner data with controls is compared by the driver itself (no model)", "doubles are copied verbatim (memcpy semantics)"]
    if first_pred:
        sp, l, msg = first_pred
        c.violation("implementation violates C09: " + msg, "# C09 replay: bin/check C09 --replay <this file>\n%s\n%s\n" % (sp or "", l))
    elif first_diff:
        sp, l, a, b = first_diff
        c.broken.append("correspondence C09 (codec / archives vs CodecModel) differs on '%s' / '%s': implementation '%s' model '%s'" % (sp, l[:120], a[:200], b[:200]))
    c.finish()


main()
