"""C20 — a fixed seed reproduces single-threaded planning bit for bit.
prove:      coq/Properties_C20.v (seed sequence is a function of (seed, i), independent of the clock-derived initial
            state; local seeds in [1,1e9]; late setSeed keeps the first seed; reseeding reproduces a fresh stream)
correspond: ompl::RNG::setSeed / RNG() / getSeed() of /repo, one process per script, vs the extracted model of
            ranlux24_base + uniform_int_distribution (exact integers)
search:     the property predicate on the implementation: stream(seed) == stream after setLocalSeed(seed) for any
            earlier draws (pending normal / sphere caches); single-threaded planners run twice in separate
            processes (different environment size) give identical status and solution hash
"""
import os, collections
import vf

PLANNERS = ["RRT", "RRTConnect", "RRTstar", "LazyRRT", "TRRT", "EST", "BiEST", "KPIECE1", "BKPIECE1", "SBL", "LazyPRM", "FMT", "BITstar", "AITstar", "SST", "PDST", "STRIDE"]


def main():
    c = vf.Check("C20", "proof")
    quick = c.tier == "quick"
    c.prove("Properties_C20.v")
    if not quick:
        c.coqchk("Properties_C20")
    try:
        c.build_ompl()
        drv = c.build_driver("seed_driver", link_ompl=True)
        model = c.build_model()
    except vf.BuildError as ex:
        c.broken.append("correspondence C20: implementation/driver/model does not build: " + str(ex)[-400:])
        c.finish()
    rng = c.rng
    scripts = []
    if c.replay:
        scripts.append([l.strip() for l in open(c.replay) if l.strip() and not l.startswith("#")])
    else:
        nseeds = 120 if quick else 3000
        for i in range(nseeds):
            s = rng.choice([1, 2, 7, 42, 2 ** 31 - 1, 2147483563, 2147483564, 2 ** 32 + 5, rng.randint(1, 10 ** 9), rng.randint(1, 2 ** 40)])
            scripts.append(["SET %d" % s, "GET"] + ["NEW"] * (50 if i % 4 == 0 else 12) + ["GET"])
        for i in range(60 if quick else 1500):
            sc = []
            for _ in range(rng.randint(1, 14)):
                r = rng.random()
                if r < 0.3: sc.append("SET %d" % rng.choice([0, 0, 1, 5, rng.randint(1, 10 ** 6)]))
                elif r < 0.85: sc.append("NEW")
                else: sc.append("GET")
            scripts.append(sc)
    # implementation: one process per script
    impl = []
    t_impl = 0.0
    for sc in scripts:
        rc, o, e, s = vf.sh([drv], input="\n".join(l for l in sc if l.split()[0] in ("SET", "NEW", "GET")) + "\n", timeout=60)
        t_impl += s
        impl.append(o.split("\n")[:len(sc)])
    c.step("correspond:impl", drv + " (one process per script)", t_impl, True)
    minput = "\n".join("RESET\n" + "\n".join(sc) for sc in scripts) + "\n"
    rc2, o2, e2, s2 = vf.sh([model, "seed"], input=minput, timeout=900)
    c.step("correspond:model", model + " seed", s2, rc2 == 0)
    mod, cur = [], None
    for l in o2.split("\n"):
        if l.startswith("# reset"):
            cur = []; mod.append(cur)
        elif cur is not None and l != "":
            cur.append(l)
    ndiff = npred = 0; first_diff = first_pred = None
    nobs = 0
    for sc, io, mo in zip(scripts, impl, mod):
        nobs += len(sc)
        # model answers '?' where the value depends on the clock: not compared
        cmp = [(a, b) for a, b in zip(io, mo) if b != "?"]
        if len(io) < len(sc) or any(a != b for a, b in cmp):
            ndiff += 1
            if first_diff is None or len(sc) < len(first_diff[0]): first_diff = (sc, io, mo)
            # search for a concrete failing input: the same script in a second process (the statement: same streams in every run)
            if sc and sc[0].startswith("SET") and first_pred is None:
                r2 = vf.sh([drv], input="\n".join(l for l in sc if l.split()[0] in ("SET", "NEW", "GET")) + "\n", timeout=60)
                io2 = r2[1].split("\n")[:len(sc)]
                if [a for a, b in zip(io2, mo) if b != "?"] != [a for a, b in zip(io, mo) if b != "?"]:      # clock-derived answers (model '?') are not compared
                    npred += 1; first_pred = (sc, "two processes that set the same global seed first hand out different local seeds: %s vs %s" % (io[:6], io2[:6]))
        # property predicate: local seeds in range; GET after an effective SET returns the seed
        for l, a in zip(sc, io):
            if l == "NEW" and not (a.isdigit() and 1 <= int(a) <= 10 ** 9):
                npred += 1; first_pred = first_pred or (sc, "local seed %r outside [1,1e9]" % a); break
    # same script twice => identical seeds (reproducibility across processes) is implied by equality with the model
    # ---- reseeding reproduces the stream (predicate on the implementation)
    streams = []
    for i in range(150 if quick else 4000):
        pat = "".join(rng.choice("uggvwqbi") for _ in range(rng.randint(1, 14)))
        pre = "".join(rng.choice("ugvwq") for _ in range(rng.randint(0, 5)))
        if i % 3 == 0: pre = "g" + pre          # leave a cached normal variate pending
        if i % 5 == 0: pat = "g" + pat
        streams.append("STREAM %d %s %s" % (rng.randint(1, 10 ** 9), pat, pre or "u"))
    rc3, o3, e3, s3 = vf.sh([drv], input="\n".join(streams) + "\n", timeout=300)
    c.step("impl:streams", drv, s3, rc3 == 0)
    out = o3.split("\n")
    for i, st in enumerate(streams):
        a, b = out[3 * i] if 3 * i < len(out) else "", out[3 * i + 2] if 3 * i + 2 < len(out) else ""
        if not a.startswith("a") or a[1:] != b[1:]:
            npred += 1
            if first_pred is None: first_pred = ([st], "stream after setLocalSeed differs from the stream of a fresh generator with that seed")
    # ---- the generator itself: uniform01 / uniformBool / uniformInt draws of RNG(seed) against RngModel (mt19937 + uniform_real_distribution
    #      transcribed from libstdc++), evaluated by vm_compute on primitive floats: bit for bit
    import struct as _st
    mstreams = []
    for i in range(60 if quick else 1500):
        pat = "".join(rng.choice("uuubi") for _ in range(rng.randint(1, 40)))
        mstreams.append(("STREAM %d %s u" % (rng.choice([1, 2, 5489, 10 ** 9, rng.randint(1, 10 ** 9), rng.randint(1, 10 ** 9)]), pat), pat))
    if not quick: mstreams.append(("STREAM 7 %s u" % ("u" * 700), "u" * 700))       # across two refills of the 624-word state
    else: mstreams.append(("STREAM 7 %s u" % ("u" * 330), "u" * 330))                 # across one refill (two words per draw)
    rcm, om, em, sm = vf.sh([drv], input="\n".join(l for l, _ in mstreams) + "\n", timeout=300); c.step("correspond:impl-streams", drv, sm, rcm == 0)
    mout = om.split("\n"); nstream_bad = 0; tms = 0.0; mres = []
    for a0 in range(0, len(mstreams), 200):
        part = mstreams[a0:a0 + 200]
        src = "From Coq Require Import List NArith Floats. From OmplV Require Import RngModel. Import ListNotations.\nEval vm_compute in [\n" + ";\n".join("rng_draws %s%%N [%s]" % (l.split()[1], "; ".join({"u": "DU", "b": "DB", "i": "DI"}[ch] for ch in pat)) for l, pat in part) + "].\n"
        pth = os.path.join(c.outdir, "rng_cases_%d.v" % a0); open(pth, "w").write(src)
        rcq, oq, eq_, sq = vf.sh("timeout 900 coqc -Q %s OmplV %s" % (vf.COQ, pth), timeout=1000); tms += sq
        if rcq != 0: c.broken.append("model evaluation (coqc rng_cases) failed: " + (eq_ or oq)[-300:]); break
        txt = oq[oq.index("["):oq.rindex("]") + 1].replace("%float", "").replace(";", ",")
        mres += eval(txt, {"__builtins__": {}, "infinity": float("inf"), "neg_infinity": float("-inf"), "nan": float("nan")})
    c.step("correspond:model-streams", "coqc rng_cases_*.v (Eval vm_compute, RngModel)", tms, not c.broken)
    for k, (l, pat) in enumerate(mstreams):
        a = mout[3 * k].split()[1:] if 3 * k < len(mout) and mout[3 * k].startswith("a") else []
        want = []
        if k < len(mres):
            for ch, v in zip(pat, mres[k]):
                want.append("%016x" % _st.unpack("<Q", _st.pack("<d", float(v)))[0] if ch == "u" else "%d" % int(v))
        if a != want:
            nstream_bad += 1; ndiff += 1
            if first_diff is None: first_diff = ([l], a[:12], want[:12])
    c.cov.update({"generator_streams_compared": len(mstreams), "generator_stream_disagreements": nstream_bad})
    # ---- whole-planner determinism across processes
    plans = []
    pl = PLANNERS[:8] if quick else PLANNERS
    for p in pl:
        for seed, iters in ([(5, 400)] if quick else [(5, 400), (11, 1500), (123, 50)]):
            plans.append("PLAN %s %d %d" % (p, seed, iters))
    # a lattice world (two discrete components): distances are integers, so nearest-neighbour ties are the rule and every
    # tie-break inside the structures (order of child visits in the GNAT, ...) has to come from the seed as well
    for p in (["RRT", "RRTConnect", "RRTstar", "EST"] if quick else ["RRT", "RRTConnect", "RRTstar", "LazyRRT", "EST", "SST", "TRRT", "BiEST"]):
        for seed, iters in ([(9, 3000), (17, 3000), (23, 6000)] if quick else [(9, 3000), (17, 3000), (23, 6000), (42, 3000), (10, 6000), (26, 6000), (7, 12000), (8, 1000)]):
            plans.append("PLAN %s %d %d grid" % (p, seed, iters))
    nplan = 0
    t_pl = 0.0
    for pln in plans:
        r1 = vf.sh([drv], input=pln + "\n", timeout=300)
        env = dict(os.environ); env["VERIF_PAD"] = "x" * 3001
        r2 = vf.sh([drv], input=pln + "\n", timeout=300, env=env)
        t_pl += r1[3] + r2[3]
        nplan += 1
        if pln.endswith("grid") and r1[1] == r2[1]:     # a third and fourth process for the tie-prone world
            for pad in (17, 777):
                env = dict(os.environ); env["VERIF_PAD"] = "y" * pad
                r3 = vf.sh([drv], input=pln + "\n", timeout=300, env=env); t_pl += r3[3]
                if r3[1] != r1[1]: r2 = r3; break
        if r1[1] != r2[1] or not r1[1].startswith("plan"):
            npred += 1
            if first_pred is None: first_pred = ([pln], "two processes with the same seed disagree: %r vs %r" % (r1[1].strip(), r2[1].strip()))
    # ---- source obligation: no entropy source other than ompl::RNG's seed generator in the planning code
    import re as _re
    hits = []
    for sub in ("base", "geometric", "control", "multilevel", "datastructures", "util"):
        for root, _, files in os.walk(os.path.join(vf.REPO, "src", "ompl", sub)):
            for f in files:
                if not f.endswith((".h", ".cpp", ".hpp")) or f == "RandomNumbers.cpp": continue
                for ln, t in enumerate(open(os.path.join(root, f), errors="replace"), 1):
                    if _re.search(r"std::random_device|\bsrand\s*\(|\btime\s*\(\s*(NULL|nullptr|0)\s*\)", t) and not t.lstrip().startswith("//"):
                        hits.append("%s:%d: %s" % (os.path.relpath(os.path.join(root, f), vf.REPO), ln, t.strip()[:120]))
    c.cov["entropy_sources_outside_RNG"] = hits
    if hits and first_pred is None:
        c.broken.append("source obligation C20: a random generator is seeded from something other than the global seed: " + "; ".join(hits[:3]))
    c.step("impl:planners-twice", drv + " PLAN ... (two processes each)", t_pl, True)
    c.cov.update({"evaluations": nobs + len(streams) + 2 * nplan, "traces_validated_against_impl": len(scripts), "distinct_nontrivial": len(set(tuple(s) for s in scripts if len(s) > 3)),
                  "rule": "global seeds (small, 2^31-1, the LCG modulus and its successor, > 2^32, random) x first 12/50 local seeds; random SET/NEW/GET histories incl. seed 0 and late setSeed; 150+ reseed-stream patterns with pending normal/sphere caches; planners run twice in separate processes on a continuous world and 2-4 times on a 100 x 100 lattice world (integer distances: nearest-neighbour ties); non-trivial = distinct script with > 3 ops",
                  "disagreements": ndiff, "predicate_failures": npred, "stream_patterns": len(streams), "planner_runs": 2 * nplan, "planners": pl})
    c.cov["samples"] = [" ; ".join(scripts[0][:6]), streams[0], plans[0]]
    c.cov["trusted_base"] += ["extraction (ExtrOcamlBasic) + extract/seed_driver.ml; harness/seed_driver.cpp",
                             "RngModel transcribes libstdc++ 12's mersenne_twister_engine and generate_canonical; its draws are evaluated by vm_compute on primitive binary64 floats and 63-bit integers",
                             "the seed-sequence model transcribes libstdc++ 12's subtract_with_carry_engine and uniform_int_distribution as installed here; against another standard library the correspondence, not the theorems, would flag the difference"]
    c.assumptions += ["whole-planner determinism is checked differentially (two processes, ASLR on, different environment size) for %d planners; it is not a theorem" % len(pl),
                      "a reset distribution object behaves like a freshly constructed one (boost/libstdc++), encoded as the caches being emptied"]
    if first_pred:
        sc, bad = first_pred
        c.violation("implementation violates C20: " + bad, "# C20 replay: bin/check C20 --replay <this file>\n" + "\n".join(sc) + "\n")
    elif first_diff:
        sc, io, mo = first_diff
        c.broken.append("correspondence C20 (seed generator vs SeedModel / generator draws vs RngModel) differs on '%s': implementation %s model %s" % (" ; ".join(sc)[:200], io[:8], mo[:8]))
    c.finish()


main()
